/-
C12 — time normalisation, overridden-clock comparison and marshalling are exact.

Property theorems only (helpers are `lemma_…`).  Everything quantifies over all
instants / offsets / seconds values / call sequences; nothing is bounded.

Reading of the property into statements (recorded interpretations):
* "the naive UTC instant it denotes" is `utcInstant d = loc - off`; the property
  ranges over datetimes whose UTC instant is itself representable
  (`InRange (utcInstant d)`); outside it `normalize_time` raises `OverflowError`
  (`normalize_out_of_range`) — it never returns a wrong value (`normalize_sound`).
* `seconds` is what `timedelta(seconds=…)` makes of it: whole microseconds,
  nearest, ties to even (`seconds_nearest`, `seconds_tie_even`, `seconds_exact`).
  `older_iff`/`newer_iff`/`soon_iff` state the comparison against that value for
  *every* rational `seconds`; `…_exact_partial` restate it against the rational
  itself (`now - t > s`), which needs the sub-microsecond part of `s` not to round up.
* the calendar, tz database, ISO-8601 parser and `timegm` are parameters
  (`cal`, `lookup`, the offset carried by `DT.aware`, `unixEpoch`): not theorems.
-/
import OsloModel.Time
namespace Oslo.Time

deriving instance DecidableEq for Except

/-- representable as a naive `datetime` -/
def InRange (x : Int) : Prop := 0 ≤ x ∧ x ≤ maxInstant

instance (x : Int) : Decidable (InRange x) := inferInstanceAs (Decidable (_ ∧ _))

theorem lemma_mkInstant_ok (x : Int) (h : InRange x) : mkInstant x = .ok x := by
  unfold mkInstant; exact if_pos h

theorem lemma_mkInstant_err (x : Int) (h : ¬ InRange x) : mkInstant x = .error .overflow := by
  unfold mkInstant; exact if_neg h

/-! ### normalize_time -/

/-- a naive datetime is returned as it is -/
theorem normalize_naive_unchanged (l : Int) : normalizeTime (.naive l) = .ok (.naive l) := rfl

/-- **normalize_time** maps every datetime whose UTC instant is representable — aware with any
    offset, or naive — to the naive datetime at exactly that instant. -/
theorem normalize_denotes (d : DT) (h : InRange (utcInstant d)) :
    normalizeTime d = .ok (.naive (utcInstant d)) := by
  cases d with
  | naive l => rfl
  | aware l o => simp only [normalizeTime, utcInstant] at *; rw [lemma_mkInstant_ok _ h]

/-- whatever `normalize_time` returns is naive and denotes the same instant as its argument -/
theorem normalize_sound (d d' : DT) (h : normalizeTime d = .ok d') :
    (∃ u, d' = .naive u) ∧ utcInstant d' = utcInstant d := by
  cases d with
  | naive l => simp only [normalizeTime, Except.ok.injEq] at h; subst h; exact ⟨⟨l, rfl⟩, rfl⟩
  | aware l o =>
    simp only [normalizeTime, mkInstant] at h
    split at h
    · next hm =>
      split at hm
      · simp only [Except.ok.injEq] at hm h; subst hm; subst h; exact ⟨⟨_, rfl⟩, rfl⟩
      · simp at hm
    · simp at h

/-- an aware datetime whose UTC instant is not representable makes `normalize_time` raise
    `OverflowError` (e.g. `datetime.max` at offset -01:00) -/
theorem normalize_out_of_range (l o : Int) (h : ¬ InRange (l - o)) :
    normalizeTime (.aware l o) = .error .overflow := by
  simp only [normalizeTime]; rw [lemma_mkInstant_err _ h]

example : InRange (utcInstant (.aware 63000000000000000 (-86340000000))) := by decide
example : normalizeTime (.aware 63000000000000000 (-86340000000)) = .ok (.naive 63000086340000000) := by
  decide
example : ¬ InRange (maxInstant - (-3600000000)) := by decide

/-! ### timedelta(seconds=…) -/

theorem lemma_rhe_cases (n : Int) (d : Nat) :
    ((d : Int) * roundHalfEven n d = n - n % (d : Int) ∧ 2 * (n % (d : Int)) ≤ d) ∨
    ((d : Int) * roundHalfEven n d = n - n % (d : Int) + d ∧ 2 * (n % (d : Int)) ≥ d) := by
  have h1 : n % (d : Int) + (d : Int) * (n / (d : Int)) = n := Int.emod_add_mul_ediv n d
  unfold roundHalfEven
  simp only
  split
  · left; constructor <;> omega
  · split
    · right; rw [Int.mul_add]; constructor <;> omega
    · split
      · left; constructor <;> omega
      · right; rw [Int.mul_add]; constructor <;> omega

/-- the microsecond count is a nearest integer to `s · 10⁶`:  |us·den − num·10⁶| ≤ den/2 -/
theorem seconds_nearest (n : Int) (d : Nat) (hd : 0 < d) :
    2 * ((d : Int) * roundHalfEven n d - n) ≤ d ∧ -(d : Int) ≤ 2 * ((d : Int) * roundHalfEven n d - n) := by
  have hnn : 0 ≤ n % (d : Int) := Int.emod_nonneg n (by omega)
  have hlt : n % (d : Int) < d := Int.emod_lt_of_pos n (by omega)
  rcases lemma_rhe_cases n d with ⟨h, h2⟩ | ⟨h, h2⟩ <;> rw [h] <;> constructor <;> omega

/-- an exact tie (… .5 µs) goes to the even microsecond -/
theorem seconds_tie_even (n : Int) (d : Nat) (h : 2 * (n % (d : Int)) = d) :
    roundHalfEven n d % 2 = 0 := by
  unfold roundHalfEven
  simp only
  rw [if_neg (by omega), if_neg (by omega)]
  split <;> omega

/-- a whole number of microseconds is converted exactly -/
theorem seconds_exact (s : Secs) (m : Int) (h : s.num * 1000000 = m * s.den)
    (hr : tdMin ≤ m ∧ m ≤ tdMax) : usOfSeconds s = .ok m := by
  have hd : (0 : Int) < s.den := by have := s.pos; omega
  have hq : (m * (s.den : Int)) / (s.den : Int) = m := Int.mul_ediv_cancel m (by omega)
  have hm : (m * (s.den : Int)) % (s.den : Int) = 0 := Int.mul_emod_left m s.den
  have hrhe : roundHalfEven (m * (s.den : Int)) s.den = m := by
    unfold roundHalfEven; simp only [hq, hm]; exact if_pos (by omega)
  unfold usOfSeconds
  simp only [h, hrhe]
  exact if_pos hr

/-- outside timedelta's range the conversion raises `OverflowError` -/
theorem seconds_overflow (s : Secs)
    (h : ¬ (tdMin ≤ roundHalfEven (s.num * 1000000) s.den ∧ roundHalfEven (s.num * 1000000) s.den ≤ tdMax)) :
    usOfSeconds s = .error .overflow := by
  unfold usOfSeconds; simp only; rw [if_neg h]

example : usOfSeconds ⟨3, 2, by decide⟩ = .ok 1500000 := by decide
example : usOfSeconds ⟨-1, 128, by decide⟩ = .ok (-7812) := by decide     -- -7812.5 → even
example : usOfSeconds ⟨3, 128, by decide⟩ = .ok 23438 := by decide        -- 23437.5 → even
example : usOfSeconds ⟨100000000000000, 1, by decide⟩ = .error .overflow := by decide

/-! ### the overridden clock -/

/-- an op that neither installs nor removes the override -/
def Quiet : Op → Prop
  | .set _ => False
  | .clear => False
  | .fxSetUp _ => False
  | .fxCleanUp => False
  | _ => True

/-- an op that only reads the clock -/
def IsRead : Op → Prop
  | .utcnow _ | .utcnowTs _ | .older _ _ | .newer _ _ | .soon _ _ => True
  | _ => False

/-- the microseconds an op asks the clock to move by (0 for everything that is not an
    advance, and for an `advance_time_seconds` whose argument `timedelta` rejects) -/
def amount : Op → Int
  | .advDelta d => d
  | .advSeconds s => match usOfSeconds s with | .ok w => w | .error _ => 0
  | .fxAdvDelta d => d
  | .fxAdvSeconds s => match usOfSeconds s with | .ok w => w | .error _ => 0
  | _ => 0

def total (ops : List Op) : Int := (ops.map amount).sum

/-- every intermediate reading stays representable -/
def PrefixOk (c : Int) : List Op → Prop
  | [] => True
  | op :: ops => InRange (c + amount op) ∧ PrefixOk (c + amount op) ops

/-- **override**: once set to `t`, `utcnow()` returns `t` (whatever `with_timezone`), whatever
    the clock held before … -/
theorem override_now (st : Clock) (t : Int) (f : Bool) :
    step (step st (.set t)).1 (.utcnow f) = (some t, .instant t) := rfl

/-- … and `utcnow_ts()` returns the whole seconds of `t` since 1970-01-01 (floor), or with
    `microsecond=True` exactly `(t - epoch) / 10⁶` -/
theorem override_now_ts (st : Clock) (t : Int) :
    step (step st (.set t)).1 (.utcnowTs true) = (some t, .tsMicro (t - unixEpoch)) ∧
    ∃ n, step (step st (.set t)).1 (.utcnowTs false) = (some t, .tsInt n) ∧
      1000000 * n ≤ t - unixEpoch ∧ t - unixEpoch < 1000000 * n + 1000000 := by
  refine ⟨rfl, (t - unixEpoch) / 1000000, rfl, ?_, ?_⟩ <;> omega

/-- reading never moves the clock (so a single override instant is returned again and again) -/
theorem read_unchanged (st : Clock) (op : Op) (h : IsRead op) : (step st op).1 = st := by
  cases st <;> cases op <;> simp_all [step, IsRead]

/-- one `advance_time_delta` moves the clock by exactly `d` -/
theorem advance_delta_exact (c d : Int) (h : InRange (c + d)) :
    step (some c) (.advDelta d) = (some (c + d), .none) := by
  simp only [step, advance]; rw [lemma_mkInstant_ok _ h]

/-- one `advance_time_seconds` moves it by exactly `timedelta(seconds=s)` (negative `s` moves
    it back) -/
theorem advance_seconds_exact (c : Int) (s : Secs) (w : Int) (hw : usOfSeconds s = .ok w)
    (h : InRange (c + w)) :
    step (some c) (.advSeconds s) = (some (c + w), .none) := by
  simp only [step, advanceSeconds, advance, hw]; rw [lemma_mkInstant_ok _ h]

/-- an advance that would leave the representable range raises `OverflowError` and leaves the
    clock where it was -/
theorem advance_overflow_unchanged (c d : Int) (h : ¬ InRange (c + d)) :
    step (some c) (.advDelta d) = (some c, .err .overflow) := by
  simp only [step, advance]; rw [lemma_mkInstant_err _ h]

/-- **TimeFixture** has no time of its own: `setUp` is `set_time_override(constructor instant)`, the
    clean-up is `clear_time_override()`, and its two advance methods are the two `timeutils` ones — on
    every state of the cell, so the two entry points can be mixed freely on one override. -/
theorem fixture_ops_are_cell_ops (st : Clock) (t d : Int) (s : Secs) :
    step st (.fxSetUp t) = step st (.set t) ∧ step st .fxCleanUp = step st .clear ∧
    step st (.fxAdvDelta d) = step st (.advDelta d) ∧
    step st (.fxAdvSeconds s) = step st (.advSeconds s) := ⟨rfl, rfl, rfl, rfl⟩

/-- a fixture set up again (after its clean-up, or over another fixture) starts from its
    constructor's instant, whatever was advanced before -/
theorem fixture_setup_again (st : Clock) (pre : List Op) (t : Int) (f : Bool) :
    step (exec st (pre ++ [.fxSetUp t])) (.utcnow f) = (some t, .instant t) := by
  simp only [exec, List.foldl_append, List.foldl_cons, List.foldl_nil, step]

/-- advancing without an override fails the `assert` and changes nothing -/
theorem advance_without_override (d : Int) :
    step none (.advDelta d) = (none, .err .assertion) := rfl

theorem lemma_step_quiet (c : Int) (op : Op) (hq : Quiet op) (hr : InRange (c + amount op)) :
    (step (some c) op).1 = some (c + amount op) := by
  cases op with
  | set t => exact absurd hq id
  | clear => exact absurd hq id
  | advDelta d => simp only [amount] at hr ⊢; rw [advance_delta_exact c d hr]
  | advSeconds s =>
    simp only [amount] at hr ⊢
    cases hw : usOfSeconds s with
    | ok w => rw [hw] at hr; rw [advance_seconds_exact c s w hw hr]
    | error e => simp [step, advanceSeconds, hw]
  | fxSetUp t => exact absurd hq id
  | fxCleanUp => exact absurd hq id
  | fxAdvDelta d =>
    simp only [amount] at hr ⊢
    have := advance_delta_exact c d hr
    simp only [step] at this ⊢; rw [this]
  | fxAdvSeconds s =>
    simp only [amount] at hr ⊢
    cases hw : usOfSeconds s with
    | ok w =>
      rw [hw] at hr
      have := advance_seconds_exact c s w hw hr
      simp only [step] at this ⊢; rw [this]
    | error e => simp [step, advanceSeconds, hw]
  | utcnow f => simp [step, amount]
  | utcnowTs m => simp [step, amount]
  | older t s => simp [step, amount]
  | newer t s => simp [step, amount]
  | soon t s => simp [step, amount]

/-- **advance_exact** — after *any* sequence of advances (by timedelta or by seconds, forwards
    or backwards, through `timeutils` or through a `TimeFixture`, in any mixture) interleaved with
    any reads, the clock holds `t₀ + Σ dᵢ`. -/
theorem advance_exact (c : Int) (ops : List Op) (hq : ∀ op ∈ ops, Quiet op) (hp : PrefixOk c ops) :
    exec (some c) ops = some (c + total ops) := by
  induction ops generalizing c with
  | nil => simp [exec, total]
  | cons op ops ih =>
    obtain ⟨h1, h2⟩ := hp
    have hs := lemma_step_quiet c op (hq op (List.mem_cons_self ..)) h1
    have := ih (c + amount op) (fun o ho => hq o (List.mem_cons_of_mem _ ho)) h2
    simp only [exec, List.foldl_cons, hs] at this ⊢
    rw [this]; simp only [total, List.map_cons, List.sum_cons]; congr 1; omega

/-- … and that is what the next `utcnow()` returns -/
theorem read_after_advances (c : Int) (ops : List Op) (f : Bool)
    (hq : ∀ op ∈ ops, Quiet op) (hp : PrefixOk c ops) :
    step (exec (some c) ops) (.utcnow f) = (some (c + total ops), .instant (c + total ops)) := by
  rw [advance_exact c ops hq hp]; rfl

/-- whatever happened before `set_time_override(t)` is forgotten -/
theorem override_after_any_history (st : Clock) (pre : List Op) (t : Int) (ops : List Op)
    (hq : ∀ op ∈ ops, Quiet op) (hp : PrefixOk t ops) :
    exec st (pre ++ .set t :: ops) = some (t + total ops) := by
  have := advance_exact t ops hq hp
  simp only [exec, List.foldl_append, List.foldl_cons, step] at this ⊢
  exact this

/-- after `clear_time_override()` (the fixture's clean-up) every read goes to the real clock -/
theorem clear_restores_real_clock (st : Clock) (pre : List Op) (op : Op) (h : IsRead op) :
    step (exec st (pre ++ [.clear])) op = (none, .real) := by
  simp only [exec, List.foldl_append, List.foldl_cons, List.foldl_nil, step]
  cases op <;> simp_all [IsRead]

example :
    let ops : List Op := [.advDelta 5, .utcnow false, .advSeconds ⟨-3, 2, by decide⟩,
                          .utcnowTs true, .advSeconds ⟨1, 128, by decide⟩, .advDelta (-1)]
    (∀ op ∈ ops, Quiet op) ∧ PrefixOk 62135596800000000 ops ∧ total ops = -1492184 ∧
    exec (some 62135596800000000) ops = some 62135596798507816 := by
  refine ⟨?_, ?_, ?_, ?_⟩
  · intro op h; simp only [List.mem_cons, List.not_mem_nil, or_false] at h
    rcases h with h | h | h | h | h | h <;> subst h <;> trivial
  · exact ⟨by decide, by decide, by decide, by decide, by decide, by decide, trivial⟩
  · decide
  · decide

/-! ### comparisons under the override -/

/-- **is_older_than**(t, s) with the clock at `now`: true exactly when `now − t > timedelta(s)`
    (strict), for naive and aware `t` alike. -/
theorem older_iff (now : Int) (d : DT) (s : Secs) (w : Int)
    (hd : InRange (utcInstant d)) (hw : usOfSeconds s = .ok w) :
    isOlderThan now d s = .ok (decide (now - utcInstant d > w)) := by
  simp only [isOlderThan, normalize_denotes d hd, hw]

/-- **is_newer_than**(t, s): true exactly when `t − now > timedelta(s)` (strict). -/
theorem newer_iff (now : Int) (d : DT) (s : Secs) (w : Int)
    (hd : InRange (utcInstant d)) (hw : usOfSeconds s = .ok w) :
    isNewerThan now d s = .ok (decide (utcInstant d - now > w)) := by
  simp only [isNewerThan, normalize_denotes d hd, hw]

/-- **is_soon**(t, w): true exactly when `t ≤ now + timedelta(w)` (non-strict). -/
theorem soon_iff (now : Int) (d : DT) (s : Secs) (w : Int)
    (hd : InRange (utcInstant d)) (hw : usOfSeconds s = .ok w) (hs : InRange (now + w)) :
    isSoon now d s = .ok (decide (utcInstant d ≤ now + w)) := by
  simp only [isSoon, normalize_denotes d hd, hw, lemma_mkInstant_ok _ hs]

/-- through the state machine: the comparison reads the overridden instant -/
theorem compare_reads_override (c : Int) (t : DT) (s : Secs) :
    step (some c) (.older t s) = (some c, outOf (isOlderThan c t s)) ∧
    step (some c) (.newer t s) = (some c, outOf (isNewerThan c t s)) ∧
    step (some c) (.soon t s) = (some c, outOf (isSoon c t s)) := ⟨rfl, rfl, rfl⟩

/-- the only way a comparison fails is `OverflowError` (unrepresentable UTC instant, seconds
    beyond timedelta's range, `now + window` beyond `datetime.max`): never a naive/aware
    `TypeError`, never a wrong answer -/
theorem compare_errors_only_overflow (now : Int) (d : DT) (s : Secs) (e : Err) :
    (isOlderThan now d s = .error e → e = .overflow) ∧
    (isNewerThan now d s = .error e → e = .overflow) ∧
    (isSoon now d s = .error e → e = .overflow) := by
  have hn : ∀ x e', mkInstant x = .error e' → e' = .overflow := by
    intro x e' h; unfold mkInstant at h; split at h <;> simp_all
  have hu : ∀ e', usOfSeconds s = .error e' → e' = .overflow := by
    intro e' h; unfold usOfSeconds at h; simp only at h; split at h <;> simp_all
  refine ⟨?_, ?_, ?_⟩
  · intro h
    cases d with
    | naive l =>
      simp only [isOlderThan, normalizeTime] at h
      cases hw : usOfSeconds s with
      | ok w => simp [hw] at h
      | error e' => simp only [hw, Except.error.injEq] at h; subst h; exact hu _ hw
    | aware l o =>
      simp only [isOlderThan, normalizeTime] at h
      cases hm : mkInstant (l - o) with
      | error e' => simp only [hm, Except.error.injEq] at h; subst h; exact hn _ _ hm
      | ok u =>
        simp only [hm] at h
        cases hw : usOfSeconds s with
        | ok w => simp [hw] at h
        | error e' => simp only [hw, Except.error.injEq] at h; subst h; exact hu _ hw
  · intro h
    cases d with
    | naive l =>
      simp only [isNewerThan, normalizeTime] at h
      cases hw : usOfSeconds s with
      | ok w => simp [hw] at h
      | error e' => simp only [hw, Except.error.injEq] at h; subst h; exact hu _ hw
    | aware l o =>
      simp only [isNewerThan, normalizeTime] at h
      cases hm : mkInstant (l - o) with
      | error e' => simp only [hm, Except.error.injEq] at h; subst h; exact hn _ _ hm
      | ok u =>
        simp only [hm] at h
        cases hw : usOfSeconds s with
        | ok w => simp [hw] at h
        | error e' => simp only [hw, Except.error.injEq] at h; subst h; exact hu _ hw
  · intro h
    simp only [isSoon] at h
    cases hw : usOfSeconds s with
    | error e' => simp only [hw, Except.error.injEq] at h; subst h; exact hu _ hw
    | ok w =>
      simp only [hw] at h
      cases hs : mkInstant (now + w) with
      | error e' => simp only [hs, Except.error.injEq] at h; subst h; exact hn _ _ hs
      | ok soon =>
        simp only [hs] at h
        cases d with
        | naive l => simp [normalizeTime] at h
        | aware l o =>
          simp only [normalizeTime] at h
          cases hm : mkInstant (l - o) with
          | error e' => simp only [hm, Except.error.injEq] at h; subst h; exact hn _ _ hm
          | ok u => simp [hm] at h

/-- `D > n / d  ↔  D·d > n` for integers, `d > 0` (floor division) -/
theorem lemma_gt_floor (D n : Int) (d : Nat) (hd : 0 < d) :
    D > n / (d : Int) ↔ D * (d : Int) > n := by
  have hd' : (0 : Int) < d := by omega
  constructor
  · intro h
    exact (Int.ediv_lt_iff_lt_mul hd').mp h
  · intro h
    exact (Int.ediv_lt_iff_lt_mul hd').mpr h

/-- `timedelta(seconds=s)` rounded `s` down (or `s` is a whole number of microseconds):
    `2·frac(s·10⁶) < 1`, or an exact tie whose floor is even -/
def RoundsDown (s : Secs) : Prop :=
  roundHalfEven (s.num * 1000000) s.den = (s.num * 1000000) / (s.den : Int)

instance (s : Secs) : Decidable (RoundsDown s) := inferInstanceAs (Decidable (_ = _))

/-- is_older_than against the *rational* `s` itself: `(now − t)/10⁶ > num/den`, written without
    division.  **Partial**: needs `RoundsDown s` — the sub-microsecond part of `s` is below ½ µs
    (always so for integers, whole microseconds, and binary64 noise such as 0.1).  When it rounds
    up the code compares with the next microsecond: see `older_iff` and the counterexample below. -/
theorem older_exact_partial (now : Int) (d : DT) (s : Secs) (w : Int)
    (hd : InRange (utcInstant d)) (hw : usOfSeconds s = .ok w) (hr : RoundsDown s) :
    isOlderThan now d s = .ok (decide ((now - utcInstant d) * (s.den : Int) > s.num * 1000000)) := by
  rw [older_iff now d s w hd hw]
  have hw' : w = (s.num * 1000000) / (s.den : Int) := by
    unfold usOfSeconds at hw; simp only at hw; split at hw
    · simp only [Except.ok.injEq] at hw; rw [← hw]; exact hr
    · simp at hw
  have := lemma_gt_floor (now - utcInstant d) (s.num * 1000000) s.den s.pos
  rw [hw']; congr 1; exact decide_eq_decide.mpr this

/-- is_newer_than against the rational `s`: `(t − now)/10⁶ > num/den`.  **Partial**: as above. -/
theorem newer_exact_partial (now : Int) (d : DT) (s : Secs) (w : Int)
    (hd : InRange (utcInstant d)) (hw : usOfSeconds s = .ok w) (hr : RoundsDown s) :
    isNewerThan now d s = .ok (decide ((utcInstant d - now) * (s.den : Int) > s.num * 1000000)) := by
  rw [newer_iff now d s w hd hw]
  have hw' : w = (s.num * 1000000) / (s.den : Int) := by
    unfold usOfSeconds at hw; simp only at hw; split at hw
    · simp only [Except.ok.injEq] at hw; rw [← hw]; exact hr
    · simp at hw
  have := lemma_gt_floor (utcInstant d - now) (s.num * 1000000) s.den s.pos
  rw [hw']; congr 1; exact decide_eq_decide.mpr this

/-- is_soon against the rational window: `(t − now)/10⁶ ≤ num/den`.  **Partial**: as above. -/
theorem soon_exact_partial (now : Int) (d : DT) (s : Secs) (w : Int)
    (hd : InRange (utcInstant d)) (hw : usOfSeconds s = .ok w) (hs : InRange (now + w))
    (hr : RoundsDown s) :
    isSoon now d s = .ok (decide ((utcInstant d - now) * (s.den : Int) ≤ s.num * 1000000)) := by
  rw [soon_iff now d s w hd hw hs]
  have hw' : w = (s.num * 1000000) / (s.den : Int) := by
    unfold usOfSeconds at hw; simp only at hw; split at hw
    · simp only [Except.ok.injEq] at hw; rw [← hw]; exact hr
    · simp at hw
  have := lemma_gt_floor (utcInstant d - now) (s.num * 1000000) s.den s.pos
  rw [hw']; congr 1; apply decide_eq_decide.mpr
  constructor
  · intro h; have : ¬ (utcInstant d - now > s.num * 1000000 / (s.den : Int)) := by omega
    rw [lemma_gt_floor _ _ _ s.pos] at this; omega
  · intro h; have : ¬ ((utcInstant d - now) * (s.den : Int) > s.num * 1000000) := by omega
    rw [← lemma_gt_floor _ _ _ s.pos] at this; omega

/-- whole microseconds round down -/
theorem roundsDown_of_exact (s : Secs) (m : Int) (h : s.num * 1000000 = m * s.den) : RoundsDown s := by
  have hm : (m * (s.den : Int)) % (s.den : Int) = 0 := Int.mul_emod_left m s.den
  have := s.pos
  unfold RoundsDown roundHalfEven; simp only [h, hm]; rw [if_pos (by omega)]

-- non-vacuity: the three boundaries, aware argument at offset +05:30, 2.5 s
example :
    let t : DT := .aware 63000019800000000 19800000000      -- UTC instant 63000000000000000
    let s : Secs := ⟨5, 2, by decide⟩
    InRange (utcInstant t) ∧ usOfSeconds s = .ok 2500000 ∧ RoundsDown s ∧
    isOlderThan 63000000002500000 t s = .ok false ∧ isOlderThan 63000000002500001 t s = .ok true ∧
    isNewerThan 62999999997500000 t s = .ok false ∧ isNewerThan 62999999997499999 t s = .ok true ∧
    isSoon 62999999997500000 t s = .ok true ∧ isSoon 62999999997499999 t s = .ok false := by
  decide

-- where the exact form is *not* what the code computes: now − t = 1 µs, s = 0.6 µs → False
example : isOlderThan 1 (.naive 0) ⟨6, 10000000, by decide⟩ = .ok false ∧
    (1 - 0 : Int) * 10000000 > 6 * 1000000 ∧ ¬ RoundsDown ⟨6, 10000000, by decide⟩ := by decide

/-! ### marshalling -/

/-- **unmarshall_time ∘ marshall_now** is the identity on naive datetimes: all seven fields,
    the microsecond included, come back and the result is naive -/
theorem unmarshall_marshall_naive (lookup : List Char → Option Err) (f : Fields)
    (hv : validFields f = true) :
    unmarshall lookup (marshall ⟨f, none⟩) = .ok ⟨f, none⟩ := by
  have hs : f.second ≤ 59 := by simp [validFields] at hv; omega
  have hmin : min f.second 59 = f.second := by omega
  have hf : ({ f with second := min f.second 59 } : Fields) = f := by rw [hmin]
  simp only [unmarshall, marshall, hf, hv, if_true]

/-- … and on UTC datetimes, whether the tzinfo calls itself `UTC` or `UTC+00:00`: the fields come
    back attached to `ZoneInfo('UTC')` (that this zone has offset 0 is the tz database's) -/
theorem unmarshall_marshall_utc (lookup : List Char → Option Err) (f : Fields) (n : List Char)
    (hv : validFields f = true) (hn : n = utcName ∨ n = utcPlus) (hl : lookup utcName = none) :
    unmarshall lookup (marshall ⟨f, some (some n)⟩) = .ok ⟨f, some (some utcName)⟩ := by
  have hs : f.second ≤ 59 := by simp [validFields] at hv; omega
  have hmin : min f.second 59 = f.second := by omega
  have hf : ({ f with second := min f.second 59 } : Fields) = f := by rw [hmin]
  have hc : canonTz (canonTz n) = utcName ∧ canonTz n ≠ [] := by
    rcases hn with h | h <;> subst h <;> decide
  simp only [unmarshall, marshall, hf, hv, if_true, hc.1, if_neg hc.2, hl]

/-- a leap second (or anything above 59) in a marshalled record is read as second 59,
    everything else — microsecond included — untouched -/
theorem leap_second_capped (lookup : List Char → Option Err) (f : Fields) (tz : Option (Option (List Char)))
    (sec : Int) (h : 59 ≤ sec) :
    unmarshall lookup ⟨{ f with second := sec }, tz⟩ = unmarshall lookup ⟨{ f with second := 59 }, tz⟩ := by
  have h1 : min sec 59 = 59 := by omega
  simp only [unmarshall, h1]; rfl

/-- what `unmarshall_time` returns has exactly the record's fields with the second capped -/
theorem unmarshall_fields (lookup : List Char → Option Err) (m : Marshalled) (s : Stamp)
    (h : unmarshall lookup m = .ok s) :
    s.f = { m.f with second := min m.f.second 59 } ∧ validFields s.f = true := by
  unfold unmarshall at h
  simp only at h
  split at h
  · next hv =>
    split at h
    · split at h
      · simp only [Except.ok.injEq] at h; subst h; exact ⟨rfl, hv⟩
      · split at h
        · simp only [Except.ok.injEq] at h; subst h; exact ⟨rfl, hv⟩
        · simp at h
    · simp only [Except.ok.injEq] at h; subst h; exact ⟨rfl, hv⟩
  · simp at h

/-- marshalling what was unmarshalled gives the very same record again (naive and UTC): the pair is a
    fixed point, so a record can be unmarshalled, re-marshalled and passed on any number of times.
    (`unmarshall` is a function of the record alone: that the implementation neither keeps state nor
    changes the dict it is given is checked by the correspondence, which unmarshalls one dict repeatedly.) -/
theorem remarshall_fixpoint (lookup : List Char → Option Err) (f : Fields) (tz : Option (Option (List Char)))
    (hv : validFields f = true)
    (htz : tz = none ∨ ((tz = some (some utcName) ∨ tz = some (some utcPlus)) ∧ lookup utcName = none)) :
    (unmarshall lookup (marshall ⟨f, tz⟩)).map marshall = .ok (marshall ⟨f, tz⟩) := by
  rcases htz with h | ⟨h | h, hl⟩ <;> subst h
  · rw [unmarshall_marshall_naive lookup f hv]; rfl
  · rw [unmarshall_marshall_utc lookup f utcName hv (Or.inl rfl) hl]; rfl
  · rw [unmarshall_marshall_utc lookup f utcPlus hv (Or.inr rfl) hl]; rfl

/-- `marshall_now()` without an argument marshals the overridden instant (through the
    calendar `cal`), and unmarshalling gives its fields back -/
theorem marshall_now_override (cal : Int → Fields) (lookup : List Char → Option Err) (c : Int)
    (hv : validFields (cal c) = true) :
    marshallNow cal (some c) none = some (marshall ⟨cal c, none⟩) ∧
    unmarshall lookup (marshall ⟨cal c, none⟩) = .ok ⟨cal c, none⟩ :=
  ⟨rfl, unmarshall_marshall_naive lookup (cal c) hv⟩

example : validFields ⟨2016, 12, 31, 23, 59, 59, 999999⟩ = true := by decide
example : validFields ⟨2016, 12, 31, 23, 59, 60, 999999⟩ = false := by decide
example : unmarshall (fun _ => none) ⟨⟨2016, 12, 31, 23, 59, 60, 999999⟩, some (some utcPlus)⟩ =
    .ok ⟨⟨2016, 12, 31, 23, 59, 59, 999999⟩, some (some utcName)⟩ := by decide
example : unmarshall (fun _ => none) ⟨⟨2015, 2, 29, 0, 0, 0, 0⟩, none⟩ = .error .valueError := by decide

end Oslo.Time
