/-
The executable side of the locality theorems (Props/C01Locality.lean): when may a run of stream
bytes be skipped without materialising it.  Imports the model only, so a driver can import it.
-/
import OsloModel.Inspector
namespace Oslo.Insp

/-- region `r` cannot take anything from a chunk of `n` bytes arriving at stream position `total`
    (`[total, total + n)`): it is a plain region (an end-capture region takes from every chunk) and
    it is complete (`_capture` skips it), or the chunk is empty, or its window `[offset, offset+length)`
    starts at or after the end of the chunk, or lies strictly before the start of the chunk
    (strictly: a region whose window ends exactly at `total` and that missed data still appends,
    see `Region.capture`). -/
def regionSkips (r : Region) (total n : Nat) : Bool :=
  !r.isEnd && (r.complete || decide (n = 0) || decide (total + n ≤ r.offset) ||
               decide (r.offset + r.length < total))

/-- no region of `s` can take anything from the next `n` bytes of the stream -/
def skippable (s : Insp) (n : Nat) : Bool := s.regions.all (fun p => regionSkips p.2 s.total n)

/-- move `_total_count` by `n`, nothing else -/
def Insp.advance (s : Insp) (n : Nat) : Insp := { s with total := s.total + n }

/-- skip `n` stream bytes without materialising them, when that is sound (`eatSkip_sound`) -/
def eatSkip (s : Insp) (n : Nat) : Option Insp := if skippable s n then some (s.advance n) else none

end Oslo.Insp
