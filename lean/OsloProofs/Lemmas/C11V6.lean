/-
Helper lemmas for C11: stepping the `inet_pton6` model through groups, `::` and a dotted-quad tail.
-/
import OsloProofs.Lemmas.C11V4
set_option linter.unusedSimpArgs false
namespace Oslo.Net

/-- one IPv6 group as text: 1 to 4 hex digits (either case, leading zeros allowed) -/
def IsGroup (t : List Char) : Prop := 1 ≤ t.length ∧ t.length ≤ 4 ∧ ∀ c ∈ t, isHex c = true

/-- value of a group text -/
def groupVal (t : List Char) : Nat := t.foldl (fun v c => v * 16 + hexVal c) 0

/-- parser state at the start of a token -/
def S (done : List Nat) (colon : Option Nat) : P6 := ⟨done, colon, 0, 0, []⟩

/-- every token followed by ':' -/
def withColons : List (List Char) → List Char
  | [] => []
  | t :: ts => t ++ ':' :: withColons ts

theorem lemma_init6 : init6 = S [] none := rfl

theorem lemma_hex_ne (c : Char) (h : isHex c = true) : c ≠ ':' ∧ c ≠ '.' ∧ c ≠ '%' ∧ c ≠ nul ∧ c ≠ '/' := by
  refine ⟨?_, ?_, ?_, ?_, ?_⟩ <;> (intro e; subst e; revert h; decide)

theorem lemma_colon_not_hex : isHex ':' = false := by decide
theorem lemma_dot_not_hex : isHex '.' = false := by decide

theorem lemma_isGroup_cases (t : List Char) (h : IsGroup t) :
    (∃ a, t = [a] ∧ isHex a = true) ∨ (∃ a b, t = [a, b] ∧ isHex a = true ∧ isHex b = true) ∨
    (∃ a b c, t = [a, b, c] ∧ isHex a = true ∧ isHex b = true ∧ isHex c = true) ∨
    (∃ a b c d, t = [a, b, c, d] ∧ isHex a = true ∧ isHex b = true ∧ isHex c = true ∧ isHex d = true) := by
  obtain ⟨h1, h4, hh⟩ := h
  match t, h1, h4, hh with
  | [a], _, _, hh => exact Or.inl ⟨a, rfl, hh a (by simp)⟩
  | [a, b], _, _, hh => exact Or.inr (Or.inl ⟨a, b, rfl, hh a (by simp), hh b (by simp)⟩)
  | [a, b, c], _, _, hh => exact Or.inr (Or.inr (Or.inl ⟨a, b, c, rfl, hh a (by simp), hh b (by simp), hh c (by simp)⟩))
  | [a, b, c, d], _, _, hh =>
    exact Or.inr (Or.inr (Or.inr ⟨a, b, c, d, rfl, hh a (by simp), hh b (by simp), hh c (by simp), hh d (by simp)⟩))
  | _ :: _ :: _ :: _ :: _ :: _, _, h4, _ => simp at h4

/-- a group followed by ':' and more text: the group is stored -/
theorem lemma_go6_group_colon (t rest : List Char) (done : List Nat) (colon : Option Nat)
    (ht : IsGroup t) (hr : rest ≠ []) :
    go6 (S done colon) (t ++ ':' :: rest) =
      if done.length < 8 then go6 (S (done ++ [groupVal t]) colon) rest else none := by
  have hre : rest.isEmpty = false := by cases rest <;> simp_all
  rcases lemma_isGroup_cases t ht with ⟨a, rfl, ha⟩ | ⟨a, b, rfl, ha, hb⟩ | ⟨a, b, c, rfl, ha, hb, hc⟩ |
      ⟨a, b, c, d, rfl, ha, hb, hc, hd⟩ <;>
    by_cases hl : done.length < 8 <;>
    simp [go6, S, groupVal, ha, lemma_colon_not_hex, hre, hl, *] <;> omega

/-- a group at the end of the text -/
theorem lemma_go6_group_end (t : List Char) (done : List Nat) (colon : Option Nat) (ht : IsGroup t) :
    go6 (S done colon) t =
      if done.length < 8 then finish6 (done ++ [groupVal t]) colon else none := by
  rcases lemma_isGroup_cases t ht with ⟨a, rfl, ha⟩ | ⟨a, b, rfl, ha, hb⟩ | ⟨a, b, c, rfl, ha, hb, hc⟩ |
      ⟨a, b, c, d, rfl, ha, hb, hc, hd⟩ <;>
    by_cases hl : done.length < 8 <;>
    simp [go6, S, groupVal, ha, hl, *] <;> omega

/-- ':' at the start of a token is the second colon of `::` -/
theorem lemma_go6_dcolon (rest : List Char) (done : List Nat) :
    go6 (S done none) (':' :: rest) = go6 (S done (some done.length)) rest := by
  simp [go6, S, lemma_colon_not_hex]

theorem lemma_go6_dcolon_again (rest : List Char) (done : List Nat) (k : Nat) :
    go6 (S done (some k)) (':' :: rest) = none := by
  simp [go6, S, lemma_colon_not_hex]

theorem lemma_go6_nil (done : List Nat) (colon : Option Nat) :
    go6 (S done colon) [] = finish6 done colon := by
  simp [go6, S]

theorem lemma_dig_hex (x : Nat) (h : x < 10) : isHex (dig x) = true := by
  simp [isHex, (lemma_dig_facts x h).1]

theorem lemma_go6_quad_aux (T R : List Char) (q : List Nat) (hi lo : Nat) (done : List Nat) (colon : Option Nat)
    (hT : ∀ c ∈ T, isHex c = true) (h1 : 1 ≤ T.length) (h3 : T.length ≤ 3)
    (hq : pton4 (T ++ '.' :: R) = some q) (hv : ∃ a b c d, q = [a, b, c, d] ∧ hi = a * 256 + b ∧ lo = c * 256 + d) :
    go6 (S done colon) (T ++ '.' :: R) =
      if done.length + 2 ≤ 8 then finish6 (done ++ [hi, lo]) colon else none := by
  obtain ⟨a, b, c, d, rfl, rfl, rfl⟩ := hv
  match T, h1, h3, hT, hq with
  | [x], _, _, hT, hq =>
    have hx := hT x (by simp)
    simp at hq
    by_cases hl : done.length + 2 ≤ 8 <;> simp [go6, S, hx, lemma_dot_not_hex, hq, hl]
  | [x, y], _, _, hT, hq =>
    have hx := hT x (by simp)
    have hy := hT y (by simp)
    simp at hq
    by_cases hl : done.length + 2 ≤ 8 <;> simp [go6, S, hx, hy, lemma_dot_not_hex, hq, hl]
  | [x, y, z], _, _, hT, hq =>
    have hx := hT x (by simp)
    have hy := hT y (by simp)
    have hz := hT z (by simp)
    simp at hq
    by_cases hl : done.length + 2 ≤ 8 <;> simp [go6, S, hx, hy, hz, lemma_dot_not_hex, hq, hl]
  | _ :: _ :: _ :: _ :: _, _, h3, _, _ => simp at h3

/-- a canonical dotted quad at the start of a token stands for two groups and ends the text -/
theorem lemma_go6_quad (a b c d : Nat) (ha : a < 256) (hb : b < 256) (hc : c < 256) (hd : d < 256)
    (done : List Nat) (colon : Option Nat) :
    go6 (S done colon) (renderQuad a b c d) =
      if done.length + 2 ≤ 8 then finish6 (done ++ [a * 256 + b, c * 256 + d]) colon else none := by
  have hq := lemma_pton4_render a b c d ha hb hc hd
  unfold renderQuad at hq ⊢
  refine lemma_go6_quad_aux (renderOctet a) _ _ _ _ done colon ?_ ?_ ?_ hq ⟨a, b, c, d, rfl, rfl, rfl⟩
  · intro x hx
    have := lemma_render_digits a ha x hx
    simp [isHex, this]
  · unfold renderOctet; split <;> (try split) <;> simp
  · unfold renderOctet; split <;> (try split) <;> simp

/-- a run of groups each followed by ':' -/
theorem lemma_go6_groups (pre : List (List Char)) (rest : List Char) (done : List Nat) (colon : Option Nat)
    (hp : ∀ t ∈ pre, IsGroup t) (hr : rest ≠ []) (hd : done.length ≤ 8) :
    go6 (S done colon) (withColons pre ++ rest) =
      if done.length + pre.length ≤ 8 then go6 (S (done ++ pre.map groupVal) colon) rest else none := by
  induction pre generalizing done with
  | nil => simp [withColons, hd]
  | cons t pre ih =>
    have hr' : withColons pre ++ rest ≠ [] := by simp [hr]
    simp only [withColons, List.cons_append, List.append_assoc]
    rw [lemma_go6_group_colon t _ done colon (hp t (by simp)) hr']
    by_cases hl : done.length < 8
    · rw [if_pos hl, ih (done ++ [groupVal t]) (fun x hx => hp x (by simp [hx])) (by simp; omega)]
      simp only [List.length_append, List.length_cons, List.length_nil, List.map_cons, List.append_assoc,
        List.singleton_append]
      by_cases h2 : done.length + (pre.length + 1) ≤ 8
      · rw [if_pos h2, if_pos (by omega)]
      · rw [if_neg h2, if_neg (by omega)]
    · rw [if_neg hl, if_neg (by simp; omega)]

theorem lemma_join_snoc (pre : List (List Char)) (t : List Char) :
    joinSep ':' (pre ++ [t]) = withColons pre ++ t := by
  induction pre with
  | nil => simp [joinSep, withColons]
  | cons u pre ih =>
    simp only [List.cons_append]
    rw [lemma_joinSep_cons _ _ _ (by simp), ih]; simp [withColons]

theorem lemma_join_colon (pre : List (List Char)) (rest : List Char) (h : pre ≠ []) :
    joinSep ':' pre ++ ':' :: rest = withColons pre ++ rest := by
  induction pre with
  | nil => exact absurd rfl h
  | cons u pre ih =>
    cases pre with
    | nil => simp [joinSep, withColons]
    | cons v r =>
      rw [lemma_joinSep_cons _ _ _ (by simp)]
      simp only [withColons, List.append_assoc, List.cons_append]
      rw [ih (by simp)]; simp [withColons]

/-- text that starts with a hex digit is handed to the main loop unchanged -/
theorem lemma_pton6_hex_start (c : Char) (r : List Char) (h : isHex c = true) :
    pton6 (c :: r) = go6 (S [] none) (c :: r) := by
  simp [pton6, (lemma_hex_ne c h).1, lemma_init6]

theorem lemma_pton6_dcolon_start (r : List Char) : pton6 (':' :: ':' :: r) = go6 (S [] (some 0)) r := by
  simp only [pton6, if_true, lemma_init6]
  rw [lemma_go6_dcolon]; rfl

theorem lemma_group_head (t : List Char) (h : IsGroup t) : ∃ c r, t = c :: r ∧ isHex c = true := by
  obtain ⟨h1, _, hh⟩ := h
  match t, h1, hh with
  | c :: r, _, hh => exact ⟨c, r, rfl, hh c (by simp)⟩

/-- groups, then `::`, then anything: the state after the `::` -/
theorem lemma_pton6_pre_dcolon (pre : List (List Char)) (jp : List Char) (hp : ∀ t ∈ pre, IsGroup t) :
    pton6 (joinSep ':' pre ++ ':' :: ':' :: jp) =
      if pre.length ≤ 8 then go6 (S (pre.map groupVal) (some pre.length)) jp else none := by
  cases pre with
  | nil => simp [joinSep, lemma_pton6_dcolon_start]
  | cons u pre' =>
    rw [lemma_join_colon _ _ (by simp)]
    obtain ⟨c, r, hu, hc⟩ := lemma_group_head u (hp u (by simp))
    have e : withColons (u :: pre') ++ ':' :: jp = c :: (r ++ ':' :: (withColons pre' ++ ':' :: jp)) := by
      simp [withColons, hu]
    rw [e, lemma_pton6_hex_start c _ hc, ← e, lemma_go6_groups _ _ [] none hp (by simp) (by simp)]
    simp only [List.length_nil, Nat.zero_add, List.nil_append]
    by_cases hl : (u :: pre').length ≤ 8
    · rw [if_pos hl, if_pos hl, lemma_go6_dcolon]; simp
    · rw [if_neg hl, if_neg hl]

/-- groups only: the state before the last group -/
theorem lemma_pton6_groups_last (pre : List (List Char)) (t : List Char) (hp : ∀ x ∈ pre, IsGroup x)
    (ht : IsGroup t) :
    pton6 (joinSep ':' (pre ++ [t])) =
      if pre.length + 1 ≤ 8 then finish6 (pre.map groupVal ++ [groupVal t]) none else none := by
  rw [lemma_join_snoc]
  obtain ⟨c0, r0, ht0, hc0⟩ := lemma_group_head t ht
  have hstart : ∃ c r, withColons pre ++ t = c :: r ∧ isHex c = true := by
    cases pre with
    | nil => exact ⟨c0, r0, by simp [withColons, ht0], hc0⟩
    | cons u pre' =>
      obtain ⟨c, r, hu, hc⟩ := lemma_group_head u (hp u (by simp))
      exact ⟨c, r ++ ':' :: (withColons pre' ++ t), by simp [withColons, hu], hc⟩
  obtain ⟨c, r, e, hc⟩ := hstart
  rw [e, lemma_pton6_hex_start c r hc, ← e,
    lemma_go6_groups pre t [] none hp (by rw [ht0]; simp) (by simp)]
  simp only [List.length_nil, Nat.zero_add, List.nil_append]
  by_cases hl : pre.length ≤ 8
  · rw [if_pos hl, lemma_go6_group_end t _ none ht]
    simp only [List.length_map]
    by_cases h2 : pre.length < 8
    · rw [if_pos h2, if_pos (by omega)]
    · rw [if_neg h2, if_neg (by omega)]
  · rw [if_neg hl, if_neg (by omega)]

end Oslo.Net
