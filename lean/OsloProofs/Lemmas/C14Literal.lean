/-
Helper lemmas for C14: the base-10 parser accepts exactly
  whitespace* sign? body whitespace*      (body: digits and single inner underscores)
in both directions, stated with the model's own character predicates.
-/
import OsloModel.Scalars
import OsloProofs.Lemmas.C14
namespace Oslo.Scalars

theorem lemma_space_not_body (c : Char) (h : isIntSpace c = true) :
    isBodyChar 10 c = false ∧ c ≠ '-' ∧ c ≠ '+' := by
  have hr : (9 ≤ c.toNat ∧ c.toNat ≤ 13) ∨ c.toNat = 32 := by
    simpa [isIntSpace] using h
  refine ⟨?_, ?_, ?_⟩
  · cases hb : isBodyChar 10 c with
    | false => rfl
    | true =>
      simp only [isBodyChar, Bool.or_eq_true, beq_iff_eq] at hb
      rcases hb with hb | hb
      · have := lemma_digit_range 10 c hb; omega
      · rw [hb] at hr; simp at hr
  · intro e; rw [e] at hr; simp at hr
  · intro e; rw [e] at hr; simp at hr

theorem lemma_takeWhile_append {α} (p : α → Bool) (l m : List α)
    (hl : ∀ x ∈ l, p x = true) (hm : ∀ x ∈ m, p x = false) :
    (l ++ m).takeWhile p = l ∧ (l ++ m).dropWhile p = m := by
  induction l with
  | nil =>
    cases m with
    | nil => simp
    | cons a m => simp [hm a (by simp)]
  | cons a l ih =>
    have := ih (fun x hx => hl x (by simp [hx]))
    simp [hl a (by simp), this]

theorem lemma_bodyOk_head (body : List Char) (hok : bodyOk body = true)
    (hbody : ∀ c ∈ body, isBodyChar 10 c = true) :
    ∃ d b, body = d :: b ∧ isDigitIn 10 d = true := by
  cases body with
  | nil => simp [bodyOk] at hok
  | cons d b =>
    refine ⟨d, b, rfl, ?_⟩
    have h1 : d ≠ '_' := by
      intro e; subst e; simp [bodyOk] at hok
    have := hbody d (by simp)
    simpa [isBodyChar, h1] using this

theorem lemma_parse_literal (pre sign body post : List Char)
    (hpre : ∀ c ∈ pre, isIntSpace c = true) (hpost : ∀ c ∈ post, isIntSpace c = true)
    (hsign : sign = [] ∨ sign = ['+'] ∨ sign = ['-'])
    (hbody : ∀ c ∈ body, isBodyChar 10 c = true) (hok : bodyOk body = true) :
    pyIntParseAscii 10 (pre ++ sign ++ body ++ post) =
      if overLimit (digitCount body) = true then none
      else some (if sign = ['-'] then -(Int.ofNat (bodyValue 10 body)) else Int.ofNat (bodyValue 10 body)) := by
  obtain ⟨d, b, rfl, hd⟩ := lemma_bodyOk_head body hok hbody
  have hdf := lemma_digit_facts 10 d hd
  have htd := lemma_takeWhile_append (isBodyChar 10) (d :: b) post hbody
    (fun c hc => (lemma_space_not_body c (hpost c hc)).1)
  have hall : post.all isIntSpace = true := List.all_eq_true.mpr hpost
  unfold pyIntParseAscii
  rw [List.append_assoc, List.append_assoc, lemma_dropWhile_all _ pre _ hpre]
  rcases hsign with rfl | rfl | rfl
  · have e1 : ([] ++ (d :: b ++ post)).dropWhile isIntSpace = d :: b ++ post := by
      simp [hdf.2.1]
    have e2 : skipSign (d :: b ++ post) = d :: b ++ post := by
      simp [skipSign, hdf.2.2.1, hdf.2.2.2.1]
    have e3 : ((d :: b ++ post).head? == some '-') = false := by simp [hdf.2.2.1]
    simp only [e1, e2, e3, htd.1, htd.2, hok, hall, if_false, Bool.not_true, Bool.false_eq_true]
    simp
  · have e1 : (['+'] ++ (d :: b ++ post)).dropWhile isIntSpace = '+' :: (d :: b ++ post) := by
      simp [isIntSpace]
    have e2 : skipSign ('+' :: (d :: b ++ post)) = d :: b ++ post := by simp [skipSign]
    have e3 : (('+' :: (d :: b ++ post)).head? == some '-') = false := by decide
    simp only [e1, e2, e3, htd.1, htd.2, hok, hall, if_false, Bool.not_true, Bool.false_eq_true]
    simp
  · have e1 : (['-'] ++ (d :: b ++ post)).dropWhile isIntSpace = '-' :: (d :: b ++ post) := by
      simp [isIntSpace]
    have e2 : skipSign ('-' :: (d :: b ++ post)) = d :: b ++ post := by simp [skipSign]
    have e3 : (('-' :: (d :: b ++ post)).head? == some '-') = true := by decide
    simp only [e1, e2, e3, htd.1, htd.2, hok, hall, if_false, Bool.not_true, Bool.false_eq_true]
    simp

theorem lemma_skipSign_cases (s : List Char) :
    (∃ r, s = '-' :: r ∧ skipSign s = r ∧ (s.head? == some '-') = true) ∨
    (∃ r, s = '+' :: r ∧ skipSign s = r ∧ (s.head? == some '-') = false) ∨
    (skipSign s = s ∧ (s.head? == some '-') = false) := by
  cases s with
  | nil => right; right; simp [skipSign]
  | cons c r =>
    by_cases h1 : c = '-'
    · left; subst h1; exact ⟨r, rfl, by simp [skipSign], by simp⟩
    · by_cases h2 : c = '+'
      · right; left; subst h2; exact ⟨r, rfl, by simp [skipSign], by decide⟩
      · right; right; simp [skipSign, h1, h2]

theorem lemma_literal_of_parse (t : List Char) (n : Int) (h : pyIntParseAscii 10 t = some n) :
    ∃ pre sign body post, t = pre ++ sign ++ body ++ post ∧
      (∀ c ∈ pre, isIntSpace c = true) ∧ (∀ c ∈ post, isIntSpace c = true) ∧
      (sign = [] ∨ sign = ['+'] ∨ sign = ['-']) ∧
      (∀ c ∈ body, isBodyChar 10 c = true) ∧ bodyOk body = true ∧
      overLimit (digitCount body) = false ∧
      n = (if sign = ['-'] then -(Int.ofNat (bodyValue 10 body)) else Int.ofNat (bodyValue 10 body)) := by
  unfold pyIntParseAscii at h
  simp only [show ((10 : Nat) = 16) = False from by simp, if_false] at h
  have ht : t = t.takeWhile isIntSpace ++ t.dropWhile isIntSpace := List.takeWhile_append_dropWhile.symm
  have hpre : ∀ c ∈ t.takeWhile isIntSpace, isIntSpace c = true := fun c hc => (List.mem_takeWhile_imp hc)
  generalize t.dropWhile isIntSpace = s1 at h ht
  have hs2 : skipSign s1 = (skipSign s1).takeWhile (isBodyChar 10) ++ (skipSign s1).dropWhile (isBodyChar 10) :=
    List.takeWhile_append_dropWhile.symm
  have hb : ∀ c ∈ (skipSign s1).takeWhile (isBodyChar 10), isBodyChar 10 c = true :=
    fun c hc => List.mem_takeWhile_imp hc
  generalize hbd : (skipSign s1).takeWhile (isBodyChar 10) = body at h hs2 hb
  generalize hps : (skipSign s1).dropWhile (isBodyChar 10) = post at h hs2
  cases hok : bodyOk body with
  | false => simp [hok] at h
  | true =>
    cases hall : post.all isIntSpace with
    | false => simp [hok, hall] at h
    | true =>
      cases hlim : overLimit (digitCount body) with
      | true => simp [hok, hall, hlim] at h
      | false =>
        simp only [hok, hall, hlim, Bool.not_true, Bool.false_eq_true, if_false, and_false,
          Option.some.injEq] at h
        have hpost : ∀ c ∈ post, isIntSpace c = true := List.all_eq_true.mp hall
        rcases lemma_skipSign_cases s1 with ⟨r, hs1, hsk, hneg⟩ | ⟨r, hs1, hsk, hneg⟩ | ⟨hsk, hneg⟩
        · refine ⟨_, ['-'], body, post, ?_, hpre, hpost, Or.inr (Or.inr rfl), hb, hok, hlim, ?_⟩
          · rw [ht, hs1]; rw [hsk] at hs2; rw [hs2]; simp
          · simp only [hneg, if_true] at h; simp [← h]
        · refine ⟨_, ['+'], body, post, ?_, hpre, hpost, Or.inr (Or.inl rfl), hb, hok, hlim, ?_⟩
          · rw [ht, hs1]; rw [hsk] at hs2; rw [hs2]; simp
          · simp only [hneg, Bool.false_eq_true, if_false] at h; simp [← h]
        · refine ⟨_, [], body, post, ?_, hpre, hpost, Or.inl rfl, hb, hok, hlim, ?_⟩
          · rw [ht]; rw [hsk] at hs2; rw [hs2]; simp
          · simp only [hneg, Bool.false_eq_true, if_false] at h; simp [← h]

end Oslo.Scalars
