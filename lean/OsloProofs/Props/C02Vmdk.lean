/-
C02 for VMDK, over the *stream*: in sparse-header mode the safety check returns normally exactly
for streams whose descriptor is at sector 1, completely present, decodable, of a sparse createType,
made only of recognised lines with at least one extent and no extent naming a path, and whose
footer (when announced) is present and consistent with the header — under every chunking.
Obtained by composing C01-7 (`vmdk_chunk_independent_partial`) with the per-check characterisations.
-/
import OsloProofs.Props.C07Vmdk
import OsloProofs.Props.C02More
namespace Oslo.Insp

/-- what `check_descriptor` requires of the decoded descriptor text `t` and its createType `ty` -/
def DescSafe (t ty : Bytes) : Prop :=
  t ≠ [] ∧ ty ∈ sparseTypes ∧
  (∀ l ∈ (splitOn 0x0a t).map strip, classifyLine l ≠ .bad) ∧
  (∃ l ∈ (splitOn 0x0a t).map strip, classifyLine l = .extent) ∧
  (∀ l ∈ (splitOn 0x0a t).map strip, classifyLine l = .extent → l.contains 0x2f = false)

theorem lemma_checkDescOn_iff (t ty : Bytes) : checkDescOn (some t) ty = true ↔ DescSafe t ty := by
  unfold checkDescOn DescSafe
  simp only
  constructor
  · intro hd
    split at hd
    · simp at hd
    · rename_i hne
      split at hd
      · simp at hd
      · rename_i hty
        split at hd
        · simp at hd
        · rename_i hbad
          split at hd
          · simp at hd
          · rename_i hslash
            refine ⟨by simpa using hne, by simpa using hty, ?_, ?_, ?_⟩
            · intro l hl hb
              apply hbad
              simp only [List.contains_eq_mem, decide_eq_true_eq]
              exact List.mem_map.mpr ⟨l, hl, hb⟩
            · simp only [Bool.not_eq_true', List.isEmpty_eq_false_iff] at hd
              obtain ⟨l, hl⟩ := List.exists_mem_of_ne_nil _ hd
              simp only [List.mem_filter, beq_iff_eq] at hl
              exact ⟨l, hl.1, hl.2⟩
            · intro l hl he
              simp only [List.any_eq_true, List.mem_filter, beq_iff_eq, not_exists, not_and, and_imp,
                Bool.not_eq_true] at hslash
              exact hslash l hl he
  · rintro ⟨hne, hty, hbad, ⟨l, hl, hle⟩, hslash⟩
    have h1 : t.isEmpty = false := by
      cases t with
      | nil => exact absurd rfl hne
      | cons a r => rfl
    have h2 : sparseTypes.contains ty = true := by simpa using hty
    have h3 : (List.map classifyLine (List.map strip (splitOn 10 t))).contains LineKind.bad = false := by
      rw [Bool.eq_false_iff]
      intro hc
      simp only [List.contains_eq_mem, decide_eq_true_eq, List.mem_map] at hc
      obtain ⟨k, ⟨x, hx, rfl⟩, hk⟩ := hc
      exact hbad _ (List.mem_map.mpr ⟨x, hx, rfl⟩) hk
    have h4 : (List.filter (fun l => classifyLine l == LineKind.extent) (List.map strip (splitOn 10 t))).any
        (fun l => l.contains 47) = false := by
      rw [Bool.eq_false_iff]
      intro hc
      simp only [List.any_eq_true, List.mem_filter, beq_iff_eq] at hc
      obtain ⟨x, ⟨hx, hxe⟩, hxc⟩ := hc
      rw [hslash x hx hxe] at hxc
      exact absurd hxc (by simp)
    have h5 : (List.filter (fun l => classifyLine l == LineKind.extent) (List.map strip (splitOn 10 t))).isEmpty
        = false := by
      rw [List.isEmpty_eq_false_iff]
      intro hnil
      have : l ∈ List.filter (fun l => classifyLine l == LineKind.extent) (List.map strip (splitOn 10 t)) :=
        List.mem_filter.mpr ⟨hl, by simpa using hle⟩
      rw [hnil] at this
      exact absurd this (by simp)
    simp only [h1, h2, h3, h4, h5, Bool.false_eq_true, if_false, Bool.not_true, Bool.not_false]


/-- what `check_footer` requires of the last 1536 bytes `fd` (footer marker sector, header copy,
    end-of-stream marker sector) given the header fields `H` -/
def FooterSafe (H : SparseHeader) (fd : Bytes) : Prop :=
  ∃ fh, parseSparseHeader fd 512 = .ok fh ∧
    H.sig = fh.sig ∧ H.ver = fh.ver ∧ H.descSec = fh.descSec ∧ H.descNum = fh.descNum ∧
    fh.gdOffset ≠ Gen.vmdkGdAtEnd ∧
    (slice fd 0 512).length = 512 ∧
    leNat (slice (slice fd 0 512) 8 12) = 0 ∧ leNat (slice (slice fd 0 512) 12 16) = Gen.vmdkMarkerFooter ∧
    slice (slice fd 0 512) 16 512 = zeros 496 ∧
    (lastN 512 fd).length = 512 ∧
    leNat (slice (lastN 512 fd) 0 8) = 0 ∧ leNat (slice (lastN 512 fd) 8 12) = 0 ∧
    leNat (slice (lastN 512 fd) 12 16) = Gen.vmdkMarkerEos ∧ slice (lastN 512 fd) 16 512 = zeros 496

theorem lemma_footerCheckH_iff (H : SparseHeader) (fd : Bytes) :
    footerCheckH H fd = .ok true ↔ FooterSafe H fd := by
  unfold footerCheckH FooterSafe
  simp only [bind, Except.bind, pure, Except.pure]
  cases h4 : parseSparseHeader fd 512 with
  | error e => simp
  | ok fh =>
    simp only [Except.ok.injEq, exists_eq_left']
    by_cases a1 : H.sig = fh.sig
    case neg => simp [a1]
    by_cases a2 : H.ver = fh.ver
    case neg => simp [a1, a2]
    by_cases a3 : H.descSec = fh.descSec
    case neg => simp [a1, a2, a3]
    by_cases a4 : H.descNum = fh.descNum
    case neg => simp [a1, a2, a3, a4]
    by_cases a5 : fh.gdOffset = Gen.vmdkGdAtEnd
    case pos => simp [a1, a2, a3, a4, a5]
    by_cases b0 : (slice fd 0 512).length = 512
    case neg => simp [a1, a2, a3, a4, a5, b0, throw, throwThe, MonadExceptOf.throw]
    by_cases b1 : leNat (slice (slice fd 0 512) 8 12) = 0
    case neg => simp [a1, a2, a3, a4, a5, b0, b1]
    by_cases b2 : leNat (slice (slice fd 0 512) 12 16) = Gen.vmdkMarkerFooter
    case neg => simp [a1, a2, a3, a4, a5, b0, b1, b2]
    by_cases b3 : slice (slice fd 0 512) 16 512 = zeros 496
    case neg => simp [a1, a2, a3, a4, a5, b0, b1, b2, b3]
    by_cases c0 : (lastN 512 fd).length = 512
    case neg => simp [a1, a2, a3, a4, a5, b0, b1, b2, b3, c0, throw, throwThe, MonadExceptOf.throw]
    by_cases c1 : leNat (slice (lastN 512 fd) 0 8) = 0
    case neg => simp [a1, a2, a3, a4, a5, b0, b1, b2, b3, c0, c1]
    by_cases c2 : leNat (slice (lastN 512 fd) 8 12) = 0
    case neg => simp [a1, a2, a3, a4, a5, b0, b1, b2, b3, c0, c1, c2]
    by_cases c3 : leNat (slice (lastN 512 fd) 12 16) = Gen.vmdkMarkerEos
    case neg => simp [a1, a2, a3, a4, a5, b0, b1, b2, b3, c0, c1, c2, c3]
    by_cases c4 : slice (lastN 512 fd) 16 512 = zeros 496
    case neg => simp [a1, a2, a3, a4, a5, b0, b1, b2, b3, c0, c1, c2, c3, c4]
    simp [a1, a2, a3, a4, a5, b0, b1, b2, b3, c0, c1, c2, c3, c4]


theorem lemma_safetyOn_ok_iff (c foot cd : Bool) (cf : CheckRes) :
    safetyOn c foot cd cf = .ok ↔ c = true ∧ cd = true ∧ (foot = true → cf = .pass) := by
  cases c <;> cases foot <;> cases cd <;> cases cf <;> simp [safetyOn]

theorem lemma_ofExcept_pass_iff (x : Except Err Bool) : CheckRes.ofExcept x = .pass ↔ x = .ok true := by
  cases x with
  | error e => simp [CheckRes.ofExcept]
  | ok b => cases b <;> simp [CheckRes.ofExcept]

/-- **the acceptance condition on the stream** (sparse-header mode) -/
def VmdkSafe (s : Bytes) : Prop :=
  (hdrOf s).descSec * 512 = Gen.vmdkDescOffset ∧
  512 + vmdkDescLen s ≤ s.length ∧
  (∃ t ty, parseDesc (sliceOf s 512 (vmdkDescLen s)) = some (t, ty) ∧ DescSafe t ty) ∧
  ((hdrOf s).gdOffset = Gen.vmdkGdAtEnd → 1536 ≤ s.length ∧ FooterSafe (hdrOf s) (lastN 1536 s))

/-- the safety component of the whole-stream specification is `ok` exactly on `VmdkSafe` streams -/
theorem lemma_specVmdk_safety_iff (s : Bytes) : (specVmdk s).safety = .ok ↔ VmdkSafe s := by
  unfold specVmdk VmdkSafe vmdkDescLen
  simp only
  generalize hdrOf s = H
  by_cases hds : H.descSec * 512 = Gen.vmdkDescOffset
  case neg =>
    rw [if_pos hds]
    simp only [hds, false_and, iff_false]
    split <;> simp
  rw [if_neg (by simpa using hds)]
  simp only [lemma_safetyOn_ok_iff, lemma_ofExcept_pass_iff, lemma_footerCheckH_iff, hds, true_and]
  generalize hdl : min (H.descNum * 512) Gen.vmdkDescMaxSize = dl
  by_cases hc : dl = (sliceOf s 512 dl).length
  case neg =>
    rw [if_neg hc]
    have hlen : ¬ (512 + dl ≤ s.length) := by
      intro h
      exact hc (lemma_sliceOf_len_full s 512 dl h)
    simp [hlen, lemma_checkDescOn_fnf]
  rw [if_pos hc]
  have hcd : decide (dl = (sliceOf s 512 dl).length) = true := decide_eq_true hc
  by_cases hlen : 512 + dl ≤ s.length
  case neg =>
    -- the corner case |s| < 512 and a zero-length descriptor: complete, but the empty text is never accepted
    have hl := hc
    rw [lemma_sliceOf_length] at hl
    have hnil : sliceOf s 512 dl = [] := lemma_vmdk_sliceOf_nil s 512 dl (by omega)
    rw [hnil, lemma_parseDesc_nil]
    simp [hlen, lemma_checkDescOn_fnf]
  cases hp : parseDesc (sliceOf s 512 dl) with
  | none =>
    simp [lemma_checkDescOn_fnf]
  | some x =>
    obtain ⟨t, ty⟩ := x
    simp only [Option.map_some, Option.getD_some, lemma_checkDescOn_iff, hcd, Bool.and_true, Bool.or_eq_true,
      Bool.not_eq_true', decide_eq_false_iff_not, decide_eq_true_eq, hlen, true_and, Option.some.injEq,
      Prod.mk.injEq]
    constructor
    · rintro ⟨hfc, hd, hf⟩
      refine ⟨⟨t, ty, ⟨rfl, rfl⟩, hd⟩, fun hg => ⟨?_, hf hg⟩⟩
      rcases hfc with h | h
      · exact absurd hg h
      · exact h
    · rintro ⟨⟨t', ty', ⟨rfl, rfl⟩, hd⟩, hf⟩
      refine ⟨?_, hd, fun hg => (hf hg).2⟩
      by_cases hg : H.gdOffset = Gen.vmdkGdAtEnd
      · exact Or.inr (hf hg).1
      · exact Or.inl hg


/-- **vmdk_accept_iff_sparse_partial** — for every sparse-header stream and every chunking of it, the
    VMDK safety check returns normally **iff** the descriptor is at sector 1, completely present in
    the stream, decodable, its createType is monolithicSparse/streamOptimized, every line is blank, a
    comment, a `ddb` line, a header field or an extent line, there is at least one extent line and none
    names a path, and — when the header announces a footer — the stream ends in a footer marker, a
    header copy with the same signature/version/descriptor location that does not point to yet another
    footer, and an end-of-stream marker.
    Missing (hypothesis `VmdkSparse`): text-descriptor mode and the other streams of known finding
    KF_F1, where acceptance depends on the chunking, and the footer window of KF_F3. -/
theorem vmdk_accept_iff_sparse_partial (s0 : Insp) (h0 : Insp.init .vmdk = some s0) (chunks : List Bytes)
    (hs : VmdkSparse chunks.flatten) :
    safetyCheck (runChunks s0 chunks).1 = .ok ↔ VmdkSafe chunks.flatten := by
  have hv := congrArg Verdict.safety (vmdk_chunk_independent_partial s0 h0 chunks hs)
  have hl : safetyCheck (runChunks s0 chunks).1 = (verdict (runChunks s0 chunks)).safety := rfl
  rw [hl, hv]
  exact lemma_specVmdk_safety_iff _

/-- **vmdk_accept_imp_partial** (planned theorem C02-3) — `vmdk_accept_imp` of C02More composed with
    C01-7: if the safety check returns normally after *any* chunking of a sparse-header stream, then
    what the inspector parsed (`desc_text`, `vmdktype`) **is** the decoding of the stream's bytes at
    sector 1 (all `descNum` sectors of them, present in the stream), and it has the properties
    `vmdk_accept_imp` lists: non-empty, sparse createType, only recognised lines, at least one
    extent, no extent naming a path.
    Missing: as for `vmdk_accept_iff_sparse_partial` (hypothesis `VmdkSparse`). -/
theorem vmdk_accept_imp_partial (s0 : Insp) (h0 : Insp.init .vmdk = some s0) (chunks : List Bytes)
    (hs : VmdkSparse chunks.flatten) (h : safetyCheck (runChunks s0 chunks).1 = .ok) :
    (hdrOf chunks.flatten).descSec * 512 = Gen.vmdkDescOffset ∧
    512 + vmdkDescLen chunks.flatten ≤ chunks.flatten.length ∧
    ∃ t, (runChunks s0 chunks).1.descText = some t ∧
      parseDesc (sliceOf chunks.flatten 512 (vmdkDescLen chunks.flatten)) =
        some (t, (runChunks s0 chunks).1.vmdkType) ∧
      t ≠ [] ∧ (runChunks s0 chunks).1.vmdkType ∈ sparseTypes ∧
      (∀ l ∈ (splitOn 0x0a t).map strip, classifyLine l ≠ .bad) ∧
      (∃ l ∈ (splitOn 0x0a t).map strip, classifyLine l = .extent) ∧
      (∀ l ∈ (splitOn 0x0a t).map strip, classifyLine l = .extent → l.contains 0x2f = false) := by
  obtain ⟨hds, hlen, _, _⟩ := (vmdk_accept_iff_sparse_partial s0 h0 chunks hs).mp h
  refine ⟨hds, hlen, ?_⟩
  obtain ⟨hok, hout⟩ := lemma_vmdk_outcome s0 h0 chunks hs
  unfold vmdkDescLen at hlen ⊢
  unfold runChunks at h ⊢
  generalize chunks.flatten = s at *
  generalize hdrOf s = H at *
  rcases hout with ⟨_, hd, fo, fd, dt, vt, hr, hp, hl, hfi, hst⟩ | ⟨hne, _⟩
  · rw [hr] at h ⊢
    simp only [lemma_post_finish] at h ⊢
    -- the state-level theorem of C02More on the final state
    obtain ⟨t, hdt, htne, hty, hbad, hext, hslash⟩ := vmdk_accept_imp _
      (by cases (decide (H.gdOffset = Gen.vmdkGdAtEnd)) <;> rfl)
      (by cases (decide (H.gdOffset = Gen.vmdkGdAtEnd)) <;> simp [vPost]) h
    have hdt' : dt = some t := hdt
    have hty' : vt ∈ sparseTypes := hty
    refine ⟨t, hdt, ?_, htne, hty, hbad, hext, hslash⟩
    show parseDesc _ = some (t, vt)
    -- … and the C01 invariant: a sparse createType can only come from the parse of the full region
    unfold DescSt at hst
    have hnf : vt ≠ formatNotFound := by
      intro e; rw [e] at hty'; revert hty'; decide
    split at hst
    · split at hst
      · rename_i t' ty' hpd
        obtain ⟨h1, h2⟩ := hst
        rw [hdt'] at h1
        simp only [Option.some.injEq] at h1
        rw [hpd, h1, h2]
      · exact absurd hst hnf
    · exact absurd hst hnf
  · exact absurd hds hne

/-! ### consequences: what is never accepted (every chunking) -/

/-- a descriptor that is not at sector 1 -/
theorem vmdk_rejects_misplaced_descriptor_partial (s0 : Insp) (h0 : Insp.init .vmdk = some s0)
    (chunks : List Bytes) (hs : VmdkSparse chunks.flatten)
    (h : (hdrOf chunks.flatten).descSec * 512 ≠ Gen.vmdkDescOffset) :
    safetyCheck (runChunks s0 chunks).1 ≠ .ok := by
  rw [Ne, vmdk_accept_iff_sparse_partial s0 h0 chunks hs]
  exact fun hsafe => h hsafe.1

/-- a stream that ends before the end of the announced descriptor (missing / truncated descriptor) -/
theorem vmdk_rejects_truncated_descriptor_partial (s0 : Insp) (h0 : Insp.init .vmdk = some s0)
    (chunks : List Bytes) (hs : VmdkSparse chunks.flatten)
    (h : chunks.flatten.length < 512 + vmdkDescLen chunks.flatten) :
    safetyCheck (runChunks s0 chunks).1 ≠ .ok := by
  rw [Ne, vmdk_accept_iff_sparse_partial s0 h0 chunks hs]
  exact fun hsafe => by have := hsafe.2.1; omega

/-- a descriptor that does not decode (non-ASCII bytes before the first NUL) -/
theorem vmdk_rejects_undecodable_descriptor_partial (s0 : Insp) (h0 : Insp.init .vmdk = some s0)
    (chunks : List Bytes) (hs : VmdkSparse chunks.flatten)
    (h : parseDesc (sliceOf chunks.flatten 512 (vmdkDescLen chunks.flatten)) = none) :
    safetyCheck (runChunks s0 chunks).1 ≠ .ok := by
  rw [Ne, vmdk_accept_iff_sparse_partial s0 h0 chunks hs]
  rintro ⟨_, _, ⟨t, ty, hp, _⟩, _⟩
  rw [h] at hp
  exact absurd hp (by simp)

/-- a createType other than monolithicSparse / streamOptimized (any spelling that does not lower-case
    to one of them, including a missing or over-long one) -/
theorem vmdk_rejects_createtype_partial (s0 : Insp) (h0 : Insp.init .vmdk = some s0)
    (chunks : List Bytes) (hs : VmdkSparse chunks.flatten) (t ty : Bytes)
    (hp : parseDesc (sliceOf chunks.flatten 512 (vmdkDescLen chunks.flatten)) = some (t, ty))
    (h : ty ∉ sparseTypes) :
    safetyCheck (runChunks s0 chunks).1 ≠ .ok := by
  rw [Ne, vmdk_accept_iff_sparse_partial s0 h0 chunks hs]
  rintro ⟨_, _, ⟨t', ty', hp', hd⟩, _⟩
  rw [hp] at hp'
  simp only [Option.some.injEq, Prod.mk.injEq] at hp'
  exact h (hp'.2 ▸ hd.2.1)

/-- a line that is neither blank, a comment, a `ddb` line, a header field nor an extent line -/
theorem vmdk_rejects_bad_line_partial (s0 : Insp) (h0 : Insp.init .vmdk = some s0)
    (chunks : List Bytes) (hs : VmdkSparse chunks.flatten) (t ty l : Bytes)
    (hp : parseDesc (sliceOf chunks.flatten 512 (vmdkDescLen chunks.flatten)) = some (t, ty))
    (hl : l ∈ (splitOn 0x0a t).map strip) (h : classifyLine l = .bad) :
    safetyCheck (runChunks s0 chunks).1 ≠ .ok := by
  rw [Ne, vmdk_accept_iff_sparse_partial s0 h0 chunks hs]
  rintro ⟨_, _, ⟨t', ty', hp', hd⟩, _⟩
  rw [hp] at hp'
  simp only [Option.some.injEq, Prod.mk.injEq] at hp'
  obtain ⟨rfl, rfl⟩ := hp'
  exact hd.2.2.1 l hl h

/-- no extent line at all -/
theorem vmdk_rejects_no_extent_partial (s0 : Insp) (h0 : Insp.init .vmdk = some s0)
    (chunks : List Bytes) (hs : VmdkSparse chunks.flatten) (t ty : Bytes)
    (hp : parseDesc (sliceOf chunks.flatten 512 (vmdkDescLen chunks.flatten)) = some (t, ty))
    (h : ∀ l ∈ (splitOn 0x0a t).map strip, classifyLine l ≠ .extent) :
    safetyCheck (runChunks s0 chunks).1 ≠ .ok := by
  rw [Ne, vmdk_accept_iff_sparse_partial s0 h0 chunks hs]
  rintro ⟨_, _, ⟨t', ty', hp', hd⟩, _⟩
  rw [hp] at hp'
  simp only [Option.some.injEq, Prod.mk.injEq] at hp'
  obtain ⟨rfl, rfl⟩ := hp'
  obtain ⟨l, hl, he⟩ := hd.2.2.2.1
  exact h l hl he

/-- an extent line that contains `/` (names a path) -/
theorem vmdk_rejects_extent_path_partial (s0 : Insp) (h0 : Insp.init .vmdk = some s0)
    (chunks : List Bytes) (hs : VmdkSparse chunks.flatten) (t ty l : Bytes)
    (hp : parseDesc (sliceOf chunks.flatten 512 (vmdkDescLen chunks.flatten)) = some (t, ty))
    (hl : l ∈ (splitOn 0x0a t).map strip) (he : classifyLine l = .extent) (h : l.contains 0x2f = true) :
    safetyCheck (runChunks s0 chunks).1 ≠ .ok := by
  rw [Ne, vmdk_accept_iff_sparse_partial s0 h0 chunks hs]
  rintro ⟨_, _, ⟨t', ty', hp', hd⟩, _⟩
  rw [hp] at hp'
  simp only [Option.some.injEq, Prod.mk.injEq] at hp'
  obtain ⟨rfl, rfl⟩ := hp'
  have := hd.2.2.2.2 l hl he
  rw [h] at this
  exact absurd this (by simp)

/-- an announced footer that is absent or contradicts the header (different signature, version or
    descriptor location in the header copy, a header copy that again points to a footer, or malformed
    footer / end-of-stream markers) -/
theorem vmdk_rejects_footer_partial (s0 : Insp) (h0 : Insp.init .vmdk = some s0)
    (chunks : List Bytes) (hs : VmdkSparse chunks.flatten)
    (hg : (hdrOf chunks.flatten).gdOffset = Gen.vmdkGdAtEnd)
    (h : ¬ FooterSafe (hdrOf chunks.flatten) (lastN 1536 chunks.flatten)) :
    safetyCheck (runChunks s0 chunks).1 ≠ .ok := by
  rw [Ne, vmdk_accept_iff_sparse_partial s0 h0 chunks hs]
  exact fun hsafe => h (hsafe.2.2.2 hg).2

/-- … in particular a header copy in the footer with another descriptor location -/
theorem vmdk_rejects_footer_desc_mismatch_partial (s0 : Insp) (h0 : Insp.init .vmdk = some s0)
    (chunks : List Bytes) (hs : VmdkSparse chunks.flatten)
    (hg : (hdrOf chunks.flatten).gdOffset = Gen.vmdkGdAtEnd) (fh : SparseHeader)
    (hf : parseSparseHeader (lastN 1536 chunks.flatten) 512 = .ok fh)
    (h : (hdrOf chunks.flatten).descSec ≠ fh.descSec ∨ (hdrOf chunks.flatten).descNum ≠ fh.descNum ∨
         (hdrOf chunks.flatten).ver ≠ fh.ver ∨ (hdrOf chunks.flatten).sig ≠ fh.sig ∨
         fh.gdOffset = Gen.vmdkGdAtEnd) :
    safetyCheck (runChunks s0 chunks).1 ≠ .ok := by
  apply vmdk_rejects_footer_partial s0 h0 chunks hs hg
  rintro ⟨fh', hf', a1, a2, a3, a4, a5, _⟩
  rw [hf] at hf'
  simp only [Except.ok.injEq] at hf'
  subst hf'
  rcases h with h | h | h | h | h
  · exact h a3
  · exact h a4
  · exact h a2
  · exact h a1
  · exact a5 h

/-! ### the clean images are accepted (non-vacuity of the right-hand side, both branches) -/

/-- the footer-less image of C01Vmdk is accepted under every chunking -/
theorem vmdk_clean_accepted (s0 : Insp) (h0 : Insp.init .vmdk = some s0) (chunks : List Bytes)
    (h : chunks.flatten = exVmdk) : safetyCheck (runChunks s0 chunks).1 = .ok := by
  have hs : VmdkSparse chunks.flatten := by rw [h]; decide +kernel
  have hv := congrArg Verdict.safety (vmdk_chunk_independent_partial s0 h0 chunks hs)
  have hl : safetyCheck (runChunks s0 chunks).1 = (verdict (runChunks s0 chunks)).safety := rfl
  rw [hl, hv, h]
  decide +kernel

/-- a streamOptimized image: header announcing a footer, descriptor at sector 1, one grain-less
    payload sector, footer marker + header copy (gd offset 3) + end-of-stream marker -/
def exVmdkFooter : Bytes :=
  kdmv ++ [3, 0, 0, 0] ++ zeros 4 ++ [0, 8, 0, 0, 0, 0, 0, 0] ++ zeros 8 ++
    [1, 0, 0, 0, 0, 0, 0, 0] ++ [1, 0, 0, 0, 0, 0, 0, 0] ++ zeros 12 ++ List.replicate 8 255 ++ zeros 448 ++
    ascii "createType=\"streamOptimized\"\nRW 2048 SPARSE \"x.vmdk\"\n" ++ zeros 459 ++
    zeros 512 ++
    ([1, 0, 0, 0, 0, 0, 0, 0] ++ zeros 4 ++ [3, 0, 0, 0] ++ zeros 496) ++
    (kdmv ++ [3, 0, 0, 0] ++ zeros 4 ++ [0, 8, 0, 0, 0, 0, 0, 0] ++ zeros 8 ++
      [1, 0, 0, 0, 0, 0, 0, 0] ++ [1, 0, 0, 0, 0, 0, 0, 0] ++ zeros 12 ++ [3, 0, 0, 0, 0, 0, 0, 0] ++ zeros 448) ++
    zeros 512

/-- … and it is accepted under every chunking (footer branch of the characterisation) -/
theorem vmdk_clean_footer_accepted (s0 : Insp) (h0 : Insp.init .vmdk = some s0) (chunks : List Bytes)
    (h : chunks.flatten = exVmdkFooter) : safetyCheck (runChunks s0 chunks).1 = .ok := by
  have hs : VmdkSparse chunks.flatten := by rw [h]; decide +kernel
  have hv := congrArg Verdict.safety (vmdk_chunk_independent_partial s0 h0 chunks hs)
  have hl : safetyCheck (runChunks s0 chunks).1 = (verdict (runChunks s0 chunks)).safety := rfl
  rw [hl, hv, h]
  decide +kernel

example : exVmdkFooter.length = 3072 ∧ (hdrOf exVmdkFooter).gdOffset = Gen.vmdkGdAtEnd := by decide +kernel

/-! ### non-vacuity of the rejection theorems: concrete rejected images meeting their hypotheses -/

/-- footer-less sparse image with the given descriptor sector and one-sector descriptor text -/
def mkVmdk (descSec : Nat) (desc : String) : Bytes :=
  kdmv ++ [1, 0, 0, 0] ++ zeros 4 ++ [0, 8, 0, 0, 0, 0, 0, 0] ++ zeros 8 ++
    encodeLE 8 descSec ++ [1, 0, 0, 0, 0, 0, 0, 0] ++ zeros 20 ++ zeros 448 ++
    ascii desc ++ zeros (512 - (ascii desc).length)

example : mkVmdk 1 "createType=\"monolithicSparse\"\nRW 2048 SPARSE \"x.vmdk\"\n" = exVmdk := by decide +kernel

/-- descriptor announced at sector 2 -/
example :
    let s := mkVmdk 2 "createType=\"monolithicSparse\"\nRW 2048 SPARSE \"x.vmdk\"\n"
    VmdkSparse s ∧ (hdrOf s).descSec * 512 ≠ Gen.vmdkDescOffset := by decide +kernel

/-- createType `vmfs` -/
example :
    let s := mkVmdk 1 "createType=\"vmfs\"\nRW 2048 VMFS \"x-flat.vmdk\"\n"
    VmdkSparse s ∧
    parseDesc (sliceOf s 512 (vmdkDescLen s)) =
      some (ascii "createtype=\"vmfs\"\nrw 2048 vmfs \"x-flat.vmdk\"\n", ascii "vmfs") ∧
    ascii "vmfs" ∉ sparseTypes := by decide +kernel

/-- an extent naming a path -/
example :
    let s := mkVmdk 1 "createType=\"monolithicSparse\"\nRW 2048 SPARSE \"/etc/passwd\"\n"
    let t := ascii "createtype=\"monolithicsparse\"\nrw 2048 sparse \"/etc/passwd\"\n"
    let l := ascii "rw 2048 sparse \"/etc/passwd\""
    VmdkSparse s ∧ parseDesc (sliceOf s 512 (vmdkDescLen s)) = some (t, ascii "monolithicsparse") ∧
    l ∈ (splitOn 0x0a t).map strip ∧ classifyLine l = .extent ∧ l.contains 0x2f = true := by decide +kernel

/-- an unrecognised line -/
example :
    let s := mkVmdk 1 "createType=\"monolithicSparse\"\nRW 2048 SPARSE \"x.vmdk\"\nhello world\n"
    let t := ascii "createtype=\"monolithicsparse\"\nrw 2048 sparse \"x.vmdk\"\nhello world\n"
    VmdkSparse s ∧ parseDesc (sliceOf s 512 (vmdkDescLen s)) = some (t, ascii "monolithicsparse") ∧
    ascii "hello world" ∈ (splitOn 0x0a t).map strip ∧ classifyLine (ascii "hello world") = .bad := by
  decide +kernel

/-- no extent line -/
example :
    let s := mkVmdk 1 "createType=\"monolithicSparse\"\n# no extents\n"
    let t := ascii "createtype=\"monolithicsparse\"\n# no extents\n"
    VmdkSparse s ∧ parseDesc (sliceOf s 512 (vmdkDescLen s)) = some (t, ascii "monolithicsparse") ∧
    ∀ l ∈ (splitOn 0x0a t).map strip, classifyLine l ≠ .extent := by decide +kernel

/-- a footer whose header copy puts the descriptor at sector 9: rejected under every chunking -/
example (s0 : Insp) (h0 : Insp.init .vmdk = some s0) (chunks : List Bytes)
    (h : chunks.flatten = exVmdkFooter.take (1536 + 512 + 28) ++ [9] ++ exVmdkFooter.drop (1536 + 512 + 29)) :
    safetyCheck (runChunks s0 chunks).1 ≠ .ok := by
  have hs : VmdkSparse chunks.flatten := by rw [h]; decide +kernel
  have hv := congrArg Verdict.safety (vmdk_chunk_independent_partial s0 h0 chunks hs)
  have hl : safetyCheck (runChunks s0 chunks).1 = (verdict (runChunks s0 chunks)).safety := rfl
  rw [hl, hv, h]
  decide +kernel

end Oslo.Insp
