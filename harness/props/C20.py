"""C20 - file helpers agree with whole-file semantics and are idempotent."""
import array
import builtins
import contextlib
import ctypes
import errno
import hashlib
import inspect
import itertools
import mmap
import os
import pathlib
import random
import shutil
import stat
import tempfile
import threading
import types

import common
from common import Disagreement, Failure, req, hexb

ID = 'C20'
DRIVER = 'drv_C20'
PROOF_MODULES = ['OsloProofs.Props.C20']
LEVEL = 'proof'
RULE = ('checksum: real files in a scratch directory, sizes k*c-1, k*c, k*c+1 (k = 0..3, thorough 0..5) for every '
        'chunk size c in {1,2,7,64,4096,65536} crossed with the chunk arguments {1,2,7,64,4096,65536, size+1, '
        'default, None, -1, 0, -2}, fed to a recording toy hash (rolling polynomial) and to every fixed-output '
        'hashlib algorithm; last_bytes: sizes x n in {0,1,size-1,size,size+1,2*size,2^31,2^63-1,2^63, >2^63, negatives} '
        'plus every exception injected into the first seek; ensure_tree / delete_if_exists: every errno of '
        'errno.errorcode (plus errno None, an unknown errno, non-OSError exceptions) injected into os.makedirs / the '
        'remove callable x isdir, and real file-system paths (missing at depth 1..n, directory, file, symlinks, and '
        'paths on which the OS call fails with something other than ENOENT: file as ancestor / file with trailing '
        'slash (ENOTDIR), component or path too long (ENAMETOOLONG), through a symlink loop (ELOOP), embedded NUL '
        '(ValueError), non-empty directory, unsearchable parent) for ensure_tree, delete_if_exists with the DEFAULT '
        'remover / os.unlink passed explicitly / spied unlink, rmdir, rmtree, and remove_path_on_error x body '
        'exception; the outcome to decide on is that of the OS call made on its own on a twin path; path arguments '
        'as str, bytes, pathlib.Path and a bare os.PathLike for every helper; write_to_tempfile: content as bytes, '
        'bytes subclass, bytearray, memoryview (of bytes / bytearray / slice / cast / 2-d / non-contiguous / reversed), '
        'array (B and wide items), mmap, ctypes array x sizes 0..70000 (300000 thorough) x existing / missing / '
        'default directory, and every content type at the sizes k*c-1, k*c, k*c+1 around the multiples of 64, 4096 '
        'and 65536 (k = 1..3, thorough 1..5), plus each of ensure_tree / mkstemp / os.write made to fail and os.write '
        'made to transfer fewer bytes than asked. Partial writes: os.write may legally transfer fewer bytes than '
        'asked; the property says the new file holds exactly the content, so the oracle requires: whenever '
        'write_to_tempfile returns, the file holds exactly the content - after a short write the rest has to be '
        'written or the call has to raise (the unchanged code does one os.write and ignores the count: known finding '
        'N7, classified only when exactly the transferred prefix is stored). Path spellings: for ensure_tree, '
        'delete_if_exists, remove_path_on_error and the directory argument of write_to_tempfile, legal paths that '
        'are not in lexical normal form - "..", ".", "//", trailing slash, "leaf/.." after a missing chain (depth '
        '1..4, thorough 1..8), a regular file, a directory, a symlink to a directory and a dangling symlink - absolute, '
        'relative to the current directory and leaving/re-entering it; oracle: the outcome of the bare OS call on the '
        'given path (twin) decides, the whole tree equals the twin tree afterwards, and after ensure_tree returns the '
        'given path is a directory wherever the bare os.makedirs leaves one. Class versus errno: the property words its '
        'exceptions by error code (already-exists, not-found, EINVAL), so an injected OSError is judged by the errno '
        'attribute it carries when it is raised and never by its class: each errno is injected as plain OSError(code) '
        '(which Python maps to its specific subclass), as a user subclass of OSError, with errno assigned after '
        'construction, and the key errnos and errno None also as FileNotFoundError / FileExistsError / PermissionError / '
        'NotADirectoryError / IsADirectoryError / IOError carrying that (other) errno - into os.makedirs, the remove '
        'callable (argument and default), remove_path_on_error through its default chain, and the first seek of '
        'last_bytes. Call sequences: write_to_tempfile / ensure_tree / delete_if_exists on the same path strings '
        'interleaved with removing the directory or an ancestor, replacing either by a file, creating the victim file '
        'and changing the current directory (absolute and relative paths; exhaustive up to 3 steps, random up to 9); '
        'every call is judged on the bare OS outcome on the twin tree at that moment. A case is non-trivial when at least two chunks are fed or an error branch '
        'is taken (checksum), n > 0 or a fault is injected (last_bytes), an exception is injected or the path is not '
        'simply missing (ensure/delete); distinct by the canonical case tuple')
TRUSTED_BASE = [
    'Lean 4 kernel; axioms audited per theorem (subset of propext, Classical.choice, Quot.sound)',
    'hand-written model OsloModel/File.lean, tied to oslo_utils.fileutils by this correspondence; errno constants '
    'and the default chunk size are extracted from the running tree (Generated/C20.lean)',
    'hashlib objects obey the streaming law update(a); update(b) == update(a+b) and update(b"") is a no-op '
    '(hypotheses of checksum_chunk_independent; exercised with every fixed-output algorithm of the interpreter)',
    'BufferedReader.read(k) on a regular file returns min(k, remaining) bytes; seek(off, SEEK_END) = off_t conversion '
    '+ lseek range check; outcome of os.makedirs / remove and of os.path.isdir are inputs of the model',
]
UNMODELLED = [
    'write_to_tempfile: that mkstemp returns a new, distinct file in the requested directory is OS behaviour (no '
    'theorem, checked by the search on real directories); which calls are made, what is handed to os.write and what '
    'escapes is modelled (writeToTempfile, including the byte count os.write returns) and tied with every bytes-like '
    'content type; a real 2 GiB content is not written (short writes are produced by a stub); a non-contiguous memoryview is refused by os.write itself '
    '(BufferError, empty file left behind): outside the property, the oracle only requires that no other bytes are stored',
    'the one-path file-system model (osMakedirs/osUnlink) behind the idempotence theorems is an assumption about '
    'the OS, compared with the real file system on every run',
    'the default remover os.unlink is bound at def time and cannot be replaced by a stub: it is tied to the model '
    'through real paths only (the errnos the local file system produces: ENOENT, ENOTDIR, EISDIR, ENAMETOOLONG, '
    'ELOOP, ValueError for NUL; EACCES/EPERM/EROFS/EBUSY only when the sandbox is not root)',
    'observation, not a property input: ensure_tree("<dangling symlink>/.") returns normally and the path is not a '
    'directory, because os.makedirs itself reports success there (the FileExistsError of the head is swallowed and '
    'the "." tail returns early); ensure_tree does what the OS call does, which is all the property asks',
    'concurrent modification of the file or directory during the call; short reads on pipes/sockets '
    '(checksum_any_chunking covers any chunking, but the model reads regular files)',
    'out of the property domain, observed and followed by the model: read_chunksize=0 gives the digest of b"" '
    '(checksum_zero_chunk), read_chunksize < -1 raises ValueError, last_bytes(path, -k) returns (b"", size+k), '
    'XOF algorithms (shake_128/256) make hexdigest() raise TypeError',
]
ASSUMPTIONS = [
    'file sizes are below 2**63 (off_t)',
    'the file is a regular file that is not modified while it is read',
]

P = 2305843009213693951
B = 1000003
CHUNKS = [1, 2, 7, 64, 4096, 65536]
OTHER_TAGS = {'KeyError': 1, 'RuntimeError': 2, 'TypeError': 3, 'BufferError': 4}
OTHER_CLASSES = {1: KeyError, 2: RuntimeError, 3: TypeError, 4: BufferError}
N6 = 'N6'


def fileutils():
    from oslo_utils import fileutils as fu
    return fu


def generate():
    fu = fileutils()
    cs = inspect.signature(fu.compute_file_checksum).parameters['read_chunksize'].default
    if not isinstance(cs, int) or isinstance(cs, bool):
        raise ValueError('default read_chunksize is not an int: %r' % (cs,))
    e = fu.errno
    text = ('/- generated by harness/props/C20.py from %s at run time; do not edit -/\n'
            'namespace Oslo.File.Gen\n'
            'def EEXIST : Int := %d\ndef ENOENT : Int := %d\ndef EINVAL : Int := %d\ndef EISDIR : Int := %d\n'
            'def defaultChunk : Int := %s\n'
            'end Oslo.File.Gen\n') % ('oslo_utils/fileutils.py', e.EEXIST, e.ENOENT, e.EINVAL, e.EISDIR,
                                     cs if cs >= 0 else '(%d)' % cs)
    common.write_if_changed(os.path.join(common.LEAN, 'OsloModel', 'Generated', 'C20.lean'), text)


# --------------------------------------------------------------------------
# scratch directory (outside /repo and /verif), contents, exceptions

class Scratch:
    """Private scratch space of this process, outside /repo and /verif, removed at the end.  Two directories made
    by mkdtemp (so the eleven children of the ambient sweep and the main run can never collide): `disk` on the
    file system of the default temporary directory, and `root` on tmpfs (/dev/shm) where that exists - directory
    operations there are ~15x cheaper, which is what the sequence / write_to_tempfile / checksum families need.
    The path-kind families (make_path) and every eighth call sequence stay on the disk file system."""

    def __enter__(self):
        prefix = 'verif-C20-%s-' % (os.environ.get('VERIF_AMBIENT') or 'main')
        self.disk = tempfile.mkdtemp(prefix=prefix)
        self.root = self.disk
        shm = '/dev/shm'
        if os.path.isdir(shm) and os.access(shm, os.W_OK | os.X_OK):
            try:
                self.root = tempfile.mkdtemp(prefix=prefix, dir=shm)
            except OSError:
                pass
        self.files = {}
        self.n = 0
        self.locked = []
        self.roots = {}
        return self

    def __exit__(self, *a):
        for d in self.locked:
            try:
                os.chmod(d, 0o700)
            except OSError:
                pass
        for d in {self.root, self.disk}:
            shutil.rmtree(d, ignore_errors=True)

    def fresh(self, name='p', disk=False):
        self.n += 1
        return os.path.join(self.disk if disk else self.root, '%s%d' % (name, self.n))

    def file(self, data, key=None):
        key = key if key is not None else hashlib.sha1(data).hexdigest()
        if key not in self.files:
            p = self.fresh('f')
            with open(p, 'wb') as f:
                f.write(data)
            self.files[key] = p
        return self.files[key]

    def drop(self, key):
        p = self.files.pop(key, None)
        if p:
            os.unlink(p)


_content_cache = {}


def content(size, seed):
    if seed == -1:
        return bytes(size)
    if seed == -2:
        return b'\xff' * size
    k = (size, seed)
    if k not in _content_cache:
        if len(_content_cache) > 64:
            _content_cache.clear()
        _content_cache[k] = random.Random('C20/%d/%d' % (seed, size)).randbytes(size)
    return _content_cache[k]


class RemoteFSError(OSError):
    """a user subclass of OSError: the constructor does not remap it to FileNotFoundError & co."""


SHAPES = {'fnf': FileNotFoundError, 'fee': FileExistsError, 'perm': PermissionError, 'nad': NotADirectoryError,
          'isad': IsADirectoryError, 'io': IOError, 'user': RemoteFSError}


def mspec(spec):
    """the part of an exception spec the model sees: errno (and OSError-ness), never the class"""
    return spec.split('@')[0]


def make_exc(spec):
    """'ok' -> None; 'os:<errno|N>[@shape]' | 'val' | 'other:<tag>' -> a fresh exception object.
    The shape varies the CLASS independently of the errno: plain OSError(code) (which Python maps to its specific
    subclass), a specific builtin subclass carrying another errno (fnf, fee, perm, nad, isad), the IOError alias,
    a user subclass (not remapped), and 'late' = errno assigned after construction."""
    if spec == 'ok':
        return None
    spec, _, shape = spec.partition('@')
    kind, _, arg = spec.partition(':')
    if kind == 'os':
        cls = SHAPES.get(shape, OSError)
        if shape == 'late':
            x = OSError('errno assigned after construction')
            x.errno = None if arg == 'N' else int(arg)
            return x
        if arg == 'N':
            return cls('no errno')
        e = int(arg)
        try:
            msg = os.strerror(e)
        except (ValueError, OverflowError):
            msg = 'unknown'
        return cls(e, msg)
    if kind == 'val':
        return ValueError('injected')
    if kind == 'other':
        return OTHER_CLASSES[int(arg)]('injected')
    raise ValueError(spec)


def canon_exc(e):
    if isinstance(e, OSError):
        return 'OSError:%s' % ('N' if e.errno is None else e.errno)
    if isinstance(e, ValueError):
        return 'ValueError'
    name = type(e).__name__
    return 'Other:%s' % OTHER_TAGS.get(name, name)


@contextlib.contextmanager
def patched(obj, name, value):
    missing = object()
    old = obj.__dict__.get(name, missing) if isinstance(obj, types.ModuleType) else getattr(obj, name, missing)
    setattr(obj, name, value)
    try:
        yield
    finally:
        if old is missing:
            delattr(obj, name)
        else:
            setattr(obj, name, old)


KEY_ERRNOS = (errno.ENOENT, errno.EEXIST, errno.EINVAL, errno.EACCES, errno.EPERM, errno.EISDIR, errno.ENOTDIR)


def exc_specs(full=True):
    specs = ['os:%d' % e for e in sorted(errno.errorcode)]
    specs += ['os:N', 'os:0', 'os:9999', 'os:-1', 'val', 'other:1', 'other:2']
    # class and errno varied independently
    for e in list(KEY_ERRNOS) + ['N']:
        specs += ['os:%s@%s' % (e, sh) for sh in ('fnf', 'fee', 'perm', 'nad', 'isad', 'io', 'user', 'late')]
    for e in sorted(errno.errorcode):
        if e not in KEY_ERRNOS:
            specs += ['os:%d@user' % e, 'os:%d@late' % e]
    return specs


# --------------------------------------------------------------------------
# argument types: every helper takes a path (str, bytes or os.PathLike); write_to_tempfile takes a bytes-like
# content.  The type of the object is not part of the model (the code hands it to the OS call untouched), so each
# type is one more implementation input for the same model request.

class FsPath:
    """a minimal os.PathLike that is neither str nor pathlib"""

    def __init__(self, p):
        self.p = p

    def __fspath__(self):
        return self.p


PTYPES = ('str', 'bytes', 'pathlib', 'fspath')


def as_ptype(p, ptype):
    if ptype in (None, 'str'):
        return p
    if ptype == 'bytes':
        return os.fsencode(p)
    if ptype == 'pathlib':
        return pathlib.Path(p)
    if ptype == 'fspath':
        return FsPath(p)
    raise ValueError(ptype)


class BytesSub(bytes):
    pass


CTYPES = ('bytes', 'bytes-subclass', 'bytearray', 'memoryview', 'memoryview-bytearray', 'memoryview-slice',
          'memoryview-cast', 'memoryview-2d', 'memoryview-noncontiguous', 'memoryview-reversed', 'array-B',
          'array-wide', 'mmap', 'ctypes-array')


def build_content(ctype, data):
    """an object of the given type whose buffer exposes exactly `data` (None: impossible for this size)"""
    n = len(data)
    if ctype == 'bytes':
        return data
    if ctype == 'bytes-subclass':
        return BytesSub(data)
    if ctype == 'bytearray':
        return bytearray(data)
    if ctype == 'memoryview':
        return memoryview(data)
    if ctype == 'memoryview-bytearray':
        return memoryview(bytearray(data))
    if ctype == 'memoryview-slice':
        return memoryview(b'<<' + data + b'>>>')[2:2 + n]
    if ctype == 'memoryview-cast':
        return memoryview(data).cast('H' if n % 2 == 0 else 'b')
    if ctype == 'memoryview-2d':
        return memoryview(data).cast('B', shape=[n // 2, 2]) if n and n % 2 == 0 else None
    if ctype == 'memoryview-noncontiguous':
        if n <= 1:
            return None
        ba = bytearray(b'\xee' * (2 * n))
        ba[::2] = data
        return memoryview(bytes(ba))[::2]
    if ctype == 'memoryview-reversed':
        return memoryview(data[::-1])[::-1] if n > 1 else None
    if ctype == 'array-B':
        return array.array('B', data)
    if ctype == 'array-wide':
        a = array.array('I' if n % 4 == 0 else 'b')
        a.frombytes(data)
        return a
    if ctype == 'mmap':
        if n == 0:
            return None
        m = mmap.mmap(-1, n)
        m[:] = data
        return m
    if ctype == 'ctypes-array':
        return (ctypes.c_ubyte * n).from_buffer_copy(data)
    raise ValueError(ctype)


def write_accepts(sc, obj):
    """does os.write on its own take this object?  -> outcome spec ('ok' or the exception)"""
    fd = os.open(sc.fresh('probe'), os.O_WRONLY | os.O_CREAT, 0o600)
    try:
        return outcome_spec(ref_call(os.write, fd, obj))
    finally:
        os.close(fd)


# --------------------------------------------------------------------------
# compute_file_checksum

def toy_hash(data, h=0):
    for b in data:
        h = (h * B + b + 1) % P
    return h


class FakeHash:
    def __init__(self):
        self.h, self.n, self.lens = 0, 0, []

    def update(self, chunk):
        self.lens.append(len(chunk))
        self.h = toy_hash(chunk, self.h)
        self.n += len(chunk)

    def hexdigest(self):
        return '%d:%d' % (self.h, self.n)


def rle(lens):
    return ','.join('%dx%d' % (v, len(list(g))) for v, g in itertools.groupby(lens)) or '-'


def unrle(s):
    out = []
    if s != '-':
        for part in s.split(','):
            v, c = part.split('x')
            out += [int(v)] * int(c)
    return out


def fixed_algorithms():
    algs = []
    for a in sorted(hashlib.algorithms_available):
        try:
            hashlib.new(a).hexdigest()
        except Exception:       # XOFs need a length; legacy algorithms may be disabled
            continue
        algs.append(a)
    return algs


ALGS = fixed_algorithms()


def cs_kwargs(cs):
    if cs == 'D':
        return {}
    return {'read_chunksize': None if cs == 'N' else cs}


def impl_checksum(sc, case):
    """real compute_file_checksum; 'toy' = through a recording fake hashlib"""
    fu = fileutils()
    if case.get('missing'):
        path = os.path.join(sc.root, 'no-such-file')
    else:
        path = sc.file(content(case['size'], case['seed']), (case['size'], case['seed']))
    path = as_ptype(path, case.get('ptype'))
    alg = case['alg']
    cs = case['cs']
    many = isinstance(cs, int) and cs > 0 and case['size'] // cs > 300
    # time.sleep(0) (the greenthread yield, line 130) costs ~75 us per chunk in this sandbox: for runs of more than
    # 300 chunks it is replaced by a no-op inside the harness process; shorter runs execute it for real
    nosleep = patched(fu, 'time', types.SimpleNamespace(sleep=lambda s: None)) if many else contextlib.nullcontext()
    with nosleep:
        return _impl_checksum(fu, path, alg, case)


def _impl_checksum(fu, path, alg, case):
    try:
        if alg in ('toy', 'nope'):
            made = []

            def new(name, *a, **k):
                if name != 'toy':
                    raise ValueError('unsupported hash type ' + name)
                made.append(FakeHash())
                return made[-1]
            with patched(fu, 'hashlib', types.SimpleNamespace(new=new)):
                r = fu.compute_file_checksum(path, algorithm=alg, **cs_kwargs(case['cs']))
            return 'ok lens=%s toy=%s' % (rle(made[0].lens), r)
        return 'ok ' + fu.compute_file_checksum(path, algorithm=alg, **cs_kwargs(case['cs']))
    except Exception as e:
        return 'err ' + canon_exc(e)


def line_checksum(case):
    data = 'X' if case.get('missing') else hexb(content(case['size'], case['seed']))
    return req('sum', 0 if case['alg'] == 'nope' else 1, data, case['cs'])     # cs may be a comma-separated list


def view_checksum(case, reply):
    """the model's reply as the implementation would print it for this algorithm"""
    alg = case['alg']
    if alg in ('toy', 'nope') or not reply.startswith('ok lens='):
        return reply
    lens = unrle(reply.split()[1][len('lens='):])
    data = content(case['size'], case['seed'])
    h = hashlib.new(alg)
    pos = 0
    for n in lens:                      # feed hashlib exactly the model's chunks
        h.update(data[pos:pos + n])
        pos += n
    return 'ok ' + h.hexdigest()


def oracle_checksum(sc, case):
    cs = case['cs']
    if case.get('missing') or case['alg'] == 'nope' or (isinstance(cs, int) and (cs == 0 or cs < -1)):
        return None                                      # outside the property's domain
    data = content(case['size'], case['seed'])
    got = impl_checksum(sc, case)
    if case['alg'] == 'toy':
        if not got.startswith('ok '):
            return 'compute_file_checksum raised: ' + got
        lens = unrle(got.split()[1][len('lens='):])
        want = '%d:%d' % (toy_hash(data), len(data))
        if got.split()[2] != 'toy=' + want:
            return 'toy digest %s, whole-content digest %s (chunks fed: %s)' % (got.split()[2][4:], want, rle(lens))
        return None
    want = 'ok ' + hashlib.new(case['alg'], data).hexdigest()
    if got != want:
        return '%s digest %s, hashlib over the whole content gives %s' % (case['alg'], got, want)
    return None


def checksum_sizes(kmax):
    by = {}
    for c in CHUNKS:
        by[c] = sorted({k * c + d for k in range(kmax + 1) for d in (-1, 0, 1) if k * c + d >= 0})
    return by


def gen_checksum(ctx):
    """(case, tag) pairs for the correspondence"""
    rng = ctx.rng
    kmax = 3 if ctx.quick else 5
    by = checksum_sizes(kmax)
    sizes = sorted({s for v in by.values() for s in v})
    if getattr(ctx, 'ambient', None):
        # a child of the ambient sweep: a third of the large contents (model and file cost is per content), always
        # one exact multiple of 65536 among them
        large = [s for s in sizes if s > 3 * 4096 + 1]
        chosen = set(rng.sample(large, max(1, len(large) // 3)) + [rng.choice([s for s in large if s % 65536 == 0])])
        sizes = [s for s in sizes if s <= 3 * 4096 + 1 or s in chosen]
    out = []
    ai = 0
    for s in sizes:
        big = s > 3 * 4096 + 1
        seeds = [rng.randrange(1, 10 ** 6)]
        if not big and not ctx.quick:
            seeds += [-1, rng.randrange(1, 10 ** 6)]
        for seed in seeds:
            args = CHUNKS + [s + 1, s + 70000, 'D', 'N', -1, 0, -2]
            if big and ctx.quick:
                args = [7, 4096, 65536, s + 1, 'D', 'N'] + ([1, 2, 64] if s in (65535, 65537) else [])
            for cs in args:
                out.append(({'op': 'checksum', 'size': s, 'seed': seed, 'cs': cs, 'alg': 'toy'},
                            'checksum/toy/cs=%s' % (cs if cs in CHUNKS or not isinstance(cs, int) or cs <= 0 else 'larger')))
                # the real algorithms: all of them on small files, rotating on large ones
                algs = ALGS if (s <= 15 and seed == seeds[0]) else [ALGS[ai % len(ALGS)]]
                ai += 1
                if cs in (0, -2) and s > 15:
                    algs = algs[:1]
                for a in algs:
                    out.append(({'op': 'checksum', 'size': s, 'seed': seed, 'cs': cs, 'alg': a}, 'checksum/alg=' + a))
    for ptype in PTYPES[1:]:                                    # path argument types
        for cs in (1, 7, 'D', 'N'):
            for alg in ('toy', 'sha256'):
                out.append(({'op': 'checksum', 'size': 20, 'seed': 13, 'cs': cs, 'alg': alg, 'ptype': ptype},
                            'checksum/path=' + ptype))
        out.append(({'op': 'checksum', 'size': 0, 'seed': 0, 'cs': 1, 'alg': 'toy', 'missing': True, 'ptype': ptype},
                    'checksum/missing-file'))
    for cs in [1, 'D', 'N', -2, 0]:
        out.append(({'op': 'checksum', 'size': 0, 'seed': 0, 'cs': cs, 'alg': 'toy', 'missing': True}, 'checksum/missing-file'))
        out.append(({'op': 'checksum', 'size': 5, 'seed': 1, 'cs': cs, 'alg': 'nope'}, 'checksum/unknown-algorithm'))
    out.append(({'op': 'checksum', 'size': 0, 'seed': 0, 'cs': -2, 'alg': 'nope', 'missing': True}, 'checksum/unknown-algorithm'))
    return out


def nontrivial_checksum(case, impl):
    if impl.startswith('err'):
        return True
    if case['alg'] == 'toy':
        return len(unrle(impl.split()[1][len('lens='):])) >= 2
    cs = case['cs']
    c = {'D': 65536, 'N': 0}.get(cs, cs)
    return isinstance(c, int) and 0 < c < case['size']


# --------------------------------------------------------------------------
# last_bytes

class FaultyFile:
    """a real file whose first seek raises the injected exception"""

    def __init__(self, real, exc):
        self.real, self.exc, self.seeks = real, exc, 0

    def __enter__(self):
        self.real.__enter__()
        return self

    def __exit__(self, *a):
        return self.real.__exit__(*a)

    def seek(self, off, whence=0):
        self.seeks += 1
        if self.seeks == 1:
            raise self.exc
        return self.real.seek(off, whence)

    def tell(self):
        return self.real.tell()

    def read(self, *a):
        return self.real.read(*a)


def run_last_bytes(sc, case):
    """-> ('ok', data, unread) | ('err', canonical exception, same-object flag)"""
    fu = fileutils()
    data = content(case['size'], case['seed'])
    path = as_ptype(sc.file(data, (case['size'], case['seed'])), case.get('ptype'))
    fault = case.get('fault')
    try:
        if fault:
            exc = make_exc(fault)
            with patched(fu, 'open', lambda p, mode='r': FaultyFile(builtins.open(p, mode), exc)):
                try:
                    r = fu.last_bytes(path, case['num'])
                except BaseException as e:
                    return ('err', canon_exc(e), e is exc)
        else:
            r = fu.last_bytes(path, case['num'])
    except Exception as e:
        return ('err', canon_exc(e), True)
    return ('ok', r[0], r[1])


def impl_last_bytes(sc, case):
    r = run_last_bytes(sc, case)
    if r[0] == 'ok':
        return 'ok %s %s' % (hexb(r[1]), r[2])
    return 'err %s%s' % (r[1], '' if r[2] else ' (a different exception object)')


def line_last_bytes(case):
    return req('last', hexb(content(case['size'], case['seed'])), case['num'], mspec(case.get('fault') or '-'))


def oracle_last_bytes(sc, case):
    n, size = case['num'], case['size']
    data = content(size, case['seed'])
    r = run_last_bytes(sc, case)
    fault = case.get('fault')
    if fault and not fault.startswith('os:'):
        return None                  # what a non-OSError from seek does is not part of the property (model tie only)
    if fault:
        if mspec(fault) == 'os:%d' % errno.EINVAL:
            if r != ('ok', data, 0):
                return 'seek failed with EINVAL but the whole file was not returned: %r' % (r[:1] + r[2:],)
        elif r[0] != 'err' or r[1] != canon_exc(make_exc(fault)) or not r[2]:
            return 'seek raised %s; last_bytes did not re-raise it unchanged: %r' % (fault, r)
        return None
    if n < 0:
        return None                                      # outside the property's domain
    m = min(n, size)
    want = ('ok', data[size - m:], size - m)
    if r != want:
        if r[0] == 'err':
            return 'last_bytes(size=%d, n=%d) raised %s' % (size, n, r[1])
        return 'last_bytes(size=%d, n=%d) returned (%d bytes, %s), expected (last %d bytes, %d)' % (
            size, n, len(r[1]), r[2], m, size - m)
    return None


def last_nums(size):
    return [0, 1, size - 1, size, size + 1, 2 * size, 2 ** 31, 2 ** 63 - 1, 2 ** 63]


def gen_last_bytes(ctx):
    rng = ctx.rng
    sizes = [0, 1, 2, 3, 10, 64, 4097] + ([70000] if ctx.quick else [65536, 70000, 200001])
    out = []
    for s in sizes:
        seed = rng.randrange(1, 10 ** 6)
        # negative n is outside the property; only small ones and the off_t conversion error are compared (a huge
        # positive seek offset fails with EINVAL at the file system's own size limit, which the model does not know)
        nums = last_nums(s) + [2 ** 63 + 1, 2 ** 64, -1, -s, -s - 5, -2 ** 31, -2 ** 63, -2 ** 63 - 1]
        nums += [rng.randrange(0, s + 3) for _ in range(2 if ctx.quick else 10)]
        for n in dict.fromkeys(nums):
            tag = 'beyond-off_t' if abs(n) > 2 ** 63 or n == -2 ** 63 else 'negative' if n < 0 else 'n>=size' if n >= s else 'n<size'
            out.append(({'op': 'last_bytes', 'size': s, 'seed': seed, 'num': n}, 'last_bytes/' + tag))
    for ptype in PTYPES[1:]:
        for n in (0, 3, 20, 21, 2 ** 63):
            out.append(({'op': 'last_bytes', 'size': 20, 'seed': 13, 'num': n, 'ptype': ptype}, 'last_bytes/path=' + ptype))
    for spec in exc_specs():
        for s, n in ((5, 2), (0, 0)) if ctx.quick else ((5, 2), (0, 0), (5, 9), (64, 64)):
            out.append(({'op': 'last_bytes', 'size': s, 'seed': 7, 'num': n, 'fault': spec}, 'last_bytes/seek-fault'))
    return out


# --------------------------------------------------------------------------
# ensure_tree / delete_if_exists

SP_ANCHORS = ('missing', 'file', 'dir', 'symlink', 'dangling')
SP_SUFFIXES = ('dotdot', 'dotdot-leaf', 'dotdot-deep', 'dot', 'dot-leaf', 'slashes-leaf', 'slash', 'leaf-dotdot',
               'leaf-dotdot-leaf')


def spelled_path(sc, anchor, suffix, depth):
    """<root>/w/<anchor><suffix>: a legal path that is not in lexical normal form, whose '..', '.', '//' or trailing
    slash follows a missing chain, a regular file, a directory, a symlink to a directory or a dangling symlink"""
    root = sc.fresh('s', disk=True)
    w = os.path.join(root, 'w')
    os.makedirs(w)
    ups = 1
    if anchor == 'missing':
        a = os.path.join(w, *['m%d' % i for i in range(max(1, depth))])
        ups = max(1, depth)
    elif anchor == 'file':
        a = os.path.join(w, 'plain.txt')
        with open(a, 'wb') as f:
            f.write(b'x')
    elif anchor == 'dir':
        a = os.path.join(w, 'there')
        os.makedirs(a)
    elif anchor == 'symlink':
        os.makedirs(os.path.join(root, 'other', 'deep'))
        a = os.path.join(w, 'link')
        os.symlink(os.path.join('..', 'other', 'deep'), a)
    elif anchor == 'dangling':
        a = os.path.join(w, 'dang')
        os.symlink('nowhere', a)
    else:
        raise ValueError(anchor)
    tail = {'dotdot': ['..'] * ups, 'dotdot-leaf': ['..'] * ups + ['leaf'], 'dotdot-deep': ['..', 'n0', 'n1'],
            'dot': ['.'], 'dot-leaf': ['.', 'leaf'], 'leaf-dotdot': ['leaf', '..'],
            'leaf-dotdot-leaf': ['leaf', '..', 'leaf2']}.get(suffix)
    if tail is not None:
        p = os.path.join(a, *tail)
    elif suffix == 'slashes-leaf':
        p = a + '//leaf'
    elif suffix == 'slash':
        p = a + os.sep
    else:
        raise ValueError(suffix)
    sc.roots[p] = root
    return p


def tree(root):
    """every entry below root: (relative name, d<permission bits>/f/l)"""
    out = []
    stack = [(root, '')]
    while stack:
        d, rel = stack.pop()
        try:
            entries = list(os.scandir(d))
        except OSError:
            continue
        for e in entries:
            name = rel + e.name
            if e.is_symlink():
                out.append((name, 'l'))
            elif e.is_dir(follow_symlinks=False):
                out.append((name, 'd%o' % stat.S_IMODE(e.stat(follow_symlinks=False).st_mode)))
                stack.append((e.path, name + os.sep))
            else:
                out.append((name, 'f'))
    return sorted(out)


def make_path(sc, kind, depth=1):
    """a path in the scratch directory in the given state"""
    if kind.startswith('sp:'):
        _, anchor, suffix = kind.split(':')
        return spelled_path(sc, anchor, suffix, depth)
    p = sc.fresh('d', disk=True)
    if kind == 'dir':
        os.makedirs(p)
    elif kind == 'file':
        with open(p, 'wb') as f:
            f.write(b'x')
    elif kind == 'missing':
        p = os.path.join(p, *['n%d' % i for i in range(depth - 1)]) if depth > 1 else p
    elif kind.startswith('dir-mode-'):                          # an existing directory with unusual permission bits
        root = p
        os.makedirs(root)
        p = os.path.join(root, 'there')
        os.makedirs(p)
        os.chmod(p, int(kind[len('dir-mode-'):], 8))
        sc.roots[p] = root                                      # the twin comparison then includes the mode
        sc.locked.append(p)
    elif kind == 'symlink-dir':
        os.makedirs(p + '.target')
        os.symlink(p + '.target', p)
    elif kind == 'symlink-file':
        with open(p + '.target', 'wb') as f:
            f.write(b'x')
        os.symlink(p + '.target', p)
    elif kind == 'symlink-dangling':
        os.symlink(p + '.nowhere', p)
    elif kind == 'symlink-loop':
        os.symlink(p, p)
    elif kind == 'under-file':
        with open(p, 'wb') as f:
            f.write(b'x')
        p = os.path.join(p, 'sub')
    elif kind == 'name-too-long':
        os.makedirs(p)
        p = os.path.join(p, 'x' * 300)
    elif kind == 'missing-trailing-slash':
        p = p + os.sep
    # paths whose lstat/unlink/mkdir fail with something other than ENOENT
    elif kind == 'under-file-deep':
        with open(p, 'wb') as f:
            f.write(b'x')
        p = os.path.join(p, 'a', 'b', 'c')
    elif kind == 'file-trailing-slash':
        with open(p, 'wb') as f:
            f.write(b'x')
        p = p + os.sep
    elif kind == 'through-symlink-loop':
        os.symlink(os.path.basename(p) + '.b', p)
        os.symlink(os.path.basename(p), p + '.b')
        p = os.path.join(p, 'child')
    elif kind == 'name-too-long-middle':
        os.makedirs(p)
        p = os.path.join(p, 'y' * 300, 'leaf')
    elif kind == 'path-too-long':
        p = os.path.join(p, *(['z' * 200] * 25))
    elif kind == 'embedded-nul':
        p = p + '\0tail'
    elif kind == 'under-dangling-symlink':
        os.symlink(p + '.nowhere', p)
        p = os.path.join(p, 'child')
    elif kind == 'nonempty-dir':
        os.makedirs(os.path.join(p, 'sub'))
    elif kind == 'unsearchable-parent':
        os.makedirs(p)
        with open(os.path.join(p, 'leaf'), 'wb') as f:
            f.write(b'x')
        os.chmod(p, 0)                              # EACCES unless running as root
        sc.locked.append(p)
        p = os.path.join(p, 'leaf')
    else:
        raise ValueError(kind)
    return p


def state_of(p):
    if '\0' in p:
        return 'missing'
    if os.path.isdir(p) and not os.path.islink(p):
        return 'dir'
    if os.path.lexists(p):
        return 'file' if os.path.isfile(p) and not os.path.islink(p) else 'other'
    return 'missing'


def run_ensure(sc, case):
    """injected outcome of os.makedirs -> (result string, makedirs calls)"""
    fu = fileutils()
    path = make_path(sc, case['pathkind'])
    exc = make_exc(case['exc'])
    calls = []

    def fake(*a, **k):
        calls.append((a, k))
        if exc is not None:
            raise exc
    kw = {} if case.get('mode') is None else {'mode': case['mode']}
    with patched(os, 'makedirs', fake):
        try:
            r = fu.ensure_tree(path, **kw)
            res = 'returned' if r is None else 'returned %r' % (r,)
        except BaseException as e:
            res = 'raised %s%s' % (canon_exc(e), '' if e is exc else ' (a different exception object)')
    return res, calls, path


def impl_ensure(sc, case):
    return run_ensure(sc, case)[0]


def line_ensure(case):
    return req('ensure', mspec(case['exc']), 1 if case['pathkind'] == 'dir' else 0)


def oracle_ensure(sc, case):
    res, calls, path = run_ensure(sc, case)
    spec = case['exc']
    ok = spec == 'ok' or (mspec(spec) == 'os:%d' % errno.EEXIST and case['pathkind'] == 'dir')
    want = 'returned' if ok else 'raised ' + canon_exc(make_exc(spec))
    if res != want:
        return 'makedirs outcome %s on a %s path: ensure_tree %s, expected %s' % (spec, case['pathkind'], res, want)
    mode = 0o777 if case.get('mode') is None else case['mode']
    if len(calls) != 1 or calls[0][0][:1] != (path,) or (list(calls[0][0][1:]) + list(calls[0][1].values())) != [mode]:
        return 'os.makedirs was not called exactly once with (path, mode=%o): %r' % (mode, calls)
    return None


def run_delete(sc, case):
    fu = fileutils()
    path = make_path(sc, 'file')
    exc = make_exc(case['exc'])
    calls = []

    def fake(*a, **k):
        calls.append((a, k))
        if exc is not None:
            raise exc
    try:
        if case.get('via') == 'default':
            f = fu.delete_if_exists
            old = f.__defaults__
            f.__defaults__ = (fake,)
            try:
                r = f(path)
            finally:
                f.__defaults__ = old
        else:
            r = fu.delete_if_exists(path, remove=fake)
        res = 'returned' if r is None else 'returned %r' % (r,)
    except BaseException as e:
        res = 'raised %s%s' % (canon_exc(e), '' if e is exc else ' (a different exception object)')
    return res, calls, path


def impl_delete(sc, case):
    return run_delete(sc, case)[0]


def line_delete(case):
    return req('delete', mspec(case['exc']))


def oracle_delete(sc, case):
    res, calls, path = run_delete(sc, case)
    spec = case['exc']
    ok = mspec(spec) in ('ok', 'os:%d' % errno.ENOENT)
    want = 'returned' if ok else 'raised ' + canon_exc(make_exc(spec))
    if res != want:
        return 'remove outcome %s: delete_if_exists %s, expected %s' % (spec, res, want)
    if calls != [((path,), {})]:
        return 'remove was not called exactly once with the path: %r' % (calls,)
    return None


def run_rpoe(sc, case):
    """remove_path_on_error(path) with its default remover delete_if_exists, whose own default remover is replaced
    by a stub raising the injected exception"""
    fu = fileutils()
    path = make_path(sc, 'file')
    exc = make_exc(case['exc'])
    body = make_exc(case.get('body', 'ok'))
    calls = []

    def fake(*a, **k):
        calls.append((a, k))
        if exc is not None:
            raise exc
    f = fu.delete_if_exists
    old = f.__defaults__
    f.__defaults__ = (fake,)
    try:
        with quiet_logging():
            with fu.remove_path_on_error(path):
                if body is not None:
                    raise body
        res = 'returned'
    except BaseException as e:
        res = 'raised ' + canon_exc(e)
        if e is body:
            res += ' [body]'
        elif e is not exc:
            res += ' (a different exception object)'
    finally:
        f.__defaults__ = old
    return res, calls, path


def oracle_rpoe(sc, case):
    res, calls, path = run_rpoe(sc, case)
    body, spec = case.get('body', 'ok'), case['exc']
    if body == 'ok':
        want, ncalls = 'returned', 0
    elif mspec(spec) in ('ok', 'os:%d' % errno.ENOENT):
        want, ncalls = 'raised %s [body]' % canon_exc(make_exc(body)), 1
    else:
        want, ncalls = 'raised ' + canon_exc(make_exc(spec)), 1
    if res != want:
        return 'block raises %s, remover outcome %s: remove_path_on_error %s, expected %s' % (body, spec, res, want)
    if len(calls) != ncalls:
        return 'the remover was called %d times, expected %d' % (len(calls), ncalls)
    return None


def spy(real, log):
    def f(*a, **k):
        try:
            r = real(*a, **k)
        except BaseException as e:
            log.append(e)
            raise
        log.append(None)
        return r
    return f


def outcome_spec(e):
    if e is None:
        return 'ok'
    if isinstance(e, OSError):
        return 'os:%s' % ('N' if e.errno is None else e.errno)
    if isinstance(e, ValueError):
        return 'val'
    return 'other:%s' % OTHER_TAGS.get(type(e).__name__, 0)


REMOVERS = {'unlink': os.unlink, 'rmdir': os.rmdir, 'rmtree': shutil.rmtree}


def ref_call(fn, *a):
    """what the operating system itself says: the exception, or None"""
    try:
        fn(*a)
    except Exception as e:
        return e
    return None


class _Sink:
    def write(self, text):
        return len(text)

    def flush(self):
        pass


@contextlib.contextmanager
def quiet_logging():
    """save_and_reraise_exception logs the dropped exception on the ROOT logger.  Neither a level, nor
    logging.disable, nor a filter is touched (the logging configuration is an input under the ambient sweep):
    while the call runs the root logger only gets one more handler, which renders the record into a sink - that
    keeps logging's last-resort handler off stderr when nothing else is configured."""
    import logging
    root = logging.getLogger()
    h = logging.StreamHandler(_Sink())
    h.setFormatter(logging.Formatter('%(asctime)s %(name)s %(levelname)s %(message)s'))
    root.addHandler(h)
    try:
        yield
    finally:
        root.removeHandler(h)


def run_fs(sc, case):
    """The real function twice on a real path p.  Before each call the underlying OS call alone (os.makedirs /
    the real remover, called directly) is made on a twin path q built the same way: its outcome is what the
    function has to decide on, and q's state is what p's state has to be afterwards.
    -> (observed string, [(OS outcome, isdir(q), state of q)] per call)"""
    fu = fileutils()
    op, kind, depth = case['op'], case['kind'], case.get('depth', 1)
    p0 = make_path(sc, kind, depth)
    q0 = make_path(sc, kind, depth)
    rp, rq = sc.roots.get(p0), sc.roots.get(q0)
    rel = case.get('rel') if rp else None
    cwd = os.getcwd()

    # relpath() normalises: re-spell by hand so that the '..' / '.' / '//' elements survive
    def respell(path, root):
        if not rel:
            return path
        tail = path[len(root) + 1:]
        return tail if rel == 'plain' else os.path.join('..', os.path.basename(root), tail)
    p, q = as_ptype(respell(p0, rp), case.get('ptype')), as_ptype(respell(q0, rq), case.get('ptype'))
    rm = case.get('remove', 'default')
    real = REMOVERS.get(rm, os.unlink)
    seen, parts = [], []
    for _ in range(2):
        log = []
        body = make_exc(case.get('body', 'ok')) if op == 'fs_rpoe' else None
        if rel:
            os.chdir(rq)
        if op == 'fs_ensure':
            ref = ref_call(os.makedirs, q, 0o777)
        elif op == 'fs_rpoe' and body is None:
            ref = None                                          # the remover is not to be called at all
        else:
            ref = ref_call(real, q)
        if rel:
            os.chdir(rp)
        try:
            if op == 'fs_ensure':
                with patched(os, 'makedirs', spy(os.makedirs, log)):
                    fu.ensure_tree(p)
            elif op == 'fs_rpoe':
                with quiet_logging():
                    with fu.remove_path_on_error(p):
                        if body is not None:
                            raise body
            elif rm == 'default':
                fu.delete_if_exists(p)                          # the default remover, bound at def time
            elif rm == 'direct':
                fu.delete_if_exists(p, remove=os.unlink)        # the very same function, passed explicitly
            else:
                fu.delete_if_exists(p, remove=spy(real, log))
            res = 'returned'
        except BaseException as e:
            res = 'raised ' + canon_exc(e)
            if body is not None and e is body:
                res += ' [body]'
            elif log and e is not log[-1]:                      # makedirs is recursive: outermost outcome is last
                res += ' (a different exception object)'
        os.chdir(cwd)
        diff = ''
        if rp:                                                  # everything the call created or removed, anywhere
            tp, tq = tree(rp), tree(rq)
            if tp != tq:
                diff = 'entries %r instead of %r' % (sorted(set(tp) - set(tq)), sorted(set(tq) - set(tp)))
        seen.append((outcome_spec(ref), os.path.isdir(q0), state_of(q0), diff, os.path.isdir(p0)))
        parts += [res, state_of(p0)]
    return '|'.join(parts), seen


FS_MODEL_KINDS = ('missing', 'dir', 'file')
FS_MODEL_REMOVERS = ('unlink', 'default', 'direct')


def fs_expected(case, spec, isdir):
    """the property, on the outcome of the OS call: what the function must do"""
    op = case['op']
    if op == 'fs_ensure':
        ok = spec == 'ok' or (spec == 'os:%d' % errno.EEXIST and isdir)
    else:
        ok = spec in ('ok', 'os:%d' % errno.ENOENT)              # only not-found is swallowed
    if op == 'fs_rpoe':
        body = case.get('body', 'ok')
        if body == 'ok':
            return 'returned'
        return 'raised %s [body]' % canon_exc(make_exc(body)) if ok else 'raised ' + canon_exc(make_exc(spec))
    return 'returned' if ok else 'raised ' + canon_exc(make_exc(spec))


def oracle_fs(sc, case):
    obs, seen = run_fs(sc, case)
    parts = obs.split('|')
    r1, s1, r2, s2 = parts
    kind, op = case['kind'], case['op']
    what = {'fs_ensure': 'ensure_tree', 'fs_delete': 'delete_if_exists(remove=%s)' % case.get('remove', 'default'),
            'fs_rpoe': 'remove_path_on_error(body raises %s)' % case.get('body', 'ok')}[op]
    for k, (spec, isdir, qstate, treediff, isdir_p) in enumerate(seen):
        res, st = parts[2 * k], parts[2 * k + 1]
        if op == 'fs_ensure' and res == 'returned' and isdir and not isdir_p:
            # stated relative to the OS reference: where the bare os.makedirs leaves a directory at the given path
            return '%s on a %s path (depth %s%s), call %d: returned, but the given path is not a directory afterwards (after the bare os.makedirs it is)' % (
                what, kind, case.get('depth', 1), ', %s-relative' % case['rel'] if case.get('rel') else '', k + 1)
        if treediff:
            return '%s on a %s path (depth %s), call %d: compared with the OS call alone the tree has %s' % (
                what, kind, case.get('depth', 1), k + 1, treediff)
        want = fs_expected(case, spec, isdir)
        if res != want:
            return ('%s on a %s path, call %d: the OS call alone gives %s%s, so it must be "%s" but it %s'
                    % (what, kind, k + 1, spec, ' (isdir=%s)' % isdir if op == 'fs_ensure' else '', want, res))
        if st != qstate:
            return '%s on a %s path, call %d: path is %s afterwards, the OS call alone leaves it %s' % (
                what, kind, k + 1, st, qstate)
    # anchors that do not depend on the twin: the "already done" clauses
    if op == 'fs_ensure':
        if kind in ('missing', 'dir', 'symlink-dir', 'missing-trailing-slash'):
            if (r1, r2) != ('returned', 'returned'):
                return 'ensure_tree on a %s path (depth %s): %s' % (kind, case.get('depth', 1), obs)
        elif kind in ('file', 'symlink-file', 'symlink-dangling', 'under-file', 'under-file-deep', 'embedded-nul') and \
                not (r1.startswith('raised ') and r2 == r1 and s1 == s2):
            return 'ensure_tree on a %s path must keep raising the OS error and leave the path alone: %s' % (kind, obs)
    elif op == 'fs_delete':
        if kind in ('missing', 'file', 'symlink-file', 'symlink-dangling', 'symlink-dir', 'symlink-loop') and \
                case.get('remove', 'default') in FS_MODEL_REMOVERS:
            if (r1, r2, s1, s2) != ('returned', 'returned', 'missing', 'missing'):
                return 'delete_if_exists on a %s path: %s' % (kind, obs)
        elif kind == 'missing' and (r1, r2) != ('returned', 'returned'):
            return 'delete_if_exists(remove=%s) on a missing path: %s' % (case.get('remove'), obs)
        elif kind in ('under-file', 'under-file-deep', 'file-trailing-slash', 'name-too-long', 'embedded-nul') and \
                (r1 == 'returned' or r2 == 'returned'):
            return '%s on a %s path swallowed the error of the remover: %s' % (what, kind, obs)
    return None


ERROR_KINDS = ('under-file', 'under-file-deep', 'file-trailing-slash', 'name-too-long', 'name-too-long-middle',
               'path-too-long', 'through-symlink-loop', 'embedded-nul', 'under-dangling-symlink', 'nonempty-dir',
               'unsearchable-parent')
PLAIN_KINDS = ('missing', 'file', 'dir', 'symlink-file', 'symlink-dangling', 'symlink-dir', 'symlink-loop')


def gen_fs(ctx):
    out = []
    depths = range(1, 6) if ctx.quick else range(1, 13)
    for d in depths:
        out.append(({'op': 'fs_ensure', 'kind': 'missing', 'depth': d}, 'fs/ensure/missing-depth'))
    for k in PLAIN_KINDS[1:] + ('missing-trailing-slash',) + ERROR_KINDS:
        out.append(({'op': 'fs_ensure', 'kind': k}, 'fs/ensure/' + k))
    for mode in ('700', '1777', '555', '0', '2750'):
        out.append(({'op': 'fs_ensure', 'kind': 'dir-mode-' + mode}, 'fs/ensure/existing-dir-mode'))
    for k in PLAIN_KINDS + ERROR_KINDS:
        for rm in ('default', 'direct', 'unlink', 'rmdir', 'rmtree'):
            out.append(({'op': 'fs_delete', 'kind': k, 'remove': rm}, 'fs/delete/%s/%s' % (rm, k)))
        for body in ('ok', 'val', 'other:2', 'os:13', 'os:2'):
            out.append(({'op': 'fs_rpoe', 'kind': k, 'body': body}, 'fs/remove_path_on_error/%s/%s' % (body.split(':')[0], k)))
    for ptype in PTYPES[1:]:                                    # path argument types
        for k in ('missing', 'file', 'dir', 'under-file', 'name-too-long', 'embedded-nul'):
            out.append(({'op': 'fs_ensure', 'kind': k, 'ptype': ptype}, 'fs/ensure/path=' + ptype))
            out.append(({'op': 'fs_delete', 'kind': k, 'remove': 'default', 'ptype': ptype}, 'fs/delete/path=' + ptype))
            out.append(({'op': 'fs_rpoe', 'kind': k, 'body': 'val', 'ptype': ptype}, 'fs/remove_path_on_error/path=' + ptype))
    # legal paths that are not in lexical normal form ('..', '.', '//', trailing slash after a missing chain, a
    # regular file, a directory, a symlink, a dangling symlink), absolute and relative to the current directory
    for anchor in SP_ANCHORS:
        for suffix in SP_SUFFIXES:
            k = 'sp:%s:%s' % (anchor, suffix)
            for depth in ((1, 2, 4) if ctx.quick else range(1, 9)) if anchor == 'missing' else (1,):
                for rel in (None, 'plain', 'updown'):
                    c = {'op': 'fs_ensure', 'kind': k, 'depth': depth}
                    if rel:
                        c['rel'] = rel
                    out.append((c, 'fs/ensure/spelling/%s%s' % (anchor, '/relative' if rel else '')))
                out.append(({'op': 'fs_delete', 'kind': k, 'depth': depth, 'remove': 'default'}, 'fs/delete/spelling/' + anchor))
                out.append(({'op': 'fs_delete', 'kind': k, 'depth': depth, 'remove': 'rmdir', 'rel': 'plain'},
                            'fs/delete/spelling/' + anchor))
                out.append(({'op': 'fs_rpoe', 'kind': k, 'depth': depth, 'body': 'val'}, 'fs/remove_path_on_error/spelling/' + anchor))
    for ptype in PTYPES[1:]:
        out.append(({'op': 'fs_ensure', 'kind': 'sp:missing:dotdot-leaf', 'depth': 2, 'ptype': ptype}, 'fs/ensure/path=' + ptype))
    for d in (2, 4):
        for rm in ('default', 'direct'):
            out.append(({'op': 'fs_delete', 'kind': 'missing', 'depth': d, 'remove': rm}, 'fs/delete/%s/missing' % rm))
        out.append(({'op': 'fs_rpoe', 'kind': 'missing', 'depth': d, 'body': 'val'}, 'fs/remove_path_on_error/val/missing'))
    return out


def gen_decisions(ctx):
    out = []
    kinds = ('dir', 'missing') if ctx.quick else ('dir', 'missing', 'file')
    for spec in ['ok'] + exc_specs():
        for k in kinds:
            out.append(({'op': 'ensure', 'exc': spec, 'pathkind': k}, 'ensure/inject'))
        out.append(({'op': 'delete', 'exc': spec, 'via': 'arg'}, 'delete/inject'))
        if not ctx.quick or '@' in spec or spec in ('ok', 'os:2', 'os:13', 'os:17', 'val'):
            out.append(({'op': 'delete', 'exc': spec, 'via': 'default'}, 'delete/inject-default'))
    for spec in ['ok'] + exc_specs():
        if '@' in spec or not ctx.quick or spec in ('ok', 'os:2', 'os:13', 'os:17', 'os:N', 'val'):
            for body in ('val', 'os:2@user', 'ok') if spec in ('ok', 'os:2', 'os:13', 'os:2@user', 'os:N@fnf') else ('val',):
                out.append(({'op': 'rpoe', 'exc': spec, 'body': body}, 'remove_path_on_error/inject'))
    out.append(({'op': 'ensure', 'exc': 'ok', 'pathkind': 'missing', 'mode': 0o700}, 'ensure/inject'))
    out.append(({'op': 'ensure', 'exc': 'os:17', 'pathkind': 'dir', 'mode': 0o750}, 'ensure/inject'))
    return out


# --------------------------------------------------------------------------
# write_to_tempfile (search only)

def oracle_tempfile(sc, case):
    fu = fileutils()
    base = sc.fresh('t')
    os.makedirs(base)
    data = content(case['size'], case['seed'])
    ctype = case.get('ctype', 'bytes')
    obj = build_content(ctype, data)
    if obj is None:
        return None                                              # no object of this type has this size
    accepts = write_accepts(sc, obj)                              # os.write alone: does it take the object?
    where = case['where']
    prefix, suffix = case.get('prefix'), case.get('suffix')
    kw = {}
    if prefix is not None:
        kw['prefix'] = prefix
    if suffix is not None:
        kw['suffix'] = suffix
    if where == 'existing':
        d = base
    elif where == 'missing':
        d = os.path.join(base, *['m%d' % i for i in range(case.get('depth', 1))])
    elif where in TEMP_WHERE_SPELLINGS:
        d = spelled_dir(base, where, case.get('depth', 1))
    else:
        d = None if where == 'none' else ''
    target = d if d else base                                   # path='' means the current directory: chdir there
    if os.path.isdir(target):
        for i in range(3):                                     # files already there
            with open(os.path.join(target, (prefix or 'tmp') + 'old%d' % i + (suffix or '')), 'wb') as f:
                f.write(b'old%d' % i)
    before = {n: open(os.path.join(target, n), 'rb').read() for n in os.listdir(target)} if os.path.isdir(target) else {}
    if case.get('dirmode') and os.path.isdir(target):
        os.chmod(target, int(case['dirmode'], 8))
    mode_before = stat.S_IMODE(os.stat(target).st_mode) if os.path.isdir(target) else None
    made = []
    cwd = os.getcwd()
    with patched(tempfile, 'tempdir', base):                    # path=None / '' must not leak outside the scratch dir
        os.chdir(base)
        try:
            dd = as_ptype(d, case.get('ptype')) if d else d
            for _ in range(2):
                try:
                    made.append(fu.write_to_tempfile(obj, **({'path': dd} if where != 'omitted' else {}), **kw))
                except Exception as e:
                    if accepts == 'ok':
                        return 'write_to_tempfile(%s content of %d bytes) raised %s: %s' % (
                            ctype, len(data), type(e).__name__, e)
                    made.append(None)
        finally:
            os.chdir(cwd)
    if accepts != 'ok':
        # os.write itself refuses the object (non-contiguous view): outside "holding exactly the content", but
        # whatever happens no file may hold anything other than the content
        if os.path.isdir(target):
            for n in set(os.listdir(target)) - set(before):
                got = open(os.path.join(target, n), 'rb').read()
                if got not in (b'', data):
                    return ('%s content (%d bytes, refused by os.write): the new file holds %d other bytes %r'
                            % (ctype, len(data), len(got), got[:40]))
        return None
    made = [os.path.join(base, os.fsdecode(p)) for p in made]
    if not os.path.isdir(target):
        return 'directory %s was not created' % where
    if mode_before is not None and stat.S_IMODE(os.stat(target).st_mode) != mode_before:
        return 'the existing directory had mode %o, after write_to_tempfile it has %o' % (
            mode_before, stat.S_IMODE(os.stat(target).st_mode))
    if made[0] == made[1]:
        return 'two calls returned the same path'
    for p in made:
        name = os.path.basename(p)
        if os.path.realpath(os.path.dirname(p)) != os.path.realpath(target):
            return 'file created in %s, expected directory %s' % (os.path.dirname(p), target)
        if name in before:
            return 'an existing file was reused: ' + name
        if not name.startswith(prefix if prefix is not None else 'tmp') or not name.endswith(suffix or ''):
            return 'name %r does not carry prefix %r / suffix %r' % (name, prefix, suffix)
        if not os.path.isfile(p) or os.path.islink(p):
            return 'not a regular file: ' + name
        got = open(p, 'rb').read()
        if got != data:
            return ('%s content of %d bytes: the file holds %d bytes %r, expected exactly the content %r'
                    % (ctype, len(data), len(got), got[:40], data[:20]))
    for n, old in before.items():
        if open(os.path.join(target, n), 'rb').read() != old:
            return 'existing file %s was modified' % n
    if set(os.listdir(target)) != set(before) | {os.path.basename(p) for p in made}:
        return 'unexpected directory entries: %r' % sorted(set(os.listdir(target)) - set(before))
    return None


def chunk_multiple_sizes(ctx):
    """the property's own size domain: k*c-1, k*c, k*c+1 around every chunk-size multiple"""
    by = checksum_sizes(3 if ctx.quick else 5)
    return sorted({x for c in (64, 4096, 65536) for x in by[c] if x > 8})


def gen_tempfile(ctx):
    out = []
    for ctype in CTYPES:                                         # every content type at the chunk multiples
        for size in chunk_multiple_sizes(ctx):
            out.append({'op': 'tempfile', 'size': size, 'seed': 6, 'where': 'existing', 'depth': 0,
                        'prefix': None, 'suffix': None, 'ctype': ctype})
    for mode in ('700', '1777', '2750'):                         # an existing directory keeps its permission bits
        out.append({'op': 'tempfile', 'size': 9, 'seed': 6, 'where': 'existing', 'depth': 0, 'prefix': None,
                    'suffix': None, 'dirmode': mode})
    for where in TEMP_WHERE_SPELLINGS:                           # directory arguments not in normal form
        for depth in (1, 2, 4) if ctx.quick else range(1, 9):
            out.append({'op': 'tempfile', 'size': 9, 'seed': 6, 'where': where, 'depth': depth,
                        'prefix': None, 'suffix': None})
    for size in (0, 1, 100, 70000):
        for where, depth in [('existing', 0), ('none', 0), ('empty', 0), ('omitted', 0)] + \
                [('missing', d) for d in ((1, 3) if ctx.quick else range(1, 9))]:
            for prefix, suffix in ((None, None), ('pre-', '.conf'), ('', '')):
                out.append({'op': 'tempfile', 'size': size, 'seed': 3, 'where': where, 'depth': depth,
                            'prefix': prefix, 'suffix': suffix})
    # every bytes-like content type x sizes (incl. 0) x where the file goes
    for ctype in CTYPES:
        for size in (0, 1, 2, 7, 8, 4096, 70000) if ctx.quick else (0, 1, 2, 3, 4, 7, 8, 64, 4096, 65536, 70000, 300000):
            for where, depth in (('existing', 0), ('missing', 2), ('none', 0)):
                out.append({'op': 'tempfile', 'size': size, 'seed': 5, 'where': where, 'depth': depth,
                            'prefix': None, 'suffix': None, 'ctype': ctype})
    # path argument types
    for ptype in ('pathlib', 'fspath'):
        for where, depth in (('existing', 0), ('missing', 1), ('missing', 3)):
            for ctype in ('bytes', 'bytearray'):
                out.append({'op': 'tempfile', 'size': 9, 'seed': 5, 'where': where, 'depth': depth,
                            'prefix': None, 'suffix': '.x', 'ctype': ctype, 'ptype': ptype})
    return out


# write_to_tempfile against the model: the three calls it makes are observed (or made to fail) inside the harness
# process; the model decides on their outcomes and on the bytes the content object exposes

def run_tmpw(sc, case):
    """-> (canonical observation, model request line) or None when no such object exists"""
    fu = fileutils()
    data = content(case['size'], case['seed'])
    obj = build_content(case.get('ctype', 'bytes'), data)
    if obj is None:
        return None
    base = sc.fresh('w')
    os.makedirs(base)
    where = case['where']
    if where == 'existing':
        d = base
    elif where == 'missing':
        d = os.path.join(base, *['m%d' % i for i in range(case.get('depth', 1))])
    elif where == 'under-file':
        with open(os.path.join(base, 'plain'), 'wb') as f:
            f.write(b'x')
        d = os.path.join(base, 'plain', 'sub')
    elif where in TEMP_WHERE_SPELLINGS:
        d = spelled_dir(base, where, case.get('depth', 1))
    else:
        d = None if where == 'none' else ''
    dd = as_ptype(d, case.get('ptype')) if d else d
    short = case.get('short')
    inj = case.get('inject') or {}
    excs = {k: make_exc(v) for k, v in inj.items()}
    real = {'ensure': fu.ensure_tree, 'mk': tempfile.mkstemp, 'wr': os.write, 'close': os.close}
    log = {'ensure': [], 'mk': [], 'wr': [], 'close': []}
    made = []

    def wrap(step):
        def f(*a, **k):
            if step == 'wr' and not (made and a and a[0] == made[0][0]):
                return real[step](*a, **k)                       # not the descriptor under test
            if step in excs:
                log[step].append(excs[step])
                raise excs[step]
            if step == 'wr' and short is not None and not log['wr']:
                # write(2) may transfer fewer bytes than asked: transfer `short` of them and say so
                log['wr'].append('short:%d' % short)
                return real['wr'](a[0], memoryview(a[1]).cast('B')[:short]) if short else 0
            try:
                r = real[step](*a, **k)
            except BaseException as e:
                log[step].append(e)
                raise
            log[step].append(None)
            if step == 'mk':
                made.append(r)
            return r
        return f

    def close(fd):
        log['close'].append(fd)
        return real['close'](fd)
    cwd = os.getcwd()
    with patched(fu, 'ensure_tree', wrap('ensure')), patched(tempfile, 'mkstemp', wrap('mk')), \
            patched(os, 'write', wrap('wr')), patched(os, 'close', close), patched(tempfile, 'tempdir', base):
        os.chdir(base)
        try:
            r = fu.write_to_tempfile(obj, **({'path': dd} if where != 'omitted' else {}))
            res = 'returned' if made and os.fsdecode(r) == os.fsdecode(made[0][1]) else 'returned %r' % (r,)
        except BaseException as e:
            res = 'raised ' + canon_exc(e)
            if any(e is not x for x in excs.values()) and any(canon_exc(x) == canon_exc(e) for x in excs.values()) \
                    and not any(e is x for x in excs.values()):
                res += ' (a different exception object)'
        finally:
            os.chdir(cwd)
    if made:
        path = os.path.join(base, os.fsdecode(made[0][1]))
        try:
            file = hexb(open(path, 'rb').read())
        except OSError:
            file = 'none'
        closed = int(made[0][0] in log['close'])
    else:
        file, closed = 'none', 0
    obs = squash('%s ensure=%d file=%s closed=%d' % (res, int(bool(log['ensure'])), file, closed))
    spec = {k: (log[k][-1] if isinstance(log[k][-1], str) else outcome_spec(log[k][-1])) if log[k] else 'ok'
            for k in ('ensure', 'mk', 'wr')}
    line = req('tmp', hexb(data), int(bool(d)), spec['ensure'], spec['mk'], spec['wr'])
    return obs, line


def squash(text):
    """`file=<hex>` of more than 4 KiB -> digest and length (both sides of the comparison go through this)"""
    head, sep, rest = text.partition(' file=')
    if not sep:
        return text
    file, sep2, tail = rest.partition(' closed=')
    if len(file) > 8192:
        raw = bytes.fromhex(file)
        file = 'sha1:%s:%d' % (hashlib.sha1(raw).hexdigest(), len(raw))
    return head + sep + file + sep2 + tail


# ('..' right after a symlink is left to the ensure_tree family: tempfile.mkstemp itself abspath()s `dir`)
TEMP_WHERE_SPELLINGS = ('missing-dotdot', 'missing-dot', 'missing-slashes', 'missing-trailing-slash',
                        'existing-dotdot')


def spelled_dir(base, where, depth):
    """a directory argument that is legal but not in lexical normal form"""
    w = os.path.join(base, 'w')
    os.makedirs(w)
    ms = ['m%d' % i for i in range(max(1, depth))]
    if where == 'missing-dotdot':
        return os.path.join(w, *(ms + ['..'] * len(ms) + ['leaf']))
    if where == 'missing-dot':
        return os.path.join(w, '.', *[x for m in ms for x in (m, '.')])
    if where == 'missing-slashes':
        return w + '//' + '//'.join(ms) + '//'
    if where == 'missing-trailing-slash':
        return os.path.join(w, *ms) + os.sep
    if where == 'existing-dotdot':
        os.makedirs(os.path.join(w, 'there'))
        return os.path.join(w, 'there', '..', *ms)
    raise ValueError(where)


def gen_tmpw(ctx):
    out = []
    sizes = (0, 1, 2, 7, 4096, 70000) if ctx.quick else (0, 1, 2, 3, 4, 7, 8, 64, 4096, 65536, 70000, 300000)
    for ctype in CTYPES:
        for size in sizes:
            for where, depth in (('existing', 0), ('missing', 2), ('none', 0)) + \
                    ((('empty', 0), ('omitted', 0)) if size <= 2 else ()):
                out.append(({'op': 'tmpw', 'size': size, 'seed': 4, 'where': where, 'depth': depth, 'ctype': ctype},
                            'write_to_tempfile/content=' + ctype))
    for ctype in CTYPES:                                         # every content type at the chunk multiples
        for size in chunk_multiple_sizes(ctx):
            out.append(({'op': 'tmpw', 'size': size, 'seed': 6, 'where': 'existing', 'depth': 0, 'ctype': ctype},
                        'write_to_tempfile/chunk-multiple/' + ctype))
    for where in TEMP_WHERE_SPELLINGS:
        for depth in (1, 3):
            out.append(({'op': 'tmpw', 'size': 5, 'seed': 4, 'where': where, 'depth': depth, 'ctype': 'bytes'},
                        'write_to_tempfile/dir=' + where))
    for ctype in ('bytes', 'bytearray', 'memoryview', 'array-wide'):     # os.write transfers fewer bytes than asked
        for size, shorts in ((8, (0, 1, 4, 7, 8)), (65536, (0, 4096, 65535)), (131073, (65536, 131072))):
            for n in shorts:
                out.append(({'op': 'tmpw', 'size': size, 'seed': 4, 'where': 'existing', 'ctype': ctype, 'short': n},
                            'write_to_tempfile/short-write'))
    for ptype in PTYPES[2:]:
        for where, depth in (('existing', 0), ('missing', 3)):
            out.append(({'op': 'tmpw', 'size': 5, 'seed': 4, 'where': where, 'depth': depth, 'ctype': 'bytearray',
                         'ptype': ptype}, 'write_to_tempfile/path=' + ptype))
    for ctype in ('bytes', 'bytearray', 'memoryview'):
        out.append(({'op': 'tmpw', 'size': 6, 'seed': 4, 'where': 'under-file', 'ctype': ctype},
                     'write_to_tempfile/ensure_tree-fails'))
        for step in ('ensure', 'mk', 'wr'):
            for spec in ('os:13', 'os:28', 'os:17', 'os:2', 'os:N', 'val', 'other:2'):
                for where in ('existing', 'none'):
                    out.append(({'op': 'tmpw', 'size': 6, 'seed': 4, 'where': where, 'ctype': ctype,
                                 'inject': {step: spec}}, 'write_to_tempfile/inject-' + step))
    return out


def oracle_tmpw(sc, case):
    """the property on one observed run: nothing but the content ever ends up in the file; when all calls succeed
    the file holds exactly the content; an injected failure escapes unchanged"""
    r = run_tmpw(sc, case)
    if r is None:
        return None
    obs = r[0]
    data = content(case['size'], case['seed'])
    res, _, rest = obs.partition(' ensure=')
    file = rest.split(' file=')[1].split(' closed=')[0]
    inj = case.get('inject') or {}
    want = squash(' file=%s closed=' % hexb(data)).split(' file=')[1].split(' closed=')[0]
    if res == 'returned' and file != want:
        # whenever the call returns, the file holds exactly the content - also when os.write transferred only part
        # of it (then the rest has to be written, or the call has to raise)
        return '%s content of %d bytes%s: write_to_tempfile returned and the file holds %s, expected exactly the content' % (
            case.get('ctype', 'bytes'), len(data),
            '' if case.get('short') is None else ' (os.write transfers %d bytes)' % case['short'],
            file if file.startswith('sha1:') else '%d bytes %r' % (len(common.unhexb(file)), common.unhexb(file)[:40]))
    if file not in ('none', '-', want) and case.get('short') is None:
        return '%s content of %d bytes: the file holds other bytes (%s)' % (case.get('ctype', 'bytes'), len(data), file[:60])
    for step, spec in inj.items():
        if step == 'ensure' and case['where'] in ('none', 'empty', 'omitted'):
            continue
        if res != 'raised ' + canon_exc(make_exc(spec)):
            return '%s failed with %s; write_to_tempfile %s' % (step, spec, res)
    if file != 'none' and not rest.endswith('closed=1'):
        return 'the descriptor of the new file was left open'
    return None


# --------------------------------------------------------------------------
# call sequences on the real file system: the helpers keep no memory, so every call - also the n-th with the same
# path string - is judged on the state of the file system at that moment (bare OS call on the twin tree)

SEQ_DIRS = {'D1': ('x', 'y', 'z'), 'D2': ('x',), 'D3': ('x', 'y')}
SEQ_STEPS = ('W:D1', 'W:D2', 'E:D1', 'X:D1', 'R:D1', 'R:D2', 'F:D1', 'F:D3', 'T:D1', 'C')


def run_seq(sc, case):
    """-> list of records {'step', 'res', 'line' (model request), 'problem' (property oracle)} for the API calls"""
    fu = fileutils()
    on_disk = sum(map(len, case['steps'])) % 8 == 0 or bool(case.get('disk'))
    rp, rq = sc.fresh('q', on_disk), sc.fresh('q', on_disk)
    tag = os.path.basename(rp)                                  # makes the path strings of this sequence unique
    for r in (rp, rq):
        for c in ('A', 'B'):
            os.makedirs(os.path.join(r, c))
    rel = bool(case.get('rel'))
    cwdname = 'A'
    home = os.getcwd()
    out = []

    def path_of(root, key, *more):
        parts = (tag,) + SEQ_DIRS[key] + more
        return os.path.join(*parts) if rel else os.path.join(root, cwdname, *parts)

    def both(fn):
        for r in (rp, rq):
            os.chdir(os.path.join(r, cwdname))
            fn(r)
        os.chdir(home)

    def rmtree(path):
        if os.path.isdir(path) and not os.path.islink(path):
            shutil.rmtree(path)
        elif os.path.lexists(path):
            os.unlink(path)
    try:
        for i, step in enumerate(case['steps']):
            kind, _, key = step.partition(':')
            if kind == 'C':
                cwdname = 'B' if cwdname == 'A' else 'A'
                continue
            if kind == 'R':
                both(lambda r: rmtree(path_of(r, key)))
                continue
            if kind == 'F':
                def mk(r):
                    pth = path_of(r, key)
                    rmtree(pth)
                    os.makedirs(os.path.dirname(pth), exist_ok=True) if not os.path.lexists(os.path.dirname(pth)) else None
                    if os.path.isdir(os.path.dirname(pth)):
                        with open(pth, 'wb') as f:
                            f.write(b'in the way')
                both(mk)
                continue
            if kind == 'T':
                def touch(r):
                    if os.path.isdir(path_of(r, key)):
                        with open(path_of(r, key, 'victim'), 'wb') as f:
                            f.write(b'v')
                both(touch)
                continue
            rec = {'step': '%d:%s' % (i, step), 'problem': None}
            data = content(9, 100 + i)
            # ---- the bare OS call on the twin tree
            os.chdir(os.path.join(rq, cwdname))
            if kind in ('W', 'E'):
                dq = path_of(rq, key)
                ref = ref_call(os.makedirs, dq, 0o777)
                spec, isdir = outcome_spec(ref), os.path.isdir(dq)
                ok = spec == 'ok' or (spec == 'os:%d' % errno.EEXIST and isdir)
            else:
                ref = ref_call(os.unlink, path_of(rq, key, 'victim'))
                spec, isdir = outcome_spec(ref), False
                ok = spec in ('ok', 'os:%d' % errno.ENOENT)
            want_exc = None if ok else canon_exc(make_exc(spec))
            # ---- the helper on the tree under test
            os.chdir(os.path.join(rp, cwdname))
            if kind == 'E':
                try:
                    fu.ensure_tree(path_of(rp, key))
                    res = 'returned'
                except BaseException as e:
                    res = 'raised ' + canon_exc(e)
                rec.update(res=res, line=req('ensure', spec, int(isdir)))
                if res != ('returned' if ok else 'raised ' + want_exc):
                    rec['problem'] = 'os.makedirs alone gives %s (isdir=%s) at this point, ensure_tree %s' % (spec, isdir, res)
            elif kind == 'X':
                try:
                    fu.delete_if_exists(path_of(rp, key, 'victim'))
                    res = 'returned'
                except BaseException as e:
                    res = 'raised ' + canon_exc(e)
                rec.update(res=res, line=req('delete', spec))
                if res != ('returned' if ok else 'raised ' + want_exc):
                    rec['problem'] = 'os.unlink alone gives %s at this point, delete_if_exists %s' % (spec, res)
            else:
                log = {'ensure': [], 'mk': [], 'close': []}
                real_e, real_m, real_c = fu.ensure_tree, tempfile.mkstemp, os.close

                def f_e(*a, **k):
                    try:
                        r = real_e(*a, **k)
                    except BaseException as e:
                        log['ensure'].append(e)
                        raise
                    log['ensure'].append(None)
                    return r

                def f_m(*a, **k):
                    try:
                        r = real_m(*a, **k)
                    except BaseException as e:
                        log['mk'].append(e)
                        raise
                    log['mk'].append(r)
                    return r

                def f_c(fd):
                    log['close'].append(fd)
                    return real_c(fd)
                dp = path_of(rp, key)
                made = None
                with patched(fu, 'ensure_tree', f_e), patched(tempfile, 'mkstemp', f_m), patched(os, 'close', f_c):
                    try:
                        r = fu.write_to_tempfile(data, path=dp)
                        res = 'returned'
                    except BaseException as e:
                        r = None
                        res = 'raised ' + canon_exc(e)
                if log['mk'] and not isinstance(log['mk'][-1], BaseException):
                    made = log['mk'][-1]
                if made:
                    mpath = os.path.join(os.getcwd(), made[1])
                    file = hexb(open(mpath, 'rb').read()) if os.path.isfile(mpath) else 'none'
                    closed = int(made[0] in log['close'])
                else:
                    file, closed = 'none', 0
                e_spec = outcome_spec(log['ensure'][-1]) if log['ensure'] else 'ok'
                m_spec = 'ok' if made or not log['mk'] else outcome_spec(log['mk'][-1])
                rec.update(res='%s ensure=%d file=%s closed=%d' % (res, int(bool(log['ensure'])), file, closed),
                           line=req('tmp', hexb(data), 1, e_spec, m_spec, 'ok'))
                if ok:
                    if res != 'returned':
                        rec['problem'] = ('the directory can be created at this point (os.makedirs alone: %s), but '
                                          'write_to_tempfile %s' % (spec, res))
                    else:
                        full = os.path.join(os.getcwd(), r)
                        if not os.path.isdir(dp):
                            rec['problem'] = 'write_to_tempfile returned but the directory argument is not a directory'
                        elif os.path.realpath(os.path.dirname(full)) != os.path.realpath(dp):
                            rec['problem'] = 'the file was created in %s, not in the directory argument' % os.path.dirname(r)
                        elif not os.path.isfile(full) or open(full, 'rb').read() != data:
                            rec['problem'] = 'the file does not hold exactly the content'
                        else:                                   # keep the twin in step: same name, same content
                            with open(os.path.join(rq, cwdname, os.path.relpath(full, os.path.join(rp, cwdname))), 'wb') as f:
                                f.write(data)
                elif res != 'raised ' + want_exc:
                    rec['problem'] = ('os.makedirs alone gives %s at this point (not a directory), so that error must come '
                                      'out, but write_to_tempfile %s' % (spec, res))
            os.chdir(home)
            if not rec['problem']:
                tp, tq = tree(rp), tree(rq)
                if tp != tq:
                    rec['problem'] = 'compared with the OS calls alone the tree has entries %r instead of %r' % (
                        sorted(set(tp) - set(tq)), sorted(set(tq) - set(tp)))
            out.append(rec)
            if rec['problem']:
                break
    finally:
        os.chdir(home)
    return out


def oracle_seq(sc, case):
    for rec in run_seq(sc, case):
        if rec['problem']:
            return 'step %s of %s%s: %s' % (rec['step'], ','.join(case['steps']),
                                            ' (paths relative to the current directory)' if case.get('rel') else '',
                                            rec['problem'])
    return None


def gen_seq(ctx, full=False, search=False):
    rng = ctx.rng
    out = []
    # the quick search on an unchanged tree repeats only the shorter sequences (the correspondence has just run all
    # of them up to 3 steps); with the full budget it runs everything again
    maxlen = 2 if (search and ctx.quick and not full) else 3
    for n in range(1, maxlen + 1):
        for steps in itertools.product(SEQ_STEPS, repeat=n):
            if not any(x[0] in 'WEX' for x in steps):
                continue                                         # no API call at all
            for rel in (False, True):
                if rel and 'C' not in steps and n == maxlen and ctx.quick and rng.random() < 0.5:
                    continue
                out.append(({'op': 'seq', 'steps': list(steps), 'rel': rel}, 'seq/exhaustive<=%d%s' % (maxlen, '/relative' if rel else '')))
    for _ in range((250 if ctx.quick else 6000) * (3 if full else 1)):
        n = rng.randrange(4, 10)
        steps = [rng.choice(SEQ_STEPS + ('W:D1', 'W:D1', 'R:D1')) for _ in range(n)]
        out.append(({'op': 'seq', 'steps': steps, 'rel': rng.random() < 0.4}, 'seq/random-long'))
    return out


# --------------------------------------------------------------------------
# dispatch

IMPL = {'checksum': impl_checksum, 'last_bytes': impl_last_bytes, 'ensure': impl_ensure, 'delete': impl_delete,
        'rpoe': lambda sc, c: run_rpoe(sc, c)[0]}
LINE = {'checksum': line_checksum, 'last_bytes': line_last_bytes, 'ensure': line_ensure, 'delete': line_delete,
        'rpoe': lambda c: req('rpoe', 'none' if c.get('body', 'ok') == 'ok' else mspec(c['body']), mspec(c['exc'])),
        'fs_ensure': lambda c: req('fs_ensure', c['kind']), 'fs_delete': lambda c: req('fs_delete', c['kind'])}
ORACLE = {'checksum': oracle_checksum, 'last_bytes': oracle_last_bytes, 'ensure': oracle_ensure,
          'delete': oracle_delete, 'rpoe': oracle_rpoe, 'fs_ensure': oracle_fs, 'fs_delete': oracle_fs, 'fs_rpoe': oracle_fs,
          'tempfile': oracle_tempfile, 'tmpw': oracle_tmpw, 'seq': oracle_seq}


N7 = 'N7'


def is_n7(case):
    return case.get('op') == 'tmpw' and case.get('short') is not None and case['short'] < case['size'] \
        and not case.get('inject')


def is_n6(case):
    return case.get('op') == 'last_bytes' and not case.get('fault') and case['num'] > 2 ** 63


def oracle(sc, case):
    return ORACLE[case['op']](sc, case)


PRECOMPUTED = {}


def compare(ctx, sc, case, tag, reply, out):
    """one correspondence case: implementation vs model reply"""
    op = case['op']
    ctx.evaluations += 1
    ctx.count('corr/' + tag)
    if op in ('fs_ensure', 'fs_delete', 'fs_rpoe'):
        impl, seen = run_fs(sc, case)
        model = reply
        ctx.count('fs/' + impl.split('|')[0].split(' (')[0].split(':')[0])
        ctx.nontrivial(tuple(sorted(case.items())))
        return impl, model, seen
    impl = PRECOMPUTED.pop(id(case), None) if op == 'checksum' else None
    if impl is None:
        impl = IMPL[op](sc, case)
    model = view_checksum(case, reply) if op == 'checksum' else reply
    head = impl.split(' (')[0]
    ctx.count('%s/%s' % (op, 'ok' if head.startswith(('ok', 'returned')) else
                         head.replace('err ', '').replace('raised ', '').split(':')[0]))
    if case.get('fault') or case.get('exc'):
        ctx.count('%s/injected/%s' % (op, (case.get('fault') or case.get('exc')).split(':')[0]))
    nt = (nontrivial_checksum(case, impl) if op == 'checksum' else
          (case['num'] > 0 or bool(case.get('fault'))) if op == 'last_bytes' else case['exc'] != 'ok')
    if nt:
        ctx.nontrivial(tuple(sorted((k, str(v)) for k, v in case.items())))
    seen = ctx.__dict__.setdefault('_sampled', set())
    key = (op, case.get('alg') == 'toy', bool(case.get('fault')),
           'ok' if head.startswith(('ok', 'returned')) else head.split(':')[0], nt)
    if key not in seen:
        seen.add(key)                                              # one written-out case per kind of outcome
        ctx.sample({'case': case, 'implementation': impl[:160], 'model': model[:160]}, 24)
    if impl != model:
        out.append(Disagreement(case, impl[:2000], model[:2000]))
    return impl, model, None


def batches(cases, limit=24 * 2 ** 20):
    cur, n = [], 0
    for c, tag in cases:
        line = LINE[c['op']](c)
        if cur and n + len(line) > limit:
            yield cur
            cur, n = [], 0
        cur.append((c, tag, line))
        n += len(line)
    if cur:
        yield cur


def _features(case, tag=None):
    """the values that must stay represented when a child of the ambient sweep runs part of the cases"""
    spec = case.get('exc') or case.get('fault') or ''
    f = [('tag', '/'.join(tag.split('/')[:2]) if tag else None), ('op', case.get('op')), ('kind', case.get('kind')),
         ('ctype', case.get('ctype')), ('where', case.get('where')), ('ptype', case.get('ptype')),
         ('remove', case.get('remove')), ('via', case.get('via')), ('body', case.get('body')), ('rel', case.get('rel')),
         ('alg', case.get('alg')), ('shape', spec.partition('@')[2] if spec else None),
         ('spec', spec.split(':')[0] if spec else None), ('short', case.get('short') is not None),
         ('steps', len(case['steps']) if 'steps' in case else None), ('big', case.get('size', 0) > 60000),
         ('cs', str(case.get('cs')) if case.get('op') == 'checksum' else None)]
    f += [('inject', k) for k in (case.get('inject') or {})]
    if spec and '@' not in spec and spec in KEEP_SPECS:
        f.append(('named-errno', (case.get('op'), spec, case.get('pathkind'), case.get('via'))))
    return [x for x in f if x[1] is not None]


KEEP_SPECS = ('ok', 'os:%d' % errno.ENOENT, 'os:%d' % errno.EEXIST, 'os:%d' % errno.EINVAL, 'os:N')
AMBIENT_FRACTION = 0.2


def thin(ctx, items, fraction=None):
    """Main run: everything.  In a child of the ambient sweep (ctx.ambient set) about one third: a random part
    (ctx.rng is seeded with the configuration name, so the children together still cover the list), topped up until
    every generator family, operation, path kind, content type, path type, remover, algorithm, chunk argument,
    exception shape, injected call and the errnos the code names are represented.  `items`: cases or (case, tag)."""
    if not getattr(ctx, 'ambient', None):
        return items
    feats = [_features(*(it if isinstance(it, tuple) else (it, None))) for it in items]
    order = list(range(len(items)))
    ctx.rng.shuffle(order)
    n = int(len(items) * (fraction or AMBIENT_FRACTION))
    keep = set(order[:n])
    have = {f for i in keep for f in feats[i]}
    for i in order[n:]:
        if any(f not in have for f in feats[i]):
            keep.add(i)
            have.update(feats[i])
    return [it for i, it in enumerate(items) if i in keep]


def correspondence(ctx):
    out = []
    with Scratch() as sc:
        # 1. the chunk loop: real files, recording toy hash + the real algorithms
        cases = thin(ctx, gen_checksum(ctx))
        groups = {}
        for case, tag in cases:                                 # one request per content: all its chunk arguments
            key = (case['size'], case['seed'], bool(case.get('missing')), case['alg'] == 'nope')
            groups.setdefault(key, {}).setdefault(str(case['cs']), []).append((case, tag))
        pending, volume = [], 0

        def flush():
            # the model driver works on the large contents in a thread of its own while the implementation side runs
            lines = [line_checksum(dict(g, cs=','.join(css))) for g, css in pending]
            box = {}

            def ask():
                try:
                    box['replies'] = ctx.driver.ask_many(lines)
                except BaseException as e:
                    box['error'] = e
            th = threading.Thread(target=ask)
            th.start()
            try:
                for g, css in pending:
                    for cs in css:
                        for case, _ in groups_of[id(g)][cs]:
                            PRECOMPUTED[id(case)] = IMPL['checksum'](sc, case)
            finally:
                th.join()
            if 'error' in box:
                raise box['error']
            replies = box['replies']
            for (g, css), rep in zip(pending, replies):
                parts = rep.split(';')
                if len(parts) != len(css):
                    parts = [rep] * len(css)
                for cs, part in zip(css, parts):
                    for case, tag in groups_of[id(g)][cs]:
                        compare(ctx, sc, case, tag, part, out)
            for key in [k for k in sc.files if isinstance(k, tuple) and k[0] > 20000]:
                sc.drop(key)                                   # keep the scratch directory small
            pending.clear()
        groups_of = {}
        for key, bycs in groups.items():
            first = next(iter(bycs.values()))[0][0]
            groups_of[id(first)] = bycs
            pending.append((first, list(bycs)))
            volume += key[0]
            if volume > 8 * 2 ** 20:
                flush()
                volume = 0
        flush()
        # 2. last_bytes, 3. decision tables
        cases = thin(ctx, gen_last_bytes(ctx) + gen_decisions(ctx))
        for batch in batches(cases):
            replies = ctx.driver.ask_many([l for _, _, l in batch])
            for (case, tag, _), rep in zip(batch, replies):
                compare(ctx, sc, case, tag, rep, out)
        # 4. the real file system: the one-path model (missing/dir/file), and for every scenario the decision
        #    taken on the outcome of the real OS call (made on its own on a twin path, see run_fs) - this is what
        #    ties the default remover, which cannot be replaced by a stub, to the model
        fs = thin(ctx, gen_fs(ctx))
        lines = [LINE[c['op']](c) if c['op'] != 'fs_rpoe' and c['kind'] in FS_MODEL_KINDS and
                 c.get('remove', 'default') in FS_MODEL_REMOVERS else None for c, _ in fs]
        replies = iter(ctx.driver.ask_many([l for l in lines if l]))
        follow, fcases = [], []
        for (case, tag), line in zip(fs, lines):
            rep = next(replies) if line else None
            impl, _, seen = compare(ctx, sc, case, tag, rep, [])
            if rep is not None and impl != rep:
                out.append(Disagreement(case, impl, rep))
            for k, (spec, isdir, *_) in enumerate(seen):
                res = impl.split('|')[2 * k]
                fcases.append((case, k, res, spec))
                if case['op'] == 'fs_ensure':
                    follow.append(req('ensure', spec, int(isdir)))
                elif case['op'] == 'fs_rpoe':
                    follow.append(req('rpoe', 'none' if case['body'] == 'ok' else case['body'], spec))
                else:
                    follow.append(req('delete', spec))
                ctx.count('fs-os-outcome/%s/%s' % (case['op'][3:], spec))
        for (case, k, res, spec), rep in zip(fcases, ctx.driver.ask_many(follow)):
            ctx.evaluations += 1
            if res != rep:
                out.append(Disagreement(dict(case, call=k, os_outcome=spec), res, rep,
                                        where='decision on the outcome of the real OS call'))
        # 6 (run first, before the bulk of part 5). call sequences: every API call of every sequence against the model
        seqs = []
        for case, tag in thin(ctx, gen_seq(ctx), 0.12):
            recs = run_seq(sc, case)
            ctx.evaluations += 1
            ctx.count('corr/' + tag)
            if len(recs) >= 2:
                ctx.nontrivial((tuple(case['steps']), case['rel']))
            seqs += [(case, r) for r in recs]
        uniq = list(dict.fromkeys(r['line'] for _, r in seqs))
        answers = dict(zip(uniq, ctx.driver.ask_many(uniq)))
        for case, r in seqs:
            ctx.count('seq-call/' + r['step'].split(':')[1] + '/' + r['res'].split(' ensure=')[0].split(':')[0])
            if r['res'] != answers[r['line']]:
                out.append(Disagreement(dict(case, at=r['step']), r['res'], answers[r['line']],
                                        where='call inside a sequence, decided on the OS outcomes at that moment'))
        if seqs:
            ctx.sample({'case': seqs[-1][0], 'implementation': [r['res'][:80] for c, r in seqs if c is seqs[-1][0]]}, 60)
        # 5. write_to_tempfile: every bytes-like content type x sizes x path argument, and each of its three calls
        #    made to fail; the model request carries the bytes the object exposes and the outcomes of the calls
        runs = []
        for case, tag in thin(ctx, gen_tmpw(ctx)):
            r = run_tmpw(sc, case)
            if r is not None:
                runs.append((case, tag, r[0], r[1]))
        uniq = list(dict.fromkeys(r[3] for r in runs))              # all content types share one request per content
        answers = dict(zip(uniq, (squash(a) for a in ctx.driver.ask_many(uniq))))
        for case, tag, obs, line in runs:
            rep = answers[line]
            ctx.evaluations += 1
            ctx.count('corr/' + tag)
            ctx.count('tmpw/' + obs.split(' ensure=')[0].split(':')[0])
            if case.get('ctype', 'bytes') != 'bytes' or case.get('inject') or case.get('short') is not None:
                ctx.nontrivial(tuple(sorted((k, str(v)) for k, v in case.items())))
            key = ('tmpw', case.get('ctype'), bool(case.get('inject')), case.get('short') is not None)
            sampled = ctx.__dict__.setdefault('_sampled', set())
            if key not in sampled and case['size'] in (2, 6, 8):
                sampled.add(key)
                ctx.sample({'case': case, 'implementation': obs[:160], 'model': rep[:160]}, 44)
            if obs != rep:
                out.append(Disagreement(case, obs[:600], rep[:600]))
    return out


def shrink(sc, case):
    """smaller failing case of the same kind, by a small grid"""
    op = case['op']
    if op == 'seq':
        steps = common.shrink_list(case['steps'], lambda sub: oracle_seq(sc, dict(case, steps=sub)) is not None, max_steps=120)
        return dict(case, steps=steps)
    if op == 'checksum':
        cs0 = case['cs']
        for cs in [1, 2, 3, 7] + ([cs0] if cs0 not in (1, 2, 3, 7) else []):
            top = 25 if isinstance(cs, int) and cs <= 7 else None
            sizes = range(0, top) if top else \
                ([0, 1] + [k * cs0 + d for k in (1, 2) for d in (-1, 0, 1)] if isinstance(cs0, int) and cs0 > 0 else [0, 1, 2, 70000])
            for s in sizes:
                if s < 0 or s >= case['size'] and cs == cs0:
                    continue
                c = dict(case, size=s, cs=cs)
                if oracle_checksum(sc, c):
                    return c
    if op == 'last_bytes' and not case.get('fault') and not is_n6(case):
        for s in range(0, 7):
            for n in range(0, 9):
                c = dict(case, size=s, num=n)
                if (s, n) < (case['size'], case['num']) and oracle_last_bytes(sc, c):
                    return c
    return case


def gen_search(ctx, full):
    rng = ctx.rng
    cases = []
    # checksum: whole-file digest, chunk sizes around the file size and around divisors of it
    n = (800 if ctx.quick else 15000) * (4 if full else 1)
    for _ in range(n):
        cs = rng.choice(CHUNKS + [3, 5, 100, 1000, rng.randrange(1, 5000)])
        if cs >= 4096 and rng.random() < 0.6:
            cs = rng.choice([1, 2, 7, 64])
        size = max(0, rng.randrange(0, 5) * cs + rng.choice([-1, 0, 0, 1, rng.randrange(0, cs + 1)]))
        cs_arg = rng.choice([cs, cs, cs, size + 1, 'D'])
        cases.append({'op': 'checksum', 'size': size, 'seed': rng.randrange(1, 10 ** 6), 'cs': cs_arg,
                      'alg': rng.choice(ALGS + ['toy'])})
    by = checksum_sizes(3)
    for c in CHUNKS:
        for s in by[c]:
            cases.append({'op': 'checksum', 'size': s, 'seed': 11, 'cs': c, 'alg': 'sha256'})
            cases.append({'op': 'checksum', 'size': s, 'seed': 11, 'cs': 'D', 'alg': 'md5'})
    # last_bytes
    for s in [0, 1, 2, 3, 17, 4096, 70000] + [rng.randrange(0, 3000) for _ in range(20 if ctx.quick else 300)]:
        seed = rng.randrange(1, 10 ** 6)
        for num in dict.fromkeys(last_nums(s) + [rng.randrange(0, s + 2), 2 ** 62, 2 ** 63 + 1, 2 ** 64]):
            if num >= 0:
                cases.append({'op': 'last_bytes', 'size': s, 'seed': seed, 'num': num})
    for spec in exc_specs():
        cases.append({'op': 'last_bytes', 'size': 9, 'seed': 5, 'num': 4, 'fault': spec})
    # errno tables, real file system, write_to_tempfile
    cases += [c for c, _ in gen_decisions(ctx)]
    cases += [c for c, _ in gen_fs(ctx)]
    cases += gen_tempfile(ctx)
    cases += [c for c, _ in gen_tmpw(ctx)]
    cases += [c for c, _ in gen_seq(ctx, full, search=True)]
    # path argument types for the reading helpers
    for ptype in PTYPES[1:]:
        for cs in (1, 7, 'D'):
            cases.append({'op': 'checksum', 'size': 20, 'seed': 13, 'cs': cs, 'alg': 'sha256', 'ptype': ptype})
        for num in (0, 3, 20, 21):
            cases.append({'op': 'last_bytes', 'size': 20, 'seed': 13, 'num': num, 'ptype': ptype})
    return cases


def search(ctx, seeds, full=False):
    fails = []
    listed = {f['id'] for f in common.load_findings().get('findings', []) if ID in f.get('properties', [])}
    kinds = set()
    with Scratch() as sc:
        todo = [s for s in seeds[:300] if isinstance(s, dict) and s.get('op') in ORACLE] + thin(ctx, gen_search(ctx, full))
        for case in todo:
            if is_n7(case) and N7 not in listed:
                # reported to the coordinator; until it is listed the observation is only recorded
                r = run_tmpw(sc, case)
                ctx.count('search/short-write/%s' % ('prefix stored, returned' if r and oracle_tmpw(sc, case) else 'ok'))
                continue
            if is_n6(case) and N6 not in listed:
                # not (yet) listed by the coordinator: record the observation, do not count it against the tree
                r = run_last_bytes(sc, case)
                ctx.count('search/beyond-off_t/%s' % (r[1] if r[0] == 'err' else 'ok'))
                continue
            ctx.evaluations += 1
            ctx.count('search/' + case['op'])
            try:
                why = oracle(sc, case)
            except Exception as e:                              # the oracle itself must never hide a crash
                why = 'oracle crashed: %s: %s' % (type(e).__name__, e)
            if not why:
                continue
            if is_n6(case):
                kind = 'last_bytes beyond off_t'
            elif is_n7(case):
                kind = 'write_to_tempfile short write'
            else:
                kind = case['op'] if case['op'] in ('ensure', 'delete', 'rpoe') else \
                    'write_to_tempfile/content-type' if case.get('ctype', 'bytes') != 'bytes' and not case.get('inject') else '%s/%s' % (
                    case['op'], (':'.join(case['kind'].split(':')[:2]) if case.get('kind') else None) or ('seek-fault' if case.get('fault') else None) or case.get('where') or
                                  ('cs' if case['op'] == 'checksum' else 'n'))
            if kind in kinds:
                continue
            kinds.add(kind)
            small = dict(case, size=min(case['size'], 11)) if is_n6(case) else case if is_n7(case) else shrink(sc, case)
            fails.append(Failure(small, {'kind': kind, 'what': oracle(sc, small) or why}))
            if len([f for f in fails if f.detail['kind'] not in ('last_bytes beyond off_t', 'write_to_tempfile short write')]) >= 5:
                break
    return fails


def classify(ctx, failure, listed_findings):

    if is_n7(failure.case) and any(f['id'] == N7 for f in listed_findings):
        with Scratch() as sc:
            r = run_tmpw(sc, failure.case)
            data = content(failure.case['size'], failure.case['seed'])
            want = squash('returned ensure=1 file=%s closed=1' % hexb(data[:failure.case['short']]))
        if r and r[0] == want:                                   # exactly the listed behaviour: the prefix, returned
            return N7
        return None
    if is_n6(failure.case) and any(f['id'] == N6 for f in listed_findings):
        with Scratch() as sc:
            r = run_last_bytes(sc, failure.case)
        if r[0] == 'err' and r[1] == 'ValueError':               # exactly the listed behaviour, nothing else
            return N6
    return None


def witness_reproduces(ctx, finding):

    if finding.get('id') == N7:
        w = finding.get('witness') or {}
        case = {'op': 'tmpw', 'size': int(w.get('size', 6)), 'seed': 1, 'where': 'existing', 'ctype': 'bytes',
                'short': int(w.get('short', 3))}
        with Scratch() as sc:
            return bool(is_n7(case) and oracle_tmpw(sc, case))
    if finding.get('id') != N6:
        return False
    w = finding.get('witness') or {}
    case = {'op': 'last_bytes', 'size': int(w.get('size', 11)), 'seed': 1, 'num': int(w.get('num', 2 ** 63 + 1))}
    with Scratch() as sc:
        return bool(is_n6(case) and oracle_last_bytes(sc, case))


def replay(ctx, payload):
    case = payload.get('failure', {}).get('case') or payload.get('case')
    if not case:
        print('nothing to replay: this file names the obligation that no longer checks:')
        print(payload.get('no_longer_checks'))
        return 0
    with Scratch() as sc:
        op = case['op']
        print('case          :', case)
        if op in IMPL:
            print('implementation:', IMPL[op](sc, case)[:1000])
            rep = ctx.driver.ask(LINE[op](case))
            print('model         :', (view_checksum(case, rep) if op == 'checksum' else rep)[:1000])
        elif op == 'seq':
            recs = run_seq(sc, case)
            for r, m in zip(recs, ctx.driver.ask_many([r['line'] for r in recs])):
                print('call %-8s implementation: %s' % (r['step'], r['res']))
                print('              model         : %s' % m)
        elif op == 'tmpw':
            r = run_tmpw(sc, case)
            if r:
                print('implementation:', r[0][:1000])
                print('model         :', ctx.driver.ask(r[1])[:1000])
        elif op in ('fs_ensure', 'fs_delete', 'fs_rpoe'):
            obs, seen = run_fs(sc, case)
            print('implementation:', obs)
            print('OS call alone :', ' | '.join('%s (path then %s)%s' % (x[0], x[2], ', ' + x[3] if x[3] else '') for x in seen))
            print('model on that :', ' | '.join(ctx.driver.ask_many(
                [req('ensure', sp, int(d)) if op == 'fs_ensure' else
                 req('rpoe', 'none' if case.get('body', 'ok') == 'ok' else case['body'], sp) if op == 'fs_rpoe' else
                 req('delete', sp) for sp, d, *_ in seen])))
            if op != 'fs_rpoe' and case['kind'] in FS_MODEL_KINDS and case.get('remove', 'default') in FS_MODEL_REMOVERS:
                print('model         :', ctx.driver.ask(LINE[op](case)))
        why = oracle(sc, case)
        print('property oracle on the implementation:', why)
        return 1 if why else 0


LEVEL_TEXT = ('Machine-checked proof (Lean 4) over a hand-written model of fileutils: for every content, every chunk size >= 1 '
              '(also None/-1) and every hash obeying the streaming law, the chunk loop terminates, feeds non-empty chunks '
              'whose concatenation is the content (lengths c,...,c,size mod c) and the digest equals the digest of the '
              'whole content; ensure_tree / delete_if_exists return iff the OS call succeeded or failed with EEXIST on a '
              'directory / ENOENT and re-raise every other exception unchanged, for every errno, and are idempotent on a '
              'one-path file-system model; remove_path_on_error lets the block\'s exception out iff removal succeeded or '
              'found nothing, otherwise the remover\'s error. Partial: last_bytes_spec_partial holds for n <= 2^63 (beyond that the code '
              'raises ValueError: known finding N6, proved as last_bytes_beyond_off_t); write_to_tempfile: the file holds '
              'exactly the content whenever its three calls succeed and os.write transfers every byte, and nothing but a '
              'prefix of it otherwise (write_to_tempfile_exact_partial/_spec; partial: a short write is not noticed, known '
              'finding N7, proved as write_to_tempfile_short_write); '
              'that mkstemp yields a new distinct file is OS behaviour, checked on real directories by the search only.')
LEVEL_NOTE = ('Trusted: Lean kernel; axioms propext/Quot.sound/Classical.choice at most (audited each run); the hand model and '
              'the correspondence harness; hashlib streaming law, BufferedReader.read/seek semantics on regular files, and '
              'the outcome of os.makedirs/remove/isdir are parameters of the model, exercised on real files in a scratch '
              'directory and by injecting every errno.')
TECHNIQUE = 'Lean 4 theorems by induction over the read loop + model/implementation correspondence on real files and injected errnos'
DESIGN_REF = 'DESIGN.md section 5, C20'
