/-
C01 — the inspection verdict depends on the bytes only, never on the chunking;
whatever is retained for a region is exactly the stream's bytes at its offsets.

Part 1 (this file): the capture engine, for every offset, length, stream and
chunking (empty chunks included).  Part 2: `C01Static.lean`-style theorems for
whole inspectors live further down.
-/
import OsloModel.Inspector
import OsloProofs.Lemmas.Capture
import OsloProofs.Lemmas.Qcow
namespace Oslo.Insp

/-- a freshly created plain region -/
def Region.fresh (rid off len : Nat) (ml : Option Nat) : Region :=
  { rid := rid, offset := off, length := len, minLength := ml, data := [], isEnd := false, endDone := false }

/-- a freshly created end-capture region (`EndCaptureRegion(n)`) -/
def Region.freshEnd (rid n : Nat) : Region :=
  { rid := rid, offset := n, length := n, minLength := none, data := [], isEnd := true, endDone := false }

theorem lemma_fresh_inv (rid off len : Nat) (ml : Option Nat) :
    PlainInv (Region.fresh rid off len ml) [] := by
  simp [PlainInv, Region.fresh, sliceOf]

theorem lemma_region_ext (a b : Region) (h1 : a.rid = b.rid) (h2 : a.offset = b.offset)
    (h3 : a.length = b.length) (h4 : a.minLength = b.minLength) (h5 : a.data = b.data)
    (h6 : a.isEnd = b.isEnd) (h7 : a.endDone = b.endDone) : a = b := by
  cases a; cases b; simp_all

/-- **capture_static** — a region without `min_length`, present from the first chunk and fed any
    chunking of the stream (empty chunks included) under the skip-when-complete rule, holds exactly
    `stream[offset : offset+length]`; nothing else about it changes. -/
theorem capture_static (rid off len : Nat) (chunks : List Bytes) :
    (Region.fresh rid off len none).feed 0 chunks =
      { Region.fresh rid off len none with data := sliceOf chunks.flatten off len } := by
  have h := lemma_plain_feed chunks (Region.fresh rid off len none) [] rfl (lemma_fresh_inv rid off len none)
  simp only [List.length_nil, List.nil_append] at h
  obtain ⟨⟨hp, hc⟩, e1, e2, e3, e4, e5, e6⟩ := h
  generalize (Region.fresh rid off len none).feed 0 chunks = r' at *
  simp only [Region.fresh] at e1 e2 e3 e4 e5 e6
  apply lemma_region_ext <;> simp only [Region.fresh, e1, e2, e3, e4, e5, e6]
  rw [e2, e3] at hp hc
  by_cases hcomp : r'.complete = false
  · exact hc hcomp
  · simp only [Region.complete, e4, e5, e3, Bool.false_eq_true, if_false, decide_eq_false_iff_not,
      Decidable.not_not] at hcomp
    apply lemma_prefix_eq_of_length hp
    rw [lemma_sliceOf_length]; omega

/-- it is complete exactly when the stream reaches the end of the region -/
theorem capture_static_complete (rid off len : Nat) (chunks : List Bytes) :
    ((Region.fresh rid off len none).feed 0 chunks).complete = decide (len ≤ chunks.flatten.length - off) := by
  rw [capture_static]
  simp only [Region.complete, Region.fresh, Bool.false_eq_true, if_false, lemma_sliceOf_length]
  by_cases h : len ≤ chunks.flatten.length - off <;> simp <;> omega

/-- **capture_minlen** — with `min_length = m` the retained data is a prefix of the stream slice,
    the region is complete exactly when `m` bytes of the slice exist in the stream, and once
    complete its first `m` bytes do not depend on the chunking. -/
theorem capture_minlen (rid off len m : Nat) (chunks : List Bytes) :
    let r := (Region.fresh rid off len (some m)).feed 0 chunks
    r.data <+: sliceOf chunks.flatten off len ∧
    (r.complete = decide (m ≤ (sliceOf chunks.flatten off len).length)) ∧
    (r.complete = true → r.data.take m = (sliceOf chunks.flatten off len).take m) ∧
    r.offset = off ∧ r.length = len := by
  have h := lemma_plain_feed chunks (Region.fresh rid off len (some m)) [] rfl (lemma_fresh_inv rid off len (some m))
  simp only [List.length_nil, List.nil_append] at h
  obtain ⟨⟨hp, hc⟩, e1, e2, e3, e4, e5, e6⟩ := h
  generalize (Region.fresh rid off len (some m)).feed 0 chunks = r' at *
  simp only [Region.fresh] at e1 e2 e3 e4 e5 e6
  rw [e2, e3] at hp hc
  have hlen : r'.data.length ≤ (sliceOf chunks.flatten off len).length := List.IsPrefix.length_le hp
  have hcompl : r'.complete = decide (m ≤ r'.data.length) := by
    simp only [Region.complete, e4, e5, Bool.false_eq_true, if_false]
  refine ⟨hp, ?_, ?_, e2, e3⟩
  · by_cases hcomp : r'.complete = false
    · rw [← hc hcomp]; exact hcompl
    · simp only [Bool.not_eq_false] at hcomp
      rw [hcomp]
      rw [hcompl] at hcomp
      simp only [decide_eq_true_eq] at hcomp
      simp; omega
  · intro hcomp
    rw [hcompl] at hcomp
    simp only [decide_eq_true_eq] at hcomp
    obtain ⟨t, ht⟩ := hp
    rw [← ht, List.take_append_of_le_length hcomp]

/-- **endcapture_suffix** — an `EndCaptureRegion(n)` (n > 0) present from the start and fed any
    non-empty chunk list holds the last `min n |stream|` bytes, reports the offset where they start,
    and is complete exactly when `finish()` was called and the stream has at least `n` bytes. -/
theorem endcapture_suffix (rid n : Nat) (hn : 0 < n) (chunks : List Bytes) (hne : chunks ≠ []) :
    let r := ((Region.freshEnd rid n).feed 0 chunks)
    r.data = lastN n chunks.flatten ∧
    r.data.length = min n chunks.flatten.length ∧
    r.offset = chunks.flatten.length - r.data.length ∧
    r.complete = false ∧
    r.finish.complete = decide (n ≤ chunks.flatten.length) := by
  have h := lemma_end_feed chunks (Region.freshEnd rid n) [] rfl (by simp [Region.freshEnd, lastN])
  simp only [List.length_nil, List.nil_append] at h
  obtain ⟨hd, hl, he, hdone, hml, _, hoff⟩ := h
  generalize (Region.freshEnd rid n).feed 0 chunks = r' at *
  simp only [Region.freshEnd] at hd hl he hdone hml
  have hdl : r'.data.length = min n chunks.flatten.length := by
    rw [hd]; exact lemma_lastN_length n hn _
  refine ⟨hd, hdl, hoff hne, ?_, ?_⟩
  · simp [Region.complete, he, hdone]
  · simp only [Region.finish, he, if_true, Region.complete, hml, hl, hdl, Bool.and_true]
    by_cases h : n ≤ chunks.flatten.length <;> simp <;> omega

/-- what an end-capture region retains is the stream's bytes at the offset it reports -/
theorem endcapture_is_stream_slice (rid n : Nat) (hn : 0 < n) (chunks : List Bytes) (hne : chunks ≠ []) :
    let r := ((Region.freshEnd rid n).feed 0 chunks)
    r.data = sliceOf chunks.flatten r.offset r.data.length := by
  obtain ⟨hd, hl, ho, _, _⟩ := endcapture_suffix rid n hn chunks hne
  simp only at hd hl ho ⊢
  generalize (Region.freshEnd rid n).feed 0 chunks = r' at *
  rw [ho, hl, hd]
  simp only [lastN, sliceOf]
  split
  · omega
  · generalize chunks.flatten = s
    by_cases h : n ≤ s.length
    · have e1 : min n s.length = n := by omega
      have e2 : s.length - n + n = s.length := by omega
      rw [e1]
      have : (s.drop (s.length - n)).length = n := by simp; omega
      exact (List.take_of_length_le (by omega)).symm
    · have e1 : min n s.length = s.length := by omega
      have e2 : s.length - n = 0 := by omega
      rw [e1, e2]; simp

/-- an empty chunk never changes a plain region -/
theorem capture_empty_chunk_noop (r : Region) (pos : Nat) (h : r.isEnd = false) (hd : r.data.length ≤ r.length) :
    r.capture [] pos = r := by
  obtain ⟨rid, off, len, ml, data, isEnd, endDone⟩ := r
  simp only at h hd
  subst h
  simp only [Region.capture, Bool.false_eq_true, if_false, List.length_nil, Nat.sub_zero, List.drop_nil,
    List.append_nil]
  split
  · congr 1; exact List.take_of_length_le hd
  · rfl

/-! non-vacuity: a concrete stream, three chunkings, the same retained bytes -/
example :
    let s : Bytes := [1, 2, 3, 4, 5, 6, 7, 8, 9]
    ((Region.fresh 0 2 4 none).feed 0 [s]).data = [3, 4, 5, 6] ∧
    ((Region.fresh 0 2 4 none).feed 0 [[1], [], [2, 3, 4], [5, 6, 7, 8], [], [9]]).data = [3, 4, 5, 6] ∧
    ((Region.freshEnd 0 3).feed 0 [[1, 2], [3, 4, 5, 6, 7], [], [8, 9]]).data = [7, 8, 9] := by
  decide

end Oslo.Insp

/-! ## Part 2 — whole inspectors of the formats whose regions are fixed at initialisation
(raw, qcow2, qed, vhd, vdi, iso, gpt, luks): the complete inspector state after any chunking is a
function of the concatenated bytes. -/

namespace Oslo.Insp

/-- the region table a format yields on a whole stream, computed directly from the bytes -/
def specRegions (stream : Bytes) : List Gen.RegionSpec → Nat → List (String × Region)
  | [], _ => []
  | (n, off, len, ml, isEnd) :: rest, k =>
    (n, { rid := k, offset := off, length := len, minLength := ml, data := sliceOf stream off len,
          isEnd := isEnd, endDone := false }) :: specRegions stream rest (k + 1)

/-- every region of the table is a plain region without `min_length` -/
def TableStatic (t : List Gen.RegionSpec) : Bool :=
  t.all (fun e => e.2.2.2.1.isNone && !e.2.2.2.2)

theorem lemma_mk_feed (stream : List Bytes) : ∀ (t : List Gen.RegionSpec) (k : Nat), TableStatic t = true →
    (mkRegions t k).map (fun p => (p.1, p.2.feed 0 stream)) = specRegions stream.flatten t k := by
  intro t
  induction t with
  | nil => intro k _; rfl
  | cons e rest ih =>
    intro k ht
    obtain ⟨n, off, len, ml, isEnd⟩ := e
    simp only [TableStatic, List.all_cons, Bool.and_eq_true, Bool.not_eq_true', Option.isNone_iff_eq_none] at ht
    obtain ⟨⟨hml, hend⟩, hrest⟩ := ht
    subst hml hend
    simp only [mkRegions, List.map_cons, specRegions]
    rw [ih (k + 1) hrest]
    congr 2
    exact capture_static k off len stream

theorem lemma_spec_finish (stream : Bytes) : ∀ (t : List Gen.RegionSpec) (k : Nat), TableStatic t = true →
    (specRegions stream t k).map (fun p => (p.1, p.2.finish)) = specRegions stream t k := by
  intro t
  induction t with
  | nil => intro k _; rfl
  | cons e rest ih =>
    intro k ht
    obtain ⟨n, off, len, ml, isEnd⟩ := e
    simp only [TableStatic, List.all_cons, Bool.and_eq_true, Bool.not_eq_true', Option.isNone_iff_eq_none] at ht
    obtain ⟨⟨hml, hend⟩, hrest⟩ := ht
    subst hml hend
    simp only [specRegions, List.map_cons]
    rw [ih (k + 1) hrest]
    simp [Region.finish]

theorem plain_tables_static (f : Fmt) (hf : f.plain = true) : TableStatic f.initRegions = true := by
  cases f <;> first | decide | (simp [Fmt.plain, Fmt.static] at hf)

/-- **state at every point of the stream** (formats without callbacks): after any chunk list the
    inspector has counted the bytes and every region holds exactly the stream's bytes at its offsets. -/
theorem feed_plain_eq_spec (f : Fmt) (hf : f.plain = true) (s0 : Insp) (h0 : Insp.init f = some s0)
    (chunks : List Bytes) :
    feed s0 chunks = ({ s0 with total := chunks.flatten.length,
                                regions := specRegions chunks.flatten f.initRegions 0 }, none) := by
  unfold Insp.init at h0
  split at h0
  · simp at h0
  · simp only [Option.some.injEq] at h0
    subst h0
    rw [lemma_feed_plain chunks _ hf rfl]
    simp only [Nat.zero_add]
    rw [lemma_mk_feed chunks _ 0 (plain_tables_static f hf)]

/-- **whole run** (formats without callbacks): feed any chunking, then `finish()` -/
theorem run_plain_eq_spec (f : Fmt) (hf : f.plain = true) (s0 : Insp) (h0 : Insp.init f = some s0)
    (chunks : List Bytes) :
    runChunks s0 chunks = ({ s0 with total := chunks.flatten.length, finished := true,
                                     regions := specRegions chunks.flatten f.initRegions 0 }, none) := by
  simp only [runChunks, feed_plain_eq_spec f hf s0 h0, Insp.finish,
    lemma_spec_finish _ _ 0 (plain_tables_static f hf)]

/-- shape of the generated qcow2 table the callback proof needs: one plain header region of
    at least 32 bytes -/
def qcowTable : Option (Nat × Nat) :=
  match Gen.qcow2_regions with
  | [("header", off, len, none, false)] => if 32 ≤ len then some (off, len) else none
  | _ => none

theorem qcow_table_ok : qcowTable.isSome = true := by decide

/-- **qcow2 at every point of the stream**: the header region holds the stream's bytes at its offsets
    and `qemu_header_info` is the function `qinfoR` of it -/
theorem feed_qcow_eq_spec (s0 : Insp) (h0 : Insp.init .qcow2 = some s0) (chunks : List Bytes) :
    feed s0 chunks =
      ({ s0 with total := chunks.flatten.length,
                 regions := specRegions chunks.flatten Gen.qcow2_regions 0,
                 qcowInfo := match specRegions chunks.flatten Gen.qcow2_regions 0 with
                   | [(_, h)] => qinfoR h
                   | _ => none }, none) := by
  have hq := qcow_table_ok
  unfold qcowTable at hq
  split at hq
  case h_2 => simp at hq
  case h_1 off len heq =>
    split at hq
    case isFalse => simp at hq
    case isTrue hbig =>
      unfold Insp.init at h0
      split at h0
      · simp at h0
      · simp only [Option.some.injEq] at h0
        subst h0
        simp only [Fmt.initRegions, heq, mkRegions, List.length_cons, List.length_nil, specRegions]
        have hshape : QShape
            { fmt := Fmt.qcow2, total := 0,
              regions := [("header", Region.fresh 0 off len none)], nextRid := 0 + 1, finished := false,
              checks := Fmt.qcow2.initChecks, qcowInfo := none, descText := none,
              vmdkType := formatNotFound } (Region.fresh 0 off len none) :=
          ⟨rfl, rfl, rfl, rfl, rfl, hbig, by
            simp only [qinfoR, Region.fresh, Region.complete, Bool.false_eq_true, if_false, List.length_nil]
            have : ¬ (len = 0) := by omega
            simp [this]⟩
        have := lemma_qcow_feed chunks _ _ hshape
        simp only [Region.fresh] at this
        rw [this]
        have hcs := capture_static 0 off len chunks
        simp only [Region.fresh] at hcs
        simp only [hcs, Nat.zero_add]

theorem run_qcow_eq_spec (s0 : Insp) (h0 : Insp.init .qcow2 = some s0) (chunks : List Bytes) :
    runChunks s0 chunks =
      ({ s0 with total := chunks.flatten.length, finished := true,
                 regions := specRegions chunks.flatten Gen.qcow2_regions 0,
                 qcowInfo := match specRegions chunks.flatten Gen.qcow2_regions 0 with
                   | [(_, h)] => qinfoR h
                   | _ => none }, none) := by
  have hq := qcow_table_ok
  unfold qcowTable at hq
  split at hq
  case h_2 => simp at hq
  case h_1 off len heq =>
    simp only [runChunks, feed_qcow_eq_spec s0 h0, Insp.finish, heq, specRegions, List.map_cons, List.map_nil,
      Region.finish, Bool.false_eq_true, if_false]

/-- **verdict_chunk_independent_static** — for the eight formats whose regions are fixed at
    initialisation, two chunkings of the same bytes (empty chunks included) leave the inspector in the
    *same state*, hence with the same format_match, complete, virtual_size, safety_check outcome,
    context_info and retained bytes. Full strength for these formats. -/
theorem verdict_chunk_independent_static (f : Fmt) (hf : f.static = true) (s0 : Insp)
    (h0 : Insp.init f = some s0) (c1 c2 : List Bytes) (h : c1.flatten = c2.flatten) :
    runChunks s0 c1 = runChunks s0 c2 := by
  by_cases hq : f = .qcow2
  · subst hq
    rw [run_qcow_eq_spec s0 h0, run_qcow_eq_spec s0 h0, h]
  · have hp : f.plain = true := by simp [Fmt.plain, hf, hq]
    rw [run_plain_eq_spec f hp s0 h0, run_plain_eq_spec f hp s0 h0, h]

/-- … in particular the verdict (match, complete, virtual size, safety outcome, raised) is the same -/
theorem verdict_eq_static (f : Fmt) (hf : f.static = true) (s0 : Insp)
    (h0 : Insp.init f = some s0) (c1 c2 : List Bytes) (h : c1.flatten = c2.flatten) :
    let v1 := verdict (runChunks s0 c1)
    let v2 := verdict (runChunks s0 c2)
    v1.fmtMatch = v2.fmtMatch ∧ v1.complete = v2.complete ∧ v1.vsize = v2.vsize ∧
    v1.safety = v2.safety ∧ v1.raised = v2.raised := by
  simp only [verdict_chunk_independent_static f hf s0 h0 c1 c2 h, and_self]

/-- these inspectors never raise while being fed -/
theorem static_never_raises (f : Fmt) (hf : f.static = true) (s0 : Insp)
    (h0 : Insp.init f = some s0) (chunks : List Bytes) : (feed s0 chunks).2 = none := by
  by_cases hq : f = .qcow2
  · subst hq; rw [feed_qcow_eq_spec s0 h0]
  · have hp : f.plain = true := by simp [Fmt.plain, hf, hq]
    rw [feed_plain_eq_spec f hp s0 h0]

theorem lemma_spec_slice (stream : Bytes) : ∀ (t : List Gen.RegionSpec) (k : Nat),
    ∀ p ∈ specRegions stream t k, p.2.data = sliceOf stream p.2.offset p.2.data.length := by
  intro t
  induction t with
  | nil => intro k p hp; simp [specRegions] at hp
  | cons e rest ih =>
    intro k p hp
    obtain ⟨n, off, len, ml, isEnd⟩ := e
    simp only [specRegions, List.mem_cons] at hp
    rcases hp with rfl | hp
    · simp only [sliceOf, List.length_take, List.length_drop]
      rw [List.take_eq_take_iff]
      simp only [List.length_drop]
      omega
    · exact ih (k + 1) p hp

/-- **retained_is_stream_slice (static formats, every prefix of the feed)** — whatever one of these
    inspectors retains for a region after any chunk list is exactly the stream's bytes at that
    region's offset. -/
theorem retained_is_stream_slice_static (f : Fmt) (hf : f.static = true) (s0 : Insp)
    (h0 : Insp.init f = some s0) (chunks : List Bytes) :
    ∀ p ∈ (feed s0 chunks).1.regions, p.2.data = sliceOf chunks.flatten p.2.offset p.2.data.length := by
  by_cases hq : f = .qcow2
  · subst hq; rw [feed_qcow_eq_spec s0 h0]; exact lemma_spec_slice _ _ _
  · have hp : f.plain = true := by simp [Fmt.plain, hf, hq]
    rw [feed_plain_eq_spec f hp s0 h0]; exact lemma_spec_slice _ _ _

/-- an empty chunk changes nothing (static formats, not yet finished) -/
theorem empty_chunk_noop_static (f : Fmt) (hf : f.static = true) (s0 : Insp)
    (h0 : Insp.init f = some s0) (chunks : List Bytes) :
    feed s0 (chunks ++ [[]]) = feed s0 chunks := by
  by_cases hq : f = .qcow2
  · subst hq; rw [feed_qcow_eq_spec s0 h0, feed_qcow_eq_spec s0 h0]; simp
  · have hp : f.plain = true := by simp [Fmt.plain, hf, hq]
    rw [feed_plain_eq_spec f hp s0 h0, feed_plain_eq_spec f hp s0 h0]; simp

/-! non-vacuity: all eight static formats initialise, and a concrete qcow2 header streamed in two
    chunkings gives the same state -/
example : ∀ f ∈ Fmt.all, f.static = true → (Insp.init f).isSome = true := by decide

end Oslo.Insp
