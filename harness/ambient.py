"""Ambient sweep: the same correspondence and failing-input search, re-run in child interpreters whose
*implicit* inputs differ from the ones the main run has.

A property quantifies over every input and every state; the state of the interpreter and of the process
the library is loaded into is part of that (optimisation level, warnings filter, bytes-warning flag,
logging configuration, oslo.i18n lazy mode, process time zone, what `sys.stdin` is, the int/str digit
limit, pyparsing's process-wide literal class, which sibling modules have been imported).  The model
has none of these as a parameter: it says the answer does not depend on them.  So each child runs the
ordinary correspondence (model driver vs. implementation) and the ordinary implementation-only search
under one such configuration; a disagreement there is a broken correspondence, a property failure there
is a failing input whose replay names the configuration.

A child that cannot run at all (crash, timeout) is an infrastructure error (exit 2), never a violation.
"""
import json
import os
import subprocess
import sys
import tempfile
import time
import traceback
from concurrent.futures import ThreadPoolExecutor

HERE = os.path.dirname(os.path.abspath(__file__))

# name -> (interpreter flags, extra environment, description)
CONFIGS = {
    'O': (['-O'], {}, 'python -O (assert statements and `if __debug__` blocks compiled out)'),
    'Werror': ([], {}, 'every warning the library itself issues (warnings.warn called from oslo_utils code) is an '
                       'error, as under -W error; warnings issued by third-party code keep the default filter'),
    'bb': (['-bb'], {}, 'python -bb (bytes/str comparisons raise BytesWarning)'),
    'debuglog': ([], {}, 'root logger at DEBUG with a handler that formats every record'),
    'rootcritical': ([], {}, 'root logger at CRITICAL (library loggers not enabled for WARNING/ERROR)'),
    'lazyi18n': ([], {}, 'oslo_i18n.enable_lazy() (translated messages are Message objects)'),
    'tz': ([], {'TZ': 'Asia/Tokyo'}, 'process time zone Asia/Tokyo (time.tzset)'),
    'stdin16': ([], {}, 'sys.stdin is a text stream whose encoding is utf-16'),
    'stdinNone': ([], {}, 'sys.stdin is a stream object whose .encoding is None'),
    'intdigits': ([], {}, 'sys.set_int_max_str_digits(0) (int/str conversion limit disabled)'),
    'ppinline': ([], {}, 'pyparsing.ParserElement.inlineLiteralsUsing(Suppress) set by other code in the process'),
}

DEFAULT = list(CONFIGS)

# (property, configuration) pairs left out, each with the reason (none at present).  Every pair is quiet on the
# unchanged tree (measured with several seeds) and is run by every check.
SKIP = {
}


def import_everything():
    """Import every module of the library: what a long-running service has done by the time it calls in."""
    import importlib
    import pkgutil
    import oslo_utils
    for m in pkgutil.walk_packages(oslo_utils.__path__, 'oslo_utils.'):
        if '.tests' in m.name:
            continue
        try:
            importlib.import_module(m.name)
        except Exception:
            pass


def pre_import(name):
    """Before the property module (and so the library) is imported."""
    if name == 'tz':
        os.environ['TZ'] = 'Asia/Tokyo'
        time.tzset()
    elif name == 'Werror':
        import warnings
        orig = warnings.warn

        def warn(message, category=None, stacklevel=1, *a, **k):
            caller = sys._getframe(1).f_globals.get('__name__', '')
            if caller.startswith('oslo_utils') and '.tests' not in caller:
                if isinstance(message, Warning):
                    raise message
                raise (category or UserWarning)(message)
            return orig(message, category, stacklevel + 1, *a, **k)
        warnings.warn = warn


class _DevNull:
    def write(self, s):
        return len(s)

    def flush(self):
        pass


def post_import(name):
    """After the harness and the library are imported, before any case runs."""
    import_everything()
    if name == 'debuglog':
        import logging
        root = logging.getLogger()
        h = logging.StreamHandler(_DevNull())
        h.setFormatter(logging.Formatter('%(asctime)s %(name)s %(levelname)s %(message)s'))
        root.addHandler(h)
        root.setLevel(logging.DEBUG)
    elif name == 'rootcritical':
        import logging
        logging.getLogger().setLevel(logging.CRITICAL)
    elif name == 'lazyi18n':
        import oslo_i18n
        oslo_i18n.enable_lazy()
    elif name == 'stdin16':
        import io
        sys.stdin = io.TextIOWrapper(io.BytesIO(b''), encoding='utf-16')
    elif name == 'stdinNone':
        import io
        s = io.StringIO('')
        sys.stdin = s
    elif name == 'intdigits':
        if hasattr(sys, 'set_int_max_str_digits'):
            sys.set_int_max_str_digits(0)
    elif name == 'ppinline':
        import pyparsing
        pyparsing.ParserElement.inlineLiteralsUsing(pyparsing.Suppress)


_LONG_DIGITS = None


def outside_configuration(name, case):
    """True when the models say nothing about `case` under configuration `name`.  Only one such class
    exists: the models are of the default 4300-digit int/str conversion limit, so with the limit lifted
    (`intdigits`) a case carrying a run of more than 4300 digits is left out of the CORRESPONDENCE (and
    counted in the evidence); the property oracle of the search still judges it."""
    global _LONG_DIGITS
    if name != 'intdigits':
        return False
    import re
    if _LONG_DIGITS is None:
        _LONG_DIGITS = re.compile(r'[0-9_]{4301,}')

    def walk(x, depth=0):
        if isinstance(x, str):
            return bool(_LONG_DIGITS.search(x))
        if isinstance(x, (bytes, bytearray)):
            return bool(re.search(rb'[0-9_]{4301,}', bytes(x)))
        if isinstance(x, int) and not isinstance(x, bool):
            return abs(x) >= 10 ** 4300
        if depth > 6:
            return False
        if isinstance(x, dict):
            return any(walk(v, depth + 1) for v in x.values())
        if isinstance(x, (list, tuple)):
            return any(walk(v, depth + 1) for v in x)
        return False
    return walk(case)


def child_cmd(prop_id, tier, name, out=None, replay=None):
    flags = CONFIGS[name][0]
    cmd = [sys.executable] + flags + [os.path.join(HERE, 'main.py'), prop_id, '--tier', tier, '--ambient', name]
    if out:
        cmd += ['--ambient-out', out]
    if replay:
        cmd += ['--replay', replay]
    return cmd


def child_env(name, seed):
    env = dict(os.environ)
    env.update(CONFIGS[name][1])
    env['VERIF_AMBIENT'] = name
    env['VERIF_SEED'] = str(seed)
    env['PYTHONDONTWRITEBYTECODE'] = '1'
    return env


def child_main(common, prop, tier, seed, name, out):
    """Runs inside the child: correspondence + search + classification, result as JSON in `out`."""
    res = {'ambient': name, 'disagreements': [], 'failures': [], 'blind': [], 'crash': None,
           'corr_evals': 0, 'search_evals': 0, 'hist': {}}
    ctx = common.Ctx(prop, tier, seed)
    ctx.ambient = name
    import random
    ctx.rng = random.Random('%s/%s/%s' % (prop.ID, seed, name))
    ctx.driver = common.Driver(prop.DRIVER)
    try:
        import fingerprint
        ctx.drift = fingerprint.drift(prop.ID, common.REPO)
    except Exception:
        ctx.drift = []
    disagreements = []
    try:
        disagreements = list(prop.correspondence(ctx) or [])
    except Exception as e:
        if type(e).__name__ == 'HarnessBlind':
            res['blind'].append('correspondence: %s' % e)
        else:
            res['crash'] = 'correspondence: ' + traceback.format_exc()[-3000:]
    res['corr_evals'] = ctx.evaluations
    # cases the model does not speak about under this configuration (it is a model of the default one)
    kept = [d for d in disagreements if not outside_configuration(name, d.case)]
    res['outside_configuration'] = len(disagreements) - len(kept)
    disagreements = kept
    res['disagreements'] = [d.to_json() for d in disagreements[:5]]
    res['n_disagreements'] = len(disagreements)
    failures = []
    if res['crash'] is None:
        try:
            failures = list(prop.search(ctx, [d.case for d in disagreements],
                                        full=bool(disagreements) or bool(res['blind'])) or [])
        except Exception as e:
            if type(e).__name__ == 'HarnessBlind':
                res['blind'].append('search: %s' % e)
            else:
                res['crash'] = 'search: ' + traceback.format_exc()[-3000:]
    res['search_evals'] = ctx.evaluations - res['corr_evals']
    listed = [f for f in common.load_findings().get('findings', []) if prop.ID in f.get('properties', [])]
    for f in failures[:200]:
        kid = None
        try:
            kid = prop.classify(ctx, f, listed) if getattr(prop, 'classify', None) else None
        except Exception:
            res['crash'] = 'classify: ' + traceback.format_exc()[-2000:]
        j = f.to_json()
        j['kid'] = kid
        res['failures'].append(j)
    res['hist'] = dict(ctx.hist)
    with open(out, 'w') as fh:
        json.dump(res, fh, default=str)
    return 0


def sweep(prop, tier, seed, names=None, timeout=2400, workers=None):
    """Runs in the parent.  Returns (results by name, infra entries)."""
    names = list(names if names is not None else
                 [n for n in getattr(prop, 'AMBIENT', DEFAULT) if (prop.ID, n) not in SKIP])
    results, infra = {}, []
    if not names:
        return results, infra
    tmp = tempfile.mkdtemp(prefix='verif-ambient-')

    def one(name):
        out = os.path.join(tmp, name + '.json')
        t0 = time.time()
        try:
            p = subprocess.run(child_cmd(prop.ID, 'quick', name, out=out), env=child_env(name, seed),
                               stdout=subprocess.PIPE, stderr=subprocess.STDOUT, timeout=timeout)
            rc, txt = p.returncode, p.stdout.decode('utf-8', 'replace')
        except subprocess.TimeoutExpired:
            rc, txt = -9, 'timeout after %ds' % timeout
        r = None
        if os.path.exists(out):
            try:
                r = json.load(open(out))
            except ValueError:
                r = None
        if r is None:
            return name, None, {'kind': 'ambient-child', 'ambient': name, 'rc': rc, 'detail': txt[-2500:]}
        r['wall_s'] = round(time.time() - t0, 1)
        if r.get('crash'):
            return name, r, {'kind': 'ambient-child-crash', 'ambient': name, 'detail': r['crash']}
        return name, r, None

    try:
        with ThreadPoolExecutor(max_workers=workers or min(len(names), 11)) as ex:
            for name, r, err in ex.map(one, names):
                if r is not None:
                    results[name] = r
                if err:
                    infra.append(err)
    finally:
        import shutil
        shutil.rmtree(tmp, ignore_errors=True)
    return results, infra


def quiet_logger(name):
    """Keep a chatty library logger off stderr.  In the main run it is silenced by level; under the
    logging configurations of the sweep its level must stay inherited from the root logger (that is the
    configuration under test), so it only stops propagating and renders its records into a sink."""
    import logging
    lg = logging.getLogger(name)
    if os.environ.get('VERIF_AMBIENT') in ('debuglog', 'rootcritical'):
        lg.setLevel(logging.NOTSET)
        lg.propagate = False
        if not any(getattr(h, '_verif_sink', False) for h in lg.handlers):
            h = logging.StreamHandler(_DevNull())
            h.setFormatter(logging.Formatter('%(levelname)s %(message)s'))
            h._verif_sink = True
            lg.addHandler(h)
        logging.raiseExceptions = False
    else:
        lg.setLevel(logging.CRITICAL + 10)
        lg.propagate = False
    return lg


def current():
    """Name of the ambient configuration this process runs under (None in the main run)."""
    n = os.environ.get('VERIF_AMBIENT')
    return n if n in CONFIGS else None


def fresh_interpreter_argv():
    """argv prefix for a fresh interpreter under the same ambient configuration as this process
    (harnesses that confirm or shrink a failure in a fresh interpreter must use it, and call
    setup_snippet() first thing in that interpreter)."""
    n = current()
    return [sys.executable] + (list(CONFIGS[n][0]) if n else [])


def setup_snippet(imports='import oslo_utils'):
    """Python source that puts a fresh interpreter into the current ambient configuration; `imports` is
    executed between the pre-import and the post-import part."""
    n = current()
    if not n:
        return imports + '\n'
    return ('import sys\nsys.path.insert(0, %r)\nimport ambient as _amb\n_amb.pre_import(%r)\n%s\n_amb.post_import(%r)\n'
            % (HERE, n, imports, n))
