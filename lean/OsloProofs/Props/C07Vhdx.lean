/-
C07 for VHDX — `virtual_size` equals the disk size the image declares: for every well-formed image
(`VhdxImage`, a byte-level description) and every chunking the answer is the 64-bit little-endian
value of the size item; and it is 0 for as long as that item has not been completely streamed.
Both are corollaries of the chunk-independence theorem `vhdx_chunk_independent_partial` (C01Vhdx).
-/
import OsloProofs.Props.C01Vhdx
import OsloProofs.Props.C07
namespace Oslo.Insp

theorem lemma_sliceOf_eq_slice (s : Bytes) (o L : Nat) : sliceOf s o L = slice s o (o + L) := by
  apply List.ext_getElem?
  intro i
  simp only [slice, sliceOf, List.getElem?_drop, List.getElem?_take]
  by_cases h : i < L
  · have h' : o + i < o + L := by omega
    rw [if_pos h, if_pos h']
  · have h' : ¬ (o + i < o + L) := by omega
    rw [if_neg h, if_neg h']

/-- **vsize_vhdx** — for a well-formed VHDX image whose size item holds the little-endian encoding of
    `size` (any 64-bit value), `virtual_size` after the whole stream is `size`, for every chunking. -/
theorem vsize_vhdx (s0 : Insp) (h0 : Insp.init .vhdx = some s0) (chunks : List Bytes)
    (rc j mo mc i ioff size : Nat) (himg : VhdxImage chunks.flatten rc j mo mc i ioff)
    (hsize : slice chunks.flatten (mo + ioff) (mo + ioff + 8) = encodeLE 8 size) (hn : size < 2 ^ 64) :
    virtualSize (runChunks s0 chunks).1 = .ok (size : Int) := by
  obtain ⟨hf, hs⟩ := vhdx_hyps_of_image _ _ _ _ _ _ _ himg
  have hv : virtualSize (runChunks s0 chunks).1 = (verdict (runChunks s0 chunks)).vsize := rfl
  rw [hv, vhdx_chunk_independent_partial s0 h0 chunks hf hs]
  have hr := lemma_image_region _ _ _ _ _ _ _ himg
  obtain ⟨he, _, _⟩ := lemma_image_entry _ _ _ _ _ _ _ himg
  have hl := himg.hlen
  have hmo := himg.mo_ge
  rw [lemma_spec_size chunks.flatten mo ioff (encodeLE 8 size) (lemma_encodeLE_length 8 size) (by omega) hr he
    (by rw [lemma_sliceOf_eq_slice]; exact hsize)]
  simp only [vhdxVerdict, le_encode 8 size (by simpa using hn)]

/-- `virtual_size` of the inspector states between chunks is the specification's -/
theorem lemma_vsize_state (q : Bytes) (st : Insp) (h : VInv q st) : virtualSize st = (specVhdx q).vsize := by
  rw [← lemma_verdict_state q st h]
  show virtualSize st = virtualSize st.finish
  cases h <;> simp [stA, stM, stV, vst, Insp.finish, Region.finish, plainR, virtualSize, lookupR]

/-- **`virtual_size` at every point of the feed** (before `finish()`, whether or not the inspector has
    raised) is the specification's answer for the bytes streamed so far.  Same hypotheses as
    `vhdx_chunk_independent_partial`; same missing cases (KF_D7, KF_N4). -/
theorem vsize_feed_vhdx_partial (s0 : Insp) (h0 : Insp.init .vhdx = some s0) (chunks : List Bytes)
    (hf : VhdxForward chunks.flatten) (hs : VhdxMetaSigOK chunks.flatten) :
    virtualSize (feed s0 chunks).1 = (specVhdx chunks.flatten).vsize := by
  rw [lemma_init_vhdx] at h0
  simp only [Option.some.injEq] at h0
  subst h0
  obtain ⟨q, hq, hnext, hend⟩ := lemma_vinv_feed chunks.flatten hf hs chunks [] (stA [])
    (VInv.early (by simp)) (by simp)
  cases hfeed : feed (stA []) chunks with
  | mk st e =>
    rw [hfeed] at hnext hend
    cases e with
    | some err =>
      rw [← lemma_verdict_err _ q st err hq hnext]
      obtain ⟨_, _, rfl⟩ := hnext
      show virtualSize (stA q) = virtualSize (stA q).finish
      simp [stA, vst, Insp.finish, virtualSize, lookupR]
    | none =>
      have := hend rfl
      subst this
      exact lemma_vsize_state _ st hnext

/-- **vsize_zero_until_captured_vhdx_partial** — at every point of the feed of any stream, for as long
    as the size item (the one the two table walks lead to) has not been streamed completely,
    `virtual_size` is 0.  Extra hypotheses: those of `vhdx_chunk_independent_partial`, on the bytes
    streamed so far; missing: streams in the known-finding classes KF_D7 / KF_N4. -/
theorem vsize_zero_until_captured_vhdx_partial (s0 : Insp) (h0 : Insp.init .vhdx = some s0) (chunks : List Bytes)
    (hf : VhdxForward chunks.flatten) (hs : VhdxMetaSigOK chunks.flatten)
    (hnot : ∀ mo ioff ilen, 262144 ≤ chunks.flatten.length →
      findMetaRegionB (sliceOf chunks.flatten 196608 65536) = .ok (some mo) →
      findMetaEntryB (sliceOf chunks.flatten mo 65536) = .ok (some (ioff, ilen)) →
      (sliceOf chunks.flatten (mo + ioff) (min ilen 65536)).length ≠ min ilen 65536) :
    virtualSize (feed s0 chunks).1 = .ok 0 := by
  rw [vsize_feed_vhdx_partial s0 h0 chunks hf hs]
  generalize chunks.flatten = s at *
  unfold specVhdx
  simp only
  split
  · rfl
  · rename_i hl
    split
    · rfl
    · rfl
    · rename_i mo hr
      split
      · rfl
      · rfl
      · rename_i ioff ilen he
        rw [if_neg (hnot mo ioff ilen (by omega) hr he)]
        rfl

/-- the hypotheses of the chunk-independence theorem pass to every prefix of a stream -/
theorem vhdx_hyps_prefix (s q : Bytes) (hq : q <+: s) (hf : VhdxForward s) (hs : VhdxMetaSigOK s) :
    VhdxForward q ∧ VhdxMetaSigOK q := by
  cases hoff : vhdxMetaOff q with
  | none =>
    constructor
    · unfold VhdxForward vhdxForwardB; rw [hoff]
    · unfold VhdxMetaSigOK vhdxMetaSigOKB; rw [hoff]
  | some mo =>
    have hlr : 262144 ≤ q.length ∧ findMetaRegionB (sliceOf q 196608 65536) = .ok (some mo) := by
      unfold vhdxMetaOff at hoff
      split at hoff
      · simp at hoff
      · split at hoff
        · rename_i h _ mo' heq
          simp only [Option.some.injEq] at hoff
          subst hoff
          exact ⟨by omega, heq⟩
        · simp at hoff
    obtain ⟨hl, hr⟩ := hlr
    obtain ⟨h1, h2⟩ := lemma_fwd_prefix s q mo hq hf hl hr
    constructor
    · unfold VhdxForward vhdxForwardB
      rw [hoff]
      simp only [Bool.and_eq_true, decide_eq_true_eq]
      refine ⟨h1, ?_⟩
      split
      · rename_i ioff ilen he
        simpa using h2 ioff ilen he
      · rfl
    · unfold VhdxMetaSigOK vhdxMetaSigOKB
      rw [hoff]
      by_cases h32 : (sliceOf q mo 65536).length < 32
      · simp [h32]
      · have := lemma_sig_prefix s q mo hq hs hl hr (by omega)
        simp [this]

/-- **vsize_zero_until_captured_vhdx** — while a well-formed image is being streamed, `virtual_size`
    is 0 at every chunk boundary before the end of the size item, for every chunking -/
theorem vsize_zero_until_captured_vhdx (s0 : Insp) (h0 : Insp.init .vhdx = some s0) (s : Bytes)
    (rc j mo mc i ioff : Nat) (himg : VhdxImage s rc j mo mc i ioff) (chunks : List Bytes)
    (hq : chunks.flatten <+: s) (hshort : chunks.flatten.length < mo + ioff + 8) :
    virtualSize (feed s0 chunks).1 = .ok 0 := by
  obtain ⟨hf, hs⟩ := vhdx_hyps_of_image _ _ _ _ _ _ _ himg
  obtain ⟨hfq, hsq⟩ := vhdx_hyps_prefix s chunks.flatten hq hf hs
  apply vsize_zero_until_captured_vhdx_partial s0 h0 chunks hfq hsq
  generalize chunks.flatten = q at *
  intro mo' ioff' ilen' hl hr' he'
  have hls := List.IsPrefix.length_le hq
  have hh : sliceOf s 196608 65536 = sliceOf q 196608 65536 := lemma_sliceOf_within hq _ _ (by omega)
  have hr := lemma_image_region _ _ _ _ _ _ _ himg
  rw [hh, hr'] at hr
  simp only [Except.ok.injEq, Option.some.injEq] at hr
  subst hr
  obtain ⟨he, _, _⟩ := lemma_image_entry _ _ _ _ _ _ _ himg
  obtain ⟨a, b⟩ := lemma_findMetaEntry_some _ _ he'
  rw [lemma_findMetaEntry_frozen (lemma_sliceOf_prefix' hq mo' 65536) a b, he'] at he
  simp only [Except.ok.injEq, Option.some.injEq, Prod.mk.injEq] at he
  obtain ⟨rfl, rfl⟩ := he
  rw [lemma_sliceOf_length]
  omega

/-! non-vacuity: the concrete image `vhdxSample` (Lemmas/VhdxSample.lean) is a `VhdxImage`; under every
    chunking its declared size 2^30 is reported, and 0 is reported at every chunk boundary of the
    first 262 215 bytes. -/
example (s0 : Insp) (h0 : Insp.init .vhdx = some s0) (chunks : List Bytes)
    (h : chunks.flatten = vhdxSample (encodeLE 8 (2 ^ 30))) :
    virtualSize (runChunks s0 chunks).1 = .ok ((2 ^ 30 : Nat) : Int) := by
  have hl : (encodeLE 8 (2 ^ 30)).length = 8 := lemma_encodeLE_length 8 _
  have himg := lemma_sample_image (encodeLE 8 (2 ^ 30)) hl
  rw [← h] at himg
  exact vsize_vhdx s0 h0 chunks 1 0 262144 1 0 64 (2 ^ 30) himg
    (by rw [h]; exact lemma_sample_size _ hl) (by decide)

example (s0 : Insp) (h0 : Insp.init .vhdx = some s0) (chunks : List Bytes)
    (hq : chunks.flatten <+: vhdxSample (encodeLE 8 (2 ^ 30))) (hshort : chunks.flatten.length < 262216) :
    virtualSize (feed s0 chunks).1 = .ok 0 :=
  vsize_zero_until_captured_vhdx s0 h0 _ 1 0 262144 1 0 64
    (lemma_sample_image (encodeLE 8 (2 ^ 30)) (lemma_encodeLE_length 8 _)) chunks hq (by omega)

end Oslo.Insp
