/-
`eat_chunk` never changes which format an inspector is for.
-/
import OsloModel.Inspector
namespace Oslo.Insp

theorem lemma_newRegion_fmt (s s' : Insp) (n : String) (o l : Nat) (m : Option Nat) (e : Bool)
    (h : s.newRegion n o l m e = .ok s') : s'.fmt = s.fmt := by
  unfold Insp.newRegion at h
  split at h
  · simp at h
  · simp only [Except.ok.injEq] at h; subst h; rfl

theorem lemma_deleteRegion_fmt (s s' : Insp) (n : String) (h : s.deleteRegion n = .ok s') : s'.fmt = s.fmt := by
  unfold Insp.deleteRegion at h
  split at h
  · simp only [Except.ok.injEq] at h; subst h; rfl
  · simp at h

theorem lemma_vhdxPP_fmt (s : Insp) : (vhdxPostProcess s).1.fmt = s.fmt := by
  unfold vhdxPostProcess
  split
  · rfl
  · split
    · split
      · rfl
      · rfl
      · split
        · rfl
        · rename_i s' hn; exact lemma_newRegion_fmt _ _ _ _ _ _ _ hn
    · split
      · split
        · rfl
        · rfl
        · split
          · rfl
          · unfold vhdxAddVds
            split
            · rfl
            · rename_i s2 hn
              have := lemma_newRegion_fmt _ _ _ _ _ _ _ hn
              exact this
      · rfl

theorem lemma_vmdkAddFooter_fmt (s s1 : Insp) (g : Nat) (h : vmdkAddFooter s g = .ok s1) : s1.fmt = s.fmt := by
  unfold vmdkAddFooter at h
  split at h
  · split at h
    · simp at h
    · rename_i s' hn
      split at h
      · simp at h
      · simp only [Except.ok.injEq] at h; subst h
        have := lemma_newRegion_fmt _ _ _ _ _ _ _ hn
        exact this
  · simp only [Except.ok.injEq] at h; subst h; rfl

theorem lemma_vmdkRelocate_fmt (s1 : Insp) (a b : Nat) : (vmdkRelocate s1 a b).1.fmt = s1.fmt := by
  unfold vmdkRelocate
  split
  · rfl
  · split
    · rfl
    · split
      · split
        · rfl
        · rename_i s2 hd
          have f2 := lemma_deleteRegion_fmt _ _ _ hd
          split
          · exact f2
          · rename_i s3 hn; exact (lemma_newRegion_fmt _ _ _ _ _ _ _ hn).trans f2
      · rfl

theorem lemma_vmdkPP_fmt (s : Insp) : (vmdkPostProcess s).1.fmt = s.fmt := by
  unfold vmdkPostProcess
  split
  · rfl
  · split
    · rfl
    · split
      · rfl
      · split
        · split
          · split
            · rfl
            · rename_i s' hd; exact lemma_deleteRegion_fmt _ _ _ hd
          · rfl
        · split
          · rfl
          · split
            · rfl
            · rename_i s1 he
              exact (lemma_vmdkRelocate_fmt s1 _ _).trans (lemma_vmdkAddFooter_fmt _ _ _ he)

theorem lemma_postProcess_fmt (s : Insp) : (postProcess s).1.fmt = s.fmt := by
  unfold postProcess
  split
  · exact lemma_vhdxPP_fmt s
  · exact lemma_vmdkPP_fmt s
  · rfl

theorem lemma_followUp_fmt (fuel : Nat) : ∀ (s : Insp) (c : Bytes) (seen : List Nat),
    (followUp fuel s c seen).1.fmt = s.fmt := by
  induction fuel with
  | zero => intro s c seen; unfold followUp; split <;> rfl
  | succ n ih =>
    intro s c seen
    unfold followUp
    dsimp only
    split
    · rfl
    · have f2 := lemma_postProcess_fmt (s.captureAll c ((s.regions.filter (fun p => !seen.contains p.2.rid)).map (·.1)))
      split
      · rename_i s2 e heq; rw [heq] at f2; exact f2
      · rename_i s2 heq
        rw [heq] at f2
        exact (ih s2 c _).trans f2

theorem lemma_regionComplete_fmt (s : Insp) (n : String) : (regionComplete s n).1.fmt = s.fmt := by
  unfold regionComplete
  split
  · unfold qcowRegionComplete
    split
    · rfl
    · dsimp only
      repeat' split
      all_goals rfl
  · split
    · unfold vmdkParseDescriptor
      split
      · rfl
      · dsimp only
        repeat' split
        all_goals rfl
    · rfl
  · rfl

theorem lemma_runCallbacks_fmt (names : List String) : ∀ (s : Insp), (runCallbacks s names).1.fmt = s.fmt := by
  induction names with
  | nil => intro s; rfl
  | cons n ns ih =>
    intro s
    unfold runCallbacks
    have f1 := lemma_regionComplete_fmt s n
    split
    · rename_i s1 e heq; rw [heq] at f1; exact f1
    · rename_i s1 heq; rw [heq] at f1; exact (ih s1).trans f1

theorem lemma_eatChunk_fmt (s : Insp) (c : Bytes) : (eatChunk s c).1.fmt = s.fmt := by
  unfold eatChunk
  dsimp only
  split
  · rfl
  · have f2 := lemma_postProcess_fmt (({ s with total := s.total + c.length } : Insp).captureAll c [])
    split
    · rename_i s3 e heq; rw [heq] at f2; exact f2
    · rename_i s3 heq
      rw [heq] at f2
      have f3 := lemma_followUp_fmt 8 s3 c (s.regions.map (·.2.rid))
      split
      · rename_i s4 e heq4; rw [heq4] at f3; exact f3.trans f2
      · rename_i s4 heq4
        rw [heq4] at f3
        exact (lemma_runCallbacks_fmt _ s4).trans (f3.trans f2)

end Oslo.Insp
