/-
Model of oslo_utils.strutils.mask_dict_password (strutils.py:378-457).

    if not isinstance(dictionary, Mapping): raise TypeError
    out = {}
    for k, v in dictionary.items():
        if isinstance(v, Mapping):
            out[k] = mask_dict_password(v, secret=secret); continue
        k_matched = False
        if isinstance(k, str):
            for sani_key in _SANITIZE_KEYS:
                if sani_key in k.lower():
                    out[k] = secret; k_matched = True; break
        if not k_matched:
            if isinstance(v, str): out[k] = mask_password(v, secret=secret)
            else:                  out[k] = v
    return out

Python values are abstracted to what the function can tell apart: a `str`, a
`Mapping` (its items in iteration order), or anything else (`opaque id`: the
object itself, identified by the harness).  Keys are a `str` or anything else
(`other id`; ids are equal exactly when the Python keys are equal).  The result
dict `out` is an association list with Python's `out[k] = x` (`dictSet`:
overwrite in place if the key is present, else append).  The function builds a
new value and has no access to its argument's storage: non-mutation is true of
the model by construction and is checked on the code by the harness.
-/
import OsloModel.Mask
namespace Oslo.MaskDict
open Oslo.Mask

inductive PyKey
  | str (s : List Char)
  | other (id : Nat)
  deriving DecidableEq, Repr

inductive PyVal
  | str (s : List Char)
  | opaque (id : Nat)
  | map (items : List (PyKey × PyVal))
  deriving Repr

inductive Err | typeError
  deriving DecidableEq, Repr

/-- `out[k] = v` on an insertion-ordered dict -/
def dictSet (out : List (PyKey × PyVal)) (k : PyKey) (v : PyVal) : List (PyKey × PyVal) :=
  match out with
  | [] => [(k, v)]
  | (k', v') :: rest => if k' = k then (k', v) :: rest else (k', v') :: dictSet rest k v

/-- does some sanitize key occur in `k.lower()` (the inner `for … break` loop) -/
def keyMatches (keys : List (List Char)) (k : List Char) : Bool :=
  keys.any (fun sk => isInfix sk (pyLower k))

mutual
/-- the value stored in `out[k]` for an item `(k, v)` -/
def maskValue (mask : List Char) (k : PyKey) : PyVal → PyVal
  | .map items => .map (maskItems mask items [])
  | .str s =>
    match k with
    | .str ks => if keyMatches Gen.sanitizeKeys ks then .str mask else .str (maskPassword s mask)
    | .other _ => .str (maskPassword s mask)
  | .opaque i =>
    match k with
    | .str ks => if keyMatches Gen.sanitizeKeys ks then .str mask else .opaque i
    | .other _ => .opaque i
/-- the `for k, v in dictionary.items()` loop; `out` is the dict built so far -/
def maskItems (mask : List Char) : List (PyKey × PyVal) → List (PyKey × PyVal) → List (PyKey × PyVal)
  | [], out => out
  | (k, v) :: rest, out => maskItems mask rest (dictSet out k (maskValue mask k v))
end

/-- `mask_dict_password(dictionary, secret)` -/
def maskDict (v : PyVal) (mask : List Char) : Except Err PyVal :=
  match v with
  | .map items => .ok (.map (maskItems mask items []))
  | _ => .error .typeError

end Oslo.MaskDict
