/-
Helper lemmas for C18 (spec matcher): how the hand parser of `OsloModel/Specs.lean` behaves on
specs of the documented shapes.  None of these is a property obligation; the property theorems
are in `OsloProofs/Props/C18.lean`.

The predicates used in the statements of the property theorems are defined here:
`White`, `Ends`, `IsAtom`.
-/
import OsloModel.Specs
set_option linter.unusedSimpArgs false
namespace Oslo.Specs

/-- a (possibly empty) run of pyparsing whitespace: space, tab, LF, CR -/
def White (ws : Str) : Prop := ∀ c ∈ ws, isWhite c = true

/-- text that may follow an atom: nothing, or something that begins with a `\s` character -/
def Ends (rest : Str) : Prop := ∀ c ∈ rest.head?, isSpace c = true

instance (ws : Str) : Decidable (White ws) := by unfold White; infer_instance
instance (rest : Str) : Decidable (Ends rest) := by unfold Ends; infer_instance

/-- an operand of the documented language: non-empty, no `\s` character, and not starting with
    one of the operator literals -/
structure IsAtom (x : Str) : Prop where
  ne : x ≠ []
  nospace : ∀ c ∈ x, isSpace c = false
  noop : startsWithOp x = false
theorem lemma_white_space_tbl : ∀ n ∈ Gen.ppWhite, n ∈ Gen.reSpace := by decide

theorem lemma_white_is_space {c : Char} (h : isWhite c = true) : isSpace c = true := by
  simp [isWhite, isSpace] at *
  exact lemma_white_space_tbl _ h

theorem lemma_nonspace_nonwhite {c : Char} (h : isSpace c = false) : isWhite c = false := by
  cases hw : isWhite c with
  | false => rfl
  | true => rw [lemma_white_is_space hw] at h; cases h

theorem lemma_stripPrefix_sep (L a : Str) (w : Char) (b : Str) (hw : w ∉ L) :
    stripPrefix L (a ++ w :: b) = (stripPrefix L a).map (· ++ w :: b) := by
  induction L generalizing a with
  | nil => simp [stripPrefix]
  | cons c L ih =>
    cases a with
    | nil =>
      have : c ≠ w := by intro h; apply hw; simp [h]
      simp [stripPrefix, this]
    | cons d a =>
      simp only [List.cons_append, stripPrefix]
      split
      · exact ih a (by intro h; exact hw (List.mem_cons_of_mem _ h))
      · rfl

theorem lemma_firstLit_sep (lits : List Str) (a : Str) (w : Char) (b : Str) (hw : ∀ L ∈ lits, w ∉ L) :
    firstLit lits (a ++ w :: b) = (firstLit lits a).map (fun p => (p.1, p.2 ++ w :: b)) := by
  induction lits with
  | nil => simp [firstLit]
  | cons L ls ih =>
    simp only [firstLit]
    rw [lemma_stripPrefix_sep L a w b (hw L (by simp))]
    cases h : stripPrefix L a with
    | some r => simp
    | none => simpa using ih (fun L hL => hw L (by simp [hL]))

theorem lemma_skipWs_white (ws t : Str) (h : White ws) : skipWs (ws ++ t) = skipWs t := by
  induction ws with
  | nil => rfl
  | cons c ws ih =>
    have hc : isWhite c = true := h c (by simp)
    simp only [skipWs, List.cons_append, List.dropWhile_cons, hc, if_true]
    exact ih (fun d hd => h d (by simp [hd]))

theorem lemma_skipWs_cons {c : Char} (t : Str) (h : isWhite c = false) : skipWs (c :: t) = c :: t := by
  simp [skipWs, List.dropWhile_cons, h]

theorem lemma_skipWs_allwhite (ws : Str) (h : White ws) : skipWs ws = [] := by
  have := lemma_skipWs_white ws [] h
  simpa [skipWs] using this

theorem lemma_span_atom (x rest : Str) (hx : ∀ c ∈ x, isSpace c = false) (hr : Ends rest) :
    (x ++ rest).takeWhile (fun c => !isSpace c) = x ∧ (x ++ rest).dropWhile (fun c => !isSpace c) = rest := by
  induction x with
  | nil =>
    cases rest with
    | nil => simp
    | cons w b =>
      have : isSpace w = true := hr w (by simp)
      simp [List.takeWhile_cons, List.dropWhile_cons, this]
  | cons c x ih =>
    have hc : isSpace c = false := hx c (by simp)
    have := ih (fun d hd => hx d (by simp [hd]))
    simp [List.takeWhile_cons, List.dropWhile_cons, hc, this]

theorem lemma_stripPrefix_self (L t : Str) : stripPrefix L (L ++ t) = some t := by
  induction L with
  | nil => simp [stripPrefix]
  | cons c L ih => simp [stripPrefix, ih]


/-! ### table facts about the generated literal lists -/

theorem lemma_notLits_nospace : ∀ L ∈ Gen.notLits, ∀ c ∈ L, Gen.reSpace.contains c.toNat = false := by decide
theorem lemma_unaryLits_nospace : ∀ L ∈ Gen.unaryLits, L ≠ [] ∧ ∀ c ∈ L, Gen.reSpace.contains c.toNat = false := by decide
theorem lemma_special_nospace : ∀ L ∈ [Gen.orLit, Gen.allInLit, Gen.rangeLit],
    L ≠ [] ∧ ∀ c ∈ L, Gen.reSpace.contains c.toNat = false := by decide
theorem lemma_unary_not_special : ∀ op ∈ Gen.unaryLits, ∀ L ∈ [Gen.orLit, Gen.allInLit, Gen.rangeLit],
    stripPrefix L op = none := by decide
theorem lemma_unary_found_as_itself : ∀ op ∈ Gen.unaryLits, firstLit Gen.unaryLits op = some (op, []) := by decide
theorem lemma_special_in_notLits : ∀ L ∈ [Gen.orLit, Gen.allInLit, Gen.rangeLit], L ∈ Gen.notLits := by decide
theorem lemma_unary_in_notLits : ∀ L ∈ Gen.unaryLits, L ∈ Gen.notLits := by decide
theorem lemma_special_distinct :
    stripPrefix Gen.orLit Gen.allInLit = none ∧ stripPrefix Gen.orLit Gen.rangeLit = none ∧
    stripPrefix Gen.allInLit Gen.rangeLit = none := by decide

theorem lemma_space_not_mem {w : Char} {L : Str} (hw : isSpace w = true)
    (hL : ∀ c ∈ L, Gen.reSpace.contains c.toNat = false) : w ∉ L := by
  intro h
  have := hL w h
  simp [isSpace] at hw
  simp_all

/-! ### one atom, one literal -/

theorem lemma_firstLit_none {lits : List Str} {s : Str} (h : firstLit lits s = none) :
    ∀ L ∈ lits, stripPrefix L s = none := by
  induction lits with
  | nil => simp
  | cons L ls ih =>
    simp only [firstLit] at h
    cases hs : stripPrefix L s with
    | some r => simp [hs] at h
    | none =>
      simp [hs] at h
      intro L' hL'
      rcases List.mem_cons.mp hL' with rfl | h'
      · exact hs
      · exact ih h L' h'

theorem lemma_atom_noop {x : Str} (hx : IsAtom x) : firstLit Gen.notLits x = none := by
  obtain ⟨c, x', rfl⟩ := List.exists_cons_of_ne_nil hx.ne
  have hc := lemma_nonspace_nonwhite (hx.nospace c (by simp))
  have := hx.noop
  simpa [startsWithOp, matchFirst, lemma_skipWs_cons _ hc] using this

theorem lemma_ends_cases {rest : Str} (hr : Ends rest) :
    rest = [] ∨ ∃ w b, rest = w :: b ∧ isSpace w = true := by
  cases rest with
  | nil => exact Or.inl rfl
  | cons w b => exact Or.inr ⟨w, b, rfl, hr w (by simp)⟩

theorem lemma_skip_to_atom (ws x rest : Str) (hws : White ws) (hx : IsAtom x) :
    skipWs (ws ++ (x ++ rest)) = x ++ rest := by
  obtain ⟨c, x', rfl⟩ := List.exists_cons_of_ne_nil hx.ne
  have hc := lemma_nonspace_nonwhite (hx.nospace c (by simp))
  rw [lemma_skipWs_white _ _ hws, List.cons_append, lemma_skipWs_cons _ hc]

/-- an atom followed by the end or by a `\s` character is recognised as exactly that atom -/
theorem lemma_atom (ws x rest : Str) (hws : White ws) (hx : IsAtom x) (hr : Ends rest) :
    atom (ws ++ (x ++ rest)) = some (x, rest) := by
  have hskip := lemma_skip_to_atom ws x rest hws hx
  have hno : firstLit Gen.notLits (x ++ rest) = none := by
    rcases lemma_ends_cases hr with rfl | ⟨w, b, rfl, hw⟩
    · simpa using lemma_atom_noop hx
    · rw [lemma_firstLit_sep _ _ _ _ (fun L hL => lemma_space_not_mem hw (lemma_notLits_nospace L hL)),
        lemma_atom_noop hx]; rfl
  have hspan := lemma_span_atom x rest hx.nospace hr
  have hne : x.isEmpty = false := by
    cases x with
    | nil => exact absurd rfl hx.ne
    | cons _ _ => rfl
  simp [atom, startsWithOp, matchFirst, regexTok, hskip, hno, hspan.1, hspan.2, hne]

/-- the atom lemma also shows: what follows an atom (in these spec shapes) is `Ends` -/
theorem lemma_ends_white_append (ws t : Str) (hws : White ws) (hne : ws ≠ []) : Ends (ws ++ t) := by
  obtain ⟨w, ws', rfl⟩ := List.exists_cons_of_ne_nil hne
  intro c hc
  simp at hc
  subst hc
  exact lemma_white_is_space (hws _ (by simp))

theorem lemma_ends_white (ws : Str) (hws : White ws) : Ends ws := by
  cases ws with
  | nil => intro c hc; simp at hc
  | cons w ws' => simpa using lemma_ends_white_append (w :: ws') [] hws (by simp)

theorem lemma_atom_white (ws : Str) (hws : White ws) : atom ws = none := by
  have h : firstLit Gen.notLits [] = none := by decide
  simp [atom, startsWithOp, matchFirst, regexTok, lemma_skipWs_allwhite ws hws, h]


theorem lemma_literal_hit (L ws t : Str) (hws : White ws) (hne : L ≠ [])
    (hns : ∀ c ∈ L, Gen.reSpace.contains c.toNat = false) : literal L (ws ++ (L ++ t)) = some t := by
  obtain ⟨c, L', rfl⟩ := List.exists_cons_of_ne_nil hne
  have hc : isWhite c = false := lemma_nonspace_nonwhite (by simpa [isSpace] using hns c (by simp))
  rw [literal, lemma_skipWs_white _ _ hws, List.cons_append, lemma_skipWs_cons _ hc,
    ← List.cons_append, lemma_stripPrefix_self]

/-- a literal `L` does not match where another whitespace-free word `op`, followed by a `\s`
    character, stands and `L` is not a prefix of `op` -/
theorem lemma_literal_miss (L op ws : Str) (w : Char) (t : Str) (hws : White ws) (hop : op ≠ [])
    (hopns : ∀ c ∈ op, Gen.reSpace.contains c.toNat = false) (h : stripPrefix L op = none)
    (hw : w ∉ L) : literal L (ws ++ (op ++ w :: t)) = none := by
  obtain ⟨c, op', rfl⟩ := List.exists_cons_of_ne_nil hop
  have hc : isWhite c = false := lemma_nonspace_nonwhite (by simpa [isSpace] using hopns c (by simp))
  rw [literal, lemma_skipWs_white _ _ hws, List.cons_append, lemma_skipWs_cons _ hc,
    ← List.cons_append, lemma_stripPrefix_sep _ _ _ _ hw, h]; rfl

theorem lemma_literal_white (L ws : Str) (hws : White ws) (hne : L ≠ []) : literal L ws = none := by
  obtain ⟨c, L', rfl⟩ := List.exists_cons_of_ne_nil hne
  simp [literal, lemma_skipWs_allwhite ws hws, stripPrefix]

theorem lemma_orLoop_miss (n : Nat) (s : Str) (h : literal Gen.orLit s = none) : orLoop n s = [] := by
  cases n <;> simp [orLoop, h]

theorem lemma_disjunction_miss (s : Str) (h : literal Gen.orLit s = none) : disjunction s = none := by
  simp [disjunction, lemma_orLoop_miss _ _ h]

theorem lemma_nary_miss (s : Str) (h : literal Gen.allInLit s = none) : nary s = none := by
  simp [nary, h]

theorem lemma_rangeOp_miss (s : Str) (h : literal Gen.rangeLit s = none) : rangeOp s = none := by
  simp [rangeOp, h]

/-- `unary_ops + atom` on `op ws x rest` -/
theorem lemma_parse_unary (op : Str) (hop : op ∈ Gen.unaryLits) (ws0 ws1 x rest : Str)
    (h0 : White ws0) (h1 : White ws1) (hne : ws1 ≠ []) (hx : IsAtom x) (hr : Ends rest) :
    parse (ws0 ++ (op ++ (ws1 ++ (x ++ rest)))) = some [op, x] := by
  obtain ⟨w, ws1', rfl⟩ := List.exists_cons_of_ne_nil hne
  have hw : isSpace w = true := lemma_white_is_space (h1 w (by simp))
  obtain ⟨hopne, hopns⟩ := lemma_unaryLits_nospace op hop
  have hmiss : ∀ L ∈ [Gen.orLit, Gen.allInLit, Gen.rangeLit],
      literal L (ws0 ++ (op ++ (w :: ws1' ++ (x ++ rest)))) = none := fun L hL =>
    lemma_literal_miss L op ws0 w _ h0 hopne hopns (lemma_unary_not_special op hop L hL)
      (lemma_space_not_mem hw (lemma_special_nospace L hL).2)
  have hd := lemma_disjunction_miss _ (hmiss Gen.orLit (by simp))
  have hn := lemma_nary_miss _ (hmiss Gen.allInLit (by simp))
  have hg := lemma_rangeOp_miss _ (hmiss Gen.rangeLit (by simp))
  obtain ⟨c, op', rfl⟩ := List.exists_cons_of_ne_nil hopne
  have hc : isWhite c = false := lemma_nonspace_nonwhite (by simpa [isSpace] using hopns c (by simp))
  have hmf : matchFirst Gen.unaryLits (ws0 ++ (c :: op' ++ (w :: ws1' ++ (x ++ rest))))
      = some (c :: op', w :: ws1' ++ (x ++ rest)) := by
    have key := lemma_firstLit_sep Gen.unaryLits (c :: op') w (ws1' ++ (x ++ rest))
      (fun L hL => lemma_space_not_mem hw (lemma_unaryLits_nospace L hL).2)
    rw [lemma_unary_found_as_itself _ hop] at key
    rw [matchFirst, lemma_skipWs_white _ _ h0, List.cons_append, lemma_skipWs_cons _ hc]
    simpa using key
  have hat := lemma_atom (w :: ws1') x rest h1 hx hr
  simp only [parse, hd, hn, hg, unary, hmf, hat]


/-! ### spec shapes with several operands -/

/-- `pre₁ x₁ pre₂ x₂ … tail` -/
def atomsSpec : List (Str × Str) → Str → Str
  | [], e => e
  | (p, x) :: r, e => p ++ (x ++ atomsSpec r e)

/-- `pre₁ <or> mid₁ x₁ pre₂ <or> mid₂ x₂ … tail` -/
def orSpec : List (Str × Str × Str) → Str → Str
  | [], e => e
  | (p, m, x) :: r, e => p ++ (Gen.orLit ++ (m ++ (x ++ orSpec r e)))

/-- operands, each preceded by at least one whitespace character -/
def Operands (items : List (Str × Str)) : Prop :=
  ∀ i ∈ items, White i.1 ∧ i.1 ≠ [] ∧ IsAtom i.2

/-- further `<or>` alternatives: whitespace (at least one) before `<or>`, any whitespace after it -/
def Alternatives (alts : List (Str × Str × Str)) : Prop :=
  ∀ a ∈ alts, White a.1 ∧ a.1 ≠ [] ∧ White a.2.1 ∧ IsAtom a.2.2

theorem lemma_atomsSpec_ends (items : List (Str × Str)) (e : Str) (h : Operands items) (he : Ends e) :
    Ends (atomsSpec items e) := by
  cases items with
  | nil => exact he
  | cons i r =>
    obtain ⟨p, x⟩ := i
    have := h (p, x) (by simp)
    exact lemma_ends_white_append p _ this.1 this.2.1

theorem lemma_orSpec_ends (alts : List (Str × Str × Str)) (e : Str) (h : Alternatives alts) (he : White e) :
    Ends (orSpec alts e) := by
  cases alts with
  | nil => exact lemma_ends_white e he
  | cons a r =>
    obtain ⟨p, m, x⟩ := a
    have := h (p, m, x) (by simp)
    exact lemma_ends_white_append p _ this.1 this.2.1

theorem lemma_atomsLoop (items : List (Str × Str)) (e : Str) (h : Operands items) (he : Ends e)
    (hat : atom e = none) : ∀ fuel, items.length ≤ fuel →
    atomsLoop fuel (atomsSpec items e) = items.map (·.2) := by
  induction items with
  | nil => intro fuel _; cases fuel <;> simp [atomsLoop, atomsSpec, hat]
  | cons i r ih =>
    obtain ⟨p, x⟩ := i
    intro fuel hf
    obtain ⟨n, rfl⟩ : ∃ n, fuel = n + 1 := ⟨fuel - 1, by simp at hf; omega⟩
    have hi := h (p, x) (by simp)
    have hr : Operands r := fun j hj => h j (by simp [hj])
    have := lemma_atom p x (atomsSpec r e) hi.1 hi.2.2 (lemma_atomsSpec_ends r e hr he)
    simp only [atomsSpec, atomsLoop, this, List.map_cons]
    rw [ih hr n (by simp at hf; omega)]

theorem lemma_orLoop (alts : List (Str × Str × Str)) (e : Str) (he : White e) :
    ∀ (p m x : Str) (fuel : Nat), White p → White m → IsAtom x → Alternatives alts →
    alts.length + 1 ≤ fuel →
    orLoop fuel (p ++ (Gen.orLit ++ (m ++ (x ++ orSpec alts e)))) = x :: alts.map (·.2.2) := by
  induction alts with
  | nil =>
    intro p m x fuel hp hm hx _ hf
    obtain ⟨n, rfl⟩ : ∃ n, fuel = n + 1 := ⟨fuel - 1, by omega⟩
    have hl := lemma_literal_hit Gen.orLit p (m ++ (x ++ orSpec [] e)) hp
      (lemma_special_nospace _ (by simp)).1 (lemma_special_nospace _ (by simp)).2
    have ha := lemma_atom m x (orSpec [] e) hm hx (lemma_orSpec_ends [] e (fun _ h => by simp at h) he)
    have hend : orLoop n (orSpec [] e) = [] :=
      lemma_orLoop_miss _ _ (lemma_literal_white _ _ he (lemma_special_nospace _ (by simp)).1)
    simp only [orLoop, hl, ha, hend, List.map_nil]
  | cons a r ih =>
    intro p m x fuel hp hm hx halts hf
    obtain ⟨n, rfl⟩ : ∃ n, fuel = n + 1 := ⟨fuel - 1, by omega⟩
    have hl := lemma_literal_hit Gen.orLit p (m ++ (x ++ orSpec (a :: r) e)) hp
      (lemma_special_nospace _ (by simp)).1 (lemma_special_nospace _ (by simp)).2
    have ha := lemma_atom m x (orSpec (a :: r) e) hm hx (lemma_orSpec_ends _ e halts he)
    obtain ⟨p', m', x'⟩ := a
    have hi := halts (p', m', x') (by simp)
    have hr : Alternatives r := fun j hj => halts j (by simp [hj])
    have := ih p' m' x' n hi.1 hi.2.2.1 hi.2.2.2 hr (by simp at hf; omega)
    simp only [orLoop, hl, ha, List.map_cons]
    simp only [orSpec] at this ⊢
    rw [this]

theorem lemma_atomsSpec_length (items : List (Str × Str)) (e : Str) (h : Operands items) :
    items.length ≤ (atomsSpec items e).length := by
  induction items with
  | nil => simp
  | cons i r ih =>
    obtain ⟨p, x⟩ := i
    have hp : p ≠ [] := (h (p, x) (by simp)).2.1
    have : 1 ≤ p.length := List.length_pos_iff.mpr hp
    have := ih (fun j hj => h j (by simp [hj]))
    simp only [atomsSpec, List.length_append, List.length_cons]
    omega

theorem lemma_orSpec_length (alts : List (Str × Str × Str)) (e : Str) (h : Alternatives alts) :
    alts.length ≤ (orSpec alts e).length := by
  induction alts with
  | nil => simp
  | cons a r ih =>
    obtain ⟨p, m, x⟩ := a
    have hp : p ≠ [] := (h (p, m, x) (by simp)).2.1
    have : 1 ≤ p.length := List.length_pos_iff.mpr hp
    have := ih (fun j hj => h j (by simp [hj]))
    simp only [orSpec, List.length_append, List.length_cons]
    omega

/-! ### the parse of each documented spec shape -/

/-- `<or> x₁ <or> x₂ …` -/
theorem lemma_parse_or (ws0 m x : Str) (alts : List (Str × Str × Str)) (e : Str)
    (h0 : White ws0) (hm : White m) (hx : IsAtom x) (halts : Alternatives alts) (he : White e) :
    parse (ws0 ++ (Gen.orLit ++ (m ++ (x ++ orSpec alts e)))) = some (orTok :: x :: alts.map (·.2.2)) := by
  have hlen : alts.length + 1 ≤ (ws0 ++ (Gen.orLit ++ (m ++ (x ++ orSpec alts e)))).length := by
    have := lemma_orSpec_length alts e halts
    have : 1 ≤ x.length := List.length_pos_iff.mpr hx.ne
    simp only [List.length_append]
    omega
  have := lemma_orLoop alts e he ws0 m x _ h0 hm hx halts hlen
  simp only [parse, disjunction, this]

/-- `<all-in> x₁ x₂ …` -/
theorem lemma_parse_all_in (ws0 : Str) (items : List (Str × Str)) (e : Str)
    (h0 : White ws0) (hit : Operands items) (hne : items ≠ []) (he : White e) :
    parse (ws0 ++ (Gen.allInLit ++ atomsSpec items e)) = some (Gen.allInLit :: items.map (·.2)) := by
  obtain ⟨i, r, rfl⟩ := List.exists_cons_of_ne_nil hne
  obtain ⟨p, x⟩ := i
  have hi := hit (p, x) (by simp)
  obtain ⟨w, p', rfl⟩ := List.exists_cons_of_ne_nil hi.2.1
  have hw : isSpace w = true := lemma_white_is_space (hi.1 w (by simp))
  have hd : disjunction (ws0 ++ (Gen.allInLit ++ atomsSpec (((w :: p'), x) :: r) e)) = none := by
    apply lemma_disjunction_miss
    have := lemma_literal_miss Gen.orLit Gen.allInLit ws0 w (p' ++ (x ++ atomsSpec r e)) h0
      (lemma_special_nospace _ (by simp)).1 (lemma_special_nospace _ (by simp)).2
      lemma_special_distinct.1 (lemma_space_not_mem hw (lemma_special_nospace _ (by simp)).2)
    simpa [atomsSpec] using this
  have hl := lemma_literal_hit Gen.allInLit ws0 (atomsSpec (((w :: p'), x) :: r) e) h0
    (lemma_special_nospace _ (by simp)).1 (lemma_special_nospace _ (by simp)).2
  have hloop := lemma_atomsLoop (((w :: p'), x) :: r) e hit (lemma_ends_white e he)
    (lemma_atom_white e he) _ (lemma_atomsSpec_length _ e hit)
  simp only [parse, hd, nary, hl, hloop, List.map_cons]

/-- `<range-in> b₁ lo hi b₂` -/
theorem lemma_parse_range_in (ws0 w1 b1 w2 lo w3 hi w4 b2 rest : Str) (h0 : White ws0)
    (hit : Operands [(w1, b1), (w2, lo), (w3, hi), (w4, b2)]) (hr : Ends rest) :
    parse (ws0 ++ (Gen.rangeLit ++ atomsSpec [(w1, b1), (w2, lo), (w3, hi), (w4, b2)] rest))
      = some [Gen.rangeLit, b1, lo, hi, b2] := by
  have h1 := hit (w1, b1) (by simp)
  have h2 := hit (w2, lo) (by simp)
  have h3 := hit (w3, hi) (by simp)
  have h4 := hit (w4, b2) (by simp)
  obtain ⟨w, p', rfl⟩ := List.exists_cons_of_ne_nil h1.2.1
  have hw : isSpace w = true := lemma_white_is_space (h1.1 w (by simp))
  have hmiss : ∀ L, L ∈ [Gen.orLit, Gen.allInLit] → stripPrefix L Gen.rangeLit = none →
      literal L (ws0 ++ (Gen.rangeLit ++ atomsSpec [(w :: p', b1), (w2, lo), (w3, hi), (w4, b2)] rest)) = none := by
    intro L hL hs
    have := lemma_literal_miss L Gen.rangeLit ws0 w (p' ++ (b1 ++ atomsSpec [(w2, lo), (w3, hi), (w4, b2)] rest)) h0
      (lemma_special_nospace _ (by simp)).1 (lemma_special_nospace _ (by simp)).2
      hs (lemma_space_not_mem hw (lemma_special_nospace L (by simp at hL; rcases hL with rfl | rfl <;> simp)).2)
    simpa [atomsSpec] using this
  have hd := lemma_disjunction_miss _ (hmiss _ (by simp) lemma_special_distinct.2.1)
  have hn := lemma_nary_miss _ (hmiss _ (by simp) lemma_special_distinct.2.2)
  have hl := lemma_literal_hit Gen.rangeLit ws0 (atomsSpec [(w :: p', b1), (w2, lo), (w3, hi), (w4, b2)] rest) h0
    (lemma_special_nospace _ (by simp)).1 (lemma_special_nospace _ (by simp)).2
  have e4 : Ends (atomsSpec [] rest) := hr
  have a4 := lemma_atom w4 b2 _ h4.1 h4.2.2 e4
  have e3 : Ends (atomsSpec [(w4, b2)] rest) := lemma_ends_white_append w4 _ h4.1 h4.2.1
  have a3 := lemma_atom w3 hi _ h3.1 h3.2.2 e3
  have e2 : Ends (atomsSpec [(w3, hi), (w4, b2)] rest) := lemma_ends_white_append w3 _ h3.1 h3.2.1
  have a2 := lemma_atom w2 lo _ h2.1 h2.2.2 e2
  have e1 : Ends (atomsSpec [(w2, lo), (w3, hi), (w4, b2)] rest) := lemma_ends_white_append w2 _ h2.1 h2.2.1
  have a1 := lemma_atom (w :: p') b1 _ h1.1 h1.2.2 e1
  simp only [atomsSpec] at a1 a2 a3 a4 hl hd hn
  simp only [parse, hd, hn, rangeOp, hl, atomsSpec, a1, a2, a3, a4]

theorem lemma_atom_no_lit {x rest : Str} (hx : IsAtom x) (hr : Ends rest) :
    ∀ L ∈ Gen.notLits, stripPrefix L (x ++ rest) = none := by
  apply lemma_firstLit_none
  rcases lemma_ends_cases hr with rfl | ⟨w, b, rfl, hw⟩
  · simpa using lemma_atom_noop hx
  · rw [lemma_firstLit_sep _ _ _ _ (fun L hL => lemma_space_not_mem hw (lemma_notLits_nospace L hL)),
      lemma_atom_noop hx]; rfl

theorem lemma_firstLit_all_none {lits : List Str} {s : Str} (h : ∀ L ∈ lits, stripPrefix L s = none) :
    firstLit lits s = none := by
  induction lits with
  | nil => rfl
  | cons L ls ih =>
    simp only [firstLit, h L (by simp)]
    exact ih (fun L' hL' => h L' (by simp [hL']))

/-- a single operand with no operator -/
theorem lemma_parse_plain (ws0 x rest : Str) (h0 : White ws0) (hx : IsAtom x) (hr : Ends rest) :
    parse (ws0 ++ (x ++ rest)) = some [x] := by
  have hskip := lemma_skip_to_atom ws0 x rest h0 hx
  have hno := lemma_atom_no_lit hx hr
  have hmiss : ∀ L ∈ [Gen.orLit, Gen.allInLit, Gen.rangeLit], literal L (ws0 ++ (x ++ rest)) = none := by
    intro L hL
    rw [literal, hskip]
    exact hno L (lemma_special_in_notLits L hL)
  have hd := lemma_disjunction_miss _ (hmiss Gen.orLit (by simp))
  have hn := lemma_nary_miss _ (hmiss Gen.allInLit (by simp))
  have hg := lemma_rangeOp_miss _ (hmiss Gen.rangeLit (by simp))
  have hu : matchFirst Gen.unaryLits (ws0 ++ (x ++ rest)) = none := by
    rw [matchFirst, hskip]
    exact lemma_firstLit_all_none (fun L hL => hno L (lemma_unary_in_notLits L hL))
  simp only [parse, hd, hn, hg, unary, hu, lemma_atom ws0 x rest h0 hx hr]

/-! ### every parse result with more than one token begins with a key of `op_methods` -/

theorem lemma_firstLit_mem {lits : List Str} {s : Str} {l r : Str} (h : firstLit lits s = some (l, r)) :
    l ∈ lits := by
  induction lits with
  | nil => simp [firstLit] at h
  | cons L ls ih =>
    simp only [firstLit] at h
    cases hs : stripPrefix L s with
    | some r' => simp [hs] at h; simp [h.1]
    | none => simp [hs] at h; exact List.mem_cons_of_mem _ (ih h)

theorem lemma_keys_tbl : (∀ L ∈ Gen.unaryLits, (opTable.lookup L).isSome = true) ∧
    (opTable.lookup Gen.allInLit).isSome = true ∧ (opTable.lookup Gen.rangeLit).isSome = true ∧
    (opTable.lookup orTok).isSome = true := by decide

theorem lemma_parse_head (s : Str) (t : List Str) (h : parse s = some t) :
    (∃ a, t = [a]) ∨ (∃ op a as, t = op :: a :: as ∧ (opTable.lookup op).isSome = true) := by
  simp only [parse] at h
  split at h
  · rename_i t' hd
    cases h
    simp only [disjunction] at hd
    split at hd
    · cases hd
    · cases hd; exact Or.inr ⟨_, _, _, rfl, lemma_keys_tbl.2.2.2⟩
  · split at h
    · rename_i t' hn
      cases h
      simp only [nary] at hn
      split at hn
      · cases hn
      · split at hn
        · cases hn
        · cases hn; exact Or.inr ⟨_, _, _, rfl, lemma_keys_tbl.2.1⟩
    · split at h
      · rename_i t' hg
        cases h
        simp only [rangeOp] at hg
        repeat (split at hg; (try cases hg))
        all_goals first | (cases hg; exact Or.inr ⟨_, _, _, rfl, lemma_keys_tbl.2.2.1⟩) | skip
      · split at h
        · rename_i t' hu
          cases h
          simp only [unary] at hu
          split at hu
          · cases hu
          · rename_i op r hm
            split at hu
            · cases hu
            · cases hu
              exact Or.inr ⟨_, _, _, rfl, lemma_keys_tbl.1 _ (lemma_firstLit_mem hm)⟩
        · split at h
          · cases h; exact Or.inl ⟨_, rfl⟩
          · cases h


/-! ### decimal text -/


/-- all characters are ASCII digits -/
def Digits (ds : Str) : Prop := ∀ c ∈ ds, isDigit c = true

instance (ds : Str) : Decidable (Digits ds) := by unfold Digits; infer_instance

/-- value of a digit string -/
def decVal (ds : Str) : Nat := natOfDigits (ds.map digitVal)

theorem lemma_digitsTail (r t : Str) (hr : Digits r)
    (ht : ∀ c ∈ t.head?, isDigit c = false ∧ c ≠ '_') :
    ∀ fuel, r.length ≤ fuel → digitsTail fuel (r ++ t) = (r.map digitVal, t) := by
  induction r with
  | nil =>
    intro fuel _
    cases fuel with
    | zero => simp [digitsTail]
    | succ n =>
      cases t with
      | nil => simp [digitsTail]
      | cons c t =>
        have := ht c (by simp)
        simp [digitsTail, this.1, this.2]
  | cons c r ih =>
    intro fuel hf
    obtain ⟨n, rfl⟩ : ∃ n, fuel = n + 1 := ⟨fuel - 1, by simp at hf; omega⟩
    have hc : isDigit c = true := hr c (by simp)
    have := ih (fun d hd => hr d (by simp [hd])) n (by simp at hf; omega)
    simp [digitsTail, hc, this]

theorem lemma_digitPart (ds t : Str) (hne : ds ≠ []) (hd : Digits ds)
    (ht : ∀ c ∈ t.head?, isDigit c = false ∧ c ≠ '_') :
    digitPart (ds ++ t) = (some (ds.map digitVal), t) := by
  obtain ⟨c, r, rfl⟩ := List.exists_cons_of_ne_nil hne
  have hc : isDigit c = true := hd c (by simp)
  have := lemma_digitsTail r t (fun d hd' => hd d (by simp [hd'])) ht (r ++ t).length (by simp)
  simp only [List.length_append] at this
  simp [digitPart, hc, this]

/-- `float()`'s number grammar on a plain decimal: digits, optionally `.` and more digits -/
theorem lemma_floatNumber_int (ip : Str) (hne : ip ≠ []) (hd : Digits ip) :
    floatNumber ip = some (decVal ip : Rat) := by
  have := lemma_digitPart ip [] hne hd (by simp)
  simp only [List.append_nil] at this
  simp [floatNumber, this, withExponent, decVal]

theorem lemma_floatNumber_dec (ip fp : Str) (hne : ip ≠ []) (hd : Digits ip) (hfne : fp ≠ [])
    (hfd : Digits fp) :
    floatNumber (ip ++ '.' :: fp) = some ((decVal ip : Rat) + (decVal fp : Rat) / (10 : Rat) ^ fp.length) := by
  have h1 := lemma_digitPart ip ('.' :: fp) hne hd (by simp; decide)
  have h2 := lemma_digitPart fp [] hfne hfd (by simp)
  simp only [List.append_nil] at h2
  simp [floatNumber, h1, h2, withExponent, decVal]


theorem lemma_digit_range {c : Char} (h : isDigit c = true) : 48 ≤ c.toNat ∧ c.toNat ≤ 57 := by
  simp only [isDigit, Bool.and_eq_true, decide_eq_true_eq] at h
  have h1 := h.1; have h2 := h.2
  rw [Char.le_def, UInt32.le_iff_toNat_le] at h1 h2
  exact ⟨h1, h2⟩

theorem lemma_digit_tbl : ∀ n < 58, 48 ≤ n → Gen.pySpace.contains n = false := by decide

theorem lemma_digit_facts {c : Char} (h : isDigit c = true) :
    isPySpace c = false ∧ c.toNat < 128 ∧ c ≠ '+' ∧ c ≠ '-' ∧ asciiLower c = c ∧ c ≠ 'i' ∧ c ≠ 'n' := by
  obtain ⟨h1, h2⟩ := lemma_digit_range h
  refine ⟨lemma_digit_tbl _ (by omega) h1, by omega, ?_, ?_, ?_, ?_, ?_⟩
  · rintro rfl; revert h1; decide
  · rintro rfl; revert h1; decide
  · have : ¬ ('A' ≤ c ∧ c ≤ 'Z') := by
      rintro ⟨ha, -⟩
      rw [Char.le_def, UInt32.le_iff_toNat_le] at ha
      have : 65 ≤ c.toNat := ha
      omega
    simp [asciiLower, this]
  · rintro rfl; revert h2; decide
  · rintro rfl; revert h2; decide

theorem lemma_dropWhile_head (p : Char → Bool) (s : Str) (h : ∀ c ∈ s.head?, p c = false) :
    s.dropWhile p = s := by
  cases s with
  | nil => rfl
  | cons a m => simp [List.dropWhile_cons, h a (by simp)]

theorem lemma_pyStrip (s : Str) (hh : ∀ c ∈ s.head?, isPySpace c = false)
    (hl : ∀ c ∈ s.getLast?, isPySpace c = false) : pyStrip s = s := by
  unfold pyStrip
  rw [lemma_dropWhile_head _ s hh, lemma_dropWhile_head _ s.reverse (by simpa using hl), List.reverse_reverse]

/-- `float()` on optional `-`, then text that starts and ends with a digit, is all ASCII, and is
    a number `q` by the number grammar -/
theorem lemma_pyFloat_plain (neg : Bool) (d : Char) (m : Str) (q : Rat) (hd : isDigit d = true)
    (hlast : ∀ c ∈ (d :: m).getLast?, isDigit c = true) (hascii : ∀ c ∈ d :: m, c.toNat < 128)
    (hq : floatNumber (d :: m) = some q) :
    pyFloat ((if neg then ['-'] else []) ++ d :: m) = .num (.fin (if neg then -q else q)) := by
  obtain ⟨hsp, _, hplus, hminus, hlow, hi, hn⟩ := lemma_digit_facts hd
  have hlastsp : ∀ c ∈ ((if neg then ['-'] else []) ++ d :: m).getLast?, isPySpace c = false := by
    intro c hc
    have : c ∈ (d :: m).getLast? := by
      cases neg <;> simpa [List.getLast?_append] using hc
    exact (lemma_digit_facts (hlast c this)).1
  have hheadsp : ∀ c ∈ ((if neg then ['-'] else []) ++ d :: m).head?, isPySpace c = false := by
    intro c hc
    cases neg
    · simp at hc; subst hc; exact hsp
    · simp at hc; subst hc; decide
  have hany : ((if neg then ['-'] else []) ++ d :: m).any (fun c => decide (c.toNat ≥ 128)) = false := by
    rw [List.any_eq_false]
    intro c hc
    have : c.toNat < 128 := by
      cases neg
      · exact hascii c (by simpa using hc)
      · simp at hc
        rcases hc with rfl | hc
        · decide
        · exact hascii c (by simpa using hc)
    simp; omega
  unfold pyFloat
  rw [lemma_pyStrip _ hheadsp hlastsp]
  simp only [hany, Bool.false_eq_true, if_false]
  cases neg
  · simp only [Bool.false_eq_true, if_false, List.nil_append]
    split
    · rename_i r heq; simp at heq; exact absurd heq.1 hplus
    · rename_i r heq; simp at heq; exact absurd heq.1 hminus
    · simp [hq, hlow, hi, hn]
  · simp [hq, hlow, hi, hn]

/-- text of a decimal number: optional `-`, digits, optionally `.` and more digits -/
def decText (neg : Bool) (ip fp : Str) : Str :=
  (if neg then ['-'] else []) ++ (ip ++ (if fp = [] then [] else '.' :: fp))

/-- the rational it denotes -/
def decValue (neg : Bool) (ip fp : Str) : Rat :=
  let q : Rat := (decVal ip : Rat) + (decVal fp : Rat) / (10 : Rat) ^ fp.length
  if neg then -q else q

theorem lemma_decimal_text_value (neg : Bool) (ip fp : Str) (hne : ip ≠ []) (hd : Digits ip)
    (hfd : Digits fp) : pyFloat (decText neg ip fp) = .num (.fin (decValue neg ip fp)) := by
  obtain ⟨d, m, rfl⟩ := List.exists_cons_of_ne_nil hne
  have hdd : isDigit d = true := hd d (by simp)
  have h128 : ∀ c, isDigit c = true → c.toNat < 128 := fun c hc => (lemma_digit_facts hc).2.1
  by_cases hfp : fp = []
  · subst hfp
    have hq := lemma_floatNumber_int (d :: m) (by simp) hd
    have := lemma_pyFloat_plain neg d m _ hdd
      (fun c hc => hd c (List.mem_of_getLast? hc)) (fun c hc => h128 c (hd c hc)) hq
    have e : ∀ x : Rat, x + 0 / 1 = x := by intro x; grind
    simpa [decText, decValue, decVal, natOfDigits, e] using this
  · have hq := lemma_floatNumber_dec (d :: m) fp (by simp) hd hfp hfd
    have hlast : ∀ c ∈ (d :: (m ++ '.' :: fp)).getLast?, isDigit c = true := by
      intro c hc
      have : c ∈ fp.getLast? := by
        have e : d :: (m ++ '.' :: fp) = (d :: m ++ ['.']) ++ fp := by simp
        rw [e, List.getLast?_append] at hc
        cases hfl : fp.getLast? with
        | none => simp [List.getLast?_eq_none_iff] at hfl; exact absurd hfl hfp
        | some z => simpa [hfl] using hc
      exact hfd c (List.mem_of_getLast? this)
    have hascii : ∀ c ∈ d :: (m ++ '.' :: fp), c.toNat < 128 := by
      intro c hc
      simp only [List.mem_cons, List.mem_append] at hc
      rcases hc with rfl | hc | rfl | hc
      · exact h128 _ hdd
      · exact h128 c (hd c (by simp [hc]))
      · decide
      · exact h128 c (hfd c hc)
    have := lemma_pyFloat_plain neg d (m ++ '.' :: fp) _ hdd hlast hascii (by simpa using hq)
    simpa [decText, decValue, hfp] using this


theorem lemma_decimal_tbl : (∀ n < 58, (48 ≤ n ∨ n = 45 ∨ n = 46) → Gen.reSpace.contains n = false) ∧
    (∀ L ∈ Gen.notLits, ∀ n < 58, (48 ≤ n ∨ n = 45) → L ≠ [] ∧ L.head?.map Char.toNat ≠ some n) := by
  decide

/-- a decimal text is an operand of the documented language -/
theorem lemma_decimal_atom (neg : Bool) (ip fp : Str) (hne : ip ≠ []) (hd : Digits ip) (hfd : Digits fp) :
    IsAtom (decText neg ip fp) := by
  have hchars : ∀ c ∈ decText neg ip fp, isDigit c = true ∨ c = '-' ∨ c = '.' := by
    intro c hc
    simp only [decText, List.mem_append] at hc
    rcases hc with hc | hc | hc
    · cases neg <;> simp at hc; exact Or.inr (Or.inl hc)
    · exact Or.inl (hd c hc)
    · by_cases hfp : fp = []
      · simp [hfp] at hc
      · simp [hfp] at hc
        rcases hc with rfl | hc
        · exact Or.inr (Or.inr rfl)
        · exact Or.inl (hfd c hc)
  obtain ⟨d, m, rfl⟩ := List.exists_cons_of_ne_nil hne
  have hdd : isDigit d = true := hd d (by simp)
  -- the first character: `-` or a digit
  obtain ⟨c, t, htext, hc⟩ : ∃ c t, decText neg (d :: m) fp = c :: t ∧ (48 ≤ c.toNat ∧ c.toNat ≤ 57 ∨ c.toNat = 45) := by
    cases neg
    · exact ⟨d, m ++ (if fp = [] then [] else '.' :: fp), by simp [decText], Or.inl (lemma_digit_range hdd)⟩
    · exact ⟨'-', d :: (m ++ (if fp = [] then [] else '.' :: fp)), by simp [decText], Or.inr (by decide)⟩
  have hnospace : ∀ c ∈ decText neg (d :: m) fp, isSpace c = false := by
    intro c hc
    rcases hchars c hc with h | rfl | rfl
    · obtain ⟨h1, h2⟩ := lemma_digit_range h
      exact lemma_decimal_tbl.1 _ (by omega) (Or.inl h1)
    · decide
    · decide
  refine ⟨by rw [htext]; simp, hnospace, ?_⟩
  have hcw : isWhite c = false := lemma_nonspace_nonwhite (hnospace c (by rw [htext]; simp))
  rw [htext]
  simp only [startsWithOp, matchFirst, lemma_skipWs_cons _ hcw]
  rw [lemma_firstLit_all_none]; rfl
  intro L hL
  have hlt : c.toNat < 58 := by omega
  have hor : 48 ≤ c.toNat ∨ c.toNat = 45 := by omega
  obtain ⟨hLne, hhead⟩ := lemma_decimal_tbl.2 L hL c.toNat hlt hor
  obtain ⟨l0, L', rfl⟩ := List.exists_cons_of_ne_nil hLne
  have : l0 ≠ c := by
    rintro rfl
    simp at hhead
  simp [stripPrefix, this]

end Oslo.Specs
