/-
The region invariant "what a region holds is the stream's bytes at its offsets", for plain
and end-capture regions, through capture / skip / creation / truncation.
-/
import OsloProofs.Lemmas.Engine
import OsloProofs.Lemmas.Bounded
namespace Oslo.Insp

/-- region `r` has been presented exactly the stream prefix `q` -/
def RegInv (r : Region) (q : Bytes) : Prop :=
  (r.isEnd = false → PlainInv r q) ∧
  (r.isEnd = true → 0 < r.length ∧ ∃ b, b ≤ q.length ∧ r.data = lastN r.length (q.drop b) ∧
      (r.data = [] ∨ r.offset = q.length - r.data.length))

theorem lemma_prefix_take {α} {a b : List α} (h : a <+: b) : a = b.take a.length := by
  obtain ⟨t, rfl⟩ := h
  simp

theorem lemma_lastN_suffix (n : Nat) (x : Bytes) : lastN n x = x.drop (x.length - (lastN n x).length) := by
  unfold lastN
  split
  · simp
  · simp only [List.length_drop]
    congr 1
    omega

/-- the conclusion: the retained bytes are the stream slice at the region's offset -/
theorem lemma_regInv_slice (r : Region) (q : Bytes) (h : RegInv r q) :
    r.data = sliceOf q r.offset r.data.length := by
  obtain ⟨hp, he⟩ := h
  cases hE : r.isEnd
  · obtain ⟨h1, _⟩ := hp hE
    have := lemma_prefix_take h1
    simp only [sliceOf, List.take_take] at this ⊢
    rw [this]
    simp only [List.length_take, List.length_drop]
    congr 1
    have hl := List.IsPrefix.length_le h1
    simp only [sliceOf, List.length_take, List.length_drop] at hl
    omega
  · obtain ⟨hn, b, hb, hd, ho⟩ := he hE
    rcases ho with ho | ho
    · rw [ho]; simp [sliceOf]
    · have hs := lemma_lastN_suffix r.length (q.drop b)
      rw [← hd] at hs
      simp only [List.length_drop, List.drop_drop] at hs
      have hle : r.data.length ≤ q.length - b := by
        rw [hd]; unfold lastN; split
        · omega
        · simp; omega
      rw [ho]
      simp only [sliceOf]
      have e : q.length - r.data.length = b + (q.length - b - r.data.length) := by omega
      rw [e, ← hs]
      have : r.data.length = r.data.length := rfl
      exact (List.take_of_length_le (Nat.le_refl _)).symm

/-- presenting one more chunk under `_capture`'s rule -/
theorem lemma_regInv_step (r : Region) (p c : Bytes) (h : RegInv r p) :
    RegInv (stepRegion c (p.length + c.length) r) (p ++ c) := by
  obtain ⟨hp, he⟩ := h
  cases hE : r.isEnd
  · obtain ⟨hinv, _, _, _, _, e5, _⟩ := lemma_plain_step r p c hE (hp hE)
    have hs : (if r.isEnd || !r.complete then r.capture c (p.length + c.length) else r) =
        stepRegion c (p.length + c.length) r := rfl
    rw [hs] at hinv e5
    exact ⟨fun _ => hinv, fun h => by rw [e5] at h; simp at h⟩
  · obtain ⟨hn, b, hb, hd, _⟩ := he hE
    have hcap : stepRegion c (p.length + c.length) r =
        { r with data := lastN r.length (r.data ++ c),
                 offset := (p.length + c.length) - (lastN r.length (r.data ++ c)).length } := by
      simp [stepRegion, Region.capture, hE]
    rw [hcap]
    refine ⟨fun h => by simp [hE] at h, fun _ => ⟨hn, b, by simp; omega, ?_, Or.inr (by simp)⟩⟩
    simp only
    rw [hd, lemma_lastN_lastN, List.drop_append_of_le_length hb]

/-- a freshly created region has been presented nothing; this is consistent with the prefix `p`
    already streamed when it starts at or after `|p|` (or is an end-capture region, or is empty) -/
theorem lemma_regInv_fresh (rid off len : Nat) (ml : Option Nat) (isEnd : Bool) (p : Bytes)
    (h : isEnd = true ∧ 0 < len ∨ isEnd = false ∧ p.length ≤ off) :
    RegInv { rid := rid, offset := off, length := len, minLength := ml, data := [], isEnd := isEnd,
             endDone := false } p := by
  rcases h with ⟨hE, hl⟩ | ⟨hE, hf⟩
  · subst hE
    refine ⟨fun h => by simp at h, fun _ => ⟨hl, p.length, Nat.le_refl _, ?_, Or.inl rfl⟩⟩
    simp [lastN]
  · subst hE
    refine ⟨fun _ => ⟨by simp, fun _ => ?_⟩, fun h => by simp at h⟩
    simp only [sliceOf]
    rw [List.drop_eq_nil_of_le hf]
    simp

/-- stopping a plain region at what it holds keeps the invariant -/
theorem lemma_regInv_trunc (r : Region) (q : Bytes) (hE : r.isEnd = false) (h : RegInv r q) :
    RegInv { r with length := r.data.length } q := by
  have hs := lemma_regInv_slice r q h
  refine ⟨fun _ => ⟨?_, fun _ => ?_⟩, fun h' => by simp [hE] at h'⟩
  · simp only; rw [← hs]; exact List.prefix_refl _
  · simp only; exact hs

end Oslo.Insp
