/-
The expected inspector's run (`xrun`) for the VHDX inspector under `VhdxForward ∧ VhdxMetaSigOK`:
between chunks the state is one of the `VInv` shapes of the prefix streamed so far, what
`_process_chunk` reads off it is the function `decSpec` of that prefix, `complete` is monotone in
the prefix (`lemma_vhdxComplete_mono`) and `format_match` is fixed once 8 bytes are in, so the first
chunk boundary at which the inspector is complete decides as the end of the stream does; an error
of the region-table walk is raised at the first boundary at or after 256 KiB.
Used by Props/C01WrapExp.lean.
-/
import OsloProofs.Lemmas.WrapRunExpReal
import OsloProofs.Props.C01Vhdx
namespace Oslo.Insp

/-- `complete` of the VHDX inspector as a function of the bytes streamed -/
def vhdxCompleteB (s : Bytes) : Bool :=
  if s.length < 262144 then false else
  match findMetaRegionB (sliceOf s 196608 65536) with
  | .error _ => true
  | .ok none => true
  | .ok (some mo) =>
    match findMetaEntryB (sliceOf s mo 65536) with
    | .error _ => decide ((sliceOf s mo 65536).length = 65536)
    | .ok none => decide ((sliceOf s mo 65536).length = 65536)
    | .ok (some (ioff, ilen)) =>
      decide ((sliceOf s (mo + ioff) (min ilen 65536)).length = min ilen 65536)

theorem lemma_spec_complete (s : Bytes) : (specVhdx s).complete = vhdxCompleteB s := by
  unfold specVhdx vhdxCompleteB
  by_cases hl : s.length < 262144
  · simp only [hl, if_true, vhdxVerdict]
  · simp only [hl, if_false]
    cases findMetaRegionB (sliceOf s 196608 65536) with
    | error e => rfl
    | ok o =>
      cases o with
      | none => rfl
      | some mo =>
        simp only
        cases findMetaEntryB (sliceOf s mo 65536) with
        | error e => rfl
        | ok o2 =>
          cases o2 with
          | none => rfl
          | some x =>
            obtain ⟨ioff, ilen⟩ := x
            simp only
            by_cases hv : (sliceOf s (mo + ioff) (min ilen 65536)).length = min ilen 65536
            · simp only [hv, if_true, vhdxVerdict, decide_true]
            · simp only [hv, if_false, vhdxVerdict, decide_false]

theorem lemma_spec_match (s : Bytes) : (specVhdx s).fmtMatch = .ok (startsWith s (ascii "vhdxfile")) := by
  unfold specVhdx
  by_cases hl : s.length < 262144
  · simp only [hl, if_true, vhdxVerdict]
  · simp only [hl, if_false]
    cases findMetaRegionB (sliceOf s 196608 65536) with
    | error e => rfl
    | ok o =>
      cases o with
      | none => rfl
      | some mo =>
        simp only
        cases findMetaEntryB (sliceOf s mo 65536) with
        | error e => rfl
        | ok o2 =>
          cases o2 with
          | none => rfl
          | some x =>
            obtain ⟨ioff, ilen⟩ := x
            simp only
            split <;> rfl

theorem lemma_vhdxComplete_long (s : Bytes) (h : vhdxCompleteB s = true) : 262144 ≤ s.length := by
  unfold vhdxCompleteB at h
  by_cases hl : s.length < 262144
  · simp [hl] at h
  · omega

/-- **`complete` is monotone in the prefix streamed** -/
theorem lemma_vhdxComplete_mono (q c : Bytes) (h : vhdxCompleteB q = true) : vhdxCompleteB (q ++ c) = true := by
  have hl := lemma_vhdxComplete_long q h
  have hpre : q <+: q ++ c := List.prefix_append q c
  have hl' : ¬ ((q ++ c).length < 262144) := by rw [List.length_append]; omega
  have hlq : ¬ (q.length < 262144) := by omega
  have hh : sliceOf (q ++ c) 196608 65536 = sliceOf q 196608 65536 := lemma_sliceOf_within hpre _ _ (by omega)
  unfold vhdxCompleteB at h ⊢
  simp only [hl', hlq, if_false, hh] at h ⊢
  cases hr : findMetaRegionB (sliceOf q 196608 65536) with
  | error e => rfl
  | ok o =>
    cases o with
    | none => rfl
    | some mo =>
      rw [hr] at h
      simp only at h ⊢
      have hfull : (sliceOf q mo 65536).length = 65536 → sliceOf (q ++ c) mo 65536 = sliceOf q mo 65536 := by
        intro hf
        rw [lemma_sliceOf_length] at hf
        exact lemma_sliceOf_within hpre _ _ (by omega)
      cases he : findMetaEntryB (sliceOf q mo 65536) with
      | error e =>
        rw [he] at h
        simp only [decide_eq_true_eq] at h
        rw [hfull h, he]
        simp only [decide_eq_true_eq]
        exact h
      | ok o2 =>
        cases o2 with
        | none =>
          rw [he] at h
          simp only [decide_eq_true_eq] at h
          rw [hfull h, he]
          simp only [decide_eq_true_eq]
          exact h
        | some x =>
          obtain ⟨ioff, ilen⟩ := x
          rw [he] at h
          rw [lemma_entry_mono q c mo _ he]
          simp only [decide_eq_true_eq, lemma_sliceOf_length, List.length_append] at h ⊢
          omega

/-- what `_process_chunk` reads off a (non-raising) VHDX inspector, as a function of the bytes -/
def decSpec (q : Bytes) : POut :=
  if vhdxCompleteB q then ofMatch (.ok (startsWith q (ascii "vhdxfile"))) else .done

theorem lemma_vinv_finish_regions (q : Bytes) (st : Insp) (h : VInv q st) : st.finish.regions = st.regions := by
  cases h <;> simp [stA, stM, stV, vst, Insp.finish, Region.finish, plainR]

theorem lemma_vinv_dec (q : Bytes) (st : Insp) (h : VInv q st) : decI st = decSpec q := by
  have hv := lemma_verdict_state q st h
  have hreg := lemma_vinv_finish_regions q st h
  have hc : st.complete = vhdxCompleteB q := by
    rw [← lemma_spec_complete, ← hv]
    simp only [verdict, Insp.complete, hreg]
  have hm : formatMatch st = .ok (startsWith q (ascii "vhdxfile")) := by
    rw [← lemma_spec_match, ← hv]
    simp only [verdict]
    exact (lemma_formatMatch_congr st st.finish rfl hreg rfl rfl).symm
  simp only [decI, decSpec, hc, hm]

/-- feeding a chunk list whose bytes are a prefix of the stream `s` (generalises `lemma_vinv_feed`) -/
theorem lemma_vinv_feed_prefix (s : Bytes) (hf : VhdxForward s) (hs : VhdxMetaSigOK s) :
    ∀ (chunks : List Bytes) (p : Bytes) (st : Insp), VInv p st → p ++ chunks.flatten <+: s →
      ∃ q, q <+: s ∧ VNext q (feed st chunks) ∧ ((feed st chunks).2 = none → q = p ++ chunks.flatten) ∧
        q <+: p ++ chunks.flatten := by
  intro chunks
  induction chunks with
  | nil =>
    intro p st h hp
    simp only [List.flatten_nil, List.append_nil] at hp ⊢
    exact ⟨p, hp, h, fun _ => rfl, List.prefix_refl _⟩
  | cons c cs ih =>
    intro p st h hp
    have hassoc : p ++ (c :: cs).flatten = (p ++ c) ++ cs.flatten := by simp
    rw [hassoc] at hp ⊢
    have hq : p ++ c <+: s := List.IsPrefix.trans (List.prefix_append _ _) hp
    have hstep := lemma_vinv_step s p c st hq hf hs h
    unfold feed
    cases heq : eatChunk st c with
    | mk s1 e =>
      rw [heq] at hstep
      cases e with
      | some e => exact ⟨p ++ c, hq, hstep, fun hn => by simp at hn, List.prefix_append _ _⟩
      | none => exact ih (p ++ c) s1 hstep hp

/-- how the read through a wrapper expecting VHDX ends, as a function of the bytes -/
def vhdxOutcome (s : Bytes) : POut :=
  if s.length < 262144 then .done else
  match findMetaRegionB (sliceOf s 196608 65536) with
  | .error e => .raised e
  | .ok _ => decSpec s

theorem lemma_decSpec_short (q : Bytes) (h : q.length < 262144) : decSpec q = .done := by
  simp [decSpec, vhdxCompleteB, h]

/-- a prefix's decision is "go on" or the whole stream's -/
theorem lemma_decSpec_prefix (q r : Bytes) : decSpec q = .done ∨ decSpec q = decSpec (q ++ r) := by
  by_cases hc : vhdxCompleteB q = true
  · right
    have hl := lemma_vhdxComplete_long q hc
    have hm : startsWith (q ++ r) (ascii "vhdxfile") = startsWith q (ascii "vhdxfile") :=
      lemma_startsWith_prefix (List.prefix_append q r) (by omega)
    simp only [decSpec, hc, lemma_vhdxComplete_mono q r hc, hm]
  · left
    simp [decSpec, hc]

/-- one prefix of the chunk list: what `_process_chunk` reads off the VHDX inspector after it -/
theorem lemma_vhdx_prefix (s0 : Insp) (h0 : Insp.init .vhdx = some s0) (L : List Bytes) (r : Bytes)
    (hf : VhdxForward (L.flatten ++ r)) (hs : VhdxMetaSigOK (L.flatten ++ r)) :
    (decOf realOps (gfeed realOps s0 L) = decSpec L.flatten ∧
      ∀ e, findMetaRegionB (sliceOf (L.flatten ++ r) 196608 65536) = .error e → L.flatten.length < 262144) ∨
    (∃ e, decOf realOps (gfeed realOps s0 L) = .raised e ∧ 262144 ≤ L.flatten.length ∧
      findMetaRegionB (sliceOf (L.flatten ++ r) 196608 65536) = .error e) := by
  rw [lemma_init_vhdx] at h0
  simp only [Option.some.injEq] at h0
  subst h0
  rw [lemma_gfeed_real]
  obtain ⟨q, hq, hnext, hend, hqL⟩ := lemma_vinv_feed_prefix (L.flatten ++ r) hf hs L [] (stA [])
    (VInv.early (by simp)) (by simp)
  cases hfeed : feed (stA []) L with
  | mk st e =>
    rw [hfeed] at hnext hend
    cases e with
    | none =>
      left
      have hqe : q = L.flatten := by simpa using hend rfl
      subst hqe
      have hinv : VInv L.flatten st := hnext
      refine ⟨by rw [lemma_decOf_none]; exact lemma_vinv_dec _ st hinv, ?_⟩
      intro e he
      by_cases hl : L.flatten.length < 262144
      · exact hl
      · exfalso
        have hh : sliceOf (L.flatten ++ r) 196608 65536 = sliceOf L.flatten 196608 65536 :=
          lemma_sliceOf_within (List.prefix_append _ _) _ _ (by omega)
        rw [hh] at he
        cases hinv with
        | early hlt => exact hl hlt
        | nometa _ hr => rw [hr] at he; simp at he
        | withMeta mo _ hr _ => rw [hr] at he; simp at he
        | withVds mo ioff ilen L' _ hr _ _ => rw [hr] at he; simp at he
    | some e =>
      right
      obtain ⟨hl, hr, _⟩ : VErr q st e := hnext
      have hql : q.length ≤ L.flatten.length := by
        simpa using List.IsPrefix.length_le hqL
      refine ⟨e, lemma_decOf_some st e, by omega, ?_⟩
      rw [lemma_sliceOf_within hq _ _ (by omega)]
      exact hr

/-- **VHDX under `VhdxForward ∧ VhdxMetaSigOK`**: for every chunking the expected inspector's run
    ends as `vhdxOutcome` of the bytes says -/
theorem lemma_xrun_vhdx (s0 : Insp) (h0 : Insp.init .vhdx = some s0) (cs : List Bytes)
    (hf : VhdxForward cs.flatten) (hs : VhdxMetaSigOK cs.flatten) :
    (xrun realOps s0 cs).2 = vhdxOutcome cs.flatten := by
  have hpre : ∀ pre c post, cs = pre ++ c :: post →
      (decOf realOps (gfeed realOps s0 (pre ++ [c])) = decSpec (pre ++ [c]).flatten ∧
        ∀ e, findMetaRegionB (sliceOf cs.flatten 196608 65536) = .error e → (pre ++ [c]).flatten.length < 262144) ∨
      (∃ e, decOf realOps (gfeed realOps s0 (pre ++ [c])) = .raised e ∧ 262144 ≤ (pre ++ [c]).flatten.length ∧
        findMetaRegionB (sliceOf cs.flatten 196608 65536) = .error e) := by
    intro pre c post hcs
    have hfl : cs.flatten = (pre ++ [c]).flatten ++ post.flatten := by rw [hcs]; simp
    rw [hfl] at hf hs ⊢
    exact lemma_vhdx_prefix s0 h0 (pre ++ [c]) post.flatten hf hs
  have hsplit_len : ∀ pre c post, cs = pre ++ c :: post → (pre ++ [c]).flatten.length ≤ cs.flatten.length := by
    intro pre c post hcs
    have hfl : cs.flatten = (pre ++ [c]).flatten ++ post.flatten := by rw [hcs]; simp
    rw [hfl, List.length_append]; omega
  have hdecpre : ∀ pre c post, cs = pre ++ c :: post →
      decSpec (pre ++ [c]).flatten = .done ∨ decSpec (pre ++ [c]).flatten = decSpec cs.flatten := by
    intro pre c post hcs
    have hfl : cs.flatten = (pre ++ [c]).flatten ++ post.flatten := by rw [hcs]; simp
    rw [hfl]
    exact lemma_decSpec_prefix _ _
  unfold vhdxOutcome
  by_cases hl : cs.flatten.length < 262144
  · rw [if_pos hl]
    apply lemma_xrun_all_done
    intro pre c post hcs
    have hlen := hsplit_len pre c post hcs
    rcases hpre pre c post hcs with ⟨hd, _⟩ | ⟨e, _, hge, _⟩
    · rw [hd]; exact lemma_decSpec_short _ (by omega)
    · omega
  · rw [if_neg hl]
    have hne : cs ≠ [] := by
      intro he
      rw [he] at hl
      simp at hl
    obtain ⟨lpre, lc, hlast⟩ := lemma_snoc_cases cs hne
    cases hr : findMetaRegionB (sliceOf cs.flatten 196608 65536) with
    | error e =>
      simp only
      apply lemma_xrun_two realOps cs s0 (.raised e) (by simp)
      · intro pre c post hcs
        rcases hpre pre c post hcs with ⟨hd, hshort⟩ | ⟨e', hd, _, he'⟩
        · left
          rw [hd]
          exact lemma_decSpec_short _ (hshort e hr)
        · right
          rw [hr] at he'
          simp only [Except.error.injEq] at he'
          rw [hd, he']
      · refine ⟨lpre, lc, [], hlast, ?_⟩
        rcases hpre lpre lc [] hlast with ⟨_, hshort⟩ | ⟨e', hd, _, he'⟩
        · have := hshort e hr
          rw [← hlast] at this
          exact absurd this hl
        · rw [hr] at he'
          simp only [Except.error.injEq] at he'
          rw [hd, he']
    | ok o =>
      simp only
      have hall : ∀ pre c post, cs = pre ++ c :: post →
          decOf realOps (gfeed realOps s0 (pre ++ [c])) = decSpec (pre ++ [c]).flatten := by
        intro pre c post hcs
        rcases hpre pre c post hcs with ⟨hd, _⟩ | ⟨e', _, _, he'⟩
        · exact hd
        · rw [hr] at he'; simp at he'
      by_cases hdone : decSpec cs.flatten = .done
      · rw [hdone]
        apply lemma_xrun_all_done
        intro pre c post hcs
        rw [hall pre c post hcs]
        rcases hdecpre pre c post hcs with h | h
        · exact h
        · rw [h, hdone]
      · apply lemma_xrun_two realOps cs s0 (decSpec cs.flatten) hdone
        · intro pre c post hcs
          rw [hall pre c post hcs]
          exact hdecpre pre c post hcs
        · refine ⟨lpre, lc, [], hlast, ?_⟩
          rw [hall lpre lc [] hlast, ← hlast]

end Oslo.Insp
