"""C07 - virtual_size equals the disk size the image declares."""
import json
import time

import common
import whitebox
import gen_insp
import images
import insp_gen as G
import insp_impl
from common import Failure

ID = 'C07'
DRIVER = 'drv_insp'
DRIVER_ROOT = 'Drivers.Insp'
PROOF_MODULES = ['OsloProofs.Props.C07', 'OsloProofs.Props.C07Vmdk', 'OsloProofs.Props.C07Vhdx']
LEVEL = 'proof'
RULE = ('well-formed images of the ten layouts whose declared size runs over the field\'s full range (0, 1, 2^k+-1, 2^32+-1, '
        '2^63, 2^64-1, random; ISO blocks x block size; LUKS payload offsets; stream lengths for raw/GPT) x admissible '
        'layouts (VHDX region / metadata entry order and count up to 2047 / 2046, metadata placement, item offset; VMDK '
        'descriptor length, version, createType spelling, footer; ISO block sizes and identifiers) x chunkings (one chunk, '
        'fixed sizes, cuts at -1/0/+1 of the structure boundaries, random, empty chunks), and every structure-boundary '
        'prefix of such images for the "0 while unknown" clause.  A case is non-trivial when the stream is cut into at '
        'least two non-empty chunks and at least one region holds bytes at the end; distinct by (format, bytes, chunk sizes).')
TRUSTED_BASE = [
    'Lean 4 kernel; axioms audited per theorem (subset of propext, Classical.choice, Quot.sound)',
    'hand-written model OsloModel/Inspector.lean (virtualSize and the region walk), tied to format_inspector.py by this '
    'correspondence (final state, verdict and, on small streams, the region table after every chunk)',
    'the layout builders harness/images.py: the search compares virtual_size with the number the builder encoded',
    'translator harness/gen_insp.py (region tables, GUIDs, class constants)',
]
UNMODELLED = ['struct.unpack is re-implemented as little/big-endian folds; Python ints are unbounded in both']
ASSUMPTIONS = ['well-formed = produced by the layout builders with in-range field values, forward VHDX pointers (metadata '
               'region at or after 256 KiB, size item after the entry table), VMDK descriptor at sector 1 with a sparse '
               'createType, ISO primary volume descriptor (type 1)']

BUDGET = {'quick': dict(pair=5_000_000, total=600_000_000), 'thorough': dict(pair=60_000_000, total=8_000_000_000)}
EDGE64 = [0, 1, G.U32, 1 << 32, (1 << 32) + 1, 1 << 63, (1 << 63) - 1, G.U64, G.U64 - 1]


def generate():
    gen_insp.generate()


# --------------------------------------------------------------------------

def declared_values(fmt, rng, quick):
    """the declared sizes tried for one format (the `size` argument of insp_gen.wf_params)"""
    if fmt in ('qcow2', 'vhd', 'vdi'):
        return G.size_values(64, rng, 4 if quick else 12)
    if fmt == 'vhdx':
        return EDGE64 + (G.size_values(64, rng, 1)[-5:] if quick else G.size_values(64, rng, 6))
    if fmt == 'vmdk':
        return G.size_values(64, rng, 3 if quick else 10)
    if fmt == 'iso':
        bs = [2048, 2048, 512, 1024, 4096, 0, 1, G.U16, 0x0102] + G.size_values(16, rng, 2)
        return [(b, rng.choice(bs)) for b in G.size_values(32, rng, 3 if quick else 10)] + [(G.U32, G.U16), (0x01020304, 0x0102)]
    if fmt == 'luks':
        return G.size_values(32, rng, 2 if quick else 8)
    if fmt == 'raw':
        return [0, 1, 511, 512, 513, 5000, 70000, 300000, 256 * G.K + 4097, 600000]
    if fmt == 'gpt':
        return [512, 513, 1024, 4096, 70000, 300000, 256 * G.K + 4097]
    if fmt == 'qed':
        return [512, 513, 2000]
    raise KeyError(fmt)


def special_layouts(rng, quick):
    """layouts at the edge of what is admissible"""
    out = []
    # VHDX: full tables, the size entry last / first, metadata region anywhere after 256 KiB
    for kw in (dict(nreg=2047, midx=2046, nmeta=2046, vidx=2045, meta_off=256 * G.K, item_off=32 + 32 * 2046, tail=0),
               dict(nreg=2047, midx=0, nmeta=2046, vidx=0, meta_off=256 * G.K + 7, item_off=G.K64, tail=1),
               dict(nreg=1, midx=0, nmeta=1, vidx=0, meta_off=256 * G.K, item_off=64, tail=0),
               dict(nreg=3, midx=1, nmeta=9, vidx=4, meta_off=256 * G.K + 4095, item_off=32 + 32 * 9 + 1, tail=100),
               dict(nreg=2, midx=1, nmeta=5, vidx=2, meta_off=1 << 20, item_off=0x10000, tail=5000)):
        p = dict(kw, size=rng.choice(EDGE64 + [rng.getrandbits(64)]), other_off=rng.getrandbits(40))
        out.append(G.wellformed('vhdx', rng, params=p))
    # VMDK: descriptor lengths, both sparse types in several spellings, footer
    for dn in ([1, 2, 20, 100] + ([2047] if quick else [2047, 2048])):
        p = dict(sectors=rng.choice(EDGE64 + [rng.getrandbits(64)]), ver=rng.choice([1, 2, 3]), desc_num=dn,
                 typ=rng.choice(G.SPARSE_TYPES), footer=rng.random() < 0.5, body=rng.choice([0, 700]), header_fill=0)
        out.append(G.wellformed('vmdk', rng, params=p))
    # VMDK: descriptor text that fills its desc_num*512 bytes exactly (no NUL padding), the createType line
    # last / not last, with / without a final newline
    for dn in (1, 2, 3) if quick else (1, 2, 3, 8, 20):
        for type_last in (True, False):
            for nl in (True, False):
                typ = rng.choice(G.SPARSE_TYPES)
                p = dict(sectors=rng.choice(EDGE64 + [rng.getrandbits(64)]), ver=rng.choice([1, 2, 3]), desc_num=dn, typ=typ,
                         footer=rng.random() < 0.3, body=rng.choice([0, 700]), header_fill=0,
                         desc=G.exact_fill_desc(typ, dn * 512, type_last, nl))
                w = G.wellformed('vmdk', rng, params=p)
                w.tag = 'wf/vmdk/exact-fill'
                out.append(w)
    # ISO: identifiers and block sizes
    for ident in (b'CD001', b'NSR02', b'NSR03'):
        for bs in (512, 2048, 4096, G.U16):
            p = dict(blocks=rng.choice([0, 1, 300, G.U32, rng.getrandbits(32)]), block_size=bs, ident=ident,
                     total=rng.choice([34 * G.K, 40 * G.K]), sys_fill=rng.choice([0, 0x41]))
            out.append(G.wellformed('iso', rng, params=p))
    return out


def c07_images(ctx, rng, for_search=False):
    quick = ctx.quick
    imgs = []
    for fmt in G.FORMATS:
        vals = declared_values(fmt, rng, quick and not for_search)
        for v in vals:
            imgs.append(G.wellformed(fmt, rng, size=v, big=(not quick and rng.random() < 0.15)))
    imgs += special_layouts(rng, quick)
    # stream-length based sizes (raw, GPT, LUKS) on streams longer than every inspector's decision point
    for body in (300000, 256 * G.K + 4097):
        imgs.append(G.wellformed('luks', rng, params=dict(payload_offset=rng.choice([0, 1, 8, 4096, G.U32]), body_len=body)))
    # more random admissible layouts with random in-range sizes
    for fmt, k in (('vhdx', 6), ('vmdk', 12), ('iso', 8), ('qcow2', 6), ('vhd', 4), ('vdi', 4), ('luks', 6)):
        for _ in range(k if quick else 4 * k):
            imgs.append(G.wellformed(fmt, rng, big=(not quick and rng.random() < 0.15)))
    return imgs


def prefixes(img, rng, limit=None):
    """every structure-boundary prefix (-1/0/+1), including the end of the size-carrying structure"""
    n = len(img.data)
    pts = sorted({b + d for b in img.bounds for d in (-1, 0, 1) if 0 <= b + d <= n} | {0, n})
    if limit and len(pts) > limit:
        keep = {p for p in pts if img.size_at and abs(p - img.size_at) <= 1}
        pts = sorted(keep | set(rng.sample(pts, limit)))
    out = []
    for p in pts:
        sub = img.prefix(p, 'prefix/' + img.fmt)
        sub.expected = expected_vsize(img, p)
        out.append(sub)
    return out


def expected_vsize(img, n):
    """what virtual_size must be after a prefix of n bytes of the well-formed image (None: not constrained)"""
    fmt = img.fmt
    if fmt in G.ZERO_UNTIL:
        return img.declared if n >= img.size_at else 0
    if fmt in ('raw', 'gpt'):
        return n
    if fmt == 'luks':
        return n - img.params['payload_offset'] * 512 if n >= 108 else None
    return None           # qed: not named by the property


def family(img, rng, quick, for_model=True):
    n = len(img.data)
    small = (1, 3, 17, 64, 100) if n <= 4096 else ((17, 64, 100) if (n <= 40 * G.K and not for_model) else ())
    return G.chunk_family(n, img.bounds, rng, pairs='sample', small=small, nrandom=3)


def correspondence(ctx):
    rng = ctx.rng
    budget = dict(BUDGET['quick' if ctx.quick else 'thorough'])
    budget['total'] = G.scale(ctx, budget['total'])
    imgs = G.thin(ctx, c07_images(ctx, rng), lambda i: (i.fmt, i.tag))
    # prefixes: one image per format with all of them, a few for some others
    seen = set()
    pre = []
    for img in imgs:
        if img.fmt not in seen:
            seen.add(img.fmt)
            pre += prefixes(img, rng, limit=None if len(img.data) < 64 * G.K else (8 if ctx.quick else 30))
        elif rng.random() < (0.1 if ctx.quick else 0.4):
            pre += prefixes(img, rng, limit=4)
    # ill-formed images too (model comparison only; the search below never uses them): size-related fields mutated
    ill = []
    for fmt in G.FORMATS:
        ill += G.mutated(fmt, rng, count=(4 if fmt in ('vhdx', 'vmdk') else 8) if ctx.quick else None)
    ill += [m for m in G.mutated('iso', rng) if 'be-halves' in m.tag]
    ill += [m for m in G.mutated('vhdx', rng) if 'item_len' in m.tag][:3 if ctx.quick else 6]
    pre = G.thin(ctx, pre, lambda i: i.fmt)
    ill = G.thin(ctx, ill, lambda i: i.fmt)
    imgs = sorted(imgs + pre + ill, key=lambda i: len(i.data) > 64 * G.K)
    pairs, spent = [], 0
    for img in imgs:
        n = len(img.data)
        mo = img.params.get('meta_off') if isinstance(img.params.get('meta_off'), int) else None
        fam, skipped = G.select(img.fmt, n, family(img, rng, ctx.quick), budget['pair'], mo)
        if skipped:
            ctx.count('chunkings-skipped-for-model-cost', skipped)
        cap = (3 if img.tag.startswith('prefix/') else 6 if n > 64 * G.K else 8) * (1 if ctx.quick else 3)
        if len(fam) > cap:
            head = [f for f in fam if f[0] in ('one', 'fixed512')][:cap]
            fam = head + rng.sample([f for f in fam if f not in head], cap - len(head))
        for tag, sizes in fam:
            c = G.model_cost(img.fmt, n, sizes, mo)
            if spent + c > budget['total']:
                ctx.count('chunkings-skipped-for-total-budget')
                continue
            spent += c
            feed, ctor = G.pick_presentation(img.fmt, rng, 0.5)
            pairs.append(G.Pair(img, sizes, tag, trace=n <= 4096 and len(sizes) <= 1500, poke=rng.random() < 0.3, feed=feed, ctor=ctor))
            # the same reads through InspectWrapper (all formats, or a subset of allowed_formats)
            if img.wellformed and rng.random() < (0.12 if n <= 64 * G.K else 0.04) and spent + 10 * c <= budget['total']:
                spent += 10 * c
                pw = G.Pair(img, sizes, tag, kind='wrap', allowed=allowed_subset(img.fmt, rng))
                if 2 <= len(sizes) <= 400 and rng.random() < 0.6:      # another consumption protocol / call form
                    pw.drive, pw.k, pw.form = rng.choice(G.WRAPPER_DRIVES), rng.randrange(1, len(sizes)), rng.randrange(64)
                pairs.append(pw)

    def on(p, impl):
        G.note_verdict(ctx, p, impl)
        v = impl.split('\t')[-1]
        vs = G.vfield(v, 'vsize')
        ctx.count('vsize/%s/%s' % (p.img.fmt, 'zero' if vs == '0' else 'EXC' if vs.startswith('EXC') else
                                   'negative' if vs.startswith('-') else '>=2^63' if int(vs) >= 1 << 63 else
                                   '>=2^32' if int(vs) >= 1 << 32 else 'small'))
        ctx.sample({'fmt': p.img.fmt, 'tag': p.img.tag, 'params': p.img.params, 'length': len(p.img.data),
                    'chunking': p.ctag, 'declared': p.img.declared, 'implementation': v}, 6)
    G.add_companions(pairs, rng, 0.2)
    out = G.run_pairs(ctx, pairs, on)
    ctx.notes.append('model cost units spent: %d' % spent)
    # sparse streams (driver request inspx: zero gaps are skipped by the model, Props/C01Locality): metadata regions
    # at and beyond 4 GiB, and every format followed by more than 4 GiB of zeros
    cases = []
    for sp in G.far_images(rng, ctx.quick) + G.sparse_generic(rng):
        for plan in G.far_plans(sp):
            if ctx.quick and plan.startswith('extents1') and sp.fmt == 'vhdx':
                continue                      # thousands of chunks against 64 KiB regions: thorough only
            cases.append((sp, plan))

    def on_sparse(sp, plan, impl):
        vs = G.vfield(impl.split('\t')[-1], 'vsize')
        ctx.count('vsize/%s/sparse/%s' % (sp.fmt, 'declared' if vs == str(sp.declared) else 'other'))
    out += G.sparse_pairs(ctx, cases, on_sparse)
    return out


# --------------------------------------------------------------------------
# failing-input search (implementation only): virtual_size == the size the builder encoded

def vsize_of(fmt, data, sizes, poll=None, feed='bytes', ctor=None, companion=None):
    """final virtual_size; `poll` = 'all' or a set of chunk indices after which every public observer
    (virtual_size, format_match, complete, context_info, safety_check ...) is queried during the feed;
    `feed` / `ctor`: how the chunks are presented and how the inspector is constructed (insp_gen.Feeder)"""
    q = None
    if poll is not None:
        k = [0]

        def q(i):
            if poll == 'all' or k[0] in poll:
                insp_impl.poke(i)
            k[0] += 1
    return G.vfield(G.impl_run(fmt, data, sizes, query=q, feed=feed, ctor=ctor, companion=companion)[1], 'vsize')


def allowed_subset(fmt, rng):
    return rng.choice([None, None, [fmt], sorted({fmt, 'raw'}, key=G.FORMATS.index), sorted({fmt, 'raw', 'gpt'}, key=G.FORMATS.index),
                       sorted(set([fmt] + rng.sample(G.FORMATS, 3)), key=G.FORMATS.index)])


def vsize_via_wrapper(fmt, data, sizes, allowed=None, how='read', companion=None, k=1, form=0, subclass=None):
    """the stream presented through InspectWrapper (read() calls of the given sizes, or iteration over a chunk
    source), closed; virtual_size of the wrapper's inspector for `fmt` and the format the wrapper reports"""
    if not companion:
        # any consumption protocol / call form of the wrapper (insp_gen.drive_wrapper)
        how = {'iter': 'for'}.get(how, how)
        tail = G.drive_wrapper(data, sizes, how, allowed, None, k, form, subclass)
        if tail.startswith('COPIES-DIFFER'):
            return tail[:300], '?'
        end, fs, per = tail.split('\t')
        own = [x for x in per.split(';') if x.split(' ', 1)[0].rstrip('!') == fmt]
        return (G.vfield(own[0], 'vsize') if own else 'no-inspector'), fs.split('/')[0]
    F = insp_impl.fi()
    comp = G.WrapCompanion(companion[0], companion[1], companion[2], allowed) if companion else None
    if comp:
        comp.start()
    if how == 'read' or comp:
        w = F.InspectWrapper(insp_impl.Src(data), allowed_formats=allowed)
        for n in sizes:
            w.read(n)
            if comp:
                comp.step()
        w.close()
        if comp:
            [insp_impl.show_prop(lambda i=i: i.virtual_size) for i in whitebox.w_inspectors(w)]     # a first look
            comp.end()
    else:
        w = F.InspectWrapper(iter(insp_impl.cut(data, sizes)), allowed_formats=allowed)
        for _ in w:
            pass
    insp = [i for i in whitebox.w_inspectors(w) if i.NAME == fmt][0]
    try:
        f = w.format
        fs = str(f) if f is not None else 'None'
    except Exception as e:
        fs = 'EXC:' + type(e).__name__
    return insp_impl.show_prop(lambda: insp.virtual_size), fs


def check_wellformed(ctx, img, expected, fam, fails, what, poll_p=0.35, forced=None):
    """virtual_size under every chunking equals `expected` - also when the observers are polled while the stream
    is being fed, when the chunks are presented as a reused bytearray / memoryview or to an inspector built with
    other constructor arguments, and when the stream is presented through InspectWrapper"""
    want = str(expected)
    n = len(img.data)
    rng = ctx.rng
    full = getattr(ctx, '_c07_full', False)
    if n <= 1 << 20:
        ctx.__dict__.setdefault('_c07_pool', {}).setdefault(img.fmt, []).append(img.data)
    for tag, sizes in fam:
        ctx.evaluations += 1
        variants = [dict()]
        if len(sizes) >= 2 and rng.random() < poll_p:
            variants += [dict(poll='all'), dict(poll=sorted(rng.sample(range(len(sizes)), max(1, min(len(sizes) // 2, 20)))))]
        if len(sizes) <= 1200 and (full or tag.startswith('fixed') or tag in ('one', 'seed') or rng.random() < 0.15):
            pres = G.presentations(img.fmt)
            for feed, ctor in (pres if full else rng.sample(pres, 1)):
                variants.append(dict(feed=feed, ctor=ctor))
        if len(sizes) <= 1200 and (full or rng.random() < 0.25):
            drive = rng.choice(G.WRAPPER_DRIVES) if len(sizes) >= 2 else rng.choice(['read', 'for', 'next', 'close-twice'])
            variants.append(dict(wrapper=drive, k=rng.randrange(1, max(2, len(sizes))), form=rng.randrange(64),
                                 allowed=allowed_subset(img.fmt, rng), subclass=rng.choice((None,) + G.SUBCLASS_KINDS)))
            if full and len(sizes) >= 2:
                for drive in G.WRAPPER_DRIVES:
                    variants.append(dict(wrapper=drive, k=rng.randrange(1, len(sizes)), form=rng.randrange(64), allowed=None))
        pool = ctx.__dict__.setdefault('_c07_pool', {}).setdefault(img.fmt, [])
        if len(sizes) <= 1200 and (full or tag in ('one', 'fixed512') or rng.random() < 0.1):
            # another object of the same class alive at the same time, fed another image / non-matching data
            other = rng.choice(pool[-3:] + [bytes(rng.randrange(256) for _ in range(600))])
            comp = {'content': G.content_field(other), 'sizes': G.pack_sizes(rng.choice([[len(other)], G.fixed(len(other), 512)])),
                    'mode': rng.choice(G.COMPANION_MODES)}
            variants.append(dict(companion=comp))
            if full or rng.random() < 0.3:
                variants.append(dict(wrapper='read', allowed=allowed_subset(img.fmt, rng), companion=dict(comp, mode=rng.choice(G.COMPANION_MODES))))
        if forced:
            variants.append(forced)
        for v in variants:
            if v:
                ctx.evaluations += 1
                ctx.count('search/variant/' + ('another-live-object' if 'companion' in v else 'intermediate-queries' if 'poll' in v
                                               else 'through-InspectWrapper' if 'wrapper' in v else 'presentation'))

            def vs(sz, v=v):
                comp = G.companion_of_case(v)
                if 'wrapper' in v:
                    return vsize_via_wrapper(img.fmt, img.data, sz, v['allowed'], v['wrapper'], comp,
                                             min(v.get('k', 1), max(1, len(sz) - 1)), v.get('form', 0), v.get('subclass'))[0]
                return vsize_of(img.fmt, img.data, sz, v.get('poll'), v.get('feed', 'bytes'), v.get('ctor'), comp)
            got = vs(sizes)
            if got == want:
                continue
            if isinstance(v.get('poll'), list):
                if vsize_of(img.fmt, img.data, sizes, 'all') != want:
                    v = dict(poll='all')
            small = sizes
            if not isinstance(v.get('poll'), list):
                t0 = time.time()
                small = G.shrink_cuts(n, sizes, lambda s: time.time() - t0 < 20 and vs(s, v) != want)
                if vs(small, v) == want:
                    small = sizes
            got = vs(small, v)
            parent = getattr(img, 'parent', img)
            case = {'kind': 'insp', 'fmt': img.fmt, 'content': img.field, 'length': n, 'wellformed': True,
                    'sizes': G.pack_sizes(small), 'expected': want, 'params': parent.params,
                    'prefix_of': len(parent.data), 'size_structure_ends_at': parent.size_at, 'tag': img.tag}
            case.update(v)
            how = ''
            if 'companion' in v:
                k = v['companion']
                how = '; a second %s alive at the same time, fed %d other bytes %s' % (
                    'InspectWrapper(allowed_formats=%s)' % v['allowed'] if 'wrapper' in v else img.fmt + ' inspector',
                    len(G.decode_content(k['content'])), k['mode'])
            elif 'poll' in v:
                how = '; observers queried after %s' % ('every chunk' if v['poll'] == 'all' else 'chunks %s' % v['poll'][:10])
            elif 'wrapper' in v:
                how = '; stream presented through InspectWrapper(allowed_formats=%s), protocol "%s" (interrupted after chunk %s, call form %s)' % (
                    v['allowed'], v['wrapper'], v.get('k'), v.get('form')) + (
                    ', ALL_FORMATS holding %s subclasses of the inspector classes' % v['subclass'] if v.get('subclass') else '')
            elif v:
                how = '; chunks presented as %s to %s(%s)' % (v['feed'], img.fmt, ', '.join('%s=%s' % kv for kv in sorted(v['ctor'].items())))
            ctx.__dict__.setdefault('_c07_clock', G.Clock(ctx)).failed()
            fails.append(Failure(case, {
                'kind': what + ('' if not v else '-with-another-live-object' if 'companion' in v else '-after-intermediate-queries' if 'poll' in v else '-through-InspectWrapper' if 'wrapper' in v
                                else '-with-other-chunk-objects-or-constructor-arguments'),
                'what': '%s: virtual_size is %s, the image declares %s (%s; %d of %d bytes presented, chunk sizes %s%s)'
                        % (img.fmt, got, want, img.tag, n, len(parent.data), G.pack_sizes(small)[:8], how)}))
            return True
    return False


def check_illformed(ctx, img, fam, fails):
    """the deliberate minority inside the known classes: virtual_size must at least not depend on the chunking"""
    n = len(img.data)
    ref_sizes = G.fixed(n, 512)
    ref = vsize_of(img.fmt, img.data, ref_sizes)
    for tag, sizes in fam:
        ctx.evaluations += 1
        got = vsize_of(img.fmt, img.data, sizes)
        if got != ref:
            small = G.shrink_cuts(n, sizes, lambda s: vsize_of(img.fmt, img.data, s) != ref)
            got = vsize_of(img.fmt, img.data, small)
            fails.append(Failure({'kind': 'insp', 'fmt': img.fmt, 'content': img.field, 'length': n, 'wellformed': False,
                                  'sizes_a': G.pack_sizes(ref_sizes), 'sizes_b': G.pack_sizes(small), 'tag': img.tag},
                                 {'kind': 'virtual-size-depends-on-chunking',
                                  'what': '%s (not a well-formed image: %s): virtual_size %s under 512-byte blocks, %s under %s'
                                          % (img.fmt, img.tag, ref, got, G.pack_sizes(small)[:8]),
                                  'classes': G.classes_of(img.fmt, img.data)}))
            return True
    return False


def check_sparse(ctx, sp, plans, fails, expected):
    """virtual_size of a sparse stream equals the declared size under each named chunk plan"""
    for k, tag in enumerate(plans):
        cuts = sp.plan(tag)
        ctx.evaluations += 1
        ctx.count('search/sparse/%s/%s' % (sp.tag, tag.split('@')[0]))
        q = insp_impl.poke if k == 0 else None
        v, _ = G.sparse_run(sp, cuts, q, ctor=ctx.rng.choice(G.ctor_variants(sp.fmt)) if k == 1 else None)
        got = G.vfield(v, 'vsize')
        if got != str(expected):
            mo = sp.params.get('meta_off')
            case = dict(sp.case(tag), wellformed=True, expected=str(expected), poll='all' if q else None)
            fails.append(Failure(case, {
                'kind': 'virtual-size-is-not-the-declared-size',
                'what': '%s: virtual_size is %s, the image declares %s (well-formed, %s%d-byte sparse stream, %d chunks "%s"; verdict %s)'
                        % (sp.fmt, got, expected, 'metadata region at file offset %d = 2^32%+d, ' % (mo, mo - (1 << 32))
                           if (sp.fmt == 'vhdx' and isinstance(mo, int)) else '', sp.total, len(cuts) + 1, tag, v)}))
            return True
    return False


def far_layouts(ctx, rng, fails, full):
    """admissible layouts whose metadata region lies at or beyond 4 GiB (the region-table offset is 64 bit), and
    every format followed by more than 4 GiB (stream-length based sizes beyond 2^32).  The streams are sparse: the
    zero filler is one shared chunk object, so several GiB cost milliseconds.  A handful of chunk plans each: every
    structure as its own chunk with the gaps in 16 MiB / 1 MiB pieces, plain 16 MiB grid, a cut right before /
    after the metadata region; observers polled on one of them."""
    for sp in G.far_images(rng, ctx.quick, full) + G.sparse_generic(rng):
        plans = G.far_plans(sp) + ['grid%d' % (16 << 20)]
        check_sparse(ctx, sp, plans, fails, sp.declared)
        if len(fails) >= 3:
            return


def search(ctx, seeds, full=False):
    rng = ctx.rng
    fails = []
    ctx._c07_full = full and not G.ambient(ctx)        # ambient children: the sampled variants, not all of them per chunking
    ctx._c07_clock = G.Clock(ctx)
    for s in [s for s in seeds if s.get('kind') == 'sparse' and s.get('expected') is not None][:10]:
        sp, _ = G.sparse_of_case(s)
        check_sparse(ctx, sp, [s['plan']] + [p for p in G.far_plans(sp) if p != s['plan']], fails, s['expected'])
        if len(fails) >= 5:
            return fails
    for s in [s for s in seeds if s.get('kind') in ('insp', 'wrap') and 'content' in s][:40]:
        # a disagreeing case carries no declared size: look for chunk-dependence of virtual_size on its bytes
        data = G.decode_content(s['content'])
        img = G.Img(s['fmt'], data, [64, 512, G.H, 256 * G.K], 'seed: ' + s.get('tag', ''), declared=s.get('declared'),
                    size_at=s.get('size_at'), params=s.get('params'), wellformed='declared' in s)
        fam = [('seed', G.unpack_sizes(s['sizes']))] + family(img, rng, ctx.quick, False)
        if img.wellformed:
            # the correspondence interleaves queries on the Python side: always poll on the disagreeing cases
            forced, nf0 = None, len(fails)
            if s['kind'] == 'wrap':
                forced = dict(wrapper='read', allowed=s.get('allowed'))
                if s.get('companion'):
                    forced['companion'] = s['companion']
            elif s.get('companion'):
                forced = dict(companion=s['companion'])
            elif s.get('feed') or s.get('ctor'):
                forced = dict(feed=s.get('feed', 'bytes'), ctor=s.get('ctor') or {})
            check_wellformed(ctx, img, img.declared, fam[:1] if forced else fam, fails, 'virtual-size-is-not-the-declared-size',
                             poll_p=1.0, forced=forced)
            if len(fails) == nf0:
                check_wellformed(ctx, img, img.declared, fam, fails, 'virtual-size-is-not-the-declared-size', poll_p=1.0)
        else:
            check_illformed(ctx, img, fam, fails)
        if len(fails) >= 5:
            return fails
    far_layouts(ctx, rng, fails, full)
    if len(fails) >= 5:
        return fails
    rounds = (2 if full else 1) if ctx.quick else (6 if full else 4)
    for _ in range(rounds):
        imgs = G.thin(ctx, c07_images(ctx, rng, for_search=True), lambda i: (i.fmt, i.tag))
        first = set()
        for img in imgs:
            if ctx._c07_clock.expired():
                return fails
            ctx.count('search/' + img.tag)
            fam = family(img, rng, ctx.quick, False)
            bad = check_wellformed(ctx, img, img.declared, fam, fails, 'virtual-size-is-not-the-declared-size')
            if bad:
                if len(fails) >= 5:
                    return fails
                continue
            do_all = img.fmt not in first
            first.add(img.fmt)
            if do_all or rng.random() < 0.25:
                for sub in prefixes(img, rng, limit=None if (do_all and len(img.data) < 64 * G.K) else 10):
                    if sub.expected is None:
                        continue
                    n = len(sub.data)
                    pf = [('one', [n]), ('fixed512', G.fixed(n, 512))]
                    if n:
                        pf.append(('random', images.sizes_from_cuts(sorted(rng.randrange(0, n + 1) for _ in range(3)), n)))
                    kind = ('virtual-size-nonzero-before-the-size-structure' if (sub.expected == 0 and img.fmt in G.ZERO_UNTIL and n < (img.size_at or 0))
                            else 'virtual-size-is-not-the-declared-size')
                    if check_wellformed(ctx, sub, sub.expected, pf, fails, kind):
                        break
            if len(fails) >= 5:
                return fails
        # the deliberate minority inside the known classes (ill-formed images only)
        for img in G.known_class_images(rng, per_class=1 if ctx.quick else 3):
            ctx.count('search/' + img.tag)
            check_illformed(ctx, img, family(img, rng, ctx.quick, False), fails)
    return fails


# --------------------------------------------------------------------------
# known findings: only for ill-formed images, inside a listed class, reproduced by the model

def classify(ctx, failure, listed_findings):
    case = failure.case
    if case.get('wellformed', True) or 'sizes_a' not in case:
        return None                      # a well-formed image never needs an exemption
    ids = [f['id'] for f in listed_findings]
    data = G.decode_content(case['content'])
    cl = [c for c in G.classes_of(case['fmt'], data) if c in ids]
    if not cl:
        return None
    sizes = [G.unpack_sizes(case['sizes_a']), G.unpack_sizes(case['sizes_b'])]
    model = G.model_replies(ctx, case['fmt'], case['content'], sizes)
    ok = all(G.impl_final(case['fmt'], data, s) == m for s, m in zip(sizes, model))
    ctx.count('classify/%s/%s' % (cl[0], 'model-reproduces' if ok else 'MODEL-DIFFERS'))
    return cl[0] if ok else None


# the C07 view of a listed finding: an input of the listed class on which *virtual_size* (not only the rest of the
# verdict) depends on the chunking.  KF_F1's listed witness is a text descriptor, whose size is 0 under every chunking;
# the same class contains KDMV-prefixed text, where the size does change (DESIGN.md section 6, F1).
C07_VIEW = {
    'KF_F1': dict(fmt='vmdk', content_ascii='KDMVcreateType="monolithicSparse" \n' + 'x' * 60, sizes_a=[40, 55], sizes_b=[95]),
}


def witness_reproduces(ctx, finding):
    import props.C01 as C01
    for w in (finding.get('witness'), C07_VIEW.get(finding['id'])):
        if not isinstance(w, dict) or 'fmt' not in w:
            continue
        fmt, data = C01.witness_image(w)
        if finding['id'] not in G.classes_of(fmt, data):
            continue
        a = C01.witness_sizes(w['sizes_a'], len(data))
        b = C01.witness_sizes(w['sizes_b'], len(data))
        if vsize_of(fmt, data, a) != vsize_of(fmt, data, b):
            return True
    return False


def replay(ctx, payload):
    case = payload.get('failure', {}).get('case') or payload.get('case')
    if not case:
        print('nothing to replay: this file names the obligation that no longer checks:')
        print(json.dumps(payload.get('no_longer_checks'), indent=1)[:3000])
        return 0
    if case.get('kind') == 'sparse':
        sp, cuts = G.sparse_of_case(case)
        v, _ = G.sparse_run(sp, cuts, insp_impl.poke if case.get('poll') else None)
        print('%s, sparse stream of %d bytes, non-zero extents at %s, chunk plan "%s" (%d chunks), layout %s'
              % (sp.fmt, sp.total, [o for o, _ in sp.extents], case['plan'], len(cuts) + 1, sp.params))
        print('  implementation:', v)
        print('  model         :', ctx.driver.ask(G.inspx_line(sp, cuts, False)).split('\t')[-1])
        got = G.vfield(v, 'vsize')
        print('property oracle on the implementation: virtual_size %s, the image declares %s' % (got, case['expected']))
        return 1 if got != case['expected'] else 0
    data = G.decode_content(case['content'])
    fmt = case['fmt']
    rc = 0
    names = ['sizes_a', 'sizes_b'] if 'sizes_a' in case else ['sizes']
    got = []
    poll = case.get('poll')
    if isinstance(poll, list):
        poll = set(poll)
    feed, ctor = case.get('feed', 'bytes'), case.get('ctor') or {}
    for name in names:
        sizes = G.unpack_sizes(case[name])
        print('%s, %d bytes, chunk sizes %s' % (fmt, len(data), case[name][:12]))
        if case.get('kind') == 'wrap' and 'wrapper' not in case:
            case = dict(case, wrapper='read')
        if 'wrapper' in case:
            al = case.get('allowed')
            impl = insp_impl.run_wrap(al, None, data, sizes)[0]
            model = ctx.driver.ask(G.wrap_line(case['content'], sizes, al))
            v, f = vsize_via_wrapper(fmt, data, sizes, al, case['wrapper'], G.companion_of_case(case), case.get('k', 1), case.get('form', 0), case.get('subclass'))
            if case.get('companion'):
                print('  a second InspectWrapper alive at the same time (%s)' % case['companion']['mode'])
            print('  through InspectWrapper(allowed_formats=%s), protocol "%s" (k=%s, form %s): format %s, virtual_size of its %s inspector: %s'
                  % (al, case['wrapper'], case.get('k'), case.get('form'), f, fmt, v))
            print('  implementation:', impl.split('\t', 2)[-1][-1500:])
            print('  model         :', model.split('\t', 2)[-1][-1500:])
            got.append(v)
        else:
            comp = G.companion_of_case(case)
            impl = G.run_insp_x(fmt, data, sizes, feed=feed, ctor=ctor, companion=comp)
            if comp:
                print('  a second %s inspector alive at the same time, fed %d other bytes %s' % (fmt, len(comp[0]), comp[2]))
            model = ctx.driver.ask(G.insp_line(fmt, case['content'], sizes, False))
            if feed != 'bytes' or ctor:
                print('  chunks presented as %s (buffer reused and overwritten after each call) to %s(%s)' % (feed, fmt, ctor or ''))
            print('  implementation:', impl[-1200:])
            print('  model         :', model[-1200:])
            v = G.vfield(impl.split('\t')[-1], 'vsize')
            if poll is not None:
                v = vsize_of(fmt, data, sizes, poll, feed, ctor)
                print('  with the observers queried after %s: implementation virtual_size %s'
                      % ('every chunk' if poll == 'all' else 'chunks %s' % sorted(poll), v))
            got.append(v)
        if impl != model:
            rc = 1
    if 'expected' in case:
        print('property oracle on the implementation: virtual_size %s, the image declares %s (layout %s)'
              % (got[0], case['expected'], case.get('params')))
        rc = rc or (1 if got[0] != case['expected'] else 0)
    elif len(got) == 2:
        print('property oracle on the implementation: virtual_size %s vs %s across the two chunkings; known classes %s'
              % (got[0], got[1], G.classes_of(fmt, data)))
        rc = rc or (1 if got[0] != got[1] else 0)
    return rc


LEVEL_TEXT = ('Machine-checked proof (Lean 4) over the hand-written inspector model: decoder round trips for every field '
              'width, and for each format a decidable well-formedness predicate on the stream such that, for every '
              'parameter value, layout and chunking, virtualSize of the run equals the declared size (header size, footer '
              'size, VHDX size item, sectors x 512, blocks x block size, length - payload x 512, length), and is 0 on every '
              'prefix that does not contain the size-carrying structure. VHDX and VMDK inherit the hypotheses of C01\'s '
              '_partial theorems, which well-formed images satisfy. The model is tied to the code by a differential '
              'correspondence over sizes x layouts x chunkings x prefixes on every run.')
LEVEL_NOTE = ('Trusted: Lean kernel; audited axioms; the hand model, the translator, the layout builders and this '
              'correspondence. Known findings KF_D7 / KF_F1 concern ill-formed images only; a well-formed image never needs '
              'an exemption.')
TECHNIQUE = 'Lean 4 theorems per format + model/implementation correspondence + implementation-only declared-size search'
DESIGN_REF = 'DESIGN.md section 5, C07'
