/-
C03, the no-revision clause, for wrappers over ALL TEN formats (VHDX and VMDK included), every
stream and every chunking, with no hypothesis on the stream: a decision reported before the end
of the stream is not revised by reading further, nor by `close()`.

Why it holds.  `formats` answers before EOF only when every non-raw inspector is `complete`.
An inspector that has failed stays in the list but is never fed again.  An inspector that has
not failed is, at every chunk boundary, a fixpoint of `post_process` (the `while new_regions`
loop of `eat_chunk` ends only when a pass added no region — `Good2`, Lemmas/StableStep.lean);
if it is also complete, one more chunk is captured by no region (complete regions are skipped;
an end-capture region is never complete before `finish()`), post-processing sees the same
regions again and does nothing, and no region_complete callback runs: only `_total_count` moves
(`lemma_eat_complete`).  So what `formats` looks at is unchanged.
-/
import OsloProofs.Props.C03Stable
import OsloProofs.Props.C05
import OsloProofs.Props.C06
import OsloProofs.Props.C01Vhdx
import OsloProofs.Lemmas.StableStep
import OsloProofs.Lemmas.StableSample
namespace Oslo.Insp

/-! ### fresh inspectors -/

theorem lemma_mk_quiet : ∀ (t : List Gen.RegionSpec) (k : Nat), ∀ p ∈ mkRegions t k, p.2.endDone = false := by
  intro t
  induction t with
  | nil => intro k p hp; simp [mkRegions] at hp
  | cons e rest ih =>
    intro k p hp
    obtain ⟨n, off, len, ml, isEnd⟩ := e
    simp only [mkRegions, List.mem_cons] at hp
    rcases hp with rfl | hp
    · rfl
    · exact ih (k + 1) p hp

theorem lemma_mk_bnd : ∀ (t : List Gen.RegionSpec) (k : Nat), ∀ p ∈ mkRegions t k, p.2.rid < k + t.length := by
  intro t
  induction t with
  | nil => intro k p hp; simp [mkRegions] at hp
  | cons e rest ih =>
    intro k p hp
    obtain ⟨n, off, len, ml, isEnd⟩ := e
    simp only [mkRegions, List.mem_cons] at hp
    rcases hp with rfl | hp
    · simp
    · have := ih (k + 1) p hp
      simp only [List.length_cons]
      omega

/-- a freshly initialised inspector of any of the ten formats is a fixpoint of post-processing
    (over the generated region tables) -/
theorem lemma_init_fix (f : Fmt) (s0 : Insp) (h0 : Insp.init f = some s0) : postProcess s0 = (s0, none) := by
  unfold Insp.init at h0
  split at h0
  · simp at h0
  · simp only [Option.some.injEq] at h0
    subst h0
    cases f <;> decide

/-- every format's freshly initialised inspector satisfies the boundary invariant -/
theorem lemma_init_good2 (f : Fmt) (s0 : Insp) (h0 : Insp.init f = some s0) : Good2 s0 := by
  have hfix := lemma_init_fix f s0 h0
  have hsinv := init_inv f s0 h0
  unfold Insp.init at h0
  split at h0
  · simp at h0
  · simp only [Option.some.injEq] at h0
    subst h0
    refine ⟨rfl, lemma_mk_quiet _ 0, hsinv, ?_, hfix⟩
    intro p hp
    have := lemma_mk_bnd _ 0 p hp
    simpa using this

/-! ### what `formats` sees of an inspector that ignores a chunk -/

theorem lemma_view_total (i : Insp) (t : Nat) : view { i with total := t } = view i := by
  simp only [view]
  refine Prod.ext rfl (Prod.ext rfl ?_)
  exact lemma_formatMatch_congr i { i with total := t } rfl rfl rfl rfl

theorem lemma_finish_view2 (i : Insp) (hq : Quiet i) (hc : i.complete = true) : view i.finish = view i := by
  have hne := lemma_complete_noEnd i hq hc
  have hreg : i.finish.regions = i.regions := by
    simp only [Insp.finish]
    have : ∀ p ∈ i.regions, (p.1, p.2.finish) = p := by
      intro p hp
      simp [Region.finish, (hne p hp).1]
    exact (List.map_congr_left this).trans (List.map_id' _)
  simp only [view]
  refine Prod.ext rfl (Prod.ext ?_ ?_)
  · simp only [Insp.complete, hreg]
  · exact lemma_formatMatch_congr i i.finish rfl hreg rfl rfl

/-! ### the wrapper invariant -/

/-- what the wrapper invariant says of one inspector, given the errored set: no end-capture region
    closed; raw is complete; and it either has failed (is named in the errored set, hence frozen)
    or is at a chunk boundary in the sense of `Good2` -/
def IOK (errd : List String) (i : Insp) : Prop :=
  Quiet i ∧ (i.fmt = .raw → i.complete = true) ∧ (i.fmt.name ∈ errd ∨ Good2 i)

/-- invariant of an un-finished wrapper over the real inspectors, any expected format -/
def WInv (w : Wrap Insp) : Prop := w.finished = false ∧ ∀ i ∈ w.insps, IOK w.errored i

/-- invariant of an un-finished wrapper with no expected format -/
def WGood2 (w : Wrap Insp) : Prop := w.expected = none ∧ WInv w

theorem lemma_iok_mono {a b : List String} {i : Insp} (h : IOK a i) (hab : ∀ n ∈ a, n ∈ b) : IOK b i := by
  obtain ⟨h1, h2, h3⟩ := h
  refine ⟨h1, h2, ?_⟩
  rcases h3 with h3 | h3
  · exact Or.inl (hab _ h3)
  · exact Or.inr h3

theorem lemma_iok_good {errd : List String} {i : Insp} (h : IOK errd i) (hn : i.fmt.name ∉ errd) : Good2 i := by
  rcases h.2.2 with h3 | h3
  · exact absurd h3 hn
  · exact h3

theorem lemma_iok_eat_ok {errd : List String} {i i' : Insp} {c : Bytes} (h : IOK errd i)
    (hn : i.fmt.name ∉ errd) (he : eatChunk i c = (i', none)) : IOK errd i' := by
  have hg := lemma_iok_good h hn
  have hk := lemma_eatChunk_keep i c
  have hg' := lemma_eat_good i c hg (by rw [he])
  have hf := lemma_eatChunk_fmt i c
  rw [he] at hk hg' hf
  refine ⟨hk.quiet h.1, fun hr => ?_, Or.inr hg'⟩
  have hr' : i.fmt = .raw := by rw [← hf]; exact hr
  have hc := h.2.1 hr'
  have := lemma_eat_complete i c hg hc
  rw [he] at this
  rw [(Prod.mk.inj this).1]
  exact hc

theorem lemma_iok_eat_err {errd : List String} {i i' : Insp} {c : Bytes} {e : Err} (h : IOK errd i)
    (hn : i.fmt.name ∉ errd) (he : eatChunk i c = (i', some e)) : IOK (errd ++ [i.fmt.name]) i' := by
  have hg := lemma_iok_good h hn
  have hk := lemma_eatChunk_keep i c
  have hf := lemma_eatChunk_fmt i c
  rw [he] at hk hf
  simp only at hf
  refine ⟨hk.quiet h.1, fun hr => ?_, Or.inl (by rw [hf]; simp)⟩
  exfalso
  have hr' : i.fmt = .raw := by rw [← hf]; exact hr
  have := lemma_eat_complete i c hg (h.2.1 hr')
  rw [he] at this
  simp at this

/-- one `_process_chunk` loop, any expected format: if it returns normally, the errored set has only
    grown and every inspector still satisfies the invariant (w.r.t. the new errored set) -/
theorem lemma_processLoop_inv (exp : Option String) (c : Bytes) : ∀ (todo acc : List Insp) (errd : List String),
    (∀ i ∈ todo, IOK errd i) → (processLoop realOps exp c todo acc errd).2.2 = .done →
    (∀ n ∈ errd, n ∈ (processLoop realOps exp c todo acc errd).2.1) ∧
    ∃ done', (processLoop realOps exp c todo acc errd).1 = acc.reverse ++ done' ∧
      ∀ j ∈ done', IOK (processLoop realOps exp c todo acc errd).2.1 j := by
  intro todo
  induction todo with
  | nil =>
    intro acc errd _ _
    simp only [processLoop]
    exact ⟨fun n h => h, [], by simp, fun j hj => by simp at hj⟩
  | cons i rest ih =>
    intro acc errd hall
    have hi := hall i (by simp)
    have hrest : ∀ j ∈ rest, IOK errd j := fun j hj => hall j (by simp [hj])
    simp only [processLoop]
    split
    · intro hdone
      obtain ⟨hm, d, hd, hf⟩ := ih (i :: acc) errd hrest hdone
      refine ⟨hm, i :: d, by simp [hd], fun j hj => ?_⟩
      simp only [List.mem_cons] at hj
      rcases hj with rfl | hj
      · exact lemma_iok_mono hi hm
      · exact hf j hj
    · rename_i herr
      have hnotin : i.fmt.name ∉ errd := by simpa [realOps] using herr
      split
      · rename_i i' e heat
        have heat' : eatChunk i c = (i', some e) := heat
        split
        · intro hdone; simp at hdone
        · intro hdone
          have hi' := lemma_iok_eat_err hi hnotin heat'
          obtain ⟨hm, d, hd, hf⟩ := ih (i' :: acc) (errd ++ [realOps.name i])
            (fun j hj => lemma_iok_mono (hrest j hj) (fun n hn => by simp [hn])) hdone
          refine ⟨fun n hn => hm n (by simp [hn]), i' :: d, by simp [hd], fun j hj => ?_⟩
          simp only [List.mem_cons] at hj
          rcases hj with rfl | hj
          · exact lemma_iok_mono hi' hm
          · exact hf j hj
      · rename_i i' heat
        have heat' : eatChunk i c = (i', none) := heat
        have hi' := lemma_iok_eat_ok hi hnotin heat'
        have hcont : (processLoop realOps exp c rest (i' :: acc) errd).2.2 = .done →
            (∀ n ∈ errd, n ∈ (processLoop realOps exp c rest (i' :: acc) errd).2.1) ∧
            ∃ done', (processLoop realOps exp c rest (i' :: acc) errd).1 = acc.reverse ++ done' ∧
              ∀ j ∈ done', IOK (processLoop realOps exp c rest (i' :: acc) errd).2.1 j := by
          intro hdone
          obtain ⟨hm, d, hd, hf⟩ := ih (i' :: acc) errd hrest hdone
          refine ⟨hm, i' :: d, by simp [hd], fun j hj => ?_⟩
          simp only [List.mem_cons] at hj
          rcases hj with rfl | hj
          · exact lemma_iok_mono hi' hm
          · exact hf j hj
        split
        · split
          · intro hdone; simp at hdone
          · intro hdone; simp at hdone
          · exact hcont
        · exact hcont

/-- one `_process_chunk` loop, any expected format, when every inspector that has not failed is at
    a boundary and complete: however the loop ends, what `formats` sees of each inspector is
    unchanged and so is the errored set -/
theorem lemma_processLoop_views (exp : Option String) (c : Bytes) : ∀ (todo acc : List Insp) (errd : List String),
    (∀ i ∈ todo, i.fmt.name ∈ errd ∨ (Good2 i ∧ i.complete = true)) →
    (processLoop realOps exp c todo acc errd).1.map view = acc.reverse.map view ++ todo.map view ∧
    (processLoop realOps exp c todo acc errd).2.1 = errd := by
  intro todo
  induction todo with
  | nil => intro acc errd _; simp [processLoop]
  | cons i rest ih =>
    intro acc errd hall
    have hrest : ∀ j ∈ rest, j.fmt.name ∈ errd ∨ (Good2 j ∧ j.complete = true) :=
      fun j hj => hall j (by simp [hj])
    simp only [processLoop]
    split
    · obtain ⟨h1, h2⟩ := ih (i :: acc) errd hrest
      exact ⟨by rw [h1]; simp, h2⟩
    · rename_i herr
      have hnotin : i.fmt.name ∉ errd := by simpa [realOps] using herr
      obtain ⟨hg, hc⟩ := (hall i (by simp)).resolve_left hnotin
      have he : realOps.eat i c = ({ i with total := i.total + c.length }, none) := lemma_eat_complete i c hg hc
      have hv := lemma_view_total i (i.total + c.length)
      rw [he]
      simp only
      have hcont : (processLoop realOps exp c rest ({ i with total := i.total + c.length } :: acc) errd).1.map view =
            acc.reverse.map view ++ (i :: rest).map view ∧
          (processLoop realOps exp c rest ({ i with total := i.total + c.length } :: acc) errd).2.1 = errd := by
        obtain ⟨h1, h2⟩ := ih ({ i with total := i.total + c.length } :: acc) errd hrest
        exact ⟨by rw [h1]; simp [hv], h2⟩
      split
      · split
        · exact ⟨by simp [hv], rfl⟩
        · exact ⟨by simp [hv], rfl⟩
        · exact hcont
      · exact hcont

/-! ### one more chunk -/

theorem lemma_complete_at_decision (w : Wrap Insp) (hw : WInv w) (l : List Insp)
    (h : w.formats realOps = .ok (some l)) : ∀ i ∈ w.insps, i.complete = true := by
  obtain ⟨hfin, hall⟩ := hw
  intro i hi
  by_cases hr : i.fmt = .raw
  · exact (hall i hi).2.1 hr
  · have hdec := (formats_spec realOps w l h).2.2
    rcases hdec with hdec | hdec
    · simp only [List.all_eq_true, List.mem_filter, realOps] at hdec
      apply hdec i ⟨hi, ?_⟩
      simp only [bne_iff_ne, ne_eq]
      intro hn
      apply hr
      cases hf : i.fmt <;> simp_all [Fmt.name]
    · rw [hfin] at hdec; simp at hdec

theorem lemma_step_views (w : Wrap Insp) (hw : WInv w) (l : List Insp)
    (h : w.formats realOps = .ok (some l)) (c : Bytes) :
    (w.processChunk realOps c).1.insps.map view = w.insps.map view ∧
    (w.processChunk realOps c).1.errored = w.errored := by
  have hcomp := lemma_complete_at_decision w hw l h
  have := lemma_processLoop_views w.expected c w.insps [] w.errored (fun i hi => by
    rcases (hw.2 i hi).2.2 with h3 | h3
    · exact Or.inl h3
    · exact Or.inr ⟨h3, hcomp i hi⟩)
  simpa [Wrap.processChunk] using this

theorem lemma_step_inv (w : Wrap Insp) (hw : WInv w) (c : Bytes)
    (hd : (w.processChunk realOps c).2 = .done) : WInv (w.processChunk realOps c).1 := by
  obtain ⟨_, d, hd', hf⟩ := lemma_processLoop_inv w.expected c w.insps [] w.errored hw.2 hd
  refine ⟨hw.1, ?_⟩
  intro j hj
  simp only [Wrap.processChunk] at hj ⊢
  rw [hd'] at hj
  exact hf j (by simpa using hj)

/-- **decision_stable** — for a wrapper with no expected format over the inspectors of ANY of the
    ten formats (VHDX and VMDK included), in any state satisfying the invariant `WGood2` (which every
    fresh wrapper satisfies and every read preserves: `wrapper_good`, and the second conjunct
    here / `reads_total`): once `formats` has answered `some l` before EOF, reading one more chunk
    `c` — any bytes — returns normally, the invariant still holds, and `formats` answers `some` list
    with exactly the same format names in the same order (hence `format` gives the same answer or
    raises the same error).  No hypothesis on the stream or the chunking. -/
theorem decision_stable (w : Wrap Insp) (hw : WGood2 w) (l : List Insp)
    (h : w.formats realOps = .ok (some l)) (c : Bytes) :
    (w.processChunk realOps c).2 = .done ∧ WGood2 (w.processChunk realOps c).1 ∧
    namesOf ((w.processChunk realOps c).1.formats realOps) = .ok (some (l.map (·.fmt.name))) := by
  have hdone := nonexpected_fault_contained realOps realOps_nameStable w c hw.1
  obtain ⟨hv, _⟩ := lemma_step_views w hw.2 l h c
  refine ⟨hdone, ⟨hw.1, lemma_step_inv w hw.2 c hdone⟩, ?_⟩
  rw [formats_congr (w.processChunk realOps c).1 w hv rfl, h]
  rfl

/-- **decision_stable_expected** — the same for a wrapper WITH an expected format (any `w.expected`):
    once `formats` has answered before EOF, after one more `_process_chunk` — however it ends —
    `formats` answers the same names, the errored set is the same, and if the call returned normally
    (the only case in which the reader gets to read further) the invariant still holds. -/
theorem decision_stable_expected (w : Wrap Insp) (hw : WInv w) (l : List Insp)
    (h : w.formats realOps = .ok (some l)) (c : Bytes) :
    namesOf ((w.processChunk realOps c).1.formats realOps) = .ok (some (l.map (·.fmt.name))) ∧
    (w.processChunk realOps c).1.errored = w.errored ∧
    ((w.processChunk realOps c).2 = .done → WInv (w.processChunk realOps c).1) := by
  obtain ⟨hv, he⟩ := lemma_step_views w hw l h c
  refine ⟨?_, he, lemma_step_inv w hw c⟩
  rw [formats_congr (w.processChunk realOps c).1 w hv rfl, h]
  rfl

/-- **decision_stable_close** — `close()` (EOF, `_finish`) does not revise a decision reported
    before it either; any expected format, all ten formats. -/
theorem decision_stable_close (w : Wrap Insp) (hw : WInv w) (l : List Insp)
    (h : w.formats realOps = .ok (some l)) :
    namesOf ((w.finish realOps).formats realOps) = .ok (some (l.map (·.fmt.name))) := by
  have hcompl := lemma_complete_at_decision w hw l h
  obtain ⟨hfin, hall⟩ := hw
  have hviews : (w.finish realOps).insps.map view = w.insps.map view := by
    simp only [Wrap.finish, List.map_map]
    apply List.map_congr_left
    intro i hi
    exact lemma_finish_view2 i (hall i hi).1 (hcompl i hi)
  have h1 := lemma_filter_view (fun n => n != "raw") _ _ hviews
  have h2 := lemma_matchList_view _ _ h1
  have h3 := lemma_all_complete_view _ _ h1
  have h4 := lemma_names_view _ _ (lemma_filter_view (fun n => n == "raw") _ _ hviews)
  have hcomp : (w.insps.filter (fun i => i.fmt.name != "raw")).all (fun i => i.complete) = true := by
    simp only [List.all_eq_true, List.mem_filter]
    intro i hi
    exact hcompl i hi.1
  have hn : namesOf (w.formats realOps) = .ok (some (l.map (fun i => i.fmt.name))) := by rw [h]; rfl
  rw [lemma_namesOf_formats] at hn ⊢
  rw [h2, h3, h4]
  simp only [hcomp, Bool.not_true, Bool.false_and, Bool.false_eq_true, if_false] at hn ⊢
  exact hn

/-! ### fresh wrappers -/

/-- **wrapper_inv** — every fresh wrapper (any expected format, any allowed_formats) satisfies the
    invariant -/
theorem wrapper_inv (expected : Option String) (allowed : List String) : WInv (Wrap.mk' expected allowed) := by
  refine ⟨rfl, ?_⟩
  intro i hi
  simp only [Wrap.mk', List.mem_filterMap] at hi
  obtain ⟨f, _, hinit⟩ := hi
  have hg := lemma_init_good2 f i hinit
  refine ⟨hg.quiet, fun hr => ?_, Or.inr hg⟩
  unfold Insp.init at hinit
  split at hinit
  · simp at hinit
  · simp only [Option.some.injEq] at hinit
    subst hinit
    simp only at hr
    subst hr
    rfl

/-- **wrapper_good** — every fresh wrapper with no expected format satisfies `WGood2`, whatever
    `allowed_formats` is (`[]` = all ten formats) -/
theorem wrapper_good (allowed : List String) : WGood2 (Wrap.mk' none allowed) :=
  ⟨rfl, wrapper_inv none allowed⟩

/-! ### any number of further reads -/

/-- reading the chunks `cs` through the wrapper: the wrapper after the last one, or `none` if some
    `_process_chunk` did not return normally (then the reader never gets to read further) -/
def Wrap.readOk (w : Wrap Insp) : List Bytes → Option (Wrap Insp)
  | [] => some w
  | c :: cs =>
    match w.processChunk realOps c with
    | (w', .done) => Wrap.readOk w' cs
    | _ => none

theorem lemma_readOk_append (a : List Bytes) : ∀ (w : Wrap Insp) (b : List Bytes),
    Wrap.readOk w (a ++ b) = (Wrap.readOk w a).bind (fun w' => Wrap.readOk w' b) := by
  induction a with
  | nil => intro w b; rfl
  | cons c cs ih =>
    intro w b
    simp only [List.cons_append, Wrap.readOk]
    cases hpc : w.processChunk realOps c with
    | mk w' o =>
      cases o with
      | done => exact ih w' b
      | raised e => rfl
      | mismatch => rfl

/-- `readOk` is the model's reader: when every chunk is processed normally, `Wrap.pipe` hands all
    chunks to the reader and ends with `close()` on the wrapper `readOk` computes -/
theorem lemma_pipe_readOk : ∀ (cs : List Bytes) (w w' : Wrap Insp) (out : List Bytes),
    Wrap.readOk w cs = some w' → Wrap.pipe realOps w cs out = (out.reverse ++ cs, w'.finish realOps, .done) := by
  intro cs
  induction cs with
  | nil =>
    intro w w' out h
    simp only [Wrap.readOk, Option.some.injEq] at h
    subst h
    simp [Wrap.pipe]
  | cons c cs ih =>
    intro w w' out h
    simp only [Wrap.readOk] at h
    simp only [Wrap.pipe]
    cases hpc : w.processChunk realOps c with
    | mk w1 o =>
      rw [hpc] at h
      cases o with
      | done =>
        simp only at h ⊢
        rw [ih w1 w' (c :: out) h]
        simp
      | raised e => simp at h
      | mismatch => simp at h

/-- **readOk_is_pipe** — `readOk` is the model's reader: when it succeeds, `Wrap.pipe` (reading the
    whole source through the wrapper, then `close()`) hands all the chunks to the reader and ends,
    normally, in the wrapper `readOk` computed, closed. -/
theorem readOk_is_pipe (w w' : Wrap Insp) (cs : List Bytes) (h : Wrap.readOk w cs = some w') :
    Wrap.pipe realOps w cs [] = (cs, w'.finish realOps, .done) := by
  simpa using lemma_pipe_readOk cs w w' [] h

theorem lemma_namesOf_some (w : Wrap Insp) (ns : List String)
    (h : namesOf (w.formats realOps) = .ok (some ns)) :
    ∃ l, w.formats realOps = .ok (some l) ∧ l.map (·.fmt.name) = ns := by
  cases hf : w.formats realOps with
  | error e => rw [hf] at h; simp [namesOf] at h
  | ok o =>
    cases o with
    | none => rw [hf] at h; simp [namesOf] at h
    | some l =>
      rw [hf] at h
      simp only [namesOf, Except.ok.injEq, Option.some.injEq] at h
      exact ⟨l, rfl, h⟩

theorem lemma_reads_names (cs : List Bytes) : ∀ (w w' : Wrap Insp) (ns : List String), WInv w →
    namesOf (w.formats realOps) = .ok (some ns) → Wrap.readOk w cs = some w' →
    WInv w' ∧ namesOf (w'.formats realOps) = .ok (some ns) ∧ w'.errored = w.errored := by
  induction cs with
  | nil =>
    intro w w' ns hw h hr
    simp only [Wrap.readOk, Option.some.injEq] at hr
    subst hr
    exact ⟨hw, h, rfl⟩
  | cons c cs ih =>
    intro w w' ns hw h hr
    obtain ⟨l, hl, hns⟩ := lemma_namesOf_some w ns h
    obtain ⟨h1, h2, h3⟩ := decision_stable_expected w hw l hl c
    simp only [Wrap.readOk] at hr
    cases hpc : w.processChunk realOps c with
    | mk w1 o =>
      rw [hpc] at hr h1 h2 h3
      cases o with
      | done =>
        simp only at hr h1 h2 h3
        rw [hns] at h1
        obtain ⟨a, b, c'⟩ := ih w1 w' ns (h3 trivial) h1 hr
        exact ⟨a, b, c'.trans h2⟩
      | raised e => simp at hr
      | mismatch => simp at hr

/-- **decision_stable_reads** — the lift to any number of further reads (any expected format): from
    a wrapper state satisfying the invariant in which `formats` has answered `some l` before EOF,
    after reading any further chunks `cs` (each processed normally, `readOk … = some w'`) `formats`
    still answers exactly the same names, and so it does after `close()`; the invariant holds and
    no further inspector has failed. -/
theorem decision_stable_reads (w : Wrap Insp) (hw : WInv w) (l : List Insp)
    (h : w.formats realOps = .ok (some l)) (cs : List Bytes) (w' : Wrap Insp)
    (hr : Wrap.readOk w cs = some w') :
    WInv w' ∧
    namesOf (w'.formats realOps) = .ok (some (l.map (·.fmt.name))) ∧
    namesOf ((w'.finish realOps).formats realOps) = .ok (some (l.map (·.fmt.name))) ∧
    w'.errored = w.errored := by
  have hn : namesOf (w.formats realOps) = .ok (some (l.map (·.fmt.name))) := by rw [h]; rfl
  obtain ⟨a, b, c⟩ := lemma_reads_names cs w w' _ hw hn hr
  obtain ⟨l', hl', hns⟩ := lemma_namesOf_some w' _ b
  refine ⟨a, b, ?_, c⟩
  rw [decision_stable_close w' a l' hl', hns]

/-- **reads_total** — with no expected format every read is processed normally, whatever the
    bytes: `readOk` always succeeds, and the invariant holds in the state it reaches. -/
theorem reads_total (cs : List Bytes) : ∀ (w : Wrap Insp), WGood2 w →
    ∃ w', Wrap.readOk w cs = some w' ∧ WGood2 w' := by
  induction cs with
  | nil => intro w hw; exact ⟨w, rfl, hw⟩
  | cons c cs ih =>
    intro w hw
    have hdone := nonexpected_fault_contained realOps realOps_nameStable w c hw.1
    have hinv := lemma_step_inv w hw.2 c hdone
    simp only [Wrap.readOk]
    cases hpc : w.processChunk realOps c with
    | mk w1 o =>
      rw [hpc] at hdone hinv
      simp only at hdone hinv
      subst hdone
      have hexp : w1.expected = none := by
        have : (w.processChunk realOps c).1.expected = w.expected := rfl
        rw [hpc] at this
        exact this.trans hw.1
      exact ih w1 ⟨hexp, hinv⟩

/-- **decision_never_revised** — the reachable-state corollary.  Take a fresh wrapper with no
    expected format over any `allowed_formats` (`[]` = all ten) and feed it ANY chunk list
    `pre ++ post`.  Every chunk is processed normally; and if at the boundary after `pre` `formats`
    answers `some l`, then at the boundary after `pre ++ post` — for every `post` — it answers
    exactly the same names, and so it does if the stream is closed there. -/
theorem decision_never_revised (allowed : List String) (pre post : List Bytes) :
    ∃ w1 w2, Wrap.readOk (Wrap.mk' none allowed) pre = some w1 ∧
      Wrap.readOk (Wrap.mk' none allowed) (pre ++ post) = some w2 ∧
      ∀ l, w1.formats realOps = .ok (some l) →
        namesOf (w2.formats realOps) = .ok (some (l.map (·.fmt.name))) ∧
        namesOf ((w2.finish realOps).formats realOps) = .ok (some (l.map (·.fmt.name))) := by
  obtain ⟨w1, h1, hg1⟩ := reads_total pre _ (wrapper_good allowed)
  obtain ⟨w2, h2, _⟩ := reads_total post w1 hg1
  refine ⟨w1, w2, h1, ?_, fun l hl => ?_⟩
  · rw [lemma_readOk_append, h1]; exact h2
  · obtain ⟨_, a, b, _⟩ := decision_stable_reads w1 hg1.2 l hl post w2 h2
    exact ⟨a, b⟩

/-- **decision_never_revised_expected** — the same for a fresh wrapper WITH an expected format: as
    long as the reads are processed normally (otherwise the reader gets an exception and reads no
    further), a decision reported at one boundary is reported unchanged at every later one and
    after `close()`. -/
theorem decision_never_revised_expected (expected : Option String) (allowed : List String)
    (pre post : List Bytes) (w1 w2 : Wrap Insp)
    (h1 : Wrap.readOk (Wrap.mk' expected allowed) pre = some w1) (h2 : Wrap.readOk w1 post = some w2)
    (l : List Insp) (hl : w1.formats realOps = .ok (some l)) :
    namesOf (w2.formats realOps) = .ok (some (l.map (·.fmt.name))) ∧
    namesOf ((w2.finish realOps).formats realOps) = .ok (some (l.map (·.fmt.name))) := by
  have hinv : ∀ (cs : List Bytes) (w w' : Wrap Insp), WInv w → Wrap.readOk w cs = some w' → WInv w' := by
    intro cs
    induction cs with
    | nil => intro w w' hw hr; simp only [Wrap.readOk, Option.some.injEq] at hr; subst hr; exact hw
    | cons c cs ih =>
      intro w w' hw hr
      simp only [Wrap.readOk] at hr
      have hstep := lemma_step_inv w hw c
      cases hpc : w.processChunk realOps c with
      | mk wa o =>
        rw [hpc] at hr hstep
        cases o with
        | done => exact ih wa w' (hstep rfl) hr
        | raised e => simp at hr
        | mismatch => simp at hr
  have hw1 := hinv pre _ w1 (wrapper_inv expected allowed) h1
  obtain ⟨_, a, b, _⟩ := decision_stable_reads w1 hw1 l hl post w2 h2
  exact ⟨a, b⟩

/-! ### non-vacuity -/

/-- the names `formats` answers, `none` when it answers `None` or raises (a decidable view, for the
    concrete examples) -/
def decidedNames (w : Wrap Insp) : Option (List String) :=
  match namesOf (w.formats realOps) with
  | .ok (some ns) => some ns
  | _ => none

theorem lemma_decidedNames (w : Wrap Insp) (ns : List String) (h : decidedNames w = some ns) :
    namesOf (w.formats realOps) = .ok (some ns) := by
  unfold decidedNames at h
  split at h
  · rename_i ns' heq
    simp only [Option.some.injEq] at h
    rw [heq, h]
  · simp at h

/-- The hypotheses of `decision_stable` are met in a state with a region created while streaming:
    a wrapper over vmdk, qcow2, gpt and raw fed the 1024-byte sparse VMDK image in two reads
    (700 + 324 bytes).  After the first read nothing is decided; after the second the wrapper
    satisfies `WGood2`, the VMDK inspector holds the relocated descriptor region (identity 2, created
    by `post_process`), and `formats` answers `[vmdk]` — so by `decision_stable` every further read
    leaves that answer in place. -/
example :
    let w0 := Wrap.mk' none ["vmdk", "qcow2", "gpt", "raw"]
    (Wrap.readOk w0 [stableVmdkImage.take 700]).map decidedNames = some none ∧
    ∃ w1 l, Wrap.readOk w0 [stableVmdkImage.take 700, stableVmdkImage.drop 700] = some w1 ∧
      WGood2 w1 ∧ w1.formats realOps = .ok (some l) ∧ l.map (·.fmt.name) = ["vmdk"] ∧
      (w1.insps.any (fun i => i.fmt == .vmdk && i.regions.any (fun p => p.1 == "descriptor" && p.2.rid == 2))) = true := by
  intro w0
  refine ⟨by decide +kernel, ?_⟩
  obtain ⟨w1, h1, hg⟩ := reads_total [stableVmdkImage.take 700, stableVmdkImage.drop 700] w0 (wrapper_good _)
  have hcomp : (Wrap.readOk w0 [stableVmdkImage.take 700, stableVmdkImage.drop 700]).map
      (fun w => (decidedNames w,
        w.insps.any (fun i => i.fmt == .vmdk && i.regions.any (fun p => p.1 == "descriptor" && p.2.rid == 2)))) =
      some (some ["vmdk"], true) := by decide +kernel
  rw [h1] at hcomp
  simp only [Option.map_some, Option.some.injEq, Prod.mk.injEq] at hcomp
  obtain ⟨l, hl, hns⟩ := lemma_namesOf_some w1 _ (lemma_decidedNames w1 _ hcomp.1)
  exact ⟨w1, l, h1, hg, hl, hns, hcomp.2⟩

/-- … and concretely: the same two reads followed by a third read of 5000 arbitrary-looking bytes
    and by `close()` — through a wrapper over ALL TEN formats the decision is not yet due after two
    reads (VHDX and ISO are incomplete), through the four-format wrapper it is `[vmdk]` before and
    after the third read, as `decision_never_revised` says it must be. -/
example :
    let cs : List Bytes := [stableVmdkImage.take 700, stableVmdkImage.drop 700]
    let extra : Bytes := (List.range 5000).map (fun n => UInt8.ofNat (n * 7 + 3))
    (Wrap.readOk (Wrap.mk' none []) cs).map decidedNames = some none ∧
    (Wrap.readOk (Wrap.mk' none ["vmdk", "qcow2", "gpt", "raw"]) cs).map decidedNames = some (some ["vmdk"]) ∧
    (Wrap.readOk (Wrap.mk' none ["vmdk", "qcow2", "gpt", "raw"]) (cs ++ [extra])).map decidedNames
      = some (some ["vmdk"]) ∧
    (Wrap.readOk (Wrap.mk' none ["vmdk", "qcow2", "gpt", "raw"]) (cs ++ [extra])).map
      (fun w => decidedNames (w.finish realOps)) = some (some ["vmdk"]) := by
  decide +kernel

/-! ### non-vacuity, VHDX (symbolic: the image is too long to evaluate in the kernel) -/

theorem lemma_feed_good2 (chunks : List Bytes) : ∀ (s : Insp), Good2 s → (feed s chunks).2 = none →
    Good2 (feed s chunks).1 := by
  induction chunks with
  | nil => intro s hg _; exact hg
  | cons c cs ih =>
    intro s hg h
    simp only [feed] at h ⊢
    have hstep := lemma_eat_good s c hg
    cases he : eatChunk s c with
    | mk s1 e =>
      rw [he] at h hstep
      cases e with
      | some e => simp at h
      | none => exact ih s1 (hstep rfl) h

/-- a wrapper over a single inspector reads the way `feed` feeds -/
theorem lemma_readOk_single (chunks : List Bytes) : ∀ (s : Insp), (feed s chunks).2 = none →
    Wrap.readOk { insps := [s], errored := [], expected := none, finished := false } chunks =
      some { insps := [(feed s chunks).1], errored := [], expected := none, finished := false } := by
  induction chunks with
  | nil => intro s _; rfl
  | cons c cs ih =>
    intro s h
    simp only [feed] at h ⊢
    cases he : eatChunk s c with
    | mk s1 e =>
      rw [he] at h
      cases e with
      | some e => simp at h
      | none =>
        simp only at h ⊢
        have hpc : Wrap.processChunk realOps
            ({ insps := [s], errored := [], expected := none, finished := false } : Wrap Insp) c =
            ({ insps := [s1], errored := [], expected := none, finished := false }, .done) := by
          simp [Wrap.processChunk, processLoop, realOps, he]
        simp only [Wrap.readOk, hpc]
        exact ih s1 h

theorem lemma_vhdx_noEnd (st : Insp) (hf : st.fmt = .vhdx) (h : SInv st) : ∀ p ∈ st.regions, p.2.isEnd = false := by
  intro p hp
  cases hE : p.2.isEnd
  · rfl
  · obtain ⟨hal, _, _, hft⟩ := h.each p hp
    have := (hft hE).2
    rw [hf, this] at hal
    exact absurd hal (by decide)

/-- The hypotheses are met by a VHDX image too, in EVERY chunking: a wrapper over the VHDX inspector
    fed the 262 216-byte sample image of Lemmas/VhdxSample.lean (declared size 1 GiB) in any chunk
    list reaches a state satisfying `WGood2` in which `formats` answers `[vhdx]` and the inspector
    holds the `vds` region created while streaming — so `decision_stable` applies to it. -/
example (chunks : List Bytes) (h : chunks.flatten = vhdxSample [0, 0, 0, 64, 0, 0, 0, 0]) :
    ∃ w1 l, Wrap.readOk (Wrap.mk' none ["vhdx"]) chunks = some w1 ∧ WGood2 w1 ∧
      w1.formats realOps = .ok (some l) ∧ l.map (·.fmt.name) = ["vhdx"] ∧
      (l.all (fun i => i.hasRegion "vds")) = true := by
  have hw0 : Wrap.mk' none ["vhdx"] = { insps := [stA []], errored := [], expected := none, finished := false } := by
    have : Fmt.all.filter (fun f => Gen.allFormats.contains f.name &&
        ((["vhdx"] : List String).isEmpty || (["vhdx"] : List String).contains f.name)) = [.vhdx] := by decide
    simp only [Wrap.mk', this, List.filterMap_cons, lemma_init_vhdx, List.filterMap_nil]
  have hyp := vhdx_hyps_of_image _ _ _ _ _ _ _ (lemma_sample_image [0, 0, 0, 64, 0, 0, 0, 0] rfl)
  have e1 := vhdx_chunk_independent_partial (stA []) lemma_init_vhdx chunks (h ▸ hyp.1) (h ▸ hyp.2)
  rw [h, vhdx_sample_spec _ rfl] at e1
  have hnone : (feed (stA []) chunks).2 = none := congrArg Verdict.raised e1
  have hcompF : (feed (stA []) chunks).1.finish.complete = true := congrArg Verdict.complete e1
  have hmatchF : formatMatch (feed (stA []) chunks).1.finish = .ok true := congrArg Verdict.fmtMatch e1
  have hvsF : virtualSize (feed (stA []) chunks).1.finish = .ok 1073741824 := congrArg Verdict.vsize e1
  -- the state before `finish()`
  obtain ⟨k, hk⟩ := lemma_feed_eq_feedAll chunks (stA [])
  obtain ⟨hsinv, hfmt⟩ := reachable_inv .vhdx (stA []) lemma_init_vhdx (chunks.take k)
  rw [← hk] at hsinv hfmt
  generalize hst : (feed (stA []) chunks).1 = st at *
  have hne := lemma_vhdx_noEnd st hfmt hsinv
  have hreg : st.finish.regions = st.regions := by
    simp only [Insp.finish]
    have : ∀ p ∈ st.regions, (p.1, p.2.finish) = p := by
      intro p hp
      simp [Region.finish, hne p hp]
    exact (List.map_congr_left this).trans (List.map_id' _)
  have hcomp : st.complete = true := by
    simp only [Insp.complete, hreg] at hcompF
    simpa [Insp.complete] using hcompF
  have hmatch : formatMatch st = .ok true := by
    rw [← lemma_formatMatch_congr st st.finish rfl hreg rfl rfl]; exact hmatchF
  have hvds : st.hasRegion "vds" = true := by
    simp only [virtualSize, show st.finish.fmt = .vhdx from hfmt, hreg] at hvsF
    unfold Insp.hasRegion
    cases hl : lookupR "vds" st.regions with
    | none => rw [hl] at hvsF; simp at hvsF
    | some v => rfl
  have hread := lemma_readOk_single chunks (stA []) hnone
  rw [hst] at hread
  obtain ⟨w1, h1, hg⟩ := reads_total chunks _ (wrapper_good ["vhdx"])
  rw [hw0, hread] at h1
  simp only [Option.some.injEq] at h1
  subst h1
  refine ⟨_, [st], by rw [hw0]; exact hread, hg, ?_, by simp [hfmt, Fmt.name], by simp [hvds]⟩
  have hname : (st.fmt.name != "raw") = true := by rw [hfmt]; decide
  simp [Wrap.formats, realOps, matchList, hname, hcomp, hmatch, bind, Except.bind, pure, Except.pure]

end Oslo.Insp
