"""Shared generators, runners and class predicates for the inspector-group checks
C01 (chunk independence), C05 (bounded memory) and C07 (virtual size).

Nothing here decides a property.  The pieces:

* protocol helpers (compact content encoding, packed chunk-size lists, parallel driver batches);
* image generators on top of harness/images.py: well-formed layouts with the declared size,
  field mutations, truncation / extension, polyglots, unstructured bytes and text, hostile
  headers, and the deliberate minority inside each known-finding class;
* chunking families with a cost estimate for the (list-based) Lean model;
* `run_pairs`: model vs implementation on (format, bytes, chunking) cases;
* the class predicates of known_findings.json (KF_F1, KF_F3, KF_D7, KF_N4) as plain Python
  functions of the bytes, and `model_reproduces` (ask the driver for the same runs).
"""
import bisect
import concurrent.futures as cf
import itertools
import logging
import os
import re
import struct
import time
import zlib

import common
import whitebox
import images
import insp_impl
from common import Disagreement, req

# the inspectors log every refused descriptor; thousands of generated streams would flood stderr
import ambient  # noqa: E402
ambient.quiet_logger('oslo_utils.imageutils.format_inspector')

K = 1024
H = 192 * K
K64 = 64 * K
U16, U32, U64 = (1 << 16) - 1, (1 << 32) - 1, (1 << 64) - 1
GD_AT_END = images.GD_AT_END
FORMATS = list(images.FORMATS)
ZERO_UNTIL = ('qcow2', 'vhd', 'vhdx', 'vmdk', 'vdi', 'iso')   # formats with the "0 while unknown" clause
WORKERS = 6


def ambient(ctx):
    """name of the ambient configuration this run is a child of (None in the main run)"""
    return getattr(ctx, 'ambient', None)


def scale(ctx, value, frac=0.25, least=1):
    """budgets of the ambient children: about a quarter of the main run's"""
    return value if not ambient(ctx) else max(least, int(value * frac))


def thin(ctx, items, key, frac=0.25, keep=None):
    """in an ambient child keep about a quarter of the items, stratified by `key(item)` (at least one of every
    stratum, so every generator family and every format stays represented) and everything `keep` selects"""
    if not ambient(ctx):
        return items
    groups = {}
    for it in items:
        groups.setdefault(key(it), []).append(it)
    out = []
    for k in groups:
        g = groups[k]
        must = [i for i in g if keep and keep(i)]
        rest = [i for i in g if not (keep and keep(i))]
        n = max(0 if must else 1, int(len(rest) * frac + 0.5))
        out += must + ctx.rng.sample(rest, min(n, len(rest)))
    return out


class Clock:
    """wall-clock bound on what a run does once it has a failing input (shrinking, confirming, looking for more)"""

    def __init__(self, ctx, after_failure=60.0, total=None):
        self.limit = after_failure if ambient(ctx) else 3 * after_failure
        self.t_fail = None
        # the whole search of one run (the large budget of a drifted tree included): ambient children a quarter
        if total is None:
            total = (45.0 if ambient(ctx) else 180.0) * (1 if getattr(ctx, 'quick', True) else 5)
        self.t0, self.total = time.time(), total

    def failed(self):
        if self.t_fail is None:
            self.t_fail = time.time()

    def expired(self):
        now = time.time()
        return (self.t_fail is not None and now - self.t_fail > self.limit) or now - self.t0 > self.total


def bound(fmt):
    """C05: the constant the retained byte count must stay under"""
    return 3 * 512 * K if fmt == 'vmdk' else 512 * K


# --------------------------------------------------------------------------
# protocol helpers

_RUN = re.compile(rb'(.)\1{63,}', re.S)


def content_field(data):
    """compact protocol encoding (runs of >= 64 equal bytes are run-length encoded); same
    language as insp_impl.content_field / Drivers.Insp.parseContent, but at C speed"""
    if not data:
        return '-'
    parts, pos = [], 0
    for m in _RUN.finditer(data):
        if m.start() > pos:
            parts.append(data[pos:m.start()].hex())
        n, b = m.end() - m.start(), data[m.start()]
        parts.append('z%d' % n if b == 0 else 'r%dx%02x' % (n, b))
        pos = m.end()
    if pos < len(data):
        parts.append(data[pos:].hex())
    return '+'.join(parts)


def decode_content(field):
    if field == '-':
        return b''
    out = bytearray()
    for part in field.split('+'):
        if part[0] == 'z':
            out += bytes(int(part[1:]))
        elif part[0] == 'r':
            n, h = part[1:].split('x')
            out += bytes.fromhex(h) * int(n)
        else:
            out += bytes.fromhex(part)
    return bytes(out)


def pack_sizes(sizes):
    """JSON-friendly chunk-size list: runs of >= 6 equal sizes become [size, count]"""
    out, i, n = [], 0, len(sizes)
    while i < n:
        j = i
        while j < n and sizes[j] == sizes[i]:
            j += 1
        if j - i >= 6:
            out.append([sizes[i], j - i])
        else:
            out.extend(sizes[i:j])
        i = j
    return out


def unpack_sizes(packed):
    out = []
    for x in packed:
        if isinstance(x, (list, tuple)):
            out.extend([x[0]] * x[1])
        else:
            out.append(x)
    return out


def sizes_field(sizes):
    return ','.join(map(str, sizes)) if sizes else '-'


def insp_line(fmt, field, sizes, trace):
    return req('insp', fmt, field, sizes_field(sizes), 1 if trace else 0)


def wrap_line(field, sizes, allowed=None, expected=None):
    return req('wrap', ','.join(allowed) if allowed else '-', expected or '-', field, sizes_field(sizes))


def region_line(off, length, ml, is_end, field, sizes):
    return req('region', off, length, 'N' if ml is None else ml, 1 if is_end else 0, field, sizes_field(sizes))


def ask_parallel(driver, lines, workers=None, weights=None):
    """ask_many over several driver processes (heaviest requests spread first); order kept"""
    if workers is None:
        # eleven ambient children run side by side: fewer driver processes each
        workers = 2 if os.environ.get('VERIF_AMBIENT') else WORKERS
    n = len(lines)
    if n == 0:
        return []
    if n < 8 or workers <= 1:
        return driver.ask_many(lines)
    order = list(range(n))
    if weights:
        order.sort(key=lambda i: -weights[i])
    buckets = [[] for _ in range(min(workers, n))]
    loads = [0] * len(buckets)
    if weights:
        for i in order:
            b = loads.index(min(loads))
            buckets[b].append(i)
            loads[b] += weights[i] + 1
    else:
        for k, i in enumerate(order):
            buckets[k % len(buckets)].append(i)
    out = [None] * n
    with cf.ThreadPoolExecutor(len(buckets)) as ex:
        futs = [ex.submit(driver.ask_many, [lines[i] for i in b]) for b in buckets]
        for b, f in zip(buckets, futs):
            for i, r in zip(b, f.result()):
                out[i] = r
    return out


_CTX_RE = re.compile(r' ctx=\d+')


def core(verdict):
    """the chunk-independent part of a verdict string (ctx= is the retained byte count, which the
    VHDX metadata truncation makes chunk-dependent by design; C05 looks at it, C01 does not)"""
    return _CTX_RE.sub('', verdict)


def final_parts(reply, trace=False):
    """(state, verdict) of an insp reply / insp_impl.run_insp string"""
    f = reply.split('\t')
    return (f[-2], f[-1]) if len(f) >= 2 else ('', reply)


def vfield(verdict, name):
    m = re.search(r'(?:^| )%s=(\S+)' % name, verdict)
    return m.group(1) if m else None


# --------------------------------------------------------------------------
# chunkings

def fixed(n, cs):
    return images.sizes_from_cuts(list(range(cs, n, cs)), n)


def with_empties(sizes, rng, k=3):
    out = list(sizes)
    for _ in range(k):
        out.insert(rng.randrange(0, len(out) + 1), 0)
    return out


def chunk_family(n, bounds, rng, pairs='sample', small=(1, 3, 17, 64, 100), nrandom=4):
    """[(tag, sizes)] for a stream of length n: one chunk, fixed sizes, a cut at -1/0/+1 of every
    boundary, pairs of such cuts (all of them when pairs == 'all'), random compositions, empty chunks"""
    out = [('one', [n])]
    for cs in (512, 4096, 65536, 1 << 20):
        if cs < n:
            out.append(('fixed%d' % cs, fixed(n, cs)))
    for cs in small:
        if cs < n:
            out.append(('fixed%d' % cs, fixed(n, cs)))
    pts = sorted({b + d for b in bounds for d in (-1, 0, 1) if 0 < b + d < n})
    for p in pts:
        out.append(('cut1', images.sizes_from_cuts([p], n)))
    if len(pts) >= 2:
        if pairs == 'all' and len(pts) <= 40:
            for i in range(len(pts)):
                for j in range(i + 1, len(pts)):
                    out.append(('cut2', images.sizes_from_cuts([pts[i], pts[j]], n)))
        else:
            for _ in range(6):
                pick = sorted(rng.sample(pts, min(len(pts), rng.randint(2, 4))))
                out.append(('cut2+', images.sizes_from_cuts(pick, n)))
    for _ in range(nrandom):
        if n >= 1:
            k = rng.randint(1, 7)
            cuts = sorted(rng.randrange(0, n + 1) for _ in range(k))
            out.append(('random', images.sizes_from_cuts(cuts, n)))       # duplicates give empty chunks
    out.append(('empties', [0, 0] + images.sizes_from_cuts([n // 2], n) + [0]))
    if pts:
        pick = sorted(rng.sample(pts, min(3, len(pts))))
        out.append(('empties', with_empties(images.sizes_from_cuts(pick, n), rng)))
    return out


REGION_SPAN = {'vhdx': None, 'vmdk': (0, 1 << 20), 'iso': (0, 34 * K), 'luks': (0, 592)}


def model_cost(fmt, n, sizes, meta_off=None):
    """rough count of list cells the Lean model copies for this run: every chunk that lands in a
    region still being filled copies the bytes already held (`(data ++ chunk).take length`)"""
    spans = []
    if fmt == 'vhdx':
        spans = [(H, H + K64)]
        mo = meta_off if (meta_off is not None and meta_off < n) else 256 * K
        spans.append((mo, mo + K64))
    elif fmt in REGION_SPAN:
        spans = [REGION_SPAN[fmt]]
    elif fmt == 'wrap':
        spans = [(0, 34 * K), (H, H + K64), (256 * K, 320 * K), (0, 1 << 20)]
    else:
        spans = [(0, 512)]
    cost = n + 40 * len(sizes)
    k = len(sizes)
    if k <= 3:
        return cost + sum(min(n, b) - a for a, b in spans if a < n)
    ends = list(itertools.accumulate(sizes))
    for a, b in spans:
        b = min(b, n)
        if a >= b:
            continue
        i = bisect.bisect_right(ends, a)           # first chunk ending after a
        j = bisect.bisect_left(ends, b)            # first chunk ending at or after b
        cost += sum(ends[i:j]) - a * (j - i) + (b - a if j < k else 0)
    return cost


def select(fmt, n, family, budget, meta_off=None):
    """keep the chunkings whose estimated model cost fits; returns (kept, skipped count)"""
    kept, skipped = [], 0
    for tag, sizes in family:
        if model_cost(fmt, n, sizes, meta_off) <= budget:
            kept.append((tag, sizes))
        else:
            skipped += 1
    return kept, skipped


# --------------------------------------------------------------------------
# value ranges

def size_values(bits, rng, k=6):
    """declared sizes over a field's full range: 0, 1, 2^j +- 1, 2^32 +- 1, 2^63, max, random"""
    top = (1 << bits) - 1
    vals = [0, 1, top, top - 1, 1 << (bits - 1), (1 << (bits - 1)) - 1, (1 << (bits - 1)) + 1]
    if bits > 32:
        vals += [U32, 1 << 32, (1 << 32) + 1]
    for _ in range(k):
        j = rng.randrange(1, bits)
        vals.append((1 << j) + rng.choice((-1, 0, 1)))
    for _ in range(k):
        vals.append(rng.getrandbits(rng.randrange(1, bits + 1)))
    # values whose little- and big-endian readings differ, and whose halves differ
    vals.append(int.from_bytes(bytes(range(1, bits // 8 + 1)), 'big'))
    return [v & top for v in vals]


# --------------------------------------------------------------------------
# well-formed images with the size they declare

class Img:
    """one generated stream: bytes, the structure boundaries, the tag of the generator, and
    (for well-formed images) the declared size and the end of the size-carrying structure"""

    def __init__(self, fmt, data, bounds, tag, declared=None, size_at=None, params=None, wellformed=False):
        self.fmt, self.data, self.tag = fmt, data, tag
        self.bounds = sorted({b for b in bounds if 0 < b < len(data)})
        self.declared, self.size_at, self.params, self.wellformed = declared, size_at, params or {}, wellformed
        self._field = None

    @property
    def field(self):
        if self._field is None:
            self._field = content_field(self.data)
        return self._field

    def prefix(self, n, tag=None):
        p = Img(self.fmt, self.data[:n], self.bounds, tag or (self.tag + '/prefix'), params=self.params)
        p.parent = self
        return p


SPARSE_TYPES = ['monolithicSparse', 'streamOptimized', 'MONOLITHICSPARSE', 'StreamOptimized']


def wf_params(fmt, rng, size=None, big=False):
    """random admissible layout parameters of a well-formed image of `fmt`"""
    if fmt == 'qcow2':
        return dict(size=size if size is not None else rng.choice(size_values(64, rng, 2)),
                    version=rng.choice([2, 3, 3]), cluster_bits=rng.choice([9, 16, 21]),
                    features=rng.choice([0, 0, 1, 2]), total=rng.choice([512, 513, 1024, 3000]),
                    compat=rng.getrandbits(8), autoclear=rng.getrandbits(3), header_fill=rng.choice([0, 0, 0xff]))
    if fmt == 'vhd':
        return dict(size=size if size is not None else rng.choice(size_values(64, rng, 2)),
                    total=rng.choice([512, 513, 1024, 2000]))
    if fmt == 'vdi':
        return dict(size=size if size is not None else rng.choice(size_values(64, rng, 2)),
                    total=rng.choice([512, 513, 1024, 2000]))
    if fmt == 'iso':
        p = dict(blocks=rng.choice(size_values(32, rng, 2)), block_size=rng.choice([2048, 2048, 512, 1024, 4096] + size_values(16, rng, 1)),
                 ident=rng.choice([b'CD001', b'CD001', b'NSR02', b'NSR03']), total=rng.choice([34 * K, 34 * K + 1, 40 * K]),
                 sys_fill=rng.choice([0, 0, 0x41]))
        if size is not None:
            p['blocks'], p['block_size'] = size
        return p
    if fmt == 'luks':
        return dict(payload_offset=size if size is not None else rng.choice(size_values(32, rng, 2)),
                    body_len=rng.choice([0, 1, 100, 4000]))
    if fmt == 'raw':
        return dict(size=size if size is not None else rng.choice([0, 1, 100, 513, 5000]), fill=rng.choice([0, 0x5a]))
    if fmt == 'gpt':
        return dict(total=size if size is not None else rng.choice([512, 513, 1024, 5000]))
    if fmt == 'qed':
        return dict(total=size if size is not None else rng.choice([512, 600, 1024]))
    if fmt == 'vhdx':
        nreg = rng.choice([1, 2, 2, 3, 5, rng.randint(1, 40)] + ([2047, rng.randint(41, 2047)] if big else []))
        nmeta = rng.choice([1, 2, 5, 5, rng.randint(1, 60)] + ([2046, rng.randint(61, 2046)] if big else []))
        es = 32 + 32 * nmeta
        return dict(size=size if size is not None else rng.choice(size_values(64, rng, 2)),
                    nreg=nreg, midx=rng.randrange(nreg), nmeta=nmeta, vidx=rng.randrange(nmeta),
                    meta_off=rng.choice([256 * K, 256 * K, 256 * K + 1, 256 * K + rng.randrange(0, K64), 320 * K]
                                        + ([1 << 20, (1 << 20) + rng.randrange(0, 1 << 20)] if big else [])),
                    item_off=rng.choice([es, es + 1, es + 8, 0x10000, es + rng.randrange(0, 70000)]
                                        + ([es + rng.randrange(0, 1 << 20)] if big else [])),
                    tail=rng.choice([0, 1, 100, 5000]), other_off=rng.getrandbits(40))
    if fmt == 'vmdk':
        footer = rng.random() < 0.4
        p = dict(sectors=size if size is not None else rng.choice(size_values(64, rng, 2)),
                    ver=rng.choice([1, 2, 3]), desc_num=rng.choice([1, 1, 2, 3, 8, 20] + ([100, 2047, 2048] if big else [])),
                    typ=rng.choice(SPARSE_TYPES), footer=footer, body=rng.choice([0, 1, 700, 2000]),
                    header_fill=rng.choice([0, 0, 0x41]))
        if p['desc_num'] <= 20 and rng.random() < 0.25:
            # the descriptor text fills its sectors exactly, no NUL padding
            p['desc'] = exact_fill_desc(p['typ'], p['desc_num'] * 512, rng.random() < 0.6, rng.random() < 0.5)
        return p
    raise KeyError(fmt)


def exact_fill_desc(typ, nbytes, type_last, trailing_nl, rng=None):
    """a VMDK descriptor whose text fills `nbytes` exactly (no NUL padding): the createType line last or
    not, with or without a final newline; comment lines take up the slack"""
    ct = 'createType="%s"' % typ
    lines = ['# Disk DescriptorFile', 'version=1', 'CID=fffffffe', 'parentCID=ffffffff']
    tail = ['RW 2048 SPARSE "disk.vmdk"', 'ddb.adapterType = "ide"']
    body = (lines + tail + [ct]) if type_last else (lines + [ct] + tail)
    text = '\n'.join(body) + ('\n' if trailing_nl else '')
    slack = nbytes - len(text)
    if slack < 2:
        raise ValueError('descriptor does not fit')
    filler = []
    while slack > 0:                       # comment lines "#xxx\n" of at most 70 bytes
        k = min(slack, 70)
        if slack - k == 1:
            k -= 1
        filler.append('#' + 'x' * (k - 2))
        slack -= k
    text = '\n'.join(filler) + '\n' + text
    out = text.encode('ascii')
    assert len(out) == nbytes and b'\0' not in out, (len(out), nbytes)
    return out


def wellformed(fmt, rng, size=None, big=False, params=None):
    """a well-formed image of `fmt` together with the size it declares and the stream position
    at which the size-carrying structure is complete"""
    p = dict(params) if params is not None else wf_params(fmt, rng, size, big)
    data, bounds = images.BUILDERS[fmt](**p)
    n = len(data)
    if fmt in ('qcow2', 'vhd', 'vdi'):
        declared, at = p['size'], 512
    elif fmt == 'iso':
        declared, at = p['blocks'] * p['block_size'], 34 * K
    elif fmt == 'luks':
        declared, at = n - p['payload_offset'] * 512, None
    elif fmt in ('raw', 'gpt', 'qed'):
        declared, at = n, None
    elif fmt == 'vhdx':
        declared, at = p['size'], p['meta_off'] + p['item_off'] + 8
    elif fmt == 'vmdk':
        declared, at = p['sectors'] * 512, 512 + min(p['desc_num'] * 512, (1 << 20) - 1)
    else:
        raise KeyError(fmt)
    extra = [at - 1, at, at + 1] if at else []
    return Img(fmt, data, list(bounds) + extra, 'wf/' + fmt, declared, at, _jsonable(p), wellformed=True)


def _jsonable(p):
    return {k: (v.hex() if isinstance(v, (bytes, bytearray)) else v) for k, v in p.items()}


# --------------------------------------------------------------------------
# malformed streams: field mutation, truncation, extension, polyglots, unstructured

def _v64(rng):
    return [0, 1, 1 << 63, U64, 1 << 32, rng.getrandbits(64)]


def mutation_table(fmt, rng):
    """[(tag, builder kwargs)]: every length / offset / count / signature field of the layout"""
    m = []

    def add(tag, **kw):
        m.append((tag, kw))
    if fmt == 'qcow2':
        for v in (b'QFI\xfa', b'\0QFI', b'QFIX'):
            add('magic', magic=v)
        for v in (0, 1, 2, 4, U32):
            add('version', version=v)
        for v in (1, 1 << 63, U64):
            add('bf_offset', bf_offset=v)
        for v in (1 << rng.randrange(64), U64, 8, 16):
            add('features', features=v)
        for v in _v64(rng):
            add('size', size=v)
        add('fill', header_fill=0xff)
        for v in (104, 112, 0x100000, 0xFFFFFFF8, U32):
            add('header_length', header_length=v, refcount_order=4)
    elif fmt == 'qed':
        for v in (b'QED\x01', b'QEE\0', b'\0\0\0\0'):
            add('magic', magic=v)
    elif fmt == 'vhd':
        for v in (b'conectiy', b'Conectix', b'\0' * 8):
            add('magic', magic=v)
        for v in _v64(rng):
            add('size', size=v)
    elif fmt == 'vdi':
        for v in (0xbeda107e, 0x7f10dabe, 0):
            add('signature', signature=v)
        for v in _v64(rng):
            add('size', size=v)
    elif fmt == 'iso':
        for v in (b'CD000', b'NSR02', b'NSR03', b'BEA01', b'\0' * 5):
            add('ident', ident=v)
        for v in (0, 2, 255):
            add('desc_type', desc_type=v)
        for v in (0, 1, U32, rng.getrandbits(32)):
            add('blocks', blocks=v)
        for v in (0, 1, U16, rng.getrandbits(16)):
            add('block_size', block_size=v)
        add('sys_fill', sys_fill=0x41)
        add('be-halves', blocks=0x01020304, blocks_be=0x0a0b0c0d, block_size=0x0102, block_size_be=0x0304)
        add('be-halves', blocks=7, blocks_be=0, block_size=2048, block_size_be=0)
    elif fmt == 'gpt':
        P = images.pte
        for v in (0x55AA, 0xAA54, 0):
            add('signature', signature=v)
        add('fat', fat=True)
        add('ptes', ptes=[P(boot=1, ostype=0xEE)])
        add('ptes', ptes=[P(ostype=0x83), P(ostype=0xEE)])
        add('ptes', ptes=[P(ostype=0xEE, chs=(0, 1, 0))])
        add('ptes', ptes=[P(ostype=0xEE, lba=2)])
        add('ptes', ptes=[P(ostype=0)] * 4)
        add('ptes', ptes=[P(boot=0x80, ostype=0x83), P(ostype=7), P(ostype=0), P(boot=rng.randrange(256), ostype=0x0c)])
        add('fill', code_fill=rng.randrange(1, 256))
    elif fmt == 'luks':
        for v in (b'LUKS\xba\xbf', b'luks\xba\xbe', b'\0' * 6):
            add('magic', magic=v)
        for v in (0, 2, -1, 0x7fff):
            add('version', version=v)
        for v in (0, 1, U32, rng.getrandbits(32)):
            add('payload', payload_offset=v, body_len=rng.choice([0, 100]))
    elif fmt == 'vhdx':
        for v in (b'vhdxfilf', b'VHDXFILE', b'\0' * 8):
            add('ident', ident=v)
        add('regi', regi=0x69676573)
        for v in (0, 1, 2047, 2048, 65535, U32):
            add('reg_count', reg_count=v)
        add('nreg', nreg=0)
        add('nreg', nreg=7, midx=6)
        add('meta_guid', meta_guid=bytes(16))
        for v in (0, 1, 4, 2047, 2048, 65535):
            add('meta_count', meta_count=v)
        add('nmeta', nmeta=0)
        add('nmeta', nmeta=40, vidx=39)
        add('vds_guid', vds_guid=bytes(range(16)))
        for v in (0, 4, 16, 65536, 65537, U32):
            add('item_len', item_len=v, total=256 * K + 0x10000 + 200)
        for v in (256 * K + 1, 256 * K + 4097, 300 * K, 1 << 40, U64):    # forward pointers, some beyond EOF
            add('meta_off>', meta_off=v, total=max(320 * K, min(v, 300 * K) + 0x10000 + 200))
        for v in (160 + 32, 70000, 0x20000, U32):
            add('item_off>', item_off=v, total=256 * K + min(v, 0x20000) + 200)
    elif fmt == 'vmdk':
        for v in (1, 2, 3):
            add('ver', ver=v)
        for v in (0, 2, 1 << 55, U64):
            add('desc_sec', desc_sec=v)
        for v in (0, 1, 3, 20, 2047, 2048, 2049, 1 << 32, U64):
            add('desc_num', desc_num=v)
        for v in _v64(rng):
            add('sectors', sectors=v)
        for v in ('monolithicFlat', 'vmfs', 'STREAMOPTIMIZED', 'x' * 70, ''):
            add('typ', typ=v)
        for v in ('RW 100 SPARSE "/etc/passwd"', 'bogus line', '', 'RDONLY 1 FLAT "a" 0\nNOACCESS 4 ZERO'):
            add('extent', extent=v)
        add('desc', desc=b'\xff\xfe createType="monolithicSparse"\n')
        add('desc', desc=b'createType="monolithicSparse', desc_pad=b' ')
        add('desc_pad', desc_pad=b' ')
        add('fill', header_fill=0x41)
        add('footer', footer=True)
        for kw in (dict(f_ver=2), dict(f_desc_sec=5), dict(f_desc_num=9), dict(f_gd=GD_AT_END), dict(f_sig=b'KDMW'),
                   dict(fm_size=1), dict(fm_type=0), dict(fm_pad=b'\x01'), dict(eos_val=1), dict(eos_size=1),
                   dict(eos_type=3), dict(eos_pad=b'\x01'), dict(desc_sec=2), dict(desc_num=0)):
            add('footer-field', footer=True, **kw)
    return m


def mutated(fmt, rng, count=None):
    """field-mutated images (all of the table, or `count` sampled entries)"""
    table = mutation_table(fmt, rng)
    if count is not None and count < len(table):
        table = rng.sample(table, count)
    out = []
    for tag, kw in table:
        if fmt == 'vhdx':
            kw = dict({'meta_off': 256 * K}, **kw)
        elif fmt == 'luks' and 'body_len' not in kw:
            kw = dict(kw, body_len=rng.choice([0, 100, 700]))
        data, bounds = images.BUILDERS[fmt](**kw)
        out.append(Img(fmt, data, bounds, 'mut/%s/%s' % (fmt, tag), params=_jsonable(kw)))
    return out


def truncations(img, rng, limit=None):
    """the stream cut at and +-1 around every structure boundary"""
    pts = sorted({b + d for b in img.bounds for d in (-1, 0, 1) if 0 <= b + d < len(img.data)} | {0, 1})
    if limit is not None and len(pts) > limit:
        pts = sorted(rng.sample(pts, limit))
    return [img.prefix(p, 'trunc/' + img.fmt) for p in pts]


def extended(img, rng):
    tail = rng.choice([b'\0', b'\xff' * 7, bytes(rng.randrange(256) for _ in range(rng.randrange(1, 600))), b'\0' * 5000])
    return Img(img.fmt, img.data + tail, img.bounds + [len(img.data)], 'ext/' + img.fmt, params=img.params)


_NONZERO = re.compile(rb'[^\0]+')
SMALL_VHDX = dict(meta_off=256 * K, item_off=32 + 32 * 5, tail=100)


def clean_small(fmt):
    if fmt == 'vhdx':
        return images.vhdx(**SMALL_VHDX)
    if fmt == 'luks':
        return images.luks(body_len=700)
    return images.BUILDERS[fmt]()


def polyglot(a, b, rng):
    """image of format `a` overlaid with every non-zero byte of a clean image of format `b`"""
    da, ba = clean_small(a)
    db, bb = clean_small(b)
    buf = bytearray(da.ljust(len(db), b'\0'))
    for m in _NONZERO.finditer(db):
        buf[m.start():m.end()] = m.group()
    return bytes(buf), sorted(set(ba) | set(bb))


def polyglots(rng, count):
    pairs = [(a, b) for a in FORMATS for b in FORMATS if a != b and a != 'raw' and b != 'raw']
    out = []
    for a, b in rng.sample(pairs, min(count, len(pairs))):
        data, bounds = polyglot(a, b, rng)
        for fmt in (a, b):
            out.append(Img(fmt, data, bounds, 'poly/%s+%s' % (a, b)))
    return out


TEXT_ALPHABET = 'abcdefghijklmnopqrstuvwxyzABCDEFGHIJKLMNOPQRSTUVWXYZ0123456789 =\"#./\n\t-_'


def rand_text(rng, n):
    return ''.join(rng.choice(TEXT_ALPHABET) for _ in range(n)).encode('ascii')


def unstructured(rng, count, fmts=None):
    """random bytes, constant fills and text, for an inspector picked at random (or each of `fmts`)"""
    out = []
    for _ in range(count):
        kind = rng.choice(['random', 'random', 'zeros', 'ff', 'text', 'mostly-text'])
        n = rng.choice([0, 1, 3, 4, 5, 63, 64, 65, 511, 512, 513, 600, rng.randrange(0, 3000)])
        if kind == 'random':
            data = bytes(rng.randrange(256) for _ in range(n))
        elif kind == 'zeros':
            data = bytes(n)
        elif kind == 'ff':
            data = b'\xff' * n
        elif kind == 'text':
            data = rand_text(rng, n)
        else:
            data = bytearray(rand_text(rng, n))
            if n:
                data[rng.randrange(n)] = rng.choice([0, 0x80, 0xff, 0x7f])
            data = bytes(data)
        for fmt in (fmts or [rng.choice(FORMATS)]):
            out.append(Img(fmt, data, [4, 64, 512], 'unstructured/' + kind))
    return out


# --------------------------------------------------------------------------
# hostile headers (C05)

def hostile(rng, quick=True):
    """streams whose length / count / offset fields announce structures far larger than the bound"""
    out = []

    def vm(tag, n=None, **kw):
        data, b = images.vmdk(**kw)
        if n is not None:
            data = data[:n] if n <= len(data) else data + b'\x41' * (n - len(data))
        out.append(Img('vmdk', data, b, 'hostile/vmdk/' + tag, params=_jsonable(kw)))

    def vx(tag, **kw):
        data, b = images.vhdx(**kw)
        out.append(Img('vhdx', data, b, 'hostile/vhdx/' + tag, params=_jsonable(kw)))
    for dn in (2047, 2048, 2049, 1 << 32, 1 << 63, U64):
        vm('desc_num', n=rng.choice([600, 5000]), desc_num=dn, desc=b'x' * 100)
    vm('desc_num-max-long', n=(1 << 20) + (1 << 19) + 4096 + (0 if quick else 2 << 20), desc_num=U64, desc_pad=b' ',
       desc=b'createType="monolithicSparse"\n')
    vm('desc_num-max-footer', n=(1 << 20) + 8 * K, desc_num=U64, footer=True, desc_pad=b'a')
    for ds in (0, 2, 1 << 55, U64):
        vm('desc_sec', n=3000, desc_sec=ds, desc_num=U64)
    for il in (65535, 65536, 65537, 1 << 31, U32):
        vx('item_len', item_len=il, meta_off=256 * K, item_off=192, total=256 * K + 192 + rng.choice([100, 70000]), fill=0x33)
    vx('item_len-max-long', item_len=U32, meta_off=256 * K, item_off=192, total=256 * K + 192 + 450 * K + (0 if quick else 3 << 20), fill=0x33)
    for c in (2047, 2048, 65535, U32):
        vx('reg_count', reg_count=c, nreg=3, total=330 * K)
    for c in (2046, 2047, 2048, 65535):
        vx('meta_count', meta_count=c, nmeta=4, total=256 * K + K64 + 5000, meta_off=256 * K, fill=rng.choice([0, 0x20]))
    vx('nmeta-full', nmeta=2047, vidx=2046, meta_off=256 * K, item_off=K64, item_len=U32, total=256 * K + 2 * K64 + 450 * K, fill=1)
    for mo in (0, 1, 32, H - 1, H, H + 16, 256 * K - 1, 256 * K, 330 * K - 1, 330 * K, 1 << 40, U64):
        vx('meta_ptr', meta_off=mo, total=330 * K, item_len=U32, item_off=rng.choice([0, 192, 4096]), fill=0x44)
    for io in (0, 31, 32, 192, K64 - 1, K64, 1 << 20, U32):
        vx('item_ptr', meta_off=256 * K, item_off=io, item_len=U32, total=256 * K + K64 + 5000, fill=0x55)
    return out


SWEEP_VALUES = [bytes.fromhex(x) for x in ('00000000', 'f8ffffff', 'fffffff8', '00001000', '00100000', 'ffffffff')]
# structured values: small counts, powers of two, multiples of 128 / 512 / 4096, 2^k - 128, 2^k - 512, 2^k - 4096
SWEEP_STRUCTURED = [2, 128, 512, 4096, 0x10000, 0x1000000, 0x80000000, 0xFFFFFF80, 0xFFFFFE00, 0xFFFFF000, 0xFFF80, 0x7FFFFE00]
# (first field, second field) of two adjacent 4-byte fields: count x size products and their mirror images
SWEEP_PAIRS = [(128, 4096), (4096, 128), (128, 0x100000), (0x100000, 128), (0xFFFFFFFF, 0xFFFFFF80), (0xFFFFFF80, 0xFFFFFFFF),
               (0x10000, 0x10000), (2, 0x80000000), (0x80000000, 2)]


def _enc(v, order):
    return struct.pack('<I' if order == 'le' else '>I', v)


class SweepBase:
    """a clean image split at the point where a long tail can be inserted (head + tail + foot) and the
    byte ranges of its header structures, as (part, start, end).  `ext` are the ranges of length / count /
    offset carrying structures (always swept with the structured values and the adjacent-field pairs)."""

    def __init__(self, fmt, name, head, foot, ranges, ext=(), order='both'):
        self.fmt, self.name, self.head, self.foot, self.ranges = fmt, name, head, foot, ranges
        self.ext, self.order = list(ext), order

    def fields(self, structured_everywhere=False):
        """(part, offset, bytes): every 4-byte-aligned field of the header structures x every sweep value; the
        structured values and the pairs of adjacent fields on the `ext` ranges (everywhere when asked to)"""
        orders = ('le', 'be') if self.order == 'both' else (self.order,)
        for part, a, b in self.ranges:
            for off in range(a, b - 3, 4):
                for v in SWEEP_VALUES:
                    yield part, off, v
        for part, a, b in (self.ranges if structured_everywhere else self.ext):
            for off in range(a, b - 3, 4):
                for o in orders:
                    for v in SWEEP_STRUCTURED:
                        e = _enc(v, o)
                        if e not in SWEEP_VALUES:
                            yield part, off, e
                    if off + 8 <= b:
                        for x, y in SWEEP_PAIRS:
                            yield part, off, _enc(x, o) + _enc(y, o)

    def stream(self, field, tail_len, tail_byte=0x5a):
        head, foot = self.head, self.foot
        if field is not None:
            part, off, v = field
            if part == 'head':
                head = head[:off] + v + head[off + len(v):]
            else:
                foot = foot[:off] + v + foot[off + len(v):]
        return head + bytes([tail_byte]) * tail_len + foot


def _put(buf, off, b):
    buf[off:off + len(b)] = b


def follow_on_images():
    """{format: (name, bytes, ext ranges, byte order)}: a plausible instance of the well-known optional
    structures that follow the part of the layout the inspector reads today (written from the format
    specifications, with ordinary values); the sweep then makes every field of them hostile"""
    out = {}
    # GPT: protective MBR, GPT header at LBA 1 (UEFI 5.3.2), partition entry array at LBA 2
    mbr = images.gpt()[0][:512]
    hdr = bytearray(512)
    _put(hdr, 0, b'EFI PART' + struct.pack('<IIIIQQQQ', 0x00010000, 92, 0x12345678, 0, 1, 0xFFFF, 34, 0xFFDE))
    _put(hdr, 56, bytes(range(1, 17)) + struct.pack('<QIII', 2, 128, 128, 0x9abcdef0))
    ents = bytearray(128 * 128)
    _put(ents, 0, bytes(range(0x20, 0x30)) + bytes(range(0x30, 0x40)) + struct.pack('<QQQ', 34, 0x1000, 0) + 'root'.encode('utf-16-le'))
    out['gpt'] = ('gpt+header+entries', mbr + bytes(hdr) + bytes(ents), [(512, 604), (1024, 1024 + 128)], 'le')
    # VHD dynamic disk: footer copy, dynamic disk header ('cxsparse') at 512, block allocation table at 1536
    f = bytearray(images.vhd()[0][:512])
    _put(f, 8, struct.pack('>IIQ', 2, 0x00010000, 512))
    _put(f, 48, struct.pack('>QHBBI', 5 * K * K, 10, 16, 63, 3))
    dyn = bytearray(1024)
    _put(dyn, 0, b'cxsparse' + struct.pack('>QQIII', U64, 1536, 0x00010000, 16, 0x200000))
    out['vhd'] = ('vhd-dynamic', bytes(f) + bytes(dyn) + b'\xff' * 64 + bytes(448), [(8, 64), (512, 576), (1536, 1600)], 'be')
    # qcow2 v3: L1 / refcount / snapshot table fields, header_length, header extensions, the tables themselves
    q = bytearray(images.qcow2(version=3, header_length=112, refcount_order=4, total=8 * K)[0])
    _put(q, 36, struct.pack('>IQQIIQ', 4, 4096, 2048, 1, 0, 0))
    _put(q, 112, struct.pack('>II', 0xE2792ACA, 5) + b'qcow2\0\0\0' + struct.pack('>II', 0x6803F857, 48) + bytes(48)
         + struct.pack('>II', 0, 0))
    _put(q, 2048, struct.pack('>Q', 6144))
    _put(q, 4096, struct.pack('>QQQQ', 1 << 63 | 0x10000, 0, 0, 0))
    out['qcow2'] = ('qcow2-v3-tables', bytes(q), [(32, 112), (112, 192), (2048, 2064), (4096, 4128)], 'be')
    # VDI: header fields after the signature, block map
    v = bytearray(images.vdi()[0][:512]) + bytearray(b'\xff' * 28 + bytes(484))
    _put(v, 0x44, struct.pack('<IIII', 0x00010001, 0x190, 1, 0))
    _put(v, 0x154, struct.pack('<II', 512, 4096))
    _put(v, 0x178, struct.pack('<IIII', 1 << 20, 0, 7, 0))
    out['vdi'] = ('vdi-blockmap', bytes(v), [(0x44, 0x58), (0x150, 0x190), (512, 544)], 'le')
    # LUKS1: key-bytes, digest iterations, the eight key slots (active, iterations, salt, offset, stripes)
    l = bytearray(images.luks(body_len=0)[0])
    _put(l, 108, struct.pack('>I', 32))
    _put(l, 164, struct.pack('>I', 1000))
    for i in range(8):
        _put(l, 208 + 48 * i, struct.pack('>II', 0x00AC71F3 if i == 0 else 0x0000DEAD, 2000) + bytes(32) + struct.pack('>II', 8 + 256 * i, 4000))
    out['luks'] = ('luks-keyslots', bytes(l), [(104, 112), (164, 168), (208, 592)], 'be')
    # ISO 9660: path table size / locations, root directory record; terminator, path tables, root directory
    pvd = bytearray(images.iso(total=34 * K)[0])
    o = 32 * K
    _put(pvd, o + 132, struct.pack('<I', 10) + struct.pack('>I', 10) + struct.pack('<II', 18, 0) + struct.pack('>II', 19, 0))
    _put(pvd, o + 156, bytes([34, 0]) + struct.pack('<I', 20) + struct.pack('>I', 20) + struct.pack('<I', 2048) + struct.pack('>I', 2048)
         + bytes(7) + bytes([2, 0, 0]) + struct.pack('<H', 1) + struct.pack('>H', 1) + bytes([1, 0]))
    term = bytearray(2048)
    _put(term, 0, b'\xffCD001\x01')
    pt_l = bytearray(2048)
    _put(pt_l, 0, bytes([1, 0]) + struct.pack('<IH', 20, 1) + b'\0\0')
    pt_m = bytearray(2048)
    _put(pt_m, 0, bytes([1, 0]) + struct.pack('>IH', 20, 1) + b'\0\0')
    root = bytearray(2048)
    _put(root, 0, bytes(pvd[o + 156:o + 190]))
    out['iso'] = ('iso-pathtables', bytes(pvd) + bytes(term) + bytes(pt_l) + bytes(pt_m) + bytes(root),
                  [(o + 80, o + 88), (o + 128, o + 190), (36 * K, 36 * K + 16), (40 * K, 40 * K + 34)], 'both')
    return out


def sweep_bases(fmt):
    bases = []
    if fmt == 'vhdx':
        kw = dict(meta_off=256 * K, item_off=192, tail=0, nreg=2, nmeta=5)
        d, _ = images.vhdx(**kw)
        tables = [('head', H, H + 16 + 32 * 2), ('head', 256 * K, 256 * K + 32 + 32 * 5), ('head', 256 * K + 192, 256 * K + 200)]
        bases.append(SweepBase(fmt, 'vhdx', d, b'', [('head', 0, 512)] + tables, ext=tables, order='le'))
    elif fmt == 'vmdk':
        f, _ = images.vmdk(footer=True, body=0)
        n, _ = images.vmdk(footer=False, body=0)
        bases.append(SweepBase(fmt, 'vmdk-footer', f[:-1536], f[-1536:], [('head', 0, 512), ('foot', 0, 1536)],
                               ext=[('head', 0, 80), ('foot', 0, 16), ('foot', 512, 592), ('foot', 1024, 1040)], order='le'))
        bases.append(SweepBase(fmt, 'vmdk', n, b'', [('head', 0, 512)], ext=[('head', 0, 80)], order='le'))
    elif fmt == 'iso':
        d, _ = images.iso(total=34 * K)
        bases.append(SweepBase(fmt, 'iso', d, b'', [('head', 0, 512), ('head', 32 * K, 34 * K)], ext=[('head', 32 * K, 32 * K + 190)]))
    elif fmt == 'luks':
        d, _ = images.luks(body_len=0)
        bases.append(SweepBase(fmt, 'luks', d, b'', [('head', 0, 592)], ext=[('head', 0, 8), ('head', 104, 112)], order='be'))
    elif fmt == 'raw':
        bases.append(SweepBase(fmt, 'raw', bytes(512), b'', [('head', 0, 512)]))
    else:
        d, _ = images.BUILDERS[fmt]()
        ext = {'qcow2': [('head', 0, 112)], 'vhd': [('head', 0, 64)], 'vdi': [('head', 0x40, 0x58), ('head', 0x150, 0x190)],
               'gpt': [('head', 440, 512)], 'qed': [('head', 0, 64)]}.get(fmt, [])
        bases.append(SweepBase(fmt, fmt, d[:512], b'', [('head', 0, 512)], ext=ext))
    fo = follow_on_images().get(fmt)
    if fo:
        name, data, ranges, order = fo
        rs = [('head', a, b) for a, b in ranges]
        bases.append(SweepBase(fmt, name, data, b'', rs, ext=rs, order=order))
    return bases


VOLUME_IDS = [b'CD001', b'BEA01', b'BOOT2', b'CDW02', b'NSR02', b'NSR03', b'TEA01']     # ISO 9660 / ECMA-167 2/9


def tile(unit, total):
    return (unit * (total // len(unit) + 1))[:total]


def repeated_structures(rng, quick=True, short=False):
    """hostile streams that announce nothing through a length field but keep *repeating* a structure the
    format recognises, at the stride the format expects it (ISO volume descriptors of every identifier from
    sector 16 on, VHDX region tables / metadata tables / table entries, VMDK headers, markers and descriptor
    sectors, partition tables, the fixed headers of the other formats), for longer than the bound"""
    out = []

    def add(fmt, tag, data, bounds=()):
        out.append(Img(fmt, data, list(bounds), 'repeat/%s/%s' % (fmt, tag)))
    # `short`: a few dozen repetitions only - for the model comparison, where the driver's content parser is
    # quadratic in the number of run-length parts; the search uses streams longer than the bound
    long_ = {f: (64 * K if short else 9 << 18 if f == 'vmdk' else 768 * K) for f in FORMATS}
    # ISO: every volume-structure identifier x descriptor type, and random sequences of them
    for ident in VOLUME_IDS:
        for dt in ([1, rng.choice([0, 2, 255])] if quick else [0, 1, 2, 255]):
            sector = images.iso(ident=ident, desc_type=dt, total=34 * K)[0][32 * K:34 * K]
            add('iso', '%s-type%d' % (ident.decode(), dt), bytes(32 * K) + tile(sector, long_['iso']), [32 * K, 34 * K, 36 * K])
    for _ in range(2 if quick else 8):
        seq = b''.join(images.iso(ident=rng.choice(VOLUME_IDS), desc_type=rng.choice([0, 1, 2, 255]), total=34 * K)[0][32 * K:34 * K]
                       for _ in range(long_['iso'] // 2048))
        add('iso', 'mixed', bytes([rng.choice([0, 0x41])]) * (32 * K) + seq, [32 * K, 34 * K])
    # VHDX: tables full of the entry the inspector looks for; the tables themselves repeated
    d = images.vhdx(meta_off=256 * K, item_off=192, total=320 * K)[0]
    table, meta = d[H:H + K64], d[256 * K:320 * K]
    add('vhdx', 'metadata-tables', d[:256 * K] + tile(meta, long_['vhdx']), [H, 256 * K, 320 * K])
    add('vhdx', 'region-tables', d[:H] + tile(table, long_['vhdx'] + K64), [H, 256 * K])
    add('vhdx', 'whole-header', tile(d, long_['vhdx'] + 320 * K), [H, 256 * K, 320 * K])
    buf = bytearray(d[:256 * K] + bytes(long_['vhdx'] + K64))
    for i in range(2047):            # every region entry is a metadata region, each somewhere else
        buf[H + 16 + 32 * i:H + 48 + 32 * i] = images.GUID_META + struct.pack('<QII', 256 * K + 4096 * (i % 150), 0x100000, 1)
    buf[H:H + 16] = struct.pack('<IIII', 0x69676572, 0, 2047, 0)
    for k in range(0, long_['vhdx'], K64) if not short else [0]:
        buf[256 * K + k:256 * K + k + 12] = struct.pack('<8sHH', b'metadata', 0, 2047)
        for i in range(2047):        # every metadata entry is the virtual disk size, with a maximal length
            o = 256 * K + k + 32 + 32 * i
            buf[o:o + 28] = images.GUID_VDS + struct.pack('<III', K64 + 8 * i, U32, 0)
    add('vhdx', 'all-entries-wanted', bytes(buf), [H, 256 * K, 320 * K])
    # VMDK: header, descriptor sector, markers, footer header - each repeated
    c = images.vmdk(footer=True, desc_num=1, body=0)[0]
    h, desc, fm, fh, eos = (c[i:i + 512] for i in range(0, 2560, 512))
    nf = images.vmdk(footer=False, desc_num=1, body=0)[0][:512]
    n = long_['vmdk']
    for tag, data in (('headers', tile(h, n)), ('footer-markers', h + desc + tile(fm, n)), ('footer-headers', h + desc + tile(fh, n)),
                      ('eos-markers', h + desc + tile(eos, n)), ('footers', h + desc + tile(fm + fh + eos, n)),
                      ('descriptors', h + tile(desc, n)), ('descriptors-nofooter', nf + tile(desc, n)),
                      ('text-descriptors', tile(images.vmdk_text()[0], n)),
                      ('createType-lines', tile(b'createType="monolithicSparse"\n', n))):
        add('vmdk', tag, data, [64, 512, 1024, len(data) - 1536])
    # the other formats: their fixed header repeated (GPT: also protective-MBR + GPT header sectors)
    for fmt in ('qcow2', 'qed', 'vhd', 'vdi', 'gpt', 'luks', 'raw'):
        c = clean_small(fmt)[0]
        unit = c[:592] if fmt == 'luks' else c[:512].ljust(512, b'\0')
        add(fmt, 'headers', tile(unit, long_[fmt]), [512, 592, 1024])
    add('gpt', 'efi-part-sectors', clean_small('gpt')[0][:512] + tile(b'EFI PART'.ljust(512, b'\0'), long_['gpt']), [512, 1024])
    return out


def big_streams(rng, quick=True):
    """pure text, random data and multi-MiB streams for every inspector kind"""
    out = []
    sizes = [600 * K, (1 << 20) + 600 * K] if quick else [600 * K, 2 << 20, 5 << 20]
    for n in sizes:
        line = rand_text(rng, 77) + b'\n'
        text = (line * (n // len(line) + 1))[:n]
        rnd = rng.randbytes(n)
        out.append(Img('vmdk', text, [64, 512, (1 << 20) - 1, 1 << 20], 'big/text'))
        out.append(Img('vmdk', b'KDMV' + text[4:], [64, 512, 1 << 20], 'big/kdmv-text'))
        out.append(Img('vmdk', rnd, [64, 512], 'big/random'))
        out.append(Img('vhdx', rnd, [H, 256 * K], 'big/random'))
        out.append(Img('vhdx', text, [H, 256 * K], 'big/text'))
        for fmt in ('qcow2', 'iso', 'luks', 'raw'):
            out.append(Img(fmt, rng.choice([text, rnd]), [512, 592, 34 * K], 'big/' + fmt))
    return out


# --------------------------------------------------------------------------
# the known-finding classes (known_findings.json) as predicates on the bytes

def sparse_header(s):
    if len(s) < 64:
        return None
    sig, ver, _f, sec, _g, dsec, dnum, _n, _r, gd = struct.unpack('<4sIIQQQQIQQ', s[:64])
    return dict(sig=sig, ver=ver, sectors=sec, desc_sec=dsec, desc_num=dnum, gd=gd)


def in_F1(s):
    """KF_F1: vmdk and NOT (len >= 64 and KDMV and version in {1,2,3})"""
    h = sparse_header(s)
    return not (h is not None and h['sig'] == b'KDMV' and h['ver'] in (1, 2, 3))


def in_F3(s):
    """KF_F3: KDMV, version ok, footer announced, 1536 <= len < 1599"""
    h = sparse_header(s)
    return bool(h and h['sig'] == b'KDMV' and h['ver'] in (1, 2, 3) and h['gd'] == GD_AT_END
                and 1536 <= len(s) < 1599)


def vhdx_walk(s):
    """what a whole-stream reading of the VHDX pointers finds:
    dict(meta_off, sig_ok, es, item_off) with None where the walk stops"""
    r = dict(meta_off=None, have32=False, sig_ok=None, es=None, item_off=None)
    if len(s) < H + K64:
        return r
    regi, _ck, count, _res = struct.unpack('<IIII', s[H:H + 16])
    if regi != 0x69676572 or count >= 2048:
        return r
    for i in range(count):
        e = s[H + 16 + 32 * i:H + 48 + 32 * i]
        if e[:16] == images.GUID_META:
            r['meta_off'] = struct.unpack('<Q', e[16:24])[0]
            break
    mo = r['meta_off']
    if mo is None:
        return r
    mb = s[mo:mo + K64]
    if len(mb) < 32:
        return r
    r['have32'] = True
    r['sig_ok'] = mb[:8] == b'metadata'
    if not r['sig_ok']:
        return r
    cnt = struct.unpack('<H', mb[10:12])[0]
    es = 32 + cnt * 32
    if len(mb) < es:
        return r
    r['es'] = es
    for i in range(cnt):
        e = mb[32 + 32 * i:64 + 32 * i]
        if e[:16] == images.GUID_VDS:
            r['item_off'] = struct.unpack('<I', e[16:20])[0]
            break
    return r


def in_D7(s):
    """KF_D7: vhdx and NOT VhdxForward: the metadata pointer is below 256 KiB, or the size item
    that is found lies before the end of the metadata entry table"""
    w = vhdx_walk(s)
    if w['meta_off'] is None:
        return False
    if w['meta_off'] < 256 * K:
        return True
    return w['item_off'] is not None and w['item_off'] < w['es']


def in_N4(s):
    """KF_N4: vhdx and NOT VhdxMetaSigOK: 32 bytes of the metadata region are in the stream and
    they do not start with 'metadata'"""
    w = vhdx_walk(s)
    return w['have32'] and w['sig_ok'] is False


def classes_of(fmt, s):
    """ids of the listed classes the stream lies in, for the inspector `fmt`"""
    out = []
    if fmt == 'vmdk':
        if in_F1(s):
            out.append('KF_F1')
        if in_F3(s):
            out.append('KF_F3')
    elif fmt == 'vhdx':
        if in_D7(s):
            out.append('KF_D7')
        if in_N4(s):
            out.append('KF_N4')
    return out


def in_hypothesis(fmt, s):
    return not classes_of(fmt, s)


# deliberate minority inside each known class ----------------------------------

def known_class_images(rng, per_class=2):
    out = []
    # KF_F1: text-descriptor mode, short streams, KDMV + bad version + text
    f1 = []
    for _ in range(per_class):
        typ = rng.choice(SPARSE_TYPES + ['monolithicFlat'])
        extra = ['RW 4 SPARSE "%s"' % rng.choice(['a.vmdk', '/etc/x'])] * rng.randrange(0, 3)
        d, b = images.vmdk_text(typ=typ, extra=extra)
        f1.append(Img('vmdk', d, b, 'known/F1/text'))
        f1.append(Img('vmdk', b'KDMVcreateType="%s" \n' % typ.encode() + rand_text(rng, rng.randrange(30, 200)), [4, 63, 64, 65],
                      'known/F1/kdmv-text'))
        f1.append(Img('vmdk', images.vmdk()[0][:rng.randrange(4, 64)], [4], 'known/F1/short'))
        f1.append(Img('vmdk', rand_text(rng, rng.choice([64, 100, 600, 700])) + b'\ncreateType="streamOptimized"\nRW 1 SPARSE "x"\n',
                      [4, 63, 64, 65, 511, 512, 513], 'known/F1/late-type'))
    out += f1
    # KF_F3: footer announced, 1536 <= len < 1599
    for _ in range(per_class):
        d, b = images.vmdk(footer=True, desc_num=1, body=0)
        n = rng.randrange(1536, 1599)
        out.append(Img('vmdk', d[:n], b + [10, 63, 64, n - 1536 + 64], 'known/F3'))
    # KF_D7: backward pointers
    for _ in range(per_class):
        mo = rng.choice([65536, 0x30000 + 16 + 64, rng.randrange(0, 256 * K), 256 * K - 1, 4096])
        d, b = images.vhdx(meta_off=mo, item_off=rng.choice([65536, 192, 4096]), total=max(330 * K, mo + 2 * K64 + 100))
        out.append(Img('vhdx', d, b, 'known/D7/meta-backward', params=dict(meta_off=mo)))
        io = rng.choice([16, 40, 136, 168, 184])     # inside the table, clear of the signature and the size entry
        d, b = images.vhdx(meta_off=256 * K, item_off=io, total=256 * K + K64 + 100)
        out.append(Img('vhdx', d, b, 'known/D7/item-backward', params=dict(item_off=io)))
    # KF_N4: metadata region with a wrong signature
    for _ in range(per_class):
        sig = rng.choice([b'metadat_', b'METADATA', b'\0' * 8])
        mo = rng.choice([256 * K, 256 * K + 512, 300 * K])
        d, b = images.vhdx(meta_off=mo, meta_sig=sig, item_off=192, total=mo + K64 + rng.choice([0, 100, 5000]))
        out.append(Img('vhdx', d, b, 'known/N4', params=dict(meta_sig=sig.hex(), meta_off=mo)))
    return out


# --------------------------------------------------------------------------
# model vs implementation on (format, bytes, chunking)

FEEDS = ('bytes', 'bytearray', 'memoryview')


class Feeder:
    """hands the chunk bytes to eat_chunk as an object of the given kind.  Mutable buffers are reused
    between calls when the size allows (the `n = f.readinto(buf); inspector.eat_chunk(buf)` idiom) and
    are overwritten after every call: what the inspector concludes is a function of the bytes it was
    shown, not of what the caller does with its buffer afterwards."""

    def __init__(self, kind):
        if kind not in FEEDS:
            raise ValueError(kind)
        self.kind, self.buf = kind, None

    def give(self, chunk):
        if self.kind == 'bytes':
            return chunk
        n = len(chunk)
        if self.buf is None or len(self.buf) != n:
            self.buf = bytearray(n)
        self.buf[:] = chunk
        return self.buf if self.kind == 'bytearray' else memoryview(self.buf)

    def after(self):
        if self.buf is not None:
            self.buf[:] = b'\xee' * len(self.buf)


_CTOR = {}
_SUBCLASS = {}
SUBCLASS_KINDS = ('trivial', 'constant', 'addcheck', 'hooks', 'override')


def insp_class(fmt, kind=None):
    """the public inspector class of `fmt`, or a subclass of it that a user of the library may write:
    'trivial' (`class X(Base): pass`), 'constant' (re-declares the class constants), 'addcheck' (adds a passing
    safety check), 'hooks' (region_complete / post_process calling the inherited ones), 'override' (adds a constant
    and overrides _initialize / safety_check by calling the inherited ones).  A subclass that changes nothing must behave exactly like its base class."""
    base = insp_impl.fi().ALL_FORMATS[fmt]
    if not kind:
        return base
    key = (base, kind)
    if key not in _SUBCLASS:
        if kind == 'trivial':
            _SUBCLASS[key] = type('Sub' + base.__name__, (base,), {})
        elif kind == 'constant':          # re-declares the class constants (same values) and nothing else
            consts = {k: v for c in reversed(base.__mro__) for k, v in vars(c).items()
                      if k.isupper() and isinstance(v, (int, str, bytes, tuple))}
            _SUBCLASS[key] = type('SubC' + base.__name__, (base,), dict(consts, SITE_LABEL='x'))
        elif kind == 'addcheck':          # registers one more safety check, which passes
            def _initialize(self):
                super(_SUBCLASS[key], self)._initialize()
                self.add_safety_check(insp_impl.fi().SafetyCheck('site_policy', lambda: None))
            _SUBCLASS[key] = type('SubK' + base.__name__, (base,), {'_initialize': _initialize})
        elif kind == 'hooks':             # overrides the hooks by calling the inherited ones
            def region_complete(self, region_name):
                return super(_SUBCLASS[key], self).region_complete(region_name)

            def post_process(self):
                return super(_SUBCLASS[key], self).post_process()
            _SUBCLASS[key] = type('SubH' + base.__name__, (base,), {'region_complete': region_complete, 'post_process': post_process})
        elif kind == 'override':
            def _initialize(self):
                return super(_SUBCLASS[key], self)._initialize()

            def safety_check(self):
                return super(_SUBCLASS[key], self).safety_check()
            _SUBCLASS[key] = type('Sub2' + base.__name__, (base,), {'SITE_LABEL': 'x', '_initialize': _initialize,
                                                                   'safety_check': safety_check})
        else:
            raise ValueError(kind)
    return _SUBCLASS[key]


def make_insp(fmt, ctor=None):
    """construct the inspector: `ctor` are the constructor keyword arguments; the pseudo argument
    '__class__' selects a user subclass (see insp_class)"""
    ctor = dict(ctor or {})
    kind = ctor.pop('__class__', None)
    return insp_class(fmt, kind)(**ctor)


def ctor_variants(fmt):
    """every combination of the public boolean constructor arguments of the inspector class
    (today: tracing), the default combination first"""
    if fmt not in _CTOR:
        import inspect
        cls = insp_impl.fi().ALL_FORMATS[fmt]
        names = [n for n, p in inspect.signature(cls.__init__).parameters.items()
                 if n != 'self' and isinstance(p.default, bool)]
        defaults = {n: inspect.signature(cls.__init__).parameters[n].default for n in names}
        out = [{}]
        for k in range(1, 1 << len(names)):
            out.append({n: (not defaults[n]) for i, n in enumerate(names) if k >> i & 1})
        out += [{'__class__': k} for k in SUBCLASS_KINDS]
        _CTOR[fmt] = out
    return _CTOR[fmt]


def presentations(fmt):
    """(feed kind, constructor kwargs) combinations other than the plain one"""
    return [(f, c) for f in FEEDS for c in ctor_variants(fmt) if (f, c) != ('bytes', {})]


def pick_presentation(fmt, rng, p_plain=0.5):
    if rng.random() < p_plain:
        return 'bytes', {}
    return rng.choice(presentations(fmt))


class Pair:
    """one correspondence case"""
    __slots__ = ('img', 'sizes', 'ctag', 'trace', 'poke', 'kind', 'feed', 'ctor', 'allowed', 'expected', 'companion', 'after_error', 'drive', 'k', 'form')

    def __init__(self, img, sizes, ctag, trace=False, poke=False, kind='insp', feed='bytes', ctor=None,
                 allowed=None, expected=None):
        self.img, self.sizes, self.ctag, self.trace, self.poke, self.kind = img, sizes, ctag, trace, poke, kind
        self.feed, self.ctor, self.allowed, self.expected = feed, ctor or {}, allowed, expected
        self.companion = None
        self.drive, self.k, self.form = None, 1, 0      # wrap pairs: consumption protocol (drive_wrapper), interruption point, call form
        self.after_error = 'stop'          # 'continue': the caller catches eat_chunk errors and keeps feeding (request inspk)

    def case(self):
        c = {'kind': self.kind, 'fmt': self.img.fmt, 'content': self.img.field, 'sizes': pack_sizes(self.sizes),
             'trace': 1 if self.trace else 0, 'tag': self.img.tag + ' ' + self.ctag}
        if self.feed != 'bytes':
            c['feed'] = self.feed
        if self.ctor:
            c['ctor'] = self.ctor
        if self.poke:
            c['poke'] = 1
        if self.after_error != 'stop':
            c['after_error'] = self.after_error
        if self.companion:
            c['companion'] = {'content': content_field(self.companion[0]), 'sizes': pack_sizes(self.companion[1]),
                              'mode': self.companion[2]}
        if self.kind == 'wrap' and (self.allowed or self.expected):
            c.update(allowed=self.allowed, expected=self.expected)
        if self.kind == 'wrap' and self.drive:
            c.update(drive=self.drive, k=self.k, form=self.form)
        if self.img.wellformed:            # lets the C07 search apply the declared-size oracle to a disagreeing case
            c.update(declared=self.img.declared, size_at=self.img.size_at, params=self.img.params)
        return c

    def line(self):
        if self.kind == 'wrap':
            return wrap_line(self.img.field, drive_sizes(self.sizes, self.drive, self.k), self.allowed, self.expected)
        if self.after_error == 'continue':
            return req('inspk', self.img.fmt, self.img.field, sizes_field(self.sizes), 1 if self.trace else 0)
        return insp_line(self.img.fmt, self.img.field, self.sizes, self.trace)


def wrap_canon(line, expected):
    """order-independent part of a wrap reply.  InspectWrapper keeps its inspectors in a *set*: when the expected
    inspector aborts the stream, which of the others were already handed the aborting chunk depends on the set's
    iteration order (the model iterates in ALL_FORMATS order).  After an abort only the decisions so far, the way
    the reads ended and the expected inspector's own verdict are compared."""
    f = line.split('\t')
    if len(f) < 4 or f[1] == 'done' or not expected:
        return line
    own = [x for x in f[3].split(';') if x.split(' ', 1)[0].rstrip('!') == expected]
    return '\t'.join([f[0], f[1]] + own)


def poker(rng, p=0.3):
    """intermediate queries at random positions (Python side only)"""
    def q(i):
        if rng.random() < p:
            insp_impl.poke(i)
    return q


COMPANION_MODES = ('after', 'interleaved', 'before')


class Companion:
    """a second object of the same class, alive at the same time and fed a different stream: completely before
    the first one starts ('before'), chunk by chunk in alternation ('interleaved'), or after the first one has
    finished and before it is looked at again ('after').  Objects are independent: nothing the second one is
    shown may change what the first one reports."""

    def __init__(self, make, data, sizes, mode):
        if mode not in COMPANION_MODES:
            raise ValueError(mode)
        self.obj, self.mode, self.dead = make(), mode, False
        self.chunks = iter(insp_impl.cut(data, sizes))

    def _eat(self, chunk):
        if self.dead:
            return
        try:
            self.feed(chunk)
        except Exception:
            self.dead = True

    def feed(self, chunk):
        self.obj.eat_chunk(chunk)

    def finish(self):
        self.obj.finish()

    def _rest(self):
        for c in self.chunks:
            self._eat(c)
        try:
            self.finish()
        except Exception:
            pass

    def start(self):
        if self.mode == 'before':
            self._rest()

    def step(self):
        if self.mode == 'interleaved':
            for c in self.chunks:
                self._eat(c)
                break

    def end(self):
        if self.mode != 'before':
            self._rest()


class WrapCompanion(Companion):
    """the same with a second InspectWrapper (its own source)"""

    def __init__(self, data, sizes, mode, allowed=None):
        F = insp_impl.fi()
        self.sizes = iter(sizes)
        Companion.__init__(self, lambda: F.InspectWrapper(insp_impl.Src(data), allowed_formats=allowed or None), data, sizes, mode)
        self.chunks = iter(sizes)

    def feed(self, n):
        self.obj.read(n)

    def finish(self):
        self.obj.close()


def _companion(fmt, companion, ctor=None):
    if not companion:
        return None
    F = insp_impl.fi()
    data, sizes, mode = companion
    return Companion(lambda: make_insp(fmt, ctor), data, sizes, mode)


def run_insp_x(fmt, data, sizes, trace=False, query=None, feed='bytes', ctor=None, companion=None, after_error='stop'):
    """insp_impl.run_insp with the chunk object kind and the constructor arguments as parameters
    (same rendering: trace, final state, verdict)"""
    F = insp_impl.fi()
    comp = _companion(fmt, companion, ctor)
    if comp:
        comp.start()
    i = make_insp(fmt, ctor)
    fd = Feeder(feed)
    raised, tr, pos = None, [], 0
    for n in sizes:
        chunk = data[pos:pos + n]
        pos += n
        try:
            i.eat_chunk(fd.give(chunk))
        except Exception as e:
            fd.after()
            raised = raised or insp_impl.errname(e)
            if trace:
                tr.append(insp_impl.show_state(i) + ' err=' + insp_impl.errname(e))
            if after_error == 'continue':
                continue
            break
        fd.after()
        if comp:
            comp.step()
        if query:
            query(i)
        if trace:
            tr.append(insp_impl.show_state(i))
    i.finish()
    if comp:
        insp_impl.show_verdict(i, raised)        # a first look, before the other object goes on
        comp.end()
    tail = insp_impl.show_state(i) + '\t' + insp_impl.show_verdict(i, raised)
    return ('|'.join(tr) + '\t' + tail) if trace else tail


def run_wrap_x(allowed, expected, data, sizes, companion=None):
    """insp_impl.run_wrap, optionally with a second InspectWrapper alive at the same time (see Companion);
    the first wrapper is rendered after the second one is done"""
    if not companion:
        return insp_impl.run_wrap(allowed, expected, data, sizes)[0]
    F = insp_impl.fi()
    comp = WrapCompanion(companion[0], companion[1], companion[2])
    comp.start()
    w = F.InspectWrapper(insp_impl.Src(data), expected_format=expected, allowed_formats=allowed or None)
    decisions, end = [], 'done'
    for n in sizes:
        try:
            w.read(n)
        except F.ImageFormatError as e:
            end = 'mismatch' if 'does not match expected format' in str(e) else 'raised:ImageFormatError'
            break
        except Exception as e:
            end = 'raised:' + insp_impl.errname(e)
            break
        decisions.append(insp_impl.show_fmt(w))
        comp.step()
    w.close()
    insp_impl.show_fmt(w)
    comp.end()
    order = list(F.ALL_FORMATS)
    insps = sorted(whitebox.w_inspectors(w), key=lambda i: order.index(i.NAME))
    errd = whitebox.w_errored(w)
    per = ';'.join('%s%s %s' % (i.NAME, '!' if i in errd else '', insp_impl.show_verdict(i, None)) for i in insps)
    return '|'.join(decisions) + '\t' + end + '\t' + insp_impl.show_fmt(w) + '\t' + per


def add_companions(pairs, rng, p=0.15):
    """give a fraction of the cases a second live object of the same class (inspector or InspectWrapper) that is
    fed the stream of another case - the model is stateless per object, so each is still compared with its own run"""
    by_fmt = {}
    for q in pairs:
        by_fmt.setdefault((q.kind, q.img.fmt if q.kind == 'insp' else ''), []).append(q)
    for q in pairs:
        if rng.random() < p and len(q.sizes) <= 1500:
            o = rng.choice(by_fmt[(q.kind, q.img.fmt if q.kind == 'insp' else '')])
            if o is not q and len(o.sizes) <= 1500 and len(o.img.data) <= 1 << 20:
                q.companion = (o.img.data, o.sizes, rng.choice(COMPANION_MODES))


def run_impl(pair, rng=None):
    if pair.kind == 'wrap' and pair.drive:
        try:
            return '\t' + drive_wrapper(pair.img.data, pair.sizes, pair.drive, pair.allowed, pair.expected, pair.k, pair.form)
        except Exception as e:
            return 'CRASH:%s:%s' % (type(e).__name__, e)
    if pair.kind == 'wrap':
        return run_wrap_x(pair.allowed, pair.expected, pair.img.data, pair.sizes, pair.companion)
    q = poker(rng) if (pair.poke and rng is not None) else None
    try:
        return run_insp_x(pair.img.fmt, pair.img.data, pair.sizes, pair.trace, q, pair.feed, pair.ctor, pair.companion,
                          pair.after_error)
    except Exception as e:                # e.g. a property that raises outside eat_chunk
        return 'CRASH:%s:%s' % (type(e).__name__, e)


def run_pairs(ctx, pairs, on_result=None, workers=None):
    """model vs implementation; returns the disagreements.  `on_result(pair, impl_string)` lets the
    caller keep statistics."""
    lines = [p.line() for p in pairs]
    weights = [model_cost('wrap' if p.kind == 'wrap' else p.img.fmt, len(p.img.data), p.sizes,
                          p.img.params.get('meta_off') if isinstance(p.img.params.get('meta_off'), int) else None)
               for p in pairs]
    # the model runs in driver processes while this thread runs the implementation
    with cf.ThreadPoolExecutor(1) as ex:
        fut = ex.submit(ask_parallel, ctx.driver, lines, workers, weights)
        impls = [run_impl(p, ctx.rng) for p in pairs]
        replies = fut.result()
    out = []
    for p, rep, impl in zip(pairs, replies, impls):
        ctx.evaluations += 1
        ctx.count('corr/%s/%s' % (p.kind, p.img.tag.split('/')[0]))
        ctx.count('chunking/' + p.ctag)
        ctx.count('fmt/' + p.img.fmt)
        if on_result:
            on_result(p, impl)
        if p.kind == 'wrap':
            if p.drive:
                rep = '\t' + wrap_tail(rep)          # the per-read decisions are not observed by these protocols
            impl, rep = wrap_canon(impl, p.expected), wrap_canon(rep, p.expected)
        if impl != rep:
            out.append(Disagreement(p.case(), impl[-1500:], rep[-1500:]))
    return out


def note_verdict(ctx, pair, impl):
    """distribution of the verdict kinds reached + the non-triviality rule shared by C01/C05/C07:
    at least two non-empty chunks and at least one region holding bytes at the end"""
    st, v = final_parts(impl)
    if pair.kind == 'insp':
        ctx.count('verdict/match=%s complete=%s safety=%s raised=%s' % (
            vfield(v, 'match'), vfield(v, 'complete'), (vfield(v, 'safety') or '').split(':')[0], vfield(v, 'raised')))
    held = re.findall(r':(\d+):\d+:[01](?:,|\])', st)
    if sum(1 for s in pair.sizes if s) >= 2 and any(int(h) for h in held):
        ctx.nontrivial((pair.kind, pair.img.fmt, len(pair.img.data), zlib.adler32(pair.img.data), tuple(pack_flat(pair.sizes))))


def pack_flat(sizes):
    return [tuple(x) if isinstance(x, list) else x for x in pack_sizes(sizes)]


def model_replies(ctx, fmt, field, sizes_list, kind='insp', allowed=None, expected=None):
    lines = [(wrap_line(field, s, allowed, expected) if kind == 'wrap' else insp_line(fmt, field, s, False)) for s in sizes_list]
    return ask_parallel(ctx.driver, lines)


def companion_of_case(c):
    k = c.get('companion')
    return (decode_content(k['content']), unpack_sizes(k['sizes']), k['mode']) if k else None


def impl_final(fmt, data, sizes, kind='insp', feed='bytes', ctor=None, allowed=None, expected=None, companion=None):
    if kind == 'wrap':
        return run_wrap_x(allowed, expected, data, sizes, companion)
    return run_insp_x(fmt, data, sizes, feed=feed, ctor=ctor, companion=companion)


# --------------------------------------------------------------------------
# implementation-only helpers for the searches

def impl_run(fmt, data, sizes, query=None, every_chunk=None, feed='bytes', ctor=None, companion=None, after_error='stop'):
    """feed the real inspector (wrapper discipline), finish; returns (verdict core, full string, inspector).
    `every_chunk(inspector, position)` is called after every eat_chunk that returned.  `feed` is the kind of
    object the chunks are presented as (see Feeder), `ctor` the constructor keyword arguments."""
    F = insp_impl.fi()
    comp = _companion(fmt, companion, ctor)
    if comp:
        comp.start()
    i = make_insp(fmt, ctor)
    fd = Feeder(feed)
    raised, pos = None, 0
    for n in sizes:
        chunk = data[pos:pos + n]
        pos += n
        try:
            i.eat_chunk(fd.give(chunk))
        except Exception as e:
            fd.after()
            raised = raised or insp_impl.errname(e)
            if every_chunk:
                every_chunk(i, pos)
            if after_error == 'continue':      # a caller that catches the error and keeps feeding the same object
                continue
            break
        fd.after()
        if comp:
            comp.step()
        if query:
            query(i)
        if every_chunk:
            every_chunk(i, pos)
    i.finish()
    if comp:
        try:
            insp_impl.show_verdict(i, raised)    # a first look, before the other object goes on
        except Exception:
            pass
        comp.end()
    try:
        v = insp_impl.show_verdict(i, raised)
    except Exception as e:
        v = 'CRASH:%s' % type(e).__name__
    return core(v), v, i


def bad_slices(i, data):
    """names of the regions whose retained bytes are not the stream's bytes at the region's offset"""
    return [n for n, r in whitebox.regions(i).items() if bytes(r.data) != data[r.offset:r.offset + len(r.data)]]


def shrink_cuts(n, sizes, still_fails):
    """fewest cuts (delta debugging on the cut positions) on which the failure persists"""
    cuts, pos = [], 0
    for s in sizes[:-1]:
        pos += s
        cuts.append(pos)
    if not cuts:
        return sizes
    if len(cuts) > 400:
        # try a few coarse candidates first
        for cand in ([cuts[0]], [cuts[-1]], cuts[:2], cuts[::len(cuts) // 8 or 1]):
            if still_fails(images.sizes_from_cuts(cand, n)):
                cuts = list(cand)
                break
    if len(cuts) == 1:
        return images.sizes_from_cuts(cuts, n)
    small = common.shrink_list(cuts, lambda c: still_fails(images.sizes_from_cuts(c, n)), max_steps=150)
    return images.sizes_from_cuts(small, n)


# --------------------------------------------------------------------------
# sparse streams: images with structures beyond 4 GiB, presented without materialising the zeros

_ZERO = {}


def zeros(n):
    """one shared bytes object per size (feeding it again costs nothing)"""
    if n not in _ZERO:
        if len(_ZERO) > 64:
            _ZERO.clear()
        _ZERO[n] = bytes(n)
    return _ZERO[n]


class Sparse:
    """a stream given by its non-zero extents {offset: bytes} and its total length"""

    def __init__(self, fmt, extents, total, tag, declared=None, params=None):
        self.fmt, self.total, self.tag, self.declared, self.params = fmt, total, tag, declared, params or {}
        self.extents = sorted((o, bytes(b)) for o, b in extents.items())
        for (o, b), (o2, _) in zip(self.extents, self.extents[1:]):
            if o + len(b) > o2:
                raise ValueError('overlapping extents')

    def piece(self, a, b):
        """bytes of [a, b): the shared zero object when no extent intersects"""
        hit = [(o, d) for o, d in self.extents if o < b and o + len(d) > a]
        if not hit:
            return zeros(b - a)
        if len(hit) == 1 and hit[0][0] == a and len(hit[0][1]) == b - a:
            return hit[0][1]
        buf = bytearray(b - a)
        for o, d in hit:
            lo, hi = max(o, a), min(o + len(d), b)
            buf[lo - a:hi - a] = d[lo - o:hi - o]
        return bytes(buf)

    def chunks(self, cuts):
        pos = 0
        for c in list(cuts) + [self.total]:
            if c > pos:
                yield self.piece(pos, c)
                pos = c

    def cuts_grid(self, step):
        return list(range(step, self.total, step))

    def cuts_extents(self, step=16 << 20):
        """every extent as its own chunk, the gaps in `step`-sized pieces"""
        cuts, pos = [], 0
        for o, d in self.extents + [(self.total, b'')]:
            cuts += list(range(pos + step, o, step))
            cuts += [o, o + len(d)]
            pos = o + len(d)
        return sorted({c for c in cuts if 0 < c < self.total})

    def plan(self, name):
        """the named chunk plans: 'extents', 'grid<bytes>', 'cut@<offset>' (extents plus one cut)"""
        if name == 'extents':
            return self.cuts_extents()
        if name.startswith('extents'):
            return self.cuts_extents(int(name[7:]))
        if name.startswith('grid'):
            return self.cuts_grid(int(name[4:]))
        if name.startswith('cut@'):
            return sorted(set(self.cuts_extents() + [int(name[4:])]))
        raise ValueError(name)

    def case(self, plan):
        return {'kind': 'sparse', 'fmt': self.fmt, 'total': self.total, 'tag': self.tag,
                'extents': {str(o): content_field(d) for o, d in self.extents}, 'plan': plan,
                'declared': self.declared, 'params': self.params}


def inspx_line(sp, cuts, trace):
    """the driver's explicit-chunk request: a chunk that lies in a gap between the extents is written Z<N>
    (a zero run the model skips by Props/C01Locality instead of materialising it)"""
    parts, pos = [], 0
    for c in list(cuts) + [sp.total]:
        if c > pos:
            if any(o < c and o + len(d) > pos for o, d in sp.extents):
                parts.append(content_field(sp.piece(pos, c)))
            else:
                parts.append('Z%d' % (c - pos))
            pos = c
    return req('inspx', sp.fmt, ';'.join(parts) or '-', 1 if trace else 0)


def sparse_render(sp, cuts, trace=False, query=None, ctor=None):
    """the implementation on the sparse stream, rendered like insp_impl.run_insp (trace, final state, verdict)"""
    F = insp_impl.fi()
    i = make_insp(sp.fmt, ctor)
    raised, tr = None, []
    for chunk in sp.chunks(cuts):
        try:
            i.eat_chunk(chunk)
        except Exception as e:
            raised = insp_impl.errname(e)
            if trace:
                tr.append(insp_impl.show_state(i) + ' err=' + raised)
            break
        if query:
            query(i)
        if trace:
            tr.append(insp_impl.show_state(i))
    i.finish()
    tail = insp_impl.show_state(i) + '\t' + insp_impl.show_verdict(i, raised)
    return ('|'.join(tr) + '\t' + tail) if trace else tail


def sparse_pairs(ctx, cases, on_result=None):
    """model (inspx) vs implementation on (sparse stream, plan name) cases; `unmodelled-zero-run` = model not run"""
    lines, impls = [], []
    for sp, plan in cases:
        cuts = sp.plan(plan)
        trace = len(cuts) <= 600
        lines.append(inspx_line(sp, cuts, trace))
        try:
            impls.append(sparse_render(sp, cuts, trace, poker(ctx.rng) if ctx.rng.random() < 0.3 else None))
        except Exception as e:
            impls.append('CRASH:%s:%s' % (type(e).__name__, e))
    replies = ask_parallel(ctx.driver, lines)
    out = []
    for (sp, plan), impl, rep in zip(cases, impls, replies):
        ctx.evaluations += 1
        ctx.count('corr/sparse/%s/%s' % (sp.tag, plan.split('@')[0]))
        if rep == 'unmodelled-zero-run':
            ctx.count('corr/sparse/model-not-run(unmodelled-zero-run)')
            continue
        if on_result:
            on_result(sp, plan, impl)
        if len(sp.plan(plan)) >= 2:
            ctx.nontrivial(('sparse', sp.fmt, sp.total, tuple(o for o, _ in sp.extents), plan, zlib.adler32(sp.extents[0][1]) if sp.extents else 0))
        if impl != rep:
            out.append(Disagreement(dict(sp.case(plan), wellformed=sp.declared is not None,
                                         expected=None if sp.declared is None else str(sp.declared)), impl[-1500:], rep[-1500:]))
    return out


def far_images(rng, quick=True, full=False):
    """well-formed VHDX layouts whose metadata region lies at or beyond 4 GiB (and one just below, as a control)"""
    G32, M = 1 << 32, 1 << 20
    offs = [G32, G32 + M, G32 - M, G32 + M * rng.randrange(2, 3 * 4096)]
    if full or not quick:
        offs += [2 * G32, 2 * G32 + 7 * M, G32 + 5 * M, 1 << 36, (1 << 36) + M * rng.randrange(1, 1 << 16), 1 << 40]
    out = []
    for mo in offs:
        size = rng.choice([0, 1, U32, 1 << 32, (1 << 32) + 1, 1 << 63, U64, rng.getrandbits(64), rng.getrandbits(40)])
        nmeta = rng.choice([1, 5, 40])
        stale = rng.getrandbits(40) if (mo % G32 >= 320 * K and rng.random() < 0.6) else None
        out.append(vhdx_far(size, mo, nmeta=nmeta, vidx=rng.randrange(nmeta), tail=rng.choice([0, 1, 5000]), stale=stale,
                            item_off=rng.choice([None, K64])))
    return out


def far_plans(sp):
    mo = sp.params.get('meta_off')
    plans = ['extents', 'extents%d' % (1 << 20)] if sp.total <= 1 << 36 else ['extents']
    if mo:
        plans += ['cut@%d' % (mo - 1), 'cut@%d' % (mo + 1)]
    return plans


def sparse_generic(rng, fmts=None):
    """for every format a well-formed image followed by more than 4 GiB of zeros (stream-length based sizes
    beyond 2^32; position arithmetic beyond 32 bits for everything else)"""
    out = []
    for fmt in fmts or FORMATS:
        w = wellformed(fmt, rng, params=dict(wf_params('vmdk', rng), footer=False) if fmt == 'vmdk' else None)
        total = len(w.data) + (1 << 32) + rng.randrange(0, 1 << 30)
        ext = {0: w.data, total - 1: b'\x01'} if rng.random() < 0.5 else {0: w.data}
        if fmt == 'luks':
            declared = total - w.params['payload_offset'] * 512
        elif fmt in ('raw', 'gpt', 'qed'):
            declared = total
        else:
            declared = w.declared
        if fmt == 'raw':
            ext = {k: v for k, v in ext.items() if v}
        out.append(Sparse(fmt, {k: v for k, v in ext.items() if len(v)}, total, 'wf/%s/sparse-tail' % fmt, declared, w.params))
    return out


def sparse_of_case(c):
    sp = Sparse(c['fmt'], {int(o): decode_content(d) for o, d in c['extents'].items()}, c['total'], c.get('tag', ''),
                c.get('declared'), c.get('params'))
    return sp, sp.plan(c['plan'])


def sparse_run(sp, cuts, query=None, ctor=None):
    """present the sparse stream to a fresh inspector; (verdict string, inspector)"""
    F = insp_impl.fi()
    i = make_insp(sp.fmt, ctor)
    raised = None
    for chunk in sp.chunks(cuts):
        try:
            i.eat_chunk(chunk)
        except Exception as e:
            raised = insp_impl.errname(e)
            break
        if query:
            query(i)
    i.finish()
    return insp_impl.show_verdict(i, raised), i


def vhdx_far(size, meta_off, nmeta=5, vidx=2, item_off=None, tail=0, stale=None, nreg=2, midx=1):
    """a well-formed VHDX whose region table places the metadata region at `meta_off` (any 64-bit file offset);
    `stale` = declared size of an old, no longer referenced metadata region left in free space at meta_off mod 2^32"""
    item_off = 32 + 32 * nmeta if item_off is None else item_off
    head = images.vhdx(size=size, meta_off=meta_off, nreg=nreg, midx=midx, nmeta=nmeta, vidx=vidx, item_off=item_off, total=320 * K)[0]
    meta = images.vhdx(size=size, meta_off=256 * K, nmeta=nmeta, vidx=vidx, item_off=item_off, total=256 * K + item_off + 8)[0][256 * K:]
    ext = {0: head[:256 * K], meta_off: meta}
    if stale is not None and 320 * K <= meta_off % (1 << 32) and meta_off >= 1 << 32:
        ext[meta_off % (1 << 32)] = images.vhdx(size=stale, meta_off=256 * K, nmeta=nmeta, vidx=vidx, item_off=item_off,
                                                total=256 * K + item_off + 8)[0][256 * K:]
    return Sparse('vhdx', ext, meta_off + len(meta) + tail, 'wf/vhdx/far', size,
                  dict(size=size, meta_off=meta_off, nmeta=nmeta, vidx=vidx, item_off=item_off, stale=stale))


# --------------------------------------------------------------------------
# calling conventions and object protocols (the pinned public interface, written down here as data - NOT read
# from the tree under test - so that a renamed / reordered / keyword-only parameter is a concrete failing input)

SIGNATURES = {
    # name: (required positional parameters, [(optional parameter, default), ...])
    'InspectWrapper': (['source'], [('expected_format', None), ('allowed_formats', None)]),
    'FileInspector': ([], [('tracing', False)]),
    'eat_chunk': (['chunk'], []),
    'read': (['size'], []),
    'region': (['name'], []),
    'detect_file_format': (['filename'], []),
    'get_inspector': (['format_name'], []),
    'from_file': (['filename'], []),
}


def call_forms(name, values):
    """every legal call form (args, kwargs) for the logical arguments `values` {parameter: value}: required
    parameters positionally or by keyword, each optional parameter positionally (only as a prefix, the earlier
    ones then being passed too), by keyword or omitted when it has its default value; keyword order permuted"""
    req_names, opt = SIGNATURES[name]
    forms = []
    names = req_names + [n for n, _ in opt]
    defaults = dict(opt)
    for npos in range(len(names) + 1):
        args = [values[n] if n in values else defaults[n] for n in names[:npos]]
        rest = names[npos:]
        if any(n in req_names and n not in values for n in rest):
            continue
        must = [n for n in rest if n in req_names or (n in values and values[n] != defaults.get(n, object()))]
        may = [n for n in rest if n not in must]
        for k in range(1 << len(may)):
            kw = must + [n for i, n in enumerate(may) if k >> i & 1]
            kwargs = {n: (values[n] if n in values else defaults[n]) for n in kw}
            forms.append((list(args), kwargs))
            if len(kw) >= 2:
                forms.append((list(args), dict(reversed(list(kwargs.items())))))
    return forms


def make_wrapper(source, allowed, expected, rng=None, form=None):
    F = insp_impl.fi()
    forms = call_forms('InspectWrapper', {'source': source, 'expected_format': expected, 'allowed_formats': allowed or None})
    a, k = forms[form % len(forms)] if form is not None else (rng.choice(forms) if rng else forms[0])
    return F.InspectWrapper(*a, **k)


WRAPPER_DRIVES = ('read', 'read-kw', 'read-rest', 'close-twice', 'for', 'next', 'next-after-stop', 'break-resume', 'next-iter',
                  'iter-twice', 'mixed', 'deepcopy')


def drive_wrapper(data, sizes, drive, allowed=None, expected=None, k=1, form=None, subclass=None):
    """present the chunks through an InspectWrapper using one consumption protocol and return
    'end<TAB>format/formats<TAB>per-inspector verdicts' (the tail of insp_impl.run_wrap's rendering).
    `k` is the chunk index at which the interrupting protocols interrupt."""
    import copy
    F = insp_impl.fi()
    chunks = insp_impl.cut(data, sizes)
    file_like = drive in ('read', 'read-kw', 'read-rest', 'close-twice', 'deepcopy')
    saved = None
    if subclass:
        # the wrapper builds its inspectors from the public table ALL_FORMATS: a deployment that registers its own
        # subclasses there (this case is explicitly about that) must see the base classes' behaviour
        saved = dict(F.ALL_FORMATS)
        for name in list(F.ALL_FORMATS):
            F.ALL_FORMATS[name] = insp_class(name, subclass)
    try:
        w = make_wrapper(insp_impl.Src(data) if file_like else iter(chunks), allowed, expected, form=form)
    finally:
        if saved is not None:
            F.ALL_FORMATS.clear()
            F.ALL_FORMATS.update(saved)
    end = 'done'
    ws = [w]
    try:
        if drive in ('read', 'close-twice'):
            for n in sizes:
                w.read(n)
        elif drive == 'read-kw':
            for n in sizes:
                w.read(size=n)
        elif drive == 'read-rest':              # the last reads replaced by read(-1): only defined for whole-rest reads
            for n in sizes[:k]:
                w.read(n)
            w.read(-1)
        elif drive == 'deepcopy':
            for n in sizes[:k]:
                w.read(n)
            w2 = copy.deepcopy(w)               # a half-used wrapper and its copy, both used further
            ws.append(w2)
            live = [w, w2]
            first = None
            for n in sizes[k:]:
                for x in list(live):
                    try:
                        x.read(n)
                    except Exception as e:      # the expected inspector aborts the stream: for each copy on its own
                        live.remove(x)
                        first = first or e
            if first is not None and not live:
                raise first
            if first is not None:
                end = 'ONE-COPY-ABORTED:' + insp_impl.errname(first)
        elif drive == 'for':
            for _ in w:
                pass
        elif drive == 'next':
            while True:
                try:
                    next(w)
                except StopIteration:
                    break
        elif drive == 'next-after-stop':
            for _ in w:
                pass
            for _ in range(2):
                try:
                    next(w)
                    end = 'yielded-after-StopIteration'
                except StopIteration:
                    pass
        elif drive == 'break-resume':
            n = 0
            for _ in w:
                n += 1
                if n >= k:
                    break
            insp_impl.show_fmt(w)               # the intermediate query the consumer left the loop for
            for _ in w:
                pass
        elif drive == 'next-iter':
            while True:
                try:
                    next(iter(w))
                except StopIteration:
                    break
        elif drive == 'iter-twice':
            it1, it2 = iter(w), iter(w)
            flip = 0
            while True:
                try:
                    next(it1 if flip % 2 == 0 else it2)
                    flip += 1
                except StopIteration:
                    break
        elif drive == 'mixed':
            try:
                for _ in range(k):
                    next(w)
                for _ in w:
                    pass
            except StopIteration:
                pass
        else:
            raise ValueError(drive)
    except F.ImageFormatError as e:
        end = 'mismatch' if 'does not match expected format' in str(e) else 'raised:ImageFormatError'
    except StopIteration:
        end = 'raised:StopIteration'
    except Exception as e:
        end = 'raised:' + insp_impl.errname(e)
    outs = []
    for x in ws:
        x.close()
        if drive == 'close-twice':
            x.close()
        order = list(F.ALL_FORMATS)
        insps = sorted(whitebox.w_inspectors(x), key=lambda i: order.index(i.NAME))
        errd = whitebox.w_errored(x)
        per = ';'.join('%s%s %s' % (i.NAME, '!' if i in errd else '', insp_impl.show_verdict(i, None)) for i in insps)
        outs.append(end + '\t' + insp_impl.show_fmt(x) + '\t' + per)
    # after an abort by the expected inspector only the order-independent part is comparable (see wrap_canon):
    # the copy's inspector *set* need not iterate in the same order as the original's
    if len({wrap_canon('\t' + o, expected) for o in outs}) > 1:
        return 'COPIES-DIFFER\t' + ' <> '.join(outs)
    return outs[0]


def drive_sizes(sizes, drive, k):
    """the chunking the model sees for a drive (read-rest merges the reads after the k-th)"""
    if drive == 'read-rest':
        return list(sizes[:k]) + [sum(sizes[k:])]
    return list(sizes)


def wrap_tail(reply):
    """end, format/formats, per-inspector verdicts of a wrap reply (the per-read decisions dropped)"""
    return '\t'.join(reply.split('\t')[1:])


INSPECTOR_CLONES = ('deepcopy',)      # pickling is not part of the pinned interface (SafetyCheck.null uses a lambda)


def run_with_clone(fmt, data, sizes, how, k, ctor_form=0, eat_kw=False):
    """feed an inspector, clone it after chunk k (copy.deepcopy / pickle round trip), keep feeding BOTH; the
    rendering of the clone (or a COPIES-DIFFER marker).  `ctor_form` picks a call form of the constructor,
    `eat_kw` passes the chunk by keyword."""
    import copy
    import pickle
    F = insp_impl.fi()
    forms = call_forms('FileInspector', {})
    a, kw = forms[ctor_form % len(forms)]
    objs = [F.ALL_FORMATS[fmt](*a, **kw)]
    raised = [None]
    pos = 0
    for n_i, n in enumerate(sizes):
        chunk = data[pos:pos + n]
        pos += n
        if n_i == k and how:
            objs.append(copy.deepcopy(objs[0]) if how == 'deepcopy' else pickle.loads(pickle.dumps(objs[0])))
            raised.append(raised[0])
        for j, o in enumerate(objs):
            if raised[j]:
                continue
            try:
                o.eat_chunk(chunk=chunk) if eat_kw else o.eat_chunk(chunk)
            except Exception as e:
                raised[j] = insp_impl.errname(e)
    outs = []
    for o, r in zip(objs, raised):
        o.finish()
        outs.append(insp_impl.show_state(o) + '\t' + insp_impl.show_verdict(o, r))
    if len(set(outs)) > 1:
        return 'COPIES-DIFFER\t' + ' <> '.join(outs)
    return outs[-1]
