/-
C07 — virtual_size equals the disk size the image declares.

Decoder round trips for every representable value, then per format: for every stream that is
well-formed in the stated sense and every chunking, `virtual_size` after the whole stream is the
declared size; and it is 0 for as long as the size-carrying structure has not been captured.
This file covers the eight formats whose regions are fixed at initialisation.
-/
import OsloProofs.Props.C01
namespace Oslo.Insp

/-- big-endian / little-endian encoders (what an image writer does) -/
def encodeLE : Nat → Nat → Bytes
  | 0, _ => []
  | k + 1, n => UInt8.ofNat (n % 256) :: encodeLE k (n / 256)

def encodeBE (k n : Nat) : Bytes := (encodeLE k n).reverse

theorem le_encode (k : Nat) : ∀ n, n < 256 ^ k → leNat (encodeLE k n) = n := by
  induction k with
  | zero => intro n h; simp at h; simp [encodeLE, leNat, h]
  | succ k ih =>
    intro n h
    have hk : n / 256 < 256 ^ k := by
      rw [Nat.pow_succ] at h
      exact Nat.div_lt_of_lt_mul (by omega)
    have := ih (n / 256) hk
    simp only [encodeLE, leNat, List.foldr_cons] at this ⊢
    rw [this]
    have : (UInt8.ofNat (n % 256)).toNat = n % 256 := by
      simp [UInt8.toNat_ofNat']
    rw [this]; omega

theorem lemma_beNat_reverse (l : Bytes) : beNat l.reverse = leNat l := by
  induction l with
  | nil => rfl
  | cons a l ih =>
    simp only [beNat, leNat, List.reverse_cons, List.foldl_append, List.foldl_cons, List.foldl_nil,
      List.foldr_cons] at ih ⊢
    rw [ih]; omega

theorem be_encode (k n : Nat) (h : n < 256 ^ k) : beNat (encodeBE k n) = n := by
  rw [encodeBE, lemma_beNat_reverse, le_encode k n h]

theorem lemma_encodeLE_length (k n : Nat) : (encodeLE k n).length = k := by
  induction k generalizing n with
  | zero => rfl
  | succ k ih => simp [encodeLE, ih]

theorem lemma_slice_sliceOf0 (s : Bytes) (L a e : Nat) (h : e ≤ L) : slice (sliceOf s 0 L) a e = slice s a e := by
  simp only [slice, sliceOf, List.drop_zero, List.take_take]
  congr 2; omega

theorem lemma_slice_sliceOf (s : Bytes) (o L a e : Nat) (h : e ≤ L) :
    slice (sliceOf s o L) a e = slice s (o + a) (o + e) := by
  apply List.ext_getElem?
  intro i
  simp only [slice, sliceOf, List.getElem?_drop, List.getElem?_take]
  by_cases h1 : a + i < e
  · have h2 : a + i < L := by omega
    simp [h1, h2, Nat.add_assoc]
  · have h3 : ¬ (o + a + i < o + e) := by omega
    simp [h1, h3]

theorem lemma_slice_slice (x : Bytes) (a e a' e' : Nat) (h : a + e' ≤ e) :
    slice (slice x a e) a' e' = slice x (a + a') (a + e') := by
  apply List.ext_getElem?
  intro i
  simp only [slice, List.getElem?_drop, List.getElem?_take]
  by_cases h1 : a' + i < e'
  · have h2 : a + (a' + i) < e := by omega
    have h3 : a + a' + i < a + e' := by omega
    simp [h1, h2, h3, Nat.add_assoc]
  · have h3 : ¬ (a + a' + i < a + e') := by omega
    simp [h1, h3]

theorem lemma_take_sliceOf0 (s : Bytes) (L k : Nat) (h : k ≤ L) : (sliceOf s 0 L).take k = s.take k := by
  simp only [sliceOf, List.drop_zero, List.take_take]
  congr 1; omega

theorem lemma_encodeBE_length (k n : Nat) : (encodeBE k n).length = k := by
  simp [encodeBE, lemma_encodeLE_length]

/-- **vsize_vhd** — VHD footer size field (big-endian, offset 40), any 64-bit value -/
theorem vsize_vhd (s0 : Insp) (h0 : Insp.init .vhd = some s0) (chunks : List Bytes) (n : Nat)
    (hn : n < 2 ^ 64) (hlen : 512 ≤ chunks.flatten.length)
    (hmagic : chunks.flatten.take 8 = ascii "conectix")
    (hsize : slice chunks.flatten 40 48 = encodeBE 8 n) :
    virtualSize (runChunks s0 chunks).1 = .ok (n : Int) := by
  rw [run_plain_eq_spec .vhd rfl s0 h0]
  unfold Insp.init at h0
  split at h0
  · simp at h0
  · simp only [Option.some.injEq] at h0
    subst h0
    generalize chunks.flatten = s at *
    have hd : (sliceOf s 0 512).length = 512 := by rw [lemma_sliceOf_length]; omega
    simp only [virtualSize, formatMatch, Insp.region, lookupR, Fmt.initRegions, Gen.vhd_regions, specRegions,
      if_true, bind, Except.bind, pure, Except.pure, Region.complete, hd, decide_true, Bool.not_true,
      Bool.false_eq_true, if_false]
    have hl8 : (ascii "conectix").length = 8 := by decide
    simp only [startsWith, hl8, lemma_take_sliceOf0 s 512 8 (by omega), hmagic, BEq.rfl, Bool.not_true,
      Bool.false_eq_true, if_false, lemma_slice_sliceOf0 s 512 40 48 (by omega), hsize, unpackBE,
      lemma_encodeBE_length, if_true, be_encode 8 n (by simpa using hn)]

/-- before the 512-byte footer copy is complete the VHD size is unknown (0) -/
theorem vsize_zero_until_captured_vhd (s0 : Insp) (h0 : Insp.init .vhd = some s0) (chunks : List Bytes)
    (hlen : chunks.flatten.length < 512) : virtualSize (feed s0 chunks).1 = .ok 0 := by
  rw [feed_plain_eq_spec .vhd rfl s0 h0]
  unfold Insp.init at h0
  split at h0
  · simp at h0
  · simp only [Option.some.injEq] at h0
    subst h0
    generalize chunks.flatten = s at *
    have hd : ¬ (512 = (sliceOf s 0 512).length) := by rw [lemma_sliceOf_length]; omega
    simp [virtualSize, Insp.region, lookupR, Fmt.initRegions, Gen.vhd_regions, specRegions,
      bind, Except.bind, pure, Except.pure, Region.complete, hd]

/-- **vsize_qcow2** — qcow2 header size field (big-endian, offset 24), any 64-bit value -/
theorem vsize_qcow2 (s0 : Insp) (h0 : Insp.init .qcow2 = some s0) (chunks : List Bytes) (n : Nat)
    (hn : n < 2 ^ 64) (hlen : 512 ≤ chunks.flatten.length)
    (hmagic : slice chunks.flatten 0 4 = qcowMagic)
    (hsize : slice chunks.flatten 24 32 = encodeBE 8 n) :
    virtualSize (runChunks s0 chunks).1 = .ok (n : Int) := by
  rw [run_qcow_eq_spec s0 h0]
  unfold Insp.init at h0
  split at h0
  · simp at h0
  · simp only [Option.some.injEq] at h0
    subst h0
    generalize chunks.flatten = s at *
    have hd : (sliceOf s 0 512).length = 512 := by rw [lemma_sliceOf_length]; omega
    have e1 : slice (slice (sliceOf s 0 512) 0 32) 0 4 = slice s 0 4 := by
      simp only [slice, sliceOf, List.drop_zero, List.take_take]; congr 1
    have e2 : slice (slice (sliceOf s 0 512) 0 32) 24 32 = slice s 24 32 := by
      simp only [slice, sliceOf, List.drop_zero, List.take_take]; congr 2
    simp only [virtualSize, Gen.qcow2_regions, specRegions, qinfoR, Region.complete, hd, decide_true,
      Bool.false_eq_true, if_false, Bool.true_and, e1, e2, hmagic, BEq.rfl, if_true, hsize,
      be_encode 8 n (by simpa using hn)]

/-- before the 512-byte header region is complete the qcow2 size is unknown (0) -/
theorem vsize_zero_until_captured_qcow2 (s0 : Insp) (h0 : Insp.init .qcow2 = some s0) (chunks : List Bytes)
    (hlen : chunks.flatten.length < 512) : virtualSize (feed s0 chunks).1 = .ok 0 := by
  rw [feed_qcow_eq_spec s0 h0]
  unfold Insp.init at h0
  split at h0
  · simp at h0
  · simp only [Option.some.injEq] at h0
    subst h0
    generalize chunks.flatten = s at *
    have hd : ¬ (512 = (sliceOf s 0 512).length) := by rw [lemma_sliceOf_length]; omega
    simp [virtualSize, Gen.qcow2_regions, specRegions, qinfoR, Region.complete, hd]

/-- **vsize_vdi** — VDI disk size (little-endian, offset 0x170), any 64-bit value -/
theorem vsize_vdi (s0 : Insp) (h0 : Insp.init .vdi = some s0) (chunks : List Bytes) (n : Nat)
    (hn : n < 2 ^ 64) (hlen : 512 ≤ chunks.flatten.length)
    (hsig : slice chunks.flatten 0x40 0x44 = encodeLE 4 0xbeda107f)
    (hsize : slice chunks.flatten 0x170 0x178 = encodeLE 8 n) :
    virtualSize (runChunks s0 chunks).1 = .ok (n : Int) := by
  rw [run_plain_eq_spec .vdi rfl s0 h0]
  unfold Insp.init at h0
  split at h0
  · simp at h0
  · simp only [Option.some.injEq] at h0
    subst h0
    generalize chunks.flatten = s at *
    have hd : (sliceOf s 0 512).length = 512 := by rw [lemma_sliceOf_length]; omega
    have hsg : leNat (encodeLE 4 0xbeda107f) = 0xbeda107f := le_encode 4 _ (by decide)
    simp only [virtualSize, formatMatch, Insp.region, lookupR, Fmt.initRegions, Gen.vdi_regions, specRegions,
      if_true, bind, Except.bind, pure, Except.pure, Region.complete, hd, decide_true, Bool.not_true,
      Bool.false_eq_true, if_false, lemma_slice_sliceOf0 s 512 0x40 0x44 (by omega),
      lemma_slice_sliceOf0 s 512 0x170 0x178 (by omega), hsig, hsize, unpackLE, lemma_encodeLE_length,
      hsg, BEq.rfl, le_encode 8 n (by simpa using hn)]

theorem vsize_zero_until_captured_vdi (s0 : Insp) (h0 : Insp.init .vdi = some s0) (chunks : List Bytes)
    (hlen : chunks.flatten.length < 512) : virtualSize (feed s0 chunks).1 = .ok 0 := by
  rw [feed_plain_eq_spec .vdi rfl s0 h0]
  unfold Insp.init at h0
  split at h0
  · simp at h0
  · simp only [Option.some.injEq] at h0
    subst h0
    generalize chunks.flatten = s at *
    have hd : ¬ (512 = (sliceOf s 0 512).length) := by rw [lemma_sliceOf_length]; omega
    simp [virtualSize, Insp.region, lookupR, Fmt.initRegions, Gen.vdi_regions, specRegions,
      bind, Except.bind, pure, Except.pure, Region.complete, hd]

/-- **vsize_raw / vsize_gpt** — the stream length, whatever the bytes -/
theorem vsize_raw (s0 : Insp) (h0 : Insp.init .raw = some s0) (chunks : List Bytes) :
    virtualSize (runChunks s0 chunks).1 = .ok (chunks.flatten.length : Int) := by
  rw [run_plain_eq_spec .raw rfl s0 h0]
  unfold Insp.init at h0
  split at h0
  · simp at h0
  · simp only [Option.some.injEq] at h0; subst h0; rfl

theorem vsize_gpt (s0 : Insp) (h0 : Insp.init .gpt = some s0) (chunks : List Bytes) :
    virtualSize (runChunks s0 chunks).1 = .ok (chunks.flatten.length : Int) := by
  rw [run_plain_eq_spec .gpt rfl s0 h0]
  unfold Insp.init at h0
  split at h0
  · simp at h0
  · simp only [Option.some.injEq] at h0; subst h0; rfl

/-- **vsize_qed** — QED declares no size of its own (the inspector inherits the base class): the stream
    length, whatever the bytes and the chunking -/
theorem vsize_qed (s0 : Insp) (h0 : Insp.init .qed = some s0) (chunks : List Bytes) :
    virtualSize (runChunks s0 chunks).1 = .ok (chunks.flatten.length : Int) := by
  rw [run_plain_eq_spec .qed rfl s0 h0]
  unfold Insp.init at h0
  split at h0
  · simp at h0
  · simp only [Option.some.injEq] at h0; subst h0; rfl

/-- the three formats without a declared size agree with one another on every stream and chunking -/
theorem vsize_undeclared_agree (r g q : Insp) (hr : Insp.init .raw = some r) (hg : Insp.init .gpt = some g)
    (hq : Insp.init .qed = some q) (chunks chunks' : List Bytes) (h : chunks.flatten = chunks'.flatten) :
    virtualSize (runChunks r chunks).1 = virtualSize (runChunks g chunks').1 ∧
    virtualSize (runChunks g chunks).1 = virtualSize (runChunks q chunks').1 := by
  rw [vsize_raw r hr, vsize_gpt g hg, vsize_gpt g hg, vsize_qed q hq, h]
  exact ⟨rfl, rfl⟩

/-- **vsize_luks** — stream length minus payload offset (big-endian sectors at offset 104) times 512 -/
theorem vsize_luks (s0 : Insp) (h0 : Insp.init .luks = some s0) (chunks : List Bytes) (po : Nat)
    (hpo : po < 2 ^ 32) (hlen : 108 ≤ chunks.flatten.length)
    (hoff : slice chunks.flatten 104 108 = encodeBE 4 po) :
    virtualSize (runChunks s0 chunks).1 = .ok ((chunks.flatten.length : Int) - (po : Int) * 512) := by
  rw [run_plain_eq_spec .luks rfl s0 h0]
  unfold Insp.init at h0
  split at h0
  · simp at h0
  · simp only [Option.some.injEq] at h0
    subst h0
    generalize chunks.flatten = s at *
    have hd : (slice (sliceOf s 0 592) 0 108).length = 108 := by
      simp [slice, sliceOf]; omega
    have e1 : slice (slice (sliceOf s 0 592) 0 108) 104 108 = slice s 104 108 := by
      simp only [slice, sliceOf, List.drop_zero, List.take_take]; congr 2
    simp only [virtualSize, luksHeader, Insp.region, lookupR, Fmt.initRegions, Gen.luks_regions, specRegions,
      if_true, bind, Except.bind, pure, Except.pure, hd, ne_eq, not_true_eq_false, if_false, e1, hoff,
      be_encode 4 po (by simpa using hpo)]

/-- **vsize_iso** — volume blocks (little-endian half, offset 80) times logical block size
    (little-endian half, offset 128) of the primary volume descriptor at 32 KiB -/
theorem vsize_iso (s0 : Insp) (h0 : Insp.init .iso = some s0) (chunks : List Bytes) (blocks bs : Nat)
    (hb : blocks < 2 ^ 32) (hbs : bs < 2 ^ 16) (hlen : 34816 ≤ chunks.flatten.length)
    (hident : slice chunks.flatten 32769 32774 = ascii "CD001")
    (htype : chunks.flatten[32768]? = some 1)
    (hblocks : slice chunks.flatten 32848 32852 = encodeLE 4 blocks)
    (hbsz : slice chunks.flatten 32896 32898 = encodeLE 2 bs) :
    virtualSize (runChunks s0 chunks).1 = .ok ((blocks * bs : Nat) : Int) := by
  rw [run_plain_eq_spec .iso rfl s0 h0]
  unfold Insp.init at h0
  split at h0
  · simp at h0
  · simp only [Option.some.injEq] at h0
    subst h0
    generalize chunks.flatten = s at *
    have hd1 : (sliceOf s 0 32768).length = 32768 := by rw [lemma_sliceOf_length]; omega
    have hd2 : (sliceOf s 32768 2048).length = 2048 := by rw [lemma_sliceOf_length]; omega
    have e1 : slice (sliceOf s 32768 2048) 1 6 = slice s 32769 32774 :=
      lemma_slice_sliceOf s 32768 2048 1 6 (by omega)
    have e2 : slice (slice (sliceOf s 32768 2048) 80 88) 0 4 = slice s 32848 32852 := by
      rw [lemma_slice_slice _ 80 88 0 4 (by omega), lemma_slice_sliceOf s 32768 2048 80 84 (by omega)]
    have e3 : slice (slice (sliceOf s 32768 2048) 128 132) 0 2 = slice s 32896 32898 := by
      rw [lemma_slice_slice _ 128 132 0 2 (by omega), lemma_slice_sliceOf s 32768 2048 128 130 (by omega)]
    have e4 : (sliceOf s 32768 2048)[0]? = s[32768]? := by
      simp [sliceOf, List.getElem?_take, List.getElem?_drop]
    simp only [virtualSize, formatMatch, Insp.complete, Insp.region, lookupR, Fmt.initRegions, Gen.iso_regions,
      specRegions, List.all_cons, List.all_nil, Region.complete, hd1, hd2, decide_true, Bool.false_eq_true,
      if_false, Bool.and_self, Bool.not_true, bind, Except.bind, pure, Except.pure, if_true, e1, hident,
      BEq.rfl, Bool.true_or, e4, htype, e2, e3, hblocks, hbsz, unpackLE, lemma_encodeLE_length,
      le_encode 4 blocks (by simpa using hb), le_encode 2 bs (by simpa using hbs)]
    simp [e1, hident, e4, htype, e2, e3, hblocks, hbsz, lemma_encodeLE_length,
      le_encode 4 blocks (by simpa using hb), le_encode 2 bs (by simpa using hbs)]

theorem vsize_zero_until_captured_iso (s0 : Insp) (h0 : Insp.init .iso = some s0) (chunks : List Bytes)
    (hlen : chunks.flatten.length < 34816) : virtualSize (feed s0 chunks).1 = .ok 0 := by
  rw [feed_plain_eq_spec .iso rfl s0 h0]
  unfold Insp.init at h0
  split at h0
  · simp at h0
  · simp only [Option.some.injEq] at h0
    subst h0
    generalize chunks.flatten = s at *
    have hd2 : ¬ (2048 = (sliceOf s 32768 2048).length) := by rw [lemma_sliceOf_length]; omega
    simp [virtualSize, Insp.complete, Fmt.initRegions, Gen.iso_regions, specRegions, Region.complete, hd2,
      pure, Except.pure]

/-! non-vacuity: encoders produce what the decoders read, on extreme values -/
example : beNat (encodeBE 8 (2 ^ 64 - 1)) = 2 ^ 64 - 1 ∧ leNat (encodeLE 8 (2 ^ 63)) = 2 ^ 63 ∧
    encodeBE 4 1 = [0, 0, 0, 1] ∧ encodeLE 2 2048 = [0, 8] := by decide

end Oslo.Insp
