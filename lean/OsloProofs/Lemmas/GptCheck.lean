/-
Helper lemmas for the MBR/GPT acceptance characterisation (C02): the loop of
check_mbr_partitions as a closed formula.
-/
import OsloProofs.Props.C02More
namespace Oslo.Insp

/-- one partition table entry passes the per-entry tests of check_mbr_partitions -/
def pteOkB (p : Pte) : Bool :=
  (p.boot == 0x00 || p.boot == 0x80) &&
  (p.ostype != 0xEE || ((p.starth == 0 && p.starts == 2 && p.startt == 0) && p.startlba == 1))

theorem lemma_nat_beq (a b : Nat) : (a == b) = decide (a = b) := by
  by_cases h : a = b <;> simp [h]

theorem lemma_gptLoop (mbr : Bytes) (P : Nat → Pte) : ∀ (n i : Nat) (valid : List Nat) (found : Bool),
    (∀ j, i ≤ j → j < i + n → gptPte mbr j = .ok (P j)) →
    gptLoop mbr n i valid found =
      .ok (if (List.range' i n).all (fun j => pteOkB (P j)) then
             some (valid ++ (List.range' i n).filter (fun j => (P j).ostype != 0),
                   found || (List.range' i n).any (fun j => (P j).ostype == 0xEE))
           else none) := by
  intro n
  induction n with
  | zero => intro i valid found _; simp [gptLoop]
  | succ n ih =>
    intro i valid found hP
    have hi := hP i (Nat.le_refl _) (by omega)
    have hrest : ∀ j, i + 1 ≤ j → j < i + 1 + n → gptPte mbr j = .ok (P j) :=
      fun j h1 h2 => hP j (by omega) (by omega)
    simp only [gptLoop, hi, bind, Except.bind, pure, Except.pure, List.range'_succ, List.all_cons,
      List.filter_cons, List.any_cons]
    simp only [fun v f => ih (i + 1) v f hrest]
    by_cases hb : ((P i).boot = 0 ∨ (P i).boot = 128)
    · have b0 : (decide ((P i).boot = 0) || decide ((P i).boot = 128)) = true := by
        rcases hb with h | h <;> simp [h]
      have hb0 : ((P i).boot == 0 || (P i).boot == 128) = true := by
        simp only [lemma_nat_beq]; exact b0
      by_cases he : (P i).ostype = 238
      · have hne : (P i).ostype ≠ 0 := by omega
        by_cases h1 : (P i).starth = 0
        · by_cases h2 : (P i).starts = 2
          · by_cases h3 : (P i).startt = 0
            · by_cases hl : (P i).startlba = 1
              · have hok : pteOkB (P i) = true := by simp [pteOkB, hb0, he, h1, h2, h3, hl]
                simp only [b0, decide_eq_true h1, decide_eq_true h2, decide_eq_true h3, he, hl, hok, hne,
                  Bool.not_true, Bool.false_eq_true, if_false, if_true, Bool.and_self,
                  Bool.true_and, ne_eq, not_true_eq_false, not_false_eq_true]
                simp [he]
              · have hok : pteOkB (P i) = false := by simp [pteOkB, hb0, he, h1, h2, h3, hl]
                simp only [b0, decide_eq_true h1, decide_eq_true h2, decide_eq_true h3, he, hl, hok,
                  Bool.not_true, Bool.false_eq_true, if_false, if_true, Bool.and_self,
                  Bool.false_and, ne_eq, not_false_eq_true]
            · have hok : pteOkB (P i) = false := by simp [pteOkB, hb0, he, h1, h2, h3]
              simp only [b0, decide_eq_true h1, decide_eq_true h2, decide_eq_false h3, he, hok,
                Bool.not_true, Bool.false_eq_true, if_false, if_true, Bool.and_self,
                Bool.false_and, Bool.and_false, Bool.not_false]
          · have hok : pteOkB (P i) = false := by simp [pteOkB, hb0, he, h1, h2]
            simp only [b0, decide_eq_true h1, decide_eq_false h2, he, hok,
              Bool.not_true, Bool.false_eq_true, if_false, if_true,
              Bool.false_and, Bool.and_false, Bool.not_false]
        · have hok : pteOkB (P i) = false := by simp [pteOkB, hb0, he, h1]
          simp only [b0, decide_eq_false h1, he, hok,
            Bool.not_true, Bool.false_eq_true, if_false, if_true,
            Bool.false_and, Bool.and_false, Bool.not_false]
      · have hok : pteOkB (P i) = true := by simp [pteOkB, hb0, he]
        simp only [b0, he, hok, Bool.not_true, Bool.false_eq_true, if_false, Bool.true_and]
        have e1 : ((P i).ostype == 238) = false := by rw [lemma_nat_beq]; exact decide_eq_false he
        by_cases hz : (P i).ostype = 0
        · simp [hz, e1]
        · have e2 : ((P i).ostype != 0) = true := by simp [bne, lemma_nat_beq, hz]
          simp [hz, e1, e2]
    · have b0 : (decide ((P i).boot = 0) || decide ((P i).boot = 128)) = false := by
        have h0 : ¬ (P i).boot = 0 := fun h => hb (Or.inl h)
        have h1 : ¬ (P i).boot = 128 := fun h => hb (Or.inr h)
        simp [h0, h1]
      have hb0 : ((P i).boot == 0 || (P i).boot == 128) = false := by
        simp only [lemma_nat_beq]; exact b0
      have hok : pteOkB (P i) = false := by simp [pteOkB, hb0]
      simp only [b0, hok, Bool.not_false, if_true, Bool.false_and, Bool.false_eq_true, if_false]

end Oslo.Insp
