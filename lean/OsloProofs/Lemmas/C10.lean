/-
Helper lemmas for C10 (parser of OsloModel/Units.lean): spans, the number /
prefix / unit parsers in both directions.  Nothing here is a property theorem.
-/
import OsloModel.Units
namespace Oslo.Units

deriving instance DecidableEq for Except

/-! ### spans -/

theorem lemma_takeP_dropP (p : Char → Bool) (s : List Char) : takeP p s ++ dropP p s = s := by
  induction s with
  | nil => simp [takeP, dropP]
  | cons c cs ih => by_cases h : p c <;> simp [takeP, dropP, h, ih]

theorem lemma_takeP_all (p : Char → Bool) (s : List Char) : ∀ c ∈ takeP p s, p c = true := by
  induction s with
  | nil => simp [takeP]
  | cons c cs ih =>
    by_cases h : p c
    · simp [takeP, h]; exact ih
    · simp [takeP, h]

theorem lemma_dropP_head (p : Char → Bool) (s : List Char) (c : Char) (r : List Char)
    (h : dropP p s = c :: r) : p c = false := by
  induction s with
  | nil => simp [dropP] at h
  | cons x xs ih =>
    by_cases hx : p x
    · simp [dropP, hx] at h; exact ih h
    · simp [dropP, hx] at h; obtain ⟨rfl, _⟩ := h; simpa using hx

/-- `rest` does not start with a character satisfying `p` -/
def NoHead (p : Char → Bool) (rest : List Char) : Prop := ∀ c r, rest = c :: r → p c = false

theorem lemma_span_append (p : Char → Bool) (a rest : List Char) (ha : ∀ c ∈ a, p c = true)
    (hr : NoHead p rest) : takeP p (a ++ rest) = a ∧ dropP p (a ++ rest) = rest := by
  induction a with
  | nil =>
    cases rest with
    | nil => simp [takeP, dropP]
    | cons c r => have := hr c r rfl; simp [takeP, dropP, this]
  | cons x xs ih =>
    have hx : p x = true := ha x (by simp)
    have := ih (fun c hc => ha c (by simp [hc]))
    simp [takeP, dropP, hx, this]

theorem lemma_dropP_noHead (p : Char → Bool) (s : List Char) : NoHead p (dropP p s) :=
  fun c r h => lemma_dropP_head p s c r h

/-! ### the number -/

/-- `.` followed by the fraction digits, when there are any -/
def dotFrac : Option (List Char) → List Char
  | none => []
  | some f => '.' :: f

def AllDigits (l : List Char) : Prop := ∀ c ∈ l, isDigit c = true

/-- well-formed `\d*\.?\d+` pieces: integer digits, optional fraction digits -/
def NumWF (ip : List Char) (fp : Option (List Char)) : Prop :=
  AllDigits ip ∧ match fp with
    | none => ip ≠ []
    | some f => f ≠ [] ∧ AllDigits f

instance (l : List Char) : Decidable (AllDigits l) := by unfold AllDigits; infer_instance
instance (ip : List Char) (fp : Option (List Char)) : Decidable (NumWF ip fp) := by
  unfold NumWF; cases fp <;> infer_instance

/-- `rest` starts neither with a digit nor with a dot -/
def NumEnd (rest : List Char) : Prop := ∀ c r, rest = c :: r → isDigit c = false ∧ c ≠ '.'

theorem lemma_isDigit_dot : isDigit '.' = false := by decide

theorem lemma_parseNumber_render (ip : List Char) (fp : Option (List Char)) (rest : List Char)
    (hwf : NumWF ip fp) (hrest : NumEnd rest) :
    parseNumber (ip ++ dotFrac fp ++ rest) = some (ip, fp, rest) := by
  obtain ⟨hip, hfp⟩ := hwf
  cases fp with
  | none =>
    simp only [dotFrac, List.append_nil]
    have h1 := lemma_span_append isDigit ip rest hip (fun c r h => (hrest c r h).1)
    simp only at hfp
    unfold parseNumber
    rw [h1.1, h1.2]
    cases rest with
    | nil => simp [parseNumberAux, hfp]
    | cons c r =>
      have hc := (hrest c r rfl).2
      unfold parseNumberAux
      split
      · next r2 heq => simp at heq; exact absurd heq.1 hc
      · simp [hfp]
  | some f =>
    obtain ⟨hne, hf⟩ := hfp
    have h1 := lemma_span_append isDigit ip ('.' :: (f ++ rest)) hip
      (fun c r h => by simp at h; rw [← h.1]; exact lemma_isDigit_dot)
    have h2 := lemma_span_append isDigit f rest hf (fun c r h => (hrest c r h).1)
    have e : ip ++ dotFrac (some f) ++ rest = ip ++ '.' :: (f ++ rest) := by simp [dotFrac]
    unfold parseNumber
    rw [e, h1.1, h1.2]
    simp [parseNumberAux, h2.1, h2.2, hne]

theorem lemma_parseNumber_inv (s d1 : List Char) (d2 : Option (List Char)) (r : List Char)
    (h : parseNumber s = some (d1, d2, r)) :
    s = d1 ++ dotFrac d2 ++ r ∧ NumWF d1 d2 := by
  unfold parseNumber at h
  have hs := lemma_takeP_dropP isDigit s
  have hd : AllDigits (takeP isDigit s) := lemma_takeP_all isDigit s
  generalize takeP isDigit s = a at *
  generalize dropP isDigit s = b at *
  unfold parseNumberAux at h
  split at h
  · next r2 =>
    split at h
    · next hne =>
      simp only [Option.some.injEq, Prod.mk.injEq] at h
      obtain ⟨rfl, rfl, rfl⟩ := h
      refine ⟨?_, hd, hne, lemma_takeP_all isDigit r2⟩
      have := lemma_takeP_dropP isDigit r2
      simp only [dotFrac, List.append_assoc, List.cons_append]
      rw [this, hs]
    · split at h
      · next hne =>
        simp only [Option.some.injEq, Prod.mk.injEq] at h
        obtain ⟨rfl, rfl, rfl⟩ := h
        exact ⟨by simp [dotFrac, hs], hd, hne⟩
      · simp at h
  · split at h
    · next hne =>
      simp only [Option.some.injEq, Prod.mk.injEq] at h
      obtain ⟨rfl, rfl, rfl⟩ := h
      exact ⟨by simp [dotFrac, hs], hd, hne⟩
    · simp at h

/-! ### prefix and unit -/

theorem lemma_parsePrefix_none (letters : List Char) (optI : Bool) (rest : List Char)
    (h : NoHead letters.contains rest) : parsePrefix letters optI rest = ([], rest) := by
  cases rest with
  | nil => rfl
  | cons c r => simp only [parsePrefix, h c r rfl, Bool.false_eq_true, ↓reduceIte]

theorem lemma_parsePrefix_one (letters : List Char) (optI : Bool) (c : Char) (rest : List Char)
    (hc : letters.contains c = true) (h : optI = false ∨ NoHead (· == 'i') rest) :
    parsePrefix letters optI (c :: rest) = ([c], rest) := by
  simp only [parsePrefix, hc, ↓reduceIte]
  split
  · next r' =>
    rcases h with h | h
    · simp_all
    · have := h 'i' r' rfl; simp at this
  · rfl

theorem lemma_parsePrefix_two (letters : List Char) (c : Char) (rest : List Char)
    (hc : letters.contains c = true) :
    parsePrefix letters true (c :: 'i' :: rest) = ([c, 'i'], rest) := by
  simp only [parsePrefix, hc, ↓reduceIte]

theorem lemma_parsePrefix_inv (letters : List Char) (optI : Bool) (r1 p r2 : List Char)
    (h : parsePrefix letters optI r1 = (p, r2)) :
    r1 = p ++ r2 ∧
      (p = [] ∨ ∃ c, letters.contains c = true ∧ (p = [c] ∨ (optI = true ∧ p = [c, 'i']))) := by
  cases r1 with
  | nil => simp [parsePrefix] at h; simp [h.1, h.2]
  | cons c r =>
    by_cases hc : letters.contains c = true
    · simp only [parsePrefix, hc, ↓reduceIte] at h
      split at h
      · next r' =>
        simp only [Prod.mk.injEq] at h
        obtain ⟨rfl, rfl⟩ := h
        exact ⟨by simp, Or.inr ⟨c, hc, Or.inr ⟨rfl, rfl⟩⟩⟩
      · simp only [Prod.mk.injEq] at h
        obtain ⟨rfl, rfl⟩ := h
        exact ⟨by simp, Or.inr ⟨c, hc, Or.inl rfl⟩⟩
    · simp only [parsePrefix, hc] at h
      simp only [Bool.false_eq_true, ↓reduceIte, Prod.mk.injEq] at h
      obtain ⟨rfl, rfl⟩ := h
      exact ⟨by simp, Or.inl rfl⟩

/-- the three unit spellings -/
inductive UnitText | b | bit | B
  deriving DecidableEq, Repr

def UnitText.chars : UnitText → List Char
  | .b => ['b']
  | .bit => ['b', 'i', 't']
  | .B => ['B']

def UnitText.kind : UnitText → UnitKind
  | .b => .bit
  | .bit => .bit
  | .B => .byte

/-- the single trailing newline that Python's `$` tolerates -/
def nlChars (nl : Bool) : List Char := if nl then ['\n'] else []

theorem lemma_parseUnit_render (u : UnitText) (nl : Bool) :
    parseUnit (u.chars ++ nlChars nl) = some u.kind := by
  cases u <;> cases nl <;> rfl

theorem lemma_parseUnit_inv (r : List Char) (k : UnitKind) (h : parseUnit r = some k) :
    ∃ u nl, r = UnitText.chars u ++ nlChars nl ∧ k = u.kind := by
  unfold parseUnit at h
  split at h
  · exact ⟨.b, false, rfl, by simp at h; subst h; rfl⟩
  · exact ⟨.b, true, rfl, by simp at h; subst h; rfl⟩
  · exact ⟨.bit, false, rfl, by simp at h; subst h; rfl⟩
  · exact ⟨.bit, true, rfl, by simp at h; subst h; rfl⟩
  · exact ⟨.B, false, rfl, by simp at h; subst h; rfl⟩
  · exact ⟨.B, true, rfl, by simp at h; subst h; rfl⟩
  · simp at h

end Oslo.Units
