/-
The flat fragment of Python's `re` that `oslo_utils.strutils.mask_password` uses
(strutils.py:91-125): a pattern is a *sequence of single-character items*
(literal / character class / `.`), each with a greedy repetition bound
`{lo,hi}`, laid out as `(g1) mid` or `(g1) mid (g2)`.  No alternation, no nested
repetition, no anchors, no look-around, no back-references, no lazy or
possessive quantifiers — the translator (harness/gen_mask.py) refuses anything
else.

What is modelled here, and checked against `re` itself by the correspondence:

* `matchSeq`: CPython's backtracking order for greedy single-character repeats
  (`SRE_OP_REPEAT_ONE`): take the longest run allowed by the class and the upper
  bound, try the rest of the pattern, on failure give back one character at a
  time down to the lower bound.  The first success wins.
* `subAux`: `re.sub` — leftmost scanning, non-overlapping matches, resumption at
  the end of a match, and the rule for empty matches (Python >= 3.7: an empty
  match is replaced, then one character is copied; an empty match directly
  after a non-empty one is allowed).
* `expand`: the replacement templates `\g<1>SECRET`, `\g<1>SECRET\g<2>`, `\g<1>`.

Text is `List Char`; a class is a list of inclusive code-point ranges with a
negation flag, case-insensitivity already folded in by the translator.
Imports nothing: the driver links natively.
-/
namespace Oslo.Flat

/-- a character class: code-point ranges (inclusive), possibly negated -/
structure Cls where
  neg : Bool
  ranges : List (Nat × Nat)
  deriving DecidableEq, Repr

def inRanges (n : Nat) : List (Nat × Nat) → Bool
  | [] => false
  | (lo, hi) :: rest => (decide (lo ≤ n) && decide (n ≤ hi)) || inRanges n rest

def Cls.test (k : Cls) (c : Char) : Bool := k.neg != inRanges c.toNat k.ranges

/-- one pattern item: a class with greedy bounds `{lo, hi}`; `hi = none` is unbounded -/
structure Item where
  cls : Cls
  lo : Nat
  hi : Option Nat
  deriving DecidableEq, Repr

/-- length of the run a greedy repeat takes first: the leading characters in the
    class, at most `hi` of them -/
def Item.run (it : Item) (s : List Char) : Nat :=
  let n := (s.takeWhile it.cls.test).length
  match it.hi with
  | none => n
  | some m => min n m

/-- try the continuation after consuming `n`, `n-1`, … down to `lo` characters -/
def tryDown {α : Type} (k : List Char → Option α) (s : List Char) (lo : Nat) : Nat → Option α
  | 0 => if lo = 0 then k s else none
  | n + 1 =>
    if n + 1 < lo then none
    else match k (s.drop (n + 1)) with
      | some r => some r
      | none => tryDown k s lo n

/-- match a sequence of items at the start of `s`, then hand the rest of the
    input to the continuation `k`; backtrack into the items when `k` fails -/
def matchSeq {α : Type} : List Item → (List Char → Option α) → List Char → Option α
  | [], k, s => k s
  | it :: rest, k, s => tryDown (matchSeq rest k) s it.lo (it.run s)

/-- a pattern `(g1) mid (g2)`; a pattern with one group has `g2 = []` -/
structure Pattern where
  g1 : List Item
  mid : List Item
  g2 : List Item
  deriving DecidableEq, Repr

/-- where a match (anchored at the start of `s`) put its boundaries, as the
    lengths of the input that remained after `g1`, after `mid`, after `g2` -/
structure Bounds where
  afterG1 : Nat
  afterMid : Nat
  afterG2 : Nat
  deriving DecidableEq, Repr

def matchPat (p : Pattern) (s : List Char) : Option Bounds :=
  matchSeq p.g1 (fun s1 =>
    matchSeq p.mid (fun s2 =>
      matchSeq p.g2 (fun s3 => some ⟨s1.length, s2.length, s3.length⟩) s2) s1) s

/-- replacement template pieces (`\g<1>`, `\g<2>`, the secret) -/
inductive RepTok | g1 | g2 | mask
  deriving DecidableEq, Repr

def expand (rep : List RepTok) (g1 g2 mask : List Char) : List Char :=
  match rep with
  | [] => []
  | .g1 :: r => g1 ++ expand r g1 g2 mask
  | .g2 :: r => g2 ++ expand r g1 g2 mask
  | .mask :: r => mask ++ expand r g1 g2 mask

/-- a match at the start of `s`: (number of characters matched, replacement text) -/
def matchRepl (p : Pattern) (rep : List RepTok) (mask : List Char) (s : List Char) :
    Option (Nat × List Char) :=
  match matchPat p s with
  | none => none
  | some b =>
    let L := s.length
    some (L - b.afterG2,
          expand rep (s.take (L - b.afterG1)) ((s.drop (L - b.afterMid)).take (b.afterMid - b.afterG2)) mask)

/-- `re.sub` scanning loop.  `m` finds a match anchored at the current position.
    The counter is the number of characters still covered by the previous match. -/
def subAux (m : List Char → Option (Nat × List Char)) : Nat → List Char → List Char
  | 0, [] => match m [] with
    | some (_, r) => r
    | none => []
  | _ + 1, [] => []
  | k + 1, _ :: s => subAux m k s
  | 0, c :: s =>
    match m (c :: s) with
    | none => c :: subAux m 0 s
    | some (0, r) => r ++ c :: subAux m 0 s
    | some (n + 1, r) => r ++ subAux m n s

/-- `re.sub(pattern, template, s)` -/
def subPat (p : Pattern) (rep : List RepTok) (mask : List Char) (s : List Char) : List Char :=
  subAux (matchRepl p rep mask) 0 s

/-! ### templates: a pattern with a hole for the key -/

inductive TItem
  | key                 -- `%(key)s`: one literal item per character of the key
  | it (i : Item)
  deriving DecidableEq, Repr

structure Template where
  g1 : List TItem
  mid : List TItem
  g2 : List TItem
  deriving DecidableEq, Repr

def instItems (keyItems : List Item) : List TItem → List Item
  | [] => []
  | .key :: r => keyItems ++ instItems keyItems r
  | .it i :: r => i :: instItems keyItems r

def Template.inst (t : Template) (keyItems : List Item) : Pattern :=
  ⟨instItems keyItems t.g1, instItems keyItems t.mid, instItems keyItems t.g2⟩

/-! ### short constructors used by the generated tables -/

def cls (r : List (Nat × Nat)) : Cls := ⟨false, r⟩
def ncls (r : List (Nat × Nat)) : Cls := ⟨true, r⟩
def one (c : Cls) : TItem := .it ⟨c, 1, some 1⟩
def star (c : Cls) : TItem := .it ⟨c, 0, none⟩
def plus (c : Cls) : TItem := .it ⟨c, 1, none⟩
def opt (c : Cls) : TItem := .it ⟨c, 0, some 1⟩
def rep (c : Cls) (lo : Nat) (hi : Option Nat) : TItem := .it ⟨c, lo, hi⟩

end Oslo.Flat
