/-
PLACEHOLDER written by builder InsB so that `./check C02` can run while the coordinator
writes the real property theorems; it states nothing about the property itself.
-/
import OsloModel.Wrapper
namespace Oslo.Insp.C02

/-- placeholder, not a property theorem -/
theorem placeholder_every_format_registers_a_check :
    Fmt.all.all (fun f => !f.initChecks.isEmpty) = true := by decide

end Oslo.Insp.C02
