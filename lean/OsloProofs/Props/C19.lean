/-
C19 — path and list splitting honour their contracts for every input.

Property theorems only; helper lemmas are in OsloProofs/Lemmas/C19Split.lean (the model of
`str.split`/`join`) and OsloProofs/Lemmas/C19Commas.lean (the hand parser), or `lemma_`-prefixed here.
-/
import OsloModel.Split
import OsloProofs.Lemmas.C19Split
import OsloProofs.Lemmas.C19Commas
namespace Oslo.Split

/-! ## split_path -/

/-- **split_path = its contract.**  For every path, `minsegs ≥ 1`, `maxsegs` (None / 0 / any) and
    flag, the line-by-line model of `split_path` returns exactly what the declarative reading says:
    `maxsegs` falsy ↦ `minsegs`; `minsegs > maxsegs` or no leading `/` ↦ ValueError; split the rest on
    `/`; with `rest_with_last` fold everything from segment `maxsegs` on into the last one, otherwise
    drop one empty trailing segment at position `maxsegs+1` and reject anything longer; fewer than
    `minsegs` segments or an empty one among the first `minsegs` ↦ ValueError; pad with None. -/
theorem split_path_eq_spec (path : List Char) (minsegs : Nat) (maxsegs : Option Nat) (rwl : Bool)
    (h1 : 1 ≤ minsegs) :
    splitPath path minsegs maxsegs rwl = splitPathSpec path minsegs maxsegs rwl := by
  unfold splitPath splitPathSpec
  generalize effMax minsegs maxsegs = m
  by_cases hm : minsegs > m
  · simp [hm]
  · simp only [hm, if_false]
    have hm' : minsegs ≤ m := by omega
    cases path with
    | nil =>
      cases rwl <;> simp [pySplit] <;> omega
    | cons c rest =>
      by_cases hc : c = '/'
      · subst hc
        simp only [if_true]
        cases rwl with
        | true =>
          obtain ⟨m', rfl⟩ : ∃ m', m = m' + 1 := ⟨m - 1, by omega⟩
          rw [lemma_segs_rwl rest (m' + 1) (by omega)]
          simp only [if_true, pySplit, Nat.add_sub_cancel]
          have hlen := pySplit_length_le '/' m' rest
          generalize pySplit '/' m' rest = P at hlen ⊢
          simp only [List.head?_cons, lemma_slice_cons, lemma_finish, List.length_cons]
          have ht : P.take (m' + 1) = P := List.take_of_length_le hlen
          rw [ht]
          by_cases hcond : P.length < minsegs ∨ [] ∈ P.take minsegs
          · have : ([] : List Char) ≠ [] ∨ P.length + 1 < minsegs + 1 ∨ P.length + 1 > m' + 1 + 1 ∨ [] ∈ P.take minsegs := by
              rcases hcond with h | h
              · right; left; omega
              · right; right; right; exact h
            rw [if_pos this, if_pos hcond]
          · have : ¬ (([] : List Char) ≠ [] ∨ P.length + 1 < minsegs + 1 ∨ P.length + 1 > m' + 1 + 1 ∨ [] ∈ P.take minsegs) := by
              intro h; apply hcond
              rcases h with h | h | h | h
              · exact absurd rfl h
              · left; omega
              · omega
              · right; exact h
            rw [if_neg this, if_neg hcond]
        | false =>
          rw [lemma_segs_norwl rest m]
          simp only [Bool.false_eq_true, if_false, pySplit, if_true]
          have hlen := pySplit_length_le '/' m rest
          generalize pySplit '/' m rest = Q at hlen ⊢
          simp only [List.head?_cons, lemma_slice_cons, lemma_finish, List.length_cons,
            List.getElem?_cons_succ]
          by_cases hq : Q.length ≤ m
          · have ht : Q.take m = Q := List.take_of_length_le hq
            rw [if_pos hq, ht]
            by_cases hcond : Q.length < minsegs ∨ [] ∈ Q.take minsegs
            · have : ([] : List Char) ≠ [] ∨ Q.length + 1 < minsegs + 1 ∨ Q.length + 1 > m + 1 + 1 ∨ [] ∈ Q.take minsegs := by
                rcases hcond with h | h
                · right; left; omega
                · right; right; right; exact h
              rw [if_pos this]; simp only [if_pos hcond]
            · have : ¬ (([] : List Char) ≠ [] ∨ Q.length + 1 < minsegs + 1 ∨ Q.length + 1 > m + 1 + 1 ∨ [] ∈ Q.take minsegs) := by
                intro h; apply hcond
                rcases h with h | h | h | h
                · exact absurd rfl h
                · left; omega
                · omega
                · right; exact h
              rw [if_neg this, if_neg (by omega)]; simp only [if_neg hcond]
          · have hQ : Q.length = m + 1 := by omega
            rw [if_neg hq]
            have htt : (Q.take m).take minsegs = Q.take minsegs := by
              rw [List.take_take]; congr 1; omega
            have htl : (Q.take m).length = m := by simp; omega
            by_cases hcond : [] ∈ Q.take minsegs
            · have : ([] : List Char) ≠ [] ∨ Q.length + 1 < minsegs + 1 ∨ Q.length + 1 > m + 1 + 1 ∨ [] ∈ Q.take minsegs := by
                right; right; right; exact hcond
              rw [if_pos this]
              by_cases hz : Q[m]? = some []
              · rw [if_pos hz]; simp only [htt, hcond, or_true, if_true]
              · rw [if_neg hz]
            · have : ¬ (([] : List Char) ≠ [] ∨ Q.length + 1 < minsegs + 1 ∨ Q.length + 1 > m + 1 + 1 ∨ [] ∈ Q.take minsegs) := by
                intro h
                rcases h with h | h | h | h
                · exact absurd rfl h
                · omega
                · omega
                · exact hcond h
              rw [if_neg this, if_pos (by omega)]
              cases hg : Q[m]? with
              | none => rw [List.getElem?_eq_none_iff] at hg; omega
              | some last =>
                by_cases hl : last = []
                · subst hl
                  simp only [ne_eq, not_true_eq_false, if_false, if_true, htt, htl]
                  rw [if_neg (by intro h; rcases h with h | h; omega; exact hcond h)]
                · simp [hl]
      · obtain ⟨hd, tl, hp⟩ := pySplit_head_cons '/' (if rwl then m else m + 1) c rest hc
        cases rwl <;> simp at hp <;> simp [hc, hp]


example : splitPath "/a/c/o/r".toList 1 (some 3) true
    = .ok [some ['a'], some ['c'], some "o/r".toList] ∧
    splitPathSpec "/a/c/o/r".toList 1 (some 3) true = .ok [some ['a'], some ['c'], some "o/r".toList] ∧
    splitPath "/a".toList 1 (some 2) false = .ok [some ['a'], none] := by
  simp [splitPath, splitPathSpec, specSegs, splitAll, joinSep, effMax, pySplit, consHead, slice, finish]

/-- the result always has exactly `maxsegs` entries (`minsegs` when `maxsegs` is None/0); this one
    needs no assumption on `minsegs` -/
theorem split_path_length (path : List Char) (minsegs : Nat) (maxsegs : Option Nat) (rwl : Bool)
    (r : List Seg) (h : splitPath path minsegs maxsegs rwl = .ok r) :
    r.length = effMax minsegs maxsegs := by
  unfold splitPath at h
  simp only at h
  repeat' split at h
  all_goals first
    | (injection h with h; subst h; simp [finish_length])
    | simp at h

/-- the model's `IndexError` outcomes (`segs[0]`, `segs[maxsegs]`) are unreachable: every failure
    of `split_path` is a ValueError (no assumption on `minsegs`) -/
theorem split_path_no_indexError (path : List Char) (minsegs : Nat) (maxsegs : Option Nat) (rwl : Bool)
    (e : Err) (h : splitPath path minsegs maxsegs rwl = .error e) : e = .valueError := by
  unfold splitPath at h
  simp only at h
  generalize effMax minsegs maxsegs = m at h
  cases rwl with
  | true =>
    simp only [if_true] at h
    cases hp : pySplit '/' m path with
    | nil => exact absurd hp (pySplit_ne_nil _ _ _)
    | cons a t =>
      rw [hp] at h; simp only [List.head?_cons] at h
      repeat' split at h
      all_goals simp_all
  | false =>
    simp only [Bool.false_eq_true, if_false] at h
    cases hp : pySplit '/' (m + 1) path with
    | nil => exact absurd hp (pySplit_ne_nil _ _ _)
    | cons a t =>
      rw [hp] at h; simp only [List.head?_cons] at h
      split at h
      · simp_all
      · split at h
        · simp_all
        · split at h
          · rename_i hc
            cases hg : (a :: t)[m + 1]? with
            | none => rw [List.getElem?_eq_none_iff] at hg; omega
            | some last =>
              rw [hg] at h; simp only at h
              split at h <;> simp_all
          · simp_all

/-- unpacking the specification's success case -/
theorem lemma_spec_ok (path : List Char) (minsegs : Nat) (maxsegs : Option Nat) (rwl : Bool) (r : List Seg)
    (h : splitPathSpec path minsegs maxsegs rwl = .ok r) :
    minsegs ≤ effMax minsegs maxsegs ∧ ∃ rest segs, path = '/' :: rest ∧
      specSegs (splitAll '/' rest) (effMax minsegs maxsegs) rwl = some segs ∧
      minsegs ≤ segs.length ∧ [] ∉ segs.take minsegs ∧
      r = segs.map some ++ List.replicate (effMax minsegs maxsegs - segs.length) none := by
  unfold splitPathSpec at h
  simp only at h
  split at h
  · simp at h
  · rename_i hm
    split at h
    · simp at h
    · rename_i c rest
      split at h
      · rename_i hc; subst hc
        split at h
        · simp at h
        · rename_i segs hs
          split at h
          · simp at h
          · rename_i hcond
            injection h with h
            exact ⟨by omega, rest, segs, rfl, hs, by omega, fun hh => hcond (Or.inr hh), h.symm⟩
      · simp at h

/-- **Leading segments preserved.**  Whenever `split_path` returns, the result is the list of its
    segments followed only by `None`s, there are between `minsegs` and `maxsegs` segments, the first
    `minsegs` are non-empty, re-joining them with `/` behind a leading `/` gives back the path (up to
    the one tolerated trailing slash, possible only without `rest_with_last` and when all `maxsegs`
    entries are filled), and no segment contains a `/` except the last one under `rest_with_last`. -/
theorem split_path_ok_shape (path : List Char) (minsegs : Nat) (maxsegs : Option Nat) (rwl : Bool)
    (r : List Seg) (h1 : 1 ≤ minsegs) (h : splitPath path minsegs maxsegs rwl = .ok r) :
    ∃ segs : List (List Char),
      r = segs.map some ++ List.replicate (effMax minsegs maxsegs - segs.length) none ∧
      minsegs ≤ segs.length ∧ segs.length ≤ effMax minsegs maxsegs ∧
      (∀ s ∈ segs.take minsegs, s ≠ []) ∧
      (path = '/' :: joinSep '/' segs ∨
        (rwl = false ∧ segs.length = effMax minsegs maxsegs ∧ path = '/' :: (joinSep '/' segs ++ ['/']))) ∧
      (∀ s ∈ segs.take (if rwl then effMax minsegs maxsegs - 1 else effMax minsegs maxsegs), '/' ∉ s) := by
  rw [split_path_eq_spec _ _ _ _ h1] at h
  obtain ⟨hm, rest, segs, hp, hs, hmin, hne, hr⟩ := lemma_spec_ok _ _ _ _ _ h
  obtain ⟨hlen, hjoin, hsep⟩ := specSegs_facts rest _ rwl segs (by omega) hs
  refine ⟨segs, hr, hmin, hlen, fun s hs' hnil => hne (hnil ▸ hs'), ?_, hsep⟩
  rcases hjoin with hj | ⟨hf, hl, hj⟩
  · left; rw [hp, hj]
  · right; exact ⟨hf, hl, by rw [hp, hj]⟩

/-! ### the ValueError cases -/

theorem split_path_rejects_min_gt_max (path : List Char) (minsegs : Nat) (maxsegs : Option Nat) (rwl : Bool)
    (h : effMax minsegs maxsegs < minsegs) :
    splitPath path minsegs maxsegs rwl = .error .valueError := by
  unfold splitPath; simp [h]

/-- a path that does not start with `/` (the empty path included) is rejected -/
theorem split_path_rejects_no_leading_slash (path : List Char) (minsegs : Nat) (maxsegs : Option Nat)
    (rwl : Bool) (h1 : 1 ≤ minsegs) (h : path.head? ≠ some '/') :
    splitPath path minsegs maxsegs rwl = .error .valueError := by
  rw [split_path_eq_spec _ _ _ _ h1]
  unfold splitPathSpec
  cases path with
  | nil => simp
  | cons c rest =>
    have : c ≠ '/' := by simpa using h
    simp [this]

theorem lemma_specSegs_length_le (all : List (List Char)) (m : Nat) (rwl : Bool) (segs : List (List Char))
    (h : specSegs all m rwl = some segs) : segs.length ≤ all.length := by
  unfold specSegs at h
  cases rwl with
  | true =>
    simp only [if_true] at h
    split at h <;> injection h with h <;> subst h
    · simp; omega
    · exact Nat.le_refl _
  | false =>
    simp only [Bool.false_eq_true, if_false] at h
    split at h
    · injection h with h; subst h; exact Nat.le_refl _
    · split at h
      · injection h with h; subst h; simp; omega
      · simp at h

/-- fewer than `minsegs` segments after the leading slash -/
theorem split_path_rejects_too_few (rest : List Char) (minsegs : Nat) (maxsegs : Option Nat) (rwl : Bool)
    (h1 : 1 ≤ minsegs) (h : (splitAll '/' rest).length < minsegs) :
    splitPath ('/' :: rest) minsegs maxsegs rwl = .error .valueError := by
  cases hr : splitPath ('/' :: rest) minsegs maxsegs rwl with
  | error e => rw [split_path_no_indexError _ _ _ _ _ hr]
  | ok r =>
    exfalso
    rw [split_path_eq_spec _ _ _ _ h1] at hr
    obtain ⟨hm, rest', segs, hp, hs, hmin, hne, -⟩ := lemma_spec_ok _ _ _ _ _ hr
    injection hp with _ hp; subst hp
    have := lemma_specSegs_length_le _ _ _ _ hs
    omega

/-- an empty segment among the first `minsegs` (e.g. `//a`, `/a//b` with `minsegs = 2`); with
    `rest_with_last` the segment at position `maxsegs` absorbs the remainder, so there the claim is for
    positions before `maxsegs` or paths with no remainder -/
theorem split_path_rejects_empty_segment (rest : List Char) (minsegs : Nat) (maxsegs : Option Nat) (rwl : Bool)
    (i : Nat) (h1 : 1 ≤ minsegs) (hi : i < minsegs) (he : (splitAll '/' rest)[i]? = some [])
    (hr : rwl = true → i + 1 < effMax minsegs maxsegs ∨ (splitAll '/' rest).length ≤ effMax minsegs maxsegs) :
    splitPath ('/' :: rest) minsegs maxsegs rwl = .error .valueError := by
  cases hres : splitPath ('/' :: rest) minsegs maxsegs rwl with
  | error e => rw [split_path_no_indexError _ _ _ _ _ hres]
  | ok r =>
    exfalso
    rw [split_path_eq_spec _ _ _ _ h1] at hres
    obtain ⟨hm, rest', segs, hp, hs, hmin, hne, -⟩ := lemma_spec_ok _ _ _ _ _ hres
    injection hp with _ hp; subst hp
    apply hne
    have hil : i < (splitAll '/' rest).length := by
      by_cases hh : i < (splitAll '/' rest).length
      · exact hh
      · rw [List.getElem?_eq_none_iff.mpr (by omega)] at he; simp at he
    have key : segs[i]? = some [] := by
      unfold specSegs at hs
      cases rwl with
      | true =>
        simp only [if_true] at hs
        split at hs
        · rename_i hl
          rcases hr rfl with h | h
          · injection hs with hs; subst hs
            rw [List.getElem?_append_left (by simp; omega), List.getElem?_take]
            simp [show i < effMax minsegs maxsegs - 1 by omega, he]
          · omega
        · injection hs with hs; subst hs; exact he
      | false =>
        simp only [Bool.false_eq_true, if_false] at hs
        split at hs
        · injection hs with hs; subst hs; exact he
        · split at hs
          · injection hs with hs; subst hs
            rw [List.getElem?_take]; simp [show i < effMax minsegs maxsegs by omega, he]
          · simp at hs
    rw [List.mem_iff_getElem?]
    exact ⟨i, by rw [List.getElem?_take]; simp [hi, key]⟩

/-- without `rest_with_last`: more than `maxsegs` segments, other than one empty trailing one -/
theorem split_path_rejects_too_many (rest : List Char) (minsegs : Nat) (maxsegs : Option Nat)
    (h1 : 1 ≤ minsegs)
    (h : effMax minsegs maxsegs + 1 < (splitAll '/' rest).length ∨
         ((splitAll '/' rest).length = effMax minsegs maxsegs + 1 ∧ (splitAll '/' rest).getLast? ≠ some [])) :
    splitPath ('/' :: rest) minsegs maxsegs false = .error .valueError := by
  cases hres : splitPath ('/' :: rest) minsegs maxsegs false with
  | error e => rw [split_path_no_indexError _ _ _ _ _ hres]
  | ok r =>
    exfalso
    rw [split_path_eq_spec _ _ _ _ h1] at hres
    obtain ⟨hm, rest', segs, hp, hs, -, -, -⟩ := lemma_spec_ok _ _ _ _ _ hres
    injection hp with _ hp; subst hp
    unfold specSegs at hs
    simp only [Bool.false_eq_true, if_false] at hs
    split at hs
    · omega
    · split at hs
      · rename_i hc; rcases h with h | h
        · omega
        · exact h.2 hc.2
      · simp at hs

/-- the tolerated trailing slash: `/a/b/` is split like `/a/b` when that fills all `maxsegs` entries -/
theorem split_path_trailing_slash (rest : List Char) (minsegs : Nat) (maxsegs : Option Nat) (h1 : 1 ≤ minsegs)
    (hlen : (splitAll '/' rest).length = effMax minsegs maxsegs) :
    splitPath ('/' :: (rest ++ ['/'])) minsegs maxsegs false = splitPath ('/' :: rest) minsegs maxsegs false := by
  rw [split_path_eq_spec _ _ _ _ h1, split_path_eq_spec _ _ _ _ h1]
  unfold splitPathSpec
  have e2 : specSegs (splitAll '/' rest) (effMax minsegs maxsegs) false = some (splitAll '/' rest) := by
    unfold specSegs; simp [hlen]
  have e1 : specSegs (splitAll '/' (rest ++ ['/'])) (effMax minsegs maxsegs) false = some (splitAll '/' rest) := by
    unfold specSegs; rw [splitAll_append_sep]; simp [hlen]
  simp only [↓reduceIte, e1, e2]

example : (splitAll '/' "a/b/c".toList).length = 3 ∧ effMax 1 (some 1) + 1 < 3 ∧
    (splitAll '/' "a/b".toList).length = effMax 2 none ∧
    splitPath "/a/b/".toList 2 none false = .ok [some ['a'], some ['b']] := by
  simp [splitPath, effMax, pySplit, consHead, slice, splitAll, finish]

example : splitPath "/a//c".toList 2 (some 3) false = .error .valueError ∧
    (splitAll '/' "a//c".toList)[1]? = some [] := by
  simp [splitPath, effMax, pySplit, consHead, slice, splitAll]

/-! ## split_by_commas -/

theorem lemma_isEnc_notab (item e : List Char) (he : IsEnc item e) (hok : okItem item = true) : '\t' ∉ e := by
  rcases he with he | ⟨he, -, -⟩
  · subst he; exact quote_notab item (okItem_notab item hok)
  · rw [he]; exact okItem_notab item hok

/-- **Round trip, any admissible quoting.**  For every non-empty list of items without TAB, LF, CR
    (a superset of printable ASCII; also non-ASCII text) and any way of writing each item that is either
    the double-quoted form with `\"` / `\\` escapes or — for a non-empty run of word characters — the
    item itself: splitting the comma-joined string returns exactly the items. -/
theorem split_commas_roundtrip_any_quoting (items : List (List Char)) (enc : List Char → List Char)
    (hne : items ≠ []) (hok : ∀ i ∈ items, okItem i = true) (henc : ∀ i ∈ items, IsEnc i (enc i)) :
    splitByCommas (joinSep ',' (items.map enc)) = .ok items := by
  unfold splitByCommas parseAll
  rw [expandTabs_notab _ _ (joinSep_notab _ (by
    intro e he; simp only [List.mem_map] at he
    obtain ⟨i, hi, rfl⟩ := he
    exact lemma_isEnc_notab i _ (henc i hi) (hok i hi)))]
  apply parseItems_join items enc henc hok hne
  have := joinSep_length (items.map enc)
  simpa using this

/-- **Round trip** (the property's encoder): items that are empty or contain anything but word
    characters — comma, quote, space, … — or a backslash are double-quoted with backslash escapes, the
    others are written as they are; `split_by_commas(",".join(...))` gives back the items. -/
theorem split_commas_roundtrip (items : List (List Char))
    (hne : items ≠ []) (hok : ∀ i ∈ items, okItem i = true) :
    splitByCommas (joinSep ',' (items.map quoteIfNeeded)) = .ok items :=
  split_commas_roundtrip_any_quoting items quoteIfNeeded hne hok (fun i _ => isEnc_quoteIfNeeded i)

/-- the same for the domain named in the property: item lists over printable ASCII -/
theorem split_commas_roundtrip_printable (items : List (List Char))
    (hne : items ≠ []) (hp : ∀ i ∈ items, ∀ c ∈ i, printable c = true) :
    splitByCommas (joinSep ',' (items.map quoteIfNeeded)) = .ok items :=
  split_commas_roundtrip items hne (fun i hi => by
    simp only [okItem, List.all_eq_true]
    exact fun c hc => printable_okChar c (hp i hi c hc))

/-- … and with every item quoted -/
theorem split_commas_roundtrip_all_quoted (items : List (List Char))
    (hne : items ≠ []) (hok : ∀ i ∈ items, okItem i = true) :
    splitByCommas (joinSep ',' (items.map quote)) = .ok items :=
  split_commas_roundtrip_any_quoting items quote hne hok (fun _ _ => Or.inl rfl)

example :
    let items : List (List Char) := [['a', ',', 'b'], [], ['c', '"', '\\'], ['d'], [' ']]
    items ≠ [] ∧ (∀ i ∈ items, ∀ c ∈ i, printable c = true) ∧
    joinSep ',' (items.map quoteIfNeeded) =
      ['"', 'a', ',', 'b', '"', ',', '"', '"', ',', '"', 'c', '\\', '"', '\\', '\\', '"', ',', 'd', ',', '"', ' ', '"'] := by
  decide

/-- a tail that fails whatever column it starts in still fails behind any well-formed prefix
    `item,item,…,` (the prefix contains no TAB, so `expandtabs` only acts on the tail) -/
theorem lemma_reject_wrap (pre : List (List Char)) (bad : List Char)
    (hok : ∀ i ∈ pre, okItem i = true)
    (hbad : ∀ col f, parseItems (f + 1) (expandTabs col bad) = .error .valueError) :
    splitByCommas (prefixStr pre ++ bad) = .error .valueError := by
  unfold splitByCommas parseAll
  rw [expandTabs_append, expandTabs_notab _ _ (prefixStr_notab pre hok)]
  have hbad' := hbad (colAfter 0 (prefixStr pre))
  generalize expandTabs (colAfter 0 (prefixStr pre)) bad = bad' at hbad' ⊢
  have hl := prefixStr_length pre
  have := parseItems_prefix_error pre bad' hok hbad' ((prefixStr pre ++ bad').length - pre.length)
  rw [show pre.length + ((prefixStr pre ++ bad').length - pre.length) + 1 = (prefixStr pre ++ bad').length + 1 by
    simp; omega] at this
  exact this

theorem lemma_unbalanced (body : List Char) (hb : noClosingQuote body = true) (f : Nat) :
    parseItems (f + 1) ('"' :: body) = .error .valueError := by
  simp only [parseItems]
  rw [skipWs_of_head _ (by intro c hc; simp at hc; subst hc; decide)]
  simp [parseItem, scanQuoted_noClosing body hb]

theorem lemma_text_after_item (item e ws : List Char) (c : Char) (rest : List Char)
    (hi : okItem item = true) (he : IsEnc item e)
    (hws : ∀ w ∈ ws, isWs w = true) (hc1 : isWs c = false) (hc2 : c ≠ ',')
    (hstop : e = item → ws = [] → isWordChar c = false) (f : Nat) :
    parseItems (f + 1) (e ++ (ws ++ c :: rest)) = .error .valueError := by
  have hst : e = item → Stops (ws ++ c :: rest) := by
    intro hei x hx
    cases ws with
    | nil => simp at hx; subst hx; exact hstop hei rfl
    | cons a t => simp at hx; subst hx; exact isWs_not_word _ (hws _ (by simp))
  simp only [parseItems]
  rw [skipWs_of_head _ (enc_head_not_ws item e he _), parseItem_enc item e _ he hi hst]
  simp only
  rw [skipWs_append ws (c :: rest) hws (by intro x hx; simp at hx; subst hx; exact hc1)]
  simp [hc2]

theorem lemma_empty_item (ws tail : List Char) (hws : ∀ w ∈ ws, isWs w = true)
    (htail : tail = [] ∨ ∃ r, tail = ',' :: r) (f : Nat) :
    parseItems (f + 1) (ws ++ tail) = .error .valueError := by
  simp only [parseItems]
  rcases htail with h | ⟨r, h⟩
  · subst h
    rw [skipWs_append ws [] hws (by simp)]
    simp [parseItem]
  · subst h
    rw [skipWs_append ws (',' :: r) hws (by intro x hx; simp at hx; subst hx; decide)]
    have : scanWord (',' :: r) = none := scanWord_none_of_not_word ',' r (by decide)
    simp [parseItem, this]

/-- **Unbalanced quotes.**  At an item position (start of the string or after `item,item,…,`), an
    opening quote that is never closed — reading on, every later `"` is escaped by a backslash — is
    rejected, whatever else the text contains. -/
theorem split_commas_rejects_unbalanced (pre : List (List Char)) (body : List Char)
    (hok : ∀ i ∈ pre, okItem i = true) (hb : noClosingQuote body = true) :
    splitByCommas (prefixStr pre ++ '"' :: body) = .error .valueError := by
  apply lemma_reject_wrap pre _ hok
  intro col f
  obtain ⟨col', hc⟩ := expandTabs_cons_nontab col '"' body (by decide)
  rw [hc]
  exact lemma_unbalanced _ (noClosingQuote_expandTabs col' body hb) f

/-- in particular an opening quote followed by any escaped text and no closing quote -/
theorem split_commas_rejects_unclosed (pre : List (List Char)) (content : List Char)
    (hok : ∀ i ∈ pre, okItem i = true) :
    splitByCommas (prefixStr pre ++ '"' :: escape content) = .error .valueError :=
  split_commas_rejects_unbalanced pre _ hok (noClosingQuote_escape content)

example : noClosingQuote ['a', '\\', '"', 'b', ',', '\t'] = true := by decide

/-- **Text after an item.**  After a complete item (either encoding) and optional whitespace, any
    character other than a comma is rejected: `"a"b`, `"a" "b"`, `a b`, `a"b"` (for a bare item directly
    followed by `c`, `c` must be a character that ends the word, e.g. a quote). -/
theorem split_commas_rejects_text_after_item (pre : List (List Char)) (item e ws : List Char) (c : Char)
    (rest : List Char) (hok : ∀ i ∈ pre, okItem i = true) (hi : okItem item = true) (he : IsEnc item e)
    (hws : ∀ w ∈ ws, isWs w = true) (hc1 : isWs c = false) (hc2 : c ≠ ',')
    (hstop : e = item → ws = [] → isWordChar c = false) :
    splitByCommas (prefixStr pre ++ (e ++ (ws ++ c :: rest))) = .error .valueError := by
  apply lemma_reject_wrap pre _ hok
  intro col f
  have hct : c ≠ '\t' := by intro h; subst h; revert hc1; decide
  rw [expandTabs_append, expandTabs_notab _ _ (lemma_isEnc_notab item e he hi), expandTabs_append]
  obtain ⟨col', hc⟩ := expandTabs_cons_nontab (colAfter (colAfter col e) ws) c rest hct
  rw [hc]
  exact lemma_text_after_item item e _ c _ hi he (expandTabs_ws _ ws hws) hc1 hc2
    (fun h1 h2 => hstop h1 (expandTabs_eq_nil _ _ h2)) f

/-- **Text after a closing quote** (the quoted case of the previous theorem, no side condition) -/
theorem split_commas_rejects_text_after_quote (pre : List (List Char)) (item ws : List Char) (c : Char)
    (rest : List Char) (hok : ∀ i ∈ pre, okItem i = true) (hi : okItem item = true)
    (hws : ∀ w ∈ ws, isWs w = true) (hc1 : isWs c = false) (hc2 : c ≠ ',') :
    splitByCommas (prefixStr pre ++ (quote item ++ (ws ++ c :: rest))) = .error .valueError := by
  refine split_commas_rejects_text_after_item pre item (quote item) ws c rest hok hi (Or.inl rfl) hws hc1 hc2 ?_
  intro h
  have : (quote item).length = item.length := by rw [h]
  simp [quote] at this
  have hl : item.length ≤ (escape item).length := by
    clear this h hi
    induction item with
    | nil => simp [escape]
    | cons a r ih => simp only [escape]; split <;> simp <;> omega
  omega

example : isWs 'b' = false ∧ 'b' ≠ ',' ∧ (∀ w ∈ [' ', '\t'], isWs w = true) ∧ okItem ['a', ' '] = true := by
  decide

/-- **Empty unquoted item.**  At an item position, optional whitespace followed by the end of the
    string or by a comma is rejected: the empty string, `,a`, `a,,b`, `a,`, `a, ,b`. -/
theorem split_commas_rejects_empty_item (pre : List (List Char)) (ws tail : List Char)
    (hok : ∀ i ∈ pre, okItem i = true) (hws : ∀ w ∈ ws, isWs w = true)
    (htail : tail = [] ∨ ∃ r, tail = ',' :: r) :
    splitByCommas (prefixStr pre ++ (ws ++ tail)) = .error .valueError := by
  apply lemma_reject_wrap pre _ hok
  intro col f
  rw [expandTabs_append]
  refine lemma_empty_item _ _ (expandTabs_ws _ ws hws) ?_ f
  rcases htail with h | ⟨r, h⟩
  · subst h; left; simp [expandTabs]
  · subst h; right
    obtain ⟨col', hc⟩ := expandTabs_cons_nontab (colAfter col ws) ',' r (by decide)
    exact ⟨_, hc⟩

/-- **Rejections** (the three classes of the property in one statement): behind any well-formed
    prefix `item,item,…,` (possibly empty), (1) an opening quote with no unescaped closing quote,
    (2) a quoted item followed — after optional whitespace — by anything but a comma, and (3) an empty
    unquoted item (end of string or a comma where an item must start) all raise ValueError. -/
theorem split_commas_rejects (pre : List (List Char)) (hok : ∀ i ∈ pre, okItem i = true) :
    (∀ body, noClosingQuote body = true →
      splitByCommas (prefixStr pre ++ '"' :: body) = .error .valueError) ∧
    (∀ item ws c rest, okItem item = true → (∀ w ∈ ws, isWs w = true) → isWs c = false → c ≠ ',' →
      splitByCommas (prefixStr pre ++ (quote item ++ (ws ++ c :: rest))) = .error .valueError) ∧
    (∀ ws tail, (∀ w ∈ ws, isWs w = true) → (tail = [] ∨ ∃ r, tail = ',' :: r) →
      splitByCommas (prefixStr pre ++ (ws ++ tail)) = .error .valueError) :=
  ⟨fun body hb => split_commas_rejects_unbalanced pre body hok hb,
   fun item ws c rest hi hws hc1 hc2 => split_commas_rejects_text_after_quote pre item ws c rest hok hi hws hc1 hc2,
   fun ws tail hws ht => split_commas_rejects_empty_item pre ws tail hok hws ht⟩

example : (∀ i ∈ [['a', ','], ['b']], okItem i = true) ∧
    prefixStr [['a', ','], ['b']] = ['"', 'a', ',', '"', ',', 'b', ','] := by decide

/-- every failure of `split_by_commas` is a ValueError: the parser's fuel (length of the input + 1)
    is never exhausted -/
theorem split_commas_fuel_sufficient (value : List Char) (e : Err)
    (h : splitByCommas value = .error e) : e = .valueError := by
  unfold splitByCommas parseAll at h
  have hf := parseItems_no_outOfFuel _ (expandTabs 0 value) (Nat.lt_succ_self _)
  have key : ∀ f s e, parseItems f s = .error e → e = .valueError ∨ e = .outOfFuel := by
    intro f
    induction f with
    | zero => intro s e h; simp [parseItems] at h; exact Or.inr h.symm
    | succ f ih =>
      intro s e h
      simp only [parseItems] at h
      split at h
      · injection h with h; exact Or.inl h.symm
      · split at h
        · simp at h
        · split at h
          · cases hr : parseItems f _ with
            | ok l => rw [hr] at h; simp at h
            | error e' => rw [hr] at h; injection h with h; subst h; exact ih _ _ hr
          · injection h with h; exact Or.inl h.symm
  rcases key _ _ _ h with h' | h'
  · exact h'
  · subst h'; exact absurd h hf

end Oslo.Split
