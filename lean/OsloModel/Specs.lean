/-
Model of oslo_utils.specs_matcher (specs_matcher.py:22-201): the pyparsing grammar of
`make_grammar` as a hand parser, `match`, and the `op_methods` table.

Text is `List Char`.  The operator literals, their order, the keys of `op_methods`, pyparsing's
whitespace set and the code points rejected by the atom regex `\S+` come from
`Generated/C18.lean` (extracted from the live module on every run).

What pyparsing does with this grammar (pyparsing 3.x, observed and reproduced here):
* every `Literal`/`Regex` first skips pyparsing whitespace (space, tab, LF, CR), then matches at
  that position; `Regex(r"\S+")` takes the maximal run of characters that are not `\s`
  (29 code points; a `\s` character that is not pyparsing whitespace, e.g. form feed, is neither
  skipped nor matched);
* `a | b | …` (MatchFirst) takes the first alternative that matches - no longest match, no
  backtracking into an alternative once a later element of the sequence fails;
* `~(ops) + Regex` : an atom may not *start* (after whitespace) with an operator literal;
* `OneOrMore(e)` matches `e` as often as it can (at least once);
* `parseString(spec)` without `parseAll` parses a *prefix*: trailing text is ignored;
* the parse action of the disjunction replaces the tokens by `["<or>"] + t[1::2]`.

Numbers are exact rationals (`Rat`); binary64 rounding/overflow is not modelled (the
correspondence keeps numeric literals within 15 significant digits, where comparison of the
doubles equals comparison of the rationals).  `ast.literal_eval` is modelled on string/number
literals and flat lists of them; everything else is the explicit outcome `unmodelled`.
-/
import OsloModel.Generated.C18
namespace Oslo.Specs

abbrev Str := List Char

/-! ### characters -/

/-- pyparsing whitespace (skipped before every literal / regex) -/
def isWhite (c : Char) : Bool := Gen.ppWhite.contains c.toNat
/-- `\s` for the atom regex -/
def isSpace (c : Char) : Bool := Gen.reSpace.contains c.toNat
/-- what `float()` strips from both ends -/
def isPySpace (c : Char) : Bool := Gen.pySpace.contains c.toNat

def skipWs (s : Str) : Str := s.dropWhile isWhite

/-! ### grammar elements (specs_matcher.py:141-170) -/

/-- `s.startswith(l)`: the remainder after `l`, if `s` starts with `l` -/
def stripPrefix : Str → Str → Option Str
  | [], s => some s
  | _ :: _, [] => none
  | c :: l, d :: s => if c = d then stripPrefix l s else none

/-- `pyparsing.Literal(l)` -/
def literal (l : Str) (s : Str) : Option Str := stripPrefix l (skipWs s)

/-- first literal of the list that is a prefix (input already at a non-whitespace position) -/
def firstLit : List Str → Str → Option (Str × Str)
  | [], _ => none
  | l :: ls, s =>
    match stripPrefix l s with
    | some r => some (l, r)
    | none => firstLit ls s

/-- `Literal(a) | Literal(b) | …` -/
def matchFirst (lits : List Str) (s : Str) : Option (Str × Str) := firstLit lits (skipWs s)

/-- `~(unary_ops | all_in_nary_op | or_ | range_in_binary_op)` fails: an operator literal is next -/
def startsWithOp (s : Str) : Bool := (matchFirst Gen.notLits s).isSome

/-- `pyparsing.Regex(r"\S+")` -/
def regexTok (s : Str) : Option (Str × Str) :=
  let t := skipWs s
  let tok := t.takeWhile (fun c => !isSpace c)
  if tok.isEmpty then none else some (tok, t.dropWhile (fun c => !isSpace c))

/-- `atom = ~(…) + Regex(r"\S+")` (line 158) -/
def atom (s : Str) : Option (Str × Str) :=
  if startsWithOp s then none else regexTok s

/-- zero or more atoms (tokens only); each atom consumes at least one character, so
    `fuel = |s|` is never exhausted before the input is -/
def atomsLoop : Nat → Str → List Str
  | 0, _ => []
  | n + 1, s =>
    match atom s with
    | none => []
    | some (a, r) => a :: atomsLoop n r

/-- zero or more `or_ + atom` (the atoms only, i.e. `t[1::2]`) -/
def orLoop : Nat → Str → List Str
  | 0, _ => []
  | n + 1, s =>
    match literal Gen.orLit s with
    | none => []
    | some r =>
      match atom r with
      | none => []
      | some (a, r') => a :: orLoop n r'

/-- the string put in front by the parse action (line 167) - a constant of the code, not the literal -/
def orTok : Str := ['<', 'o', 'r', '>']

/-- `disjunction = OneOrMore(or_ + atom)` with its parse action (lines 164-167) -/
def disjunction (s : Str) : Option (List Str) :=
  match orLoop s.length s with
  | [] => none
  | a :: as => some (orTok :: a :: as)

/-- `nary = all_in_nary_op + OneOrMore(atom)` (line 163) -/
def nary (s : Str) : Option (List Str) :=
  match literal Gen.allInLit s with
  | none => none
  | some r =>
    match atomsLoop r.length r with
    | [] => none
    | a :: as => some (Gen.allInLit :: a :: as)

/-- `range_op = range_in_binary_op + atom + atom + atom + atom` (line 162) -/
def rangeOp (s : Str) : Option (List Str) :=
  match literal Gen.rangeLit s with
  | none => none
  | some r0 =>
    match atom r0 with
    | none => none
    | some (a1, r1) =>
      match atom r1 with
      | none => none
      | some (a2, r2) =>
        match atom r2 with
        | none => none
        | some (a3, r3) =>
          match atom r3 with
          | none => none
          | some (a4, _) => some [Gen.rangeLit, a1, a2, a3, a4]

/-- `unary = unary_ops + atom` (line 161) -/
def unary (s : Str) : Option (List Str) :=
  match matchFirst Gen.unaryLits s with
  | none => none
  | some (op, r) =>
    match atom r with
    | none => none
    | some (a, _) => some [op, a]

/-- `expr = disjunction | nary | range_op | unary | atom` followed by `parseString(spec)`
    (prefix parse); `none` is `ParseException` -/
def parse (s : Str) : Option (List Str) :=
  match disjunction s with
  | some t => some t
  | none =>
    match nary s with
    | some t => some t
    | none =>
      match rangeOp s with
      | some t => some t
      | none =>
        match unary s with
        | some t => some t
        | none =>
          match atom s with
          | some (a, _) => some [a]
          | none => none

/-! ### numbers: `float(str)` -/

inductive PyNum
  | fin (q : Rat)
  | inf (neg : Bool)
  | nan
  deriving DecidableEq, Repr

inductive FloatRes
  | num (n : PyNum)
  | valueError
  | unmodelled          -- non-ASCII characters (Unicode digits are accepted by float())
  deriving DecidableEq, Repr

def isDigit (c : Char) : Bool := '0' ≤ c && c ≤ '9'
def digitVal (c : Char) : Nat := c.toNat - 48

/-- after a digit: `(["_"] digit)*`; returns the digit values and the rest -/
def digitsTail : Nat → Str → List Nat × Str
  | 0, s => ([], s)
  | _ + 1, [] => ([], [])
  | n + 1, c :: r =>
    if isDigit c then
      let p := digitsTail n r
      (digitVal c :: p.1, p.2)
    else if c = '_' then
      match r with
      | d :: r' =>
        if isDigit d then
          let p := digitsTail n r'
          (digitVal d :: p.1, p.2)
        else ([], c :: r)
      | [] => ([], c :: r)
    else ([], c :: r)

/-- `digitpart ::= digit (["_"] digit)*`, optional: `none` when the input does not start with a digit -/
def digitPart (s : Str) : Option (List Nat) × Str :=
  match s with
  | c :: r =>
    if isDigit c then
      let (ds, r') := digitsTail r.length r
      (some (digitVal c :: ds), r')
    else (none, s)
  | [] => (none, [])

def natOfDigits (ds : List Nat) : Nat := ds.foldl (fun acc d => acc * 10 + d) 0

/-- `[exponent]` then end of string -/
def withExponent (q : Rat) (s : Str) : Option Rat :=
  match s with
  | [] => some q
  | c :: r =>
    if c = 'e' ∨ c = 'E' then
      let (neg, r1) := match r with
        | '+' :: t => (false, t)
        | '-' :: t => (true, t)
        | _ => (false, r)
      match digitPart r1 with
      | (some ds, []) =>
        let e : Int := natOfDigits ds
        some (q * (10 : Rat) ^ (if neg then -e else e))
      | _ => none
    else none

/-- `floatnumber ::= ([digitpart] "." digitpart | digitpart ["."]) [exponent]`, whole string -/
def floatNumber (s : Str) : Option Rat :=
  let (ip, r1) := digitPart s
  match r1 with
  | '.' :: r2 =>
    let (fp, r3) := digitPart r2
    match ip, fp with
    | none, none => none
    | _, _ =>
      let i := natOfDigits (ip.getD [])
      let f := fp.getD []
      withExponent ((i : Rat) + (natOfDigits f : Rat) / (10 : Rat) ^ f.length) r3
  | _ =>
    match ip with
    | none => none
    | some ds => withExponent (natOfDigits ds : Rat) r1

def asciiLower (c : Char) : Char :=
  if 'A' ≤ c ∧ c ≤ 'Z' then Char.ofNat (c.toNat + 32) else c

def pyStrip (s : Str) : Str := ((s.dropWhile isPySpace).reverse.dropWhile isPySpace).reverse

/-- `float(s)` for a `str` -/
def pyFloat (s : Str) : FloatRes :=
  let t := pyStrip s
  if t.any (fun c => c.toNat ≥ 128) then .unmodelled else
  let (neg, u) := match t with
    | '+' :: r => (false, r)
    | '-' :: r => (true, r)
    | _ => (false, t)
  let lu := u.map asciiLower
  if lu = ['i', 'n', 'f'] ∨ lu = ['i', 'n', 'f', 'i', 'n', 'i', 't', 'y'] then .num (.inf neg)
  else if lu = ['n', 'a', 'n'] then .num .nan
  else match floatNumber u with
    | some q => .num (.fin (if neg then -q else q))
    | none => .valueError

/-- IEEE comparison; `none` when a NaN is involved -/
def PyNum.cmp : PyNum → PyNum → Option Ordering
  | .nan, _ => none
  | _, .nan => none
  | .fin a, .fin b => some (if a < b then .lt else if a = b then .eq else .gt)
  | .fin _, .inf neg => some (if neg then .gt else .lt)
  | .inf neg, .fin _ => some (if neg then .lt else .gt)
  | .inf n1, .inf n2 => some (if n1 = n2 then .eq else if n1 then .lt else .gt)

/-! ### `ast.literal_eval` on the modelled class -/

inductive Item
  | str (s : Str)
  | num (q : Rat)
  deriving DecidableEq, Repr

inductive LitVal
  | item (a : Item)
  | list (l : List Item)
  deriving DecidableEq, Repr

def isBlank (c : Char) : Bool := c = ' ' || c = '\t'
def skipBlank (s : Str) : Str := s.dropWhile isBlank

/-- characters allowed inside a modelled string literal -/
def plainChar (q : Char) (c : Char) : Bool :=
  c ≠ q && c ≠ '\\' && c.toNat ≥ 32 && c.toNat ≠ 127

/-- optional exponent of a float literal: `none` = malformed, `some (none, _)` = no exponent -/
def litExponent (s : Str) : Option (Option Int × Str) :=
  match s with
  | c :: r =>
    if c = 'e' ∨ c = 'E' then
      let (eneg, r1) := match r with
        | '+' :: t => (false, t)
        | '-' :: t => (true, t)
        | _ => (false, r)
      let d := r1.takeWhile isDigit
      if d.isEmpty then none                      -- "1e", "1e+": SyntaxError
      else
        let e : Int := natOfDigits (d.map digitVal)
        some (some (if eneg then -e else e), r1.dropWhile isDigit)
    else some (none, s)
  | [] => some (none, [])

/-- a number literal of Python source: optional sign, then an integer `0+ | [1-9][0-9]*` or a float
    `(digits "." digits? | "." digits | digits exponent)` with an optional exponent; `none` = not in
    the modelled class (this includes the forms Python rejects, e.g. integers with leading zeros, and
    the ones it accepts but the model does not: underscores, other bases, complex) -/
def numberLit (s : Str) : Option (Rat × Str) :=
  let (neg, u) := match s with
    | '+' :: r => (false, r)
    | '-' :: r => (true, r)
    | _ => (false, s)
  let d1 := u.takeWhile isDigit
  let r1 := u.dropWhile isDigit
  let sign (q : Rat) : Rat := if neg then -q else q
  match r1 with
  | '.' :: r2 =>
    let d2 := r2.takeWhile isDigit
    let r3 := r2.dropWhile isDigit
    if d1.isEmpty && d2.isEmpty then none
    else
      let m : Rat := (natOfDigits (d1.map digitVal) : Rat)
                     + (natOfDigits (d2.map digitVal) : Rat) / (10 : Rat) ^ d2.length
      match litExponent r3 with
      | none => none
      | some (none, r4) => some (sign m, r4)
      | some (some e, r4) => some (sign (m * (10 : Rat) ^ e), r4)
  | _ =>
    if d1.isEmpty then none
    else
      let m : Rat := (natOfDigits (d1.map digitVal) : Rat)
      match litExponent r1 with
      | none => none
      | some (some e, r4) => some (sign (m * (10 : Rat) ^ e), r4)   -- a float literal: leading zeros allowed
      | some (none, r4) =>
        if d1.length > 4300 then none          -- int literal beyond sys.get_int_max_str_digits()
        else if d1.head? = some '0' && d1.any (· ≠ '0') then none   -- leading zeros: SyntaxError
        else some (sign m, r4)

/-- one list item / top-level literal: a quoted string without escapes, or a number -/
def itemLit (s : Str) : Option (Item × Str) :=
  match s with
  | q :: r =>
    if q = '\'' ∨ q = '"' then
      let body := r.takeWhile (plainChar q)
      match r.dropWhile (plainChar q) with
      | q' :: r' => if q' = q then some (.str body, r') else none
      | [] => none
    else (numberLit s).map (fun (v, r) => (.num v, r))
  | [] => none

/-- the items after `[` (blanks skipped): `]` | item (`,` item)* [`,`] `]` -/
def listItems : Nat → Str → Option (List Item × Str)
  | 0, _ => none
  | n + 1, s =>
    match skipBlank s with
    | ']' :: r => some ([], r)
    | s1 =>
      match itemLit s1 with
      | none => none
      | some (it, r) =>
        match skipBlank r with
        | ']' :: r' => some ([it], r')
        | ',' :: r' => (listItems n r').map (fun (its, r'') => (it :: its, r''))
        | _ => none

/-- `ast.literal_eval(s)` where the model knows the answer -/
def pyLiteral (s : Str) : Option LitVal :=
  let s0 := skipBlank s
  let res : Option (LitVal × Str) :=
    match s0 with
    | '[' :: r => (listItems (r.length + 1) r).map (fun (its, r') => (.list its, r'))
    | _ => (itemLit s0).map (fun (it, r') => (.item it, r'))
  match res with
  | some (v, r) => if (skipBlank r).isEmpty then some v else none
  | none => none

/-! ### the operator table (specs_matcher.py:22-87) -/

inductive Err
  | valueError | typeError | keyError | indexError
  deriving DecidableEq, Repr

inductive Outcome
  | ok (b : Bool)
  | err (e : Err)
  | unmodelled
  deriving DecidableEq, Repr

inductive NumOp | ge | ne | le | lt | eq | gt
  deriving DecidableEq, Repr
inductive StrOp | ne | lt | le | eq | gt | ge
  deriving DecidableEq, Repr
inductive OpKind
  | num (o : NumOp) | str (o : StrOp) | allIn | isIn | or | rangeIn
  deriving DecidableEq, Repr

/-- `op_methods` (lines 62-87), in dict order -/
def opTable : List (Str × OpKind) := [
  (['='], .num .ge),
  (['!', '='], .num .ne),
  (['<', '='], .num .le),
  (['<'], .num .lt),
  (['=', '='], .num .eq),
  (['>', '='], .num .ge),
  (['>'], .num .gt),
  (['s', '!', '='], .str .ne),
  (['s', '<'], .str .lt),
  (['s', '<', '='], .str .le),
  (['s', '=', '='], .str .eq),
  (['s', '>'], .str .gt),
  (['s', '>', '='], .str .ge),
  (['<', 'a', 'l', 'l', '-', 'i', 'n', '>'], .allIn),
  (['<', 'i', 'n', '>'], .isIn),
  (['<', 'o', 'r', '>'], .or),
  (['<', 'r', 'a', 'n', 'g', 'e', '-', 'i', 'n', '>'], .rangeIn)]

/-- the comparison of two floats -/
def NumOp.sem (o : NumOp) (a b : PyNum) : Bool :=
  match o, a.cmp b with
  | .ge, some .gt => true | .ge, some .eq => true
  | .le, some .lt => true | .le, some .eq => true
  | .lt, some .lt => true
  | .gt, some .gt => true
  | .eq, some .eq => true
  | .ne, some .eq => false | .ne, _ => true
  | _, _ => false

/-- `float(x) <op> float(y)` on two strings -/
def numCmp (o : NumOp) (x y : Str) : Outcome :=
  match pyFloat x with
  | .unmodelled => .unmodelled
  | .valueError => .err .valueError
  | .num a =>
    match pyFloat y with
    | .unmodelled => .unmodelled
    | .valueError => .err .valueError
    | .num b => .ok (o.sem a b)

/-- Python `str` order: lexicographic by code point -/
def strLt : Str → Str → Bool
  | [], [] => false
  | [], _ :: _ => true
  | _ :: _, [] => false
  | a :: as, b :: bs => if a.toNat < b.toNat then true else if a = b then strLt as bs else false

def StrOp.sem (o : StrOp) (x y : Str) : Bool :=
  match o with
  | .ne => x != y
  | .lt => strLt x y
  | .le => strLt x y || x == y
  | .eq => x == y
  | .gt => strLt y x
  | .ge => strLt y x || x == y

def isPrefix : Str → Str → Bool
  | [], _ => true
  | _ :: _, [] => false
  | a :: as, b :: bs => a == b && isPrefix as bs

/-- `y in x` for two strings -/
def isInfix (y : Str) : Str → Bool
  | [] => y.isEmpty
  | c :: x => isPrefix y (c :: x) || isInfix y x

/-- `float(x)` for the result of `literal_eval` in `_range_in` (line 36); `none` is the
    `TypeError` of `float(list)` -/
def litFloat (x : LitVal) : Option FloatRes :=
  match x with
  | .item (.num q) => some (.num (.fin q))
  | .item (.str s) => some (pyFloat s)
  | .list _ => none

/-- `_range_in(x, *y)` (lines 30-59), evaluation order kept -/
def rangeIn (x : Str) (y : List Str) : Outcome :=
  match pyLiteral x with
  | none => .unmodelled
  | some lx =>
    match y with
    | [lb, lo, hi, rb] =>
      match litFloat lx with
      | none => .err .typeError
      | some .unmodelled => .unmodelled
      | some .valueError => .err .valueError
      | some (.num nx) =>
        match pyFloat lo with
        | .unmodelled => .unmodelled
        | .valueError => .err .valueError
        | .num ny =>
          match pyFloat hi with
          | .unmodelled => .unmodelled
          | .valueError => .err .valueError
          | .num nz =>
            if NumOp.gt.sem ny nz then .err .typeError
            else
              let lower : Option Bool :=
                if lb = ['['] then some (NumOp.ge.sem nx ny)
                else if lb = ['('] then some (NumOp.gt.sem nx ny)
                else none
              match lower with
              | none => .err .typeError
              | some lower =>
                let upper : Option Bool :=
                  if rb = [']'] then some (NumOp.le.sem nx nz)
                  else if rb = [')'] then some (NumOp.lt.sem nx nz)
                  else none
                match upper with
                | none => .err .typeError
                | some upper => .ok (lower && upper)
    | _ => .err .typeError

/-- `_all_in(x, *y)` (lines 22-27) -/
def allIn (x : Str) (y : List Str) : Outcome :=
  match pyLiteral x with
  | none => .unmodelled
  | some (.item _) => .err .typeError
  | some (.list items) => .ok (y.all (fun val => items.contains (.str val)))

/-- `compare_func(cmp_value, *tree[1:])` -/
def applyOp (k : OpKind) (v : Str) (args : List Str) : Outcome :=
  match k with
  | .num o =>
    match args with
    | [y] => numCmp o v y
    | _ => .err .typeError
  | .str o =>
    match args with
    | [y] => .ok (o.sem v y)
    | _ => .err .typeError
  | .isIn =>
    match args with
    | [y] => .ok (isInfix y v)
    | _ => .err .typeError
  | .or => .ok (args.any (fun a => v == a))
  | .allIn => allIn v args
  | .rangeIn => rangeIn v args

/-- lines 195-201 on a token list -/
def evalTokens (v : Str) (tree : List Str) : Outcome :=
  match tree with
  | [] => .err .indexError
  | [t] => .ok (t == v)
  | op :: args =>
    match opTable.lookup op with
    | none => .err .keyError
    | some k => applyOp k v args

/-- `match(cmp_value, spec)` (lines 173-201) for two strings -/
def matchSpec (v spec : Str) : Outcome :=
  match parse spec with
  | some tree => evalTokens v tree
  | none => evalTokens v [spec]

end Oslo.Specs
