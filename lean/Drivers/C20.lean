import OsloModel.Proto
import OsloModel.File
open Oslo Oslo.File Oslo.Proto

def showExc : Exc → String
  | .osError none => "OSError:N"
  | .osError (some e) => s!"OSError:{e}"
  | .valueError => "ValueError"
  | .other t => s!"Other:{t}"
  | .fuelExhausted => "FuelExhausted"

def parseExc (s : String) : Option Exc :=
  match s.splitOn ":" with
  | ["os", "N"] => some (.osError none)
  | ["os", e] => e.toInt?.map (fun v => .osError (some v))
  | ["val"] => some .valueError
  | ["other", t] => t.toNat?.map .other
  | _ => none

/-- `ok` or an exception -/
def parseOutcome (s : String) : Option (Except Exc Unit) :=
  if s = "ok" then some (.ok ()) else (parseExc s).map .error

def showRes : Except Exc Unit → String
  | .ok () => "returned"
  | .error e => "raised " ++ showExc e

def parseBool (s : String) : Option Bool :=
  if s = "1" then some true else if s = "0" then some false else none

/-- N = None, D = the default of the signature, else an int -/
def parseChunk (s : String) : Option (Option Int) :=
  if s = "N" then some none
  else if s = "D" then some (some Gen.defaultChunk)
  else s.toInt?.map some

/-- run-length encode (input newest-first; output oldest-first) -/
def rle (revLens : List Nat) : List (Nat × Nat) :=
  revLens.foldl (fun acc l =>
    match acc with
    | (v, c) :: rest => if v = l then (v, c + 1) :: rest else (l, 1) :: acc
    | [] => [(l, 1)]) []

def showRle (r : List (Nat × Nat)) : String :=
  if r.isEmpty then "-" else String.intercalate "," (r.map fun (v, c) => s!"{v}x{c}")

def parseState (s : String) : Option PathState :=
  if s = "missing" then some .missing else if s = "dir" then some .dir
  else if s = "file" then some .file else none

def showState : PathState → String
  | .missing => "missing" | .dir => "dir" | .file => "file"

def handle : List String → String
  | ["sum", algok, file, css] =>
    -- one content, a comma-separated list of chunk-size arguments; replies joined by ';'
    let content : Option (Option Bytes) := if file = "X" then some none else (unhex file).map some
    match parseBool algok, content, (css.splitOn ",").mapM parseChunk with
    | some algok, some content, some css =>
      -- the hash object records the toy hash and the length of every chunk it is fed
      let upd : Toy × List Nat → Bytes → Toy × List Nat :=
        fun (t, ls) c => (toyUpdate t c, c.length :: ls)
      String.intercalate ";" (css.map fun cs =>
        match computeChecksum upd id (toyInit, []) algok content cs with
        | .ok (t, ls) => s!"ok lens={showRle (rle ls)} toy={t.h}:{t.len}"
        | .error e => "err " ++ showExc e)
    | _, _, _ => "bad-request"
  | ["last", content, num, fault] =>
    let fault : Option (Option Exc) := if fault = "-" then some none else (parseExc fault).map some
    match unhex content, num.toInt?, fault with
    | some content, some num, some fault =>
      match lastBytes content num fault with
      | .ok (data, unread) => s!"ok {hex data} {unread}"
      | .error e => "err " ++ showExc e
    | _, _, _ => "bad-request"
  | ["ensure", outcome, isdir] =>
    match parseOutcome outcome, parseBool isdir with
    | some o, some d => showRes (ensureTree o d)
    | _, _ => "bad-request"
  | ["delete", outcome] =>
    match parseOutcome outcome with
    | some o => showRes (deleteIfExists o)
    | none => "bad-request"
  | ["rpoe", body, outcome] =>
    let body : Option (Option Exc) := if body = "none" then some none else (parseExc body).map some
    match body, parseOutcome outcome with
    | some b, some o =>
      match removePathOnError b o with
      | .ok () => "returned"
      | .error (.body e) => "raised " ++ showExc e ++ " [body]"
      | .error (.fromRemove e) => "raised " ++ showExc e
    | _, _ => "bad-request"
  | ["tmp", content, truthy, ens, mk, wr] =>
    -- wr: "ok" (everything transferred), "short:<n>" (n bytes transferred) or an exception
    let parseWrite (c : Bytes) (w : String) : Option (Except Exc Nat) :=
      if w = "ok" then some (.ok c.length)
      else match w.splitOn ":" with
        | ["short", n] => n.toNat?.map .ok
        | _ => (parseExc w).map .error
    match unhex content, parseBool truthy, parseOutcome ens, parseOutcome mk with
    | some c, some t, some e, some m =>
      match parseWrite c wr with
      | some w =>
        let o := writeToTempfile c t e m w
        let file := match o.file with | none => "none" | some f => hex f
        s!"{showRes o.result} ensure={if o.ensureCalled then 1 else 0} file={file} closed={if o.fdClosed then 1 else 0}"
      | none => "bad-request"
    | _, _, _, _ => "bad-request"
  | ["fs_ensure", st] =>
    match parseState st with
    | some st =>
      let (r1, s1) := ensureTreeFS st
      let (r2, s2) := ensureTreeFS s1
      s!"{showRes r1}|{showState s1}|{showRes r2}|{showState s2}"
    | none => "bad-request"
  | ["fs_delete", st] =>
    match parseState st with
    | some st =>
      let (r1, s1) := deleteIfExistsFS st
      let (r2, s2) := deleteIfExistsFS s1
      s!"{showRes r1}|{showState s1}|{showRes r2}|{showState s2}"
    | none => "bad-request"
  | _ => "bad-request"

def main : IO Unit := serve handle
