#!/bin/sh
# Build the Lean project (models, drivers, proofs) from files on disk. Offline.
here="$(cd "$(dirname "$0")" && pwd)"
exec /venv/bin/python "$here/harness/setup.py"
