"""C06 - InspectWrapper is a transparent pipe that isolates inspector faults."""
import io
import itertools

import common
import gen_insp
import images
import insp_gen_b as G
import insp_impl
from common import Disagreement, Failure

ID = 'C06'
DRIVER = 'drv_insp'
DRIVER_ROOT = 'Drivers.Insp'
PROOF_MODULES = ['OsloProofs.Props.C06']
LEVEL = 'proof'
RULE = ('source streams of few chunks (zeros, random bytes, clean images of the small formats, VMDK with a bad version / '
        'misplaced descriptor / text descriptor, streams with empty chunks, the empty stream; <= 6 chunks quick, <= 12 '
        'thorough) x fault plans: every single fault (inspector, index of its feed) exhaustively x every '
        'expected_format (each of the ten names, none), multiple faults sampled (2-5 faults, several inspectors, '
        'the expected one included), a bounded family of allowed_formats, file-like (read) and iterator (next) '
        'sources; plus genuine parser errors raised by crafted content (VHDX bad region signature / region count / '
        'metadata signature on >= 256 KiB streams, VMDK bad version and descriptor location) with and without '
        'injected faults; the public interface used in every legal way of the pinned signatures - InspectWrapper(source, '
        'expected_format=None, allowed_formats=None) with each optional argument positional / keyword / omitted / '
        'keywords permuted, read(size) positional or by keyword with sizes None / -1 / -2 / 0 mixed with positive '
        'ones on io.BytesIO and real files, iteration by next(), for, break-and-resume, iter() twice, next() after '
        'StopIteration, close() twice; expected_format / allowed_formats passed as plain str or as (str, Enum) members, str '
        'subclasses, subclasses with their own __str__/__repr__/__format__; the exception type of a fault varied over 18 classes (struct.error, ImageFormatError, OSError, '
        'plain Exception subclasses ...) and its shape over 12 (no / empty / several / non-string / None / bytes '
        'arguments, arguments or classes whose str()/repr() raise, a 300 kB message), with the module logger silent '
        'or at DEBUG with a handler, raised in front of eat_chunk or from post_process inside it; faults inside '
        'the complete / format_match properties; and clean images of every format read with zero-length reads in mid-stream and further '
        'reads after EOF, with expected_format = that format / raw / none. Compared: length and adler32 of the bytes returned, number of chunks returned, how the '
        'stream ended, per-inspector feed log and errored marks (for the chunk on which the stream was cut off only '
        'the order-independent part). A case is non-trivial when at least one fault fired or the stream was cut '
        'off; distinct by (content digest, chunk sizes, faults, expected_format, allowed_formats, source kind)')
TRUSTED_BASE = [
    'Lean 4 kernel; axioms audited per theorem (subset of propext, Classical.choice, Quot.sound)',
    'hand-written model OsloModel/Wrapper.lean (processLoop, processChunk, pipe, finish) generic in the inspectors, '
    'instantiated in the driver with the model inspectors plus a fault oracle (faultOps in Drivers/Insp.lean), tied '
    'to InspectWrapper._process_chunk / read / __next__ / close by this correspondence',
    'fault injection wraps the bound eat_chunk of each real inspector in the harness process (no source change); an '
    'injected fault raises before the real eat_chunk runs',
    '`_inspectors` is a set: the model iterates in ALL_FORMATS order and the theorems quantify over every order; the '
    'correspondence compares only what does not depend on the order',
]
UNMODELLED = [
    'which of the other inspectors see the chunk on which the expected inspector aborts the stream (set order)',
    'BaseException subclasses that are not Exception (KeyboardInterrupt, SystemExit) raised inside an inspector',
    'the source object itself (read() sizes honoured, iterator protocol) and log output',
]
ASSUMPTIONS = [
    'the source returns the bytes it holds, in order; a file-like source returns exactly the requested number of '
    'bytes until exhausted',
]


def generate():
    gen_insp.generate()


def plan_cases(ctx):
    """(label, data, read ops, allowed, expected, faults, iterator, debug logging on, name kind, usage)"""
    rng = ctx.rng
    quick = ctx.quick
    streams = G.c06_streams(rng, quick)
    out = []
    exps = [None] + G.ALLF
    exhaustive = streams
    for label, data, sizes in exhaustive:
        nch = len(sizes)
        for name in G.ALLF:
            for k in range(nch):
                for e in exps:
                    out.append((label, data, sizes, None, e, [(name, k)], rng.random() < 0.5))
        for e in exps:                       # no fault at all
            out.append((label, data, sizes, None, e, [], rng.random() < 0.5))
    # restricted allowed_formats
    for label, data, sizes in streams:
        nch = len(sizes)
        for al in G.C06_ALLOWED[1:]:
            for _ in range(6 if quick else 25):
                e = rng.choice([None, rng.choice(al), rng.choice(al), rng.choice(G.ALLF)])
                fl = [(rng.choice(al + [rng.choice(G.ALLF)]), rng.randrange(max(1, nch)))
                      for _ in range(rng.choice([0, 1, 1, 2]))]
                out.append((label, data, sizes, al, e, fl, rng.random() < 0.5))
    # multiple faults
    for _ in range(500 if quick else 10000):
        label, data, sizes = rng.choice(streams)
        nch = len(sizes)
        e = rng.choice(exps)
        names = rng.sample(G.ALLF, rng.randint(1, 4))
        if e and rng.random() < 0.5:
            names.append(e)
        fl = sorted({(rng.choice(names), rng.randrange(max(1, nch))) for _ in range(rng.randint(2, 5))})
        out.append((label, data, sizes, rng.choice([None, None, None] + G.C06_ALLOWED[1:]), e, fl, rng.random() < 0.5))
    # the exception TYPE of the fault (struct.error, ValueError, KeyError, IndexError, ImageFormatError, OSError,
    # plain Exception subclasses ...) x expected / non-expected inspector x chunk index; raised in front of
    # eat_chunk or from post_process in the middle of it
    typed = streams[:8] if quick else streams
    for label, data, sizes in typed:
        nch = len(sizes)
        for tname in G.EXC_TYPES:
            for where in ('eat', 'post'):
                for _ in range(2 if quick else 6):
                    name = rng.choice(G.ALLF)
                    e = rng.choice([None, name, name, rng.choice(G.ALLF)])
                    out.append((label, data, sizes, None, e, [(name, rng.randrange(nch), '%s:%s' % (where, tname))],
                                rng.random() < 0.5))
    for _ in range(300 if quick else 4000):
        label, data, sizes = rng.choice(streams)
        nch = max(1, len(sizes))
        e = rng.choice(exps)
        fl = sorted({(rng.choice(G.ALLF + ([e] if e else [])), rng.randrange(nch),
                      '%s:%s' % (rng.choice(['eat', 'post']), rng.choice(G.EXC_TYPES)))
                     for _ in range(rng.randint(1, 4))})
        if len({(n, k) for n, k, _ in fl}) == len(fl):
            out.append((label, data, sizes, rng.choice([None, None] + G.C06_ALLOWED[1:]), e, fl, rng.random() < 0.5))
    # the SHAPE of the exception object (no arguments, empty / several / non-string / None / bytes arguments,
    # arguments or classes whose str() / repr() raise, very long message) x type x expected or not x the module
    # logger silent or at DEBUG with a handler attached (log arguments are formatted lazily)
    for label, data, sizes in typed:
        nch = len(sizes)
        for shape in G.EXC_SHAPES:
            for tname in (rng.sample(G.EXC_TYPES, 4) if quick else G.EXC_TYPES):
                for log in (False, True):
                    name = rng.choice(G.ALLF)
                    e = rng.choice([None, None, name, rng.choice(G.ALLF)])
                    where = rng.choice(['eat', 'eat', 'post'])
                    out.append((label, data, sizes, None, e,
                                [(name, rng.randrange(nch), '%s:%s/%s' % (where, tname, shape))],
                                rng.random() < 0.5, log))
    # faults inside the `complete` / `format_match` properties of inspectors other than the expected one: the
    # model's processLoop never evaluates them, so they must be invisible (qcow2's format_match is read by its
    # own region_complete inside eat_chunk, which makes it an eat_chunk fault: left to the search)
    for label, data, sizes in typed:
        nch = len(sizes)
        for name in G.ALLF:
            for prop in ('complete', 'format_match'):
                if (name, prop) == ('qcow2', 'format_match'):
                    continue
                for _ in range(1 if quick else 3):
                    e = rng.choice([x for x in exps if x != name])
                    fl = [(name, rng.randrange(nch), prop)]
                    if rng.random() < 0.4:
                        other = rng.choice([x for x in G.ALLF if x != name])
                        fl.append((other, rng.randrange(nch), 'eat:' + rng.choice(G.EXC_TYPES)))
                    out.append((label, data, sizes, None, e, fl, rng.random() < 0.5))
    # content that matches the expected format, zero-length reads in mid-stream, reads after EOF
    for f, label, data, sizes in G.c06_matching(rng, quick):
        others = [x for x in G.ALLF if x != f]
        for e in (f, 'raw', None):
            out.append((label, data, sizes, None, e, [], False))
            out.append((label, data, sizes, rng.choice([None, [f, 'raw']]), e,
                        [(rng.choice(others), rng.randrange(len(sizes)))], False))
        out.append((label, data, sizes, None, f, [], True))
    # genuine parser errors on long streams
    for label, data, sizes in G.c06_big_streams(rng, quick):
        nch = len(sizes)
        plans = [(None, []), ('vhdx', []), ('qcow2', []), ('vhdx', [('vhdx', nch - 1)]), (None, [('vhdx', 0)]),
                 ('vhdx', [('iso', 0), ('raw', 1)]), ('vmdk', [])]
        for e, fl in (plans[:4] if quick else plans):
            out.append((label, data, sizes, None if quick else rng.choice([None, ['vhdx', 'raw', 'iso']]), e, fl,
                        rng.random() < 0.5))
    # last element: is the module logger at DEBUG with a handler attached? (a fifth of the older cases too)
    out = [c if len(c) == 8 else c + (rng.random() < 0.2,) for c in out]
    # ... and how expected_format / allowed_formats entries are passed: plain str, or an unusual but legal str
    # ((str, Enum) member, str subclass, subclass with its own __str__ / __repr__ / __format__) - same outcome
    out = [c + (rng.choice(['str', 'str', 'str'] + list(G.NAME_KINDS[1:])) if (c[4] or c[3]) else 'str',) for c in out]
    # ... and how the public interface is used: constructor call form (every legal positional / keyword / omitted
    # mixture of the pinned signature), read(size) by keyword, io.BytesIO or a real file, read sizes None / -1 /
    # -2 / 0 mixed in, the iteration protocol (next, for, break and resume, iter() twice), close() twice
    res = []
    for c in out:
        label, data, sizes, al, e, fl, it, log, nk = c
        uu = G.pick_usage(rng, e, al, iterator=it, p_plain=0.55)
        if not it and uu != G.DEFAULT_USAGE and rng.random() < 0.6:
            sizes = G.vary_ops(sizes, len(data), rng, uu['source'])
        res.append((label, data, sizes, al, e, fl, it, log, nk, uu))
    return res


def show_fault(f):
    n, k, kind = G.norm_fault(f)
    return '%s@%d' % (n, k) + ('' if kind == 'eat:RuntimeError' else '[%s]' % kind)


def case_of(label, data, sizes, allowed, expected, faults, iterator, must_complete=False, log=False, names='str', u=None):
    c = {'label': label, 'content': insp_impl.content_field(data), 'sizes': list(sizes), 'allowed': allowed,
         'expected': expected, 'faults': [list(f) for f in faults], 'iterator': bool(iterator)}
    if must_complete:
        c['must_complete'] = True
    if log:
        c['debug_logging'] = True
    if names != 'str':
        c['names'] = names
    if u and G.usage(u) != G.DEFAULT_USAGE:
        c['usage'] = G.usage(u)
    return c


def correspondence(ctx):
    cases = G.thin(ctx, plan_cases(ctx))
    lines = [G.fault_req(al, e, data, sizes, fl) for _, data, sizes, al, e, fl, _it, _log, _nk, _u in cases]
    replies = G.ask_par(ctx.driver, lines)
    out = []
    for (label, data, sizes, al, e, fl, it, log, nk, uu), rep in zip(cases, replies):
        ctx.evaluations += 1
        ctx.count('names-as/' + nk)
        plain = uu == G.DEFAULT_USAGE and all(isinstance(x, int) and x >= 0 for x in sizes)
        ctx.count('ctor-form/' + str(uu['form']))
        if it:
            ctx.count('iteration/' + uu['proto'])
        else:
            ctx.count('source/' + uu['source'])
            if any(x is None or x < 0 for x in sizes):
                ctx.count('read-sizes/with-None-or-negative')
        ctx.count('logger/' + ('debug+handler' if log else 'silent'))
        if plain and all(len(f) == 2 for f in fl):
            try:
                with G.debug_logging(log):
                    impl, info = insp_impl.run_fault(G.as_names(nk, al), G.as_name(nk, e), data, sizes, fl, iterator=it)
            except Exception as ex:
                impl, info = 'ESCAPED:%s' % type(ex).__name__, {'end': 'escaped', 'errored': ()}
        else:       # typed / shaped / post_process / property faults: the instrumented runner, rendered the same way
            try:
                with G.debug_logging(log):
                    t = G.pipe_trace(al, e, data, sizes, fl, it, name_kind=nk, u=uu)
                impl = G.render_trace(t)
                if t.get('close_escaped') is not None:
                    impl += '\tclose-raised:' + type(t['close_escaped']).__name__
            except G.CallFormError as ex:
                t, impl = {'errored': ()}, 'CALL-FORM-REJECTED: %s' % ex
            except Exception as ex:
                t, impl = {'errored': ()}, 'ESCAPED:%s' % type(ex).__name__
            info = {'end': impl.split('end=')[1].split('\t')[0] if 'end=' in impl else 'rejected', 'errored': t['errored']}
            for f in fl:
                if len(f) < 3:
                    continue
                ctx.count('fault-kind/' + f[2].split(':')[0])
                if ':' in f[2]:
                    ctx.count('fault-type/' + f[2].split(':')[1].split('/')[0])
                    ctx.count('fault-shape/' + (f[2].split('/')[1] if '/' in f[2] else 'one'))
        ci, cm = G.canon_fault(impl, e), G.canon_fault(rep, e)
        ctx.count('corr/' + ('iterator' if it else 'file-like'))
        ctx.count('end/' + info['end'])
        ctx.count('faults/%d' % min(len(fl), 3))
        ctx.count('expected/' + ('none' if not e else 'given'))
        if info['errored'] or info['end'] != 'done':
            ctx.nontrivial((G.digest(data), tuple(sizes), tuple(fl), e, tuple(al or ()), it, log, nk, str(sorted(uu.items()))))
        if ctx.evaluations % 331 == 1:
            ctx.sample({'stream': label, 'chunk_sizes': sizes, 'expected_format': e, 'allowed_formats': al,
                        'faults': [show_fault(f) for f in fl], 'source': 'iterator' if it else 'file-like',
                        'implementation': ci.replace('\t', ' | ')}, 8)
        if ci != cm:
            out.append(Disagreement(case_of(label, data, sizes, al, e, fl, it, log=log, names=nk, u=uu), ci, cm))
    ctx.exhaustive = True
    return out


# --------------------------------------------------------------------------
# failing-input search: the property on the implementation only

def oracle(allowed, expected, data, sizes, faults, iterator, must_complete=False, log=False, names='str', u=None):
    """`must_complete`: the content matches the expected format and no fault is planned for that inspector,
    so the reader must get every byte and no exception"""
    F = G.fi()
    try:
        with G.debug_logging(log):
            t = G.pipe_trace(allowed, expected, data, sizes, faults, iterator, name_kind=names, u=u)
    except G.CallFormError as ex:
        return str(ex)
    except Exception as ex:       # nothing the implementation does may take the harness down: it is judged instead
        return '%s escaped while the wrapper was being constructed or driven' % type(ex).__name__
    if t.get('close_escaped') is not None:
        return 'close() let %s escape' % type(t['close_escaped']).__name__
    if set(t['names']) - (set(allowed) if allowed else set(G.ALLF)):
        return 'inspectors outside allowed_formats are being fed: %s' % sorted(set(t['names']) - set(allowed or G.ALLF))
    chunks, out, (end, exc), ev = t['chunks'], t['out'], t['end'], t['events']
    m = len(out)
    if t['fed_after_finish']:
        name, k = t['fed_after_finish'][0]
        return ('the wrapper finished inspector %s while the stream was still being read and fed it chunk %d '
                'afterwards%s' % (name, k, '' if end == 'done' else ' (%s reached the reader)' % type(exc).__name__))
    # transparent pipe: the reader gets exactly the source's chunks, in order
    for k, (a, b) in enumerate(zip(out, chunks)):
        if a != b:
            return 'chunk %d handed to the reader differs from what the source returned (%d bytes instead of %d%s)' % (
                k, len(a), len(b), '' if iterator else ', read size %r' % (list(sizes)[k],))
    if b''.join(out) != data[:sum(len(c) for c in chunks[:m])]:
        return 'bytes out differ from bytes in'
    if must_complete and (end != 'done' or b''.join(out) != data[:sum(len(c) for c in chunks)]):
        return ('content matches expected_format=%s and that inspector has no fault, but the stream ended with %s '
                'after %d of %d reads' % (expected, type(exc).__name__ if exc is not None else end, m, len(sizes)))
    if end == 'extra-item':
        return 'the wrapper yielded more items than the source'
    present = expected in t['names'] if expected else False
    # when would the expected inspector cut the stream off?
    abort = None
    if present:
        for (k, res, comp, match) in ev[expected]:
            if res != 'ok':
                abort = (k, 'own-error', res)
                break
            if isinstance(comp, Exception):          # its `complete` property failed
                abort = (k, 'own-error', comp)
                break
            if isinstance(match, Exception):         # its `format_match` property failed
                abort = (k, 'own-error', match)
                break
            if comp and not match:
                abort = (k, 'mismatch', None)
                break
    if end == 'done':
        if m != len(chunks):
            return 'stream ended after %d of %d chunks without an error' % (m, len(chunks))
        if abort is not None and abort[0] < len(chunks):
            return ('the %s inspector %s on chunk %d but the stream was not cut off'
                    % (expected, 'failed' if abort[1] == 'own-error' else 'was complete without matching', abort[0]))
    else:
        if not present:
            return '%s reached the reader on chunk %d although no expected format is being inspected' \
                % (type(exc).__name__, m)
        if abort is None:
            return '%s reached the reader on chunk %d but the %s inspector neither failed nor was complete-and-unmatched' \
                % (type(exc).__name__, m, expected)
        if abort[0] != m:
            return 'stream cut off at chunk %d, the %s inspector first %s on chunk %d' % (
                m, expected, 'failed' if abort[1] == 'own-error' else 'mismatched', abort[0])
        if abort[1] == 'own-error' and exc is not abort[2]:
            return 'the %s inspector failed with %s but the reader got %s' % (
                expected, type(abort[2]).__name__, type(exc).__name__)
        if abort[1] == 'mismatch' and not isinstance(exc, F.ImageFormatError):
            return 'complete-without-match of %s surfaced as %s, not ImageFormatError' % (expected, type(exc).__name__)
        # no further source data consumed
        want = (m + 1) if iterator else sum(len(c) for c in chunks[:m + 1])
        if t['consumed'] != want:
            return 'after the cut-off at chunk %d the source had been consumed up to %s (expected %s)' % (
                m, t['consumed'], want)
    # fault isolation: an inspector that failed is never fed again; healthy ones see every chunk
    last = m if end == 'done' else m + 1          # chunks that entered _process_chunk
    for name, evs in ev.items():
        idx = [k for (k, _r, _c, _m) in evs]
        if idx != sorted(set(idx)):
            return 'inspector %s was fed chunk(s) out of order or twice: %s' % (name, idx)
        failed_at = [k for (k, r, _c, _m) in evs if r != 'ok']
        if failed_at and idx[-1] != failed_at[0]:
            return 'inspector %s failed on chunk %d and was fed again on chunk %d' % (name, failed_at[0], idx[-1])
        if failed_at and name != expected and name not in t['errored'] and not (end != 'done' and failed_at[0] == m):
            return 'inspector %s failed on chunk %d but is not marked as errored' % (name, failed_at[0])
        upto = failed_at[0] + 1 if failed_at else last
        want = list(range(upto))
        if end != 'done' and name != expected:
            # on the cut-off chunk an inspector may or may not have been reached (set order)
            if idx != want and idx != [k for k in want if k != m]:
                return 'inspector %s saw chunks %s, expected %s' % (name, idx, want)
        elif idx != want:
            return 'inspector %s saw chunks %s, expected %s' % (name, idx, want)
    return None


def search(ctx, seeds, full=False):
    rng = ctx.rng
    fails = []
    kinds = {}

    def run(label, data, sizes, al, e, fl, it, mc=False, log=False, names=None, u=None):
        ctx.evaluations += 1
        fl = [tuple(f) for f in fl]
        if names is None:       # how expected_format / allowed_formats are passed: mostly plain, sometimes a str subclass
            names = 'str' if not (e or al) or rng.random() < 0.6 else rng.choice(G.NAME_KINDS[1:])
        if u is None:           # how the public interface is used (call form, read sizes, source, iteration protocol)
            u = G.pick_usage(rng, e, al, iterator=it, p_plain=0.5)
            if not it and u != G.DEFAULT_USAGE and rng.random() < 0.6:
                sizes = G.vary_ops(sizes, len(data), rng, u['source'])
        why = oracle(al, e, data, sizes, fl, it, mc, log, names, u)
        if why and names != 'str' and oracle(al, e, data, sizes, fl, it, mc, log, 'str', u):
            names = 'str'
        if why and u != G.DEFAULT_USAGE:
            # which part of the usage matters? drop what does not
            for key in ('form', 'read_kw', 'source', 'proto', 'close_twice'):
                v = dict(u, **{key: G.DEFAULT_USAGE[key]})
                if v != u and oracle(al, e, data, sizes, fl, it, mc, log, names, v):
                    u = v
            plain = G.effective(len(data), sizes)
            if plain != list(sizes) and oracle(al, e, data, plain, fl, it, mc, log, names, u):
                sizes = plain
        if not why:
            return
        kind = ' '.join(w for w in why.split(' ') if not any(ch.isdigit() for ch in w))[:70]
        kinds[kind] = kinds.get(kind, 0) + 1
        if kinds[kind] > 2:
            return
        # shrink: fewer faults, then no allowed_formats restriction
        def still(sub):
            return oracle(al, e, data, sizes, sub, it, mc, log, names, u) is not None
        small = fl
        if len(fl) > 1:
            small = common.shrink_list(fl, still, max_steps=40)
        if fl and oracle(al, e, data, sizes, [], it, mc, log, names, u):
            small = []
        if log and oracle(al, e, data, sizes, small, it, mc, False, names, u):
            log = False
        fails.append(Failure(case_of(label, data, sizes, al, e, small, it, mc, log, names, u),
                             {'kind': kind, 'what': '%s: %s%s%s%s' % (
                                 label, oracle(al, e, data, sizes, small, it, mc, log, names, u),
                                 '' if u == G.DEFAULT_USAGE else ' [usage: %s; read ops %s]' % (
                                     ', '.join('%s=%s' % (k_, v_) for k_, v_ in sorted(u.items())
                                               if v_ != G.DEFAULT_USAGE.get(k_)), list(sizes)[:12]),
                                 ' [logger at DEBUG with a handler]' if log else '',
                                 '' if names == 'str' else ' [expected_format / allowed_formats passed as %s; with plain '
                                 'str the property holds]' % names)}))

    for s in seeds[:300]:
        run(s.get('label', 'seed'), G.decode_content(s['content']), s['sizes'], s.get('allowed'), s.get('expected'),
            s.get('faults', []), s.get('iterator', False), s.get('must_complete', False), s.get('debug_logging', False),
            s.get('names', 'str'), G.usage(s.get('usage')))
        if all(isinstance(x, int) and x >= 0 for x in s['sizes']):      # the other source kind, usage picked afresh
            run(s.get('label', 'seed'), G.decode_content(s['content']), s['sizes'], s.get('allowed'), s.get('expected'),
                s.get('faults', []), not s.get('iterator', False), s.get('must_complete', False),
                s.get('debug_logging', False), s.get('names', 'str'))
    streams = G.c06_streams(rng, ctx.quick)
    child = getattr(ctx, 'ambient', None) is not None       # an ambient-sweep child: about a third of the budget
    if child:
        head = streams[:2]
        streams = head + [x for x in G.thin(ctx, streams[2:])]
    exps = [None] + G.ALLF
    # matching content, zero-length reads in mid-stream and reads after EOF: every byte, no exception
    for f, label, data, sizes in G.c06_matching(rng, ctx.quick):
        others = [x for x in G.ALLF if x not in (f, 'raw')]
        for e in (f, 'raw', None):
            for fl in ([], [(rng.choice(others), rng.randrange(len(sizes)))]):
                for it in (False, True):
                    run(label, data, sizes, None, e, fl, it, True)
        if len(fails) >= 6:
            return fails[:6]
    # every exception type x raised in front of / in the middle of eat_chunk x expected or not; faults inside the
    # complete / format_match properties of every inspector (the expected one included: its own error)
    kinds_all = ['%s:%s' % (w_, t_) for w_ in ('eat', 'post') for t_ in G.EXC_TYPES] + ['complete', 'format_match']
    for label, data, sizes in (streams[:2 if child else 6] if ctx.quick and not full else streams):
        nch = len(sizes)
        for kind in kinds_all:
            for name in (G.ALLF if ':' not in kind else rng.sample(G.ALLF, 3)):
                k = rng.randrange(nch)
                for e in {None, name, rng.choice(G.ALLF)}:
                    run(label, data, sizes, None, e, [(name, k, kind)], rng.random() < 0.5)
        if len(fails) >= 6:
            return fails[:6]
    # every exception shape x a few types x expected none / that inspector / another x logger silent or at DEBUG
    for label, data, sizes in (streams[:2 if child else 4] if ctx.quick and not full else streams):
        nch = len(sizes)
        for shape in G.EXC_SHAPES:
            for tname in rng.sample(G.EXC_TYPES, 3 if ctx.quick else 8):
                name = rng.choice(G.ALLF)
                kind = '%s:%s/%s' % (rng.choice(['eat', 'eat', 'post']), tname, shape)
                for e in (None, name, rng.choice(G.ALLF)):
                    for log in (False, True):
                        run(label, data, sizes, None, e, [(name, rng.randrange(nch), kind)], rng.random() < 0.5, False, log)
        if len(fails) >= 6:
            return fails[:6]
    # every single fault x expected on a few streams, both source kinds
    for label, data, sizes in (streams[:2 if child else 5] if ctx.quick and not full else streams):
        for name in G.ALLF:
            for k in range(len(sizes)):
                for e in exps:
                    for it in (False, True):
                        run(label, data, sizes, None, e, [(name, k)], it)
        for e in exps:
            for it in (False, True):
                run(label, data, sizes, None, e, [], it)
        if len(fails) >= 6:
            return fails[:6]
    n = (3000 if full else 800) if ctx.quick else (30000 if full else 8000)
    if child:
        n //= 3
    for _ in range(n):
        label, data, sizes = rng.choice(streams)
        nch = max(1, len(sizes))
        e = rng.choice(exps)
        al = rng.choice([None, None] + G.C06_ALLOWED[1:])
        names = rng.sample(G.ALLF, rng.randint(1, 4)) + ([e] if e and rng.random() < 0.5 else [])
        fl = sorted({(rng.choice(names), rng.randrange(nch)) for _ in range(rng.randint(0, 5))})
        if rng.random() < 0.5:
            fl = [(n_, k_, rng.choice(kinds_all)) for n_, k_ in fl]
            fl = [(n_, k_, kd + '/' + rng.choice(G.EXC_SHAPES)) if ':' in kd and rng.random() < 0.5 else (n_, k_, kd)
                  for n_, k_, kd in fl]
        run(label, data, sizes, al, e, fl, rng.random() < 0.5, False, rng.random() < 0.3)
        if len(fails) >= 6:
            break
    for label, data, sizes in G.c06_big_streams(rng, True)[:4 if (full or not ctx.quick) else 2]:
        for e in (None, 'vhdx', 'raw'):
            run(label, data, sizes, None, e, [], rng.random() < 0.5)
    return fails[:6]


def replay(ctx, payload):
    case = payload.get('failure', {}).get('case') or payload.get('case')
    if not case:
        print('nothing to replay: this file names the obligation that no longer checks:')
        print(payload.get('no_longer_checks'))
        return 0
    data = G.decode_content(case['content'])
    fl = [tuple(f) for f in case.get('faults', [])]
    al, e, sizes, it = case.get('allowed'), case.get('expected'), case['sizes'], case.get('iterator', False)
    print('stream %s: %d bytes in chunks %s; expected_format=%s allowed_formats=%s faults=%s source=%s'
          % (case.get('label'), len(data), sizes, e, al, [show_fault(f) for f in fl], 'iterator' if it else 'file-like'))
    log = case.get('debug_logging', False)
    if log:
        print('module logger at DEBUG with a StreamHandler attached')
    nk = case.get('names', 'str')
    if nk != 'str':
        print('expected_format / allowed_formats passed as %s: %r' % (nk, G.as_name(nk, e)))
    uu = G.usage(case.get('usage'))
    if uu != G.DEFAULT_USAGE:
        print('usage: %s' % ', '.join('%s=%s' % kv for kv in sorted(uu.items()) if kv[1] != G.DEFAULT_USAGE.get(kv[0])))
        if uu['form']:
            print('       ' + G.render_call('InspectWrapper', [io.BytesIO(), e, al or None], uu['form']))
    try:
        with G.debug_logging(log):
            t = G.pipe_trace(al, e, data, sizes, fl, it, name_kind=nk, u=uu)
    except G.CallFormError as ex:
        print('implementation:', ex)
        return 1
    print('implementation:', G.canon_fault(G.render_trace(t), e).replace('\t', ' | '))
    if t['prop_reads']:
        print('                faulty properties read:', sorted(set((n, p_, k) for n, p_, k, _ in t['prop_reads']))[:8])
    try:
        model = ctx.driver.ask(G.fault_req(al, e, data, sizes, fl))
        print('model         :', G.canon_fault(model, e).replace('\t', ' | '))
    except ValueError as ve:
        print('model         : (%s)' % ve)
    why = oracle(al, e, data, sizes, fl, it, case.get('must_complete', False), log, nk, uu)
    print('property oracle on the implementation:', why)
    return 1 if why else 0


LEVEL_TEXT = ('Machine-checked proof (Lean 4) over a model of InspectWrapper._process_chunk / read / __next__ / close '
              'that is generic in the inspectors (arbitrary fault oracle, arbitrary complete/match answers, arbitrary '
              'iteration order); see the theorem list in lean/OsloProofs/Props/C06.lean (transparent pipe, containment '
              'of non-expected faults, an errored inspector is never fed again, cut-off exactly at the first failing or '
              'complete-and-unmatched chunk of the expected inspector; without an expected format the pipe is total: every '
              'chunk of every source is delivered and the stream ends normally, pipe_total_without_expected). The model is tied to the code by an exhaustive '
              'single-fault / sampled multi-fault differential correspondence with in-process fault injection.')
LEVEL_NOTE = ('Trusted: Lean kernel; the hand model; the fault-injection harness (wraps bound eat_chunk / post_process and '
              'swaps in subclasses whose complete / format_match raise; exception types varied); which '
              'other inspectors see the cut-off chunk depends on set order and is compared order-independently.')
TECHNIQUE = 'Lean 4 theorems by induction over the chunk list + fault-injection correspondence + direct pipe oracle'
DESIGN_REF = 'DESIGN.md section 5, C06'
