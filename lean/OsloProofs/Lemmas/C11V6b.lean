/-
Helper lemmas for C11: what `inet_pton6` (model) answers on every text made of groups, at most one `::`
and an optional dotted-quad tail.
-/
import OsloProofs.Lemmas.C11V6
set_option linter.unusedSimpArgs false
set_option linter.unusedVariables false
namespace Oslo.Net

/-- close a goal made of nested arithmetic `if`s on both sides -/
macro "ifs_omega" : tactic =>
  `(tactic| ((repeat' split) <;> first | rfl | (exfalso; omega) | (simp_all; done) | (simp_all; omega)))

theorem lemma_snoc_cases {α} (l : List α) : l = [] ∨ ∃ l' b, l = l' ++ [b] := by
  rcases List.eq_nil_or_concat l with h | ⟨l', b, h⟩
  · exact Or.inl h
  · exact Or.inr ⟨l', b, by simpa [List.concat_eq_append] using h⟩

theorem lemma_finish6_none (done : List Nat) :
    finish6 done none = if done.length = 8 then some done else none := rfl

theorem lemma_finish6_some (D X : List Nat) :
    finish6 (D ++ X) (some D.length) =
      if D.length + X.length ≤ 7 then some (D ++ List.replicate (8 - (D.length + X.length)) 0 ++ X) else none := by
  unfold finish6
  simp only [List.length_append, List.take_left, List.drop_left]
  ifs_omega

/-- groups only -/
theorem lemma_pton6_full (ts : List (List Char)) (h : ∀ t ∈ ts, IsGroup t) :
    pton6 (joinSep ':' ts) = if ts.length = 8 then some (ts.map groupVal) else none := by
  rcases lemma_snoc_cases ts with rfl | ⟨pre, t, rfl⟩
  · simp [joinSep, pton6]
  · rw [lemma_pton6_groups_last pre t (fun x hx => h x (by simp [hx])) (h t (by simp)), lemma_finish6_none]
    simp only [List.length_append, List.length_map, List.length_cons, List.length_nil, List.map_append,
      List.map_cons, List.map_nil]
    ifs_omega

/-- groups, `::`, groups -/
theorem lemma_pton6_compressed (pre post : List (List Char)) (hp : ∀ t ∈ pre, IsGroup t)
    (hq : ∀ t ∈ post, IsGroup t) :
    pton6 (joinSep ':' pre ++ ':' :: ':' :: joinSep ':' post) =
      if pre.length + post.length ≤ 7 then
        some (pre.map groupVal ++ List.replicate (8 - (pre.length + post.length)) 0 ++ post.map groupVal)
      else none := by
  rw [lemma_pton6_pre_dcolon pre _ hp]
  have hlen : (pre.map groupVal).length = pre.length := by simp
  rcases lemma_snoc_cases post with rfl | ⟨post', t, rfl⟩
  · simp only [joinSep, lemma_go6_nil, List.length_nil, Nat.add_zero, List.map_nil, List.append_nil]
    have := lemma_finish6_some (pre.map groupVal) []
    simp only [List.append_nil, hlen, List.length_nil, Nat.add_zero] at this
    rw [this]
    ifs_omega
  · have ht := hq t (by simp)
    have hq' : ∀ x ∈ post', IsGroup x := fun x hx => hq x (by simp [hx])
    obtain ⟨c0, r0, ht0, _⟩ := lemma_group_head t ht
    by_cases h8 : pre.length ≤ 8
    · rw [if_pos h8, lemma_join_snoc, lemma_go6_groups post' t _ _ hq' (by rw [ht0]; simp) (by simpa using h8)]
      simp only [hlen, List.length_append, List.length_cons, List.length_nil, List.map_append, List.map_cons,
        List.map_nil]
      rw [lemma_go6_group_end t _ _ ht]
      have := lemma_finish6_some (pre.map groupVal) (post'.map groupVal ++ [groupVal t])
      simp only [hlen, List.length_append, List.length_map, List.length_cons, List.length_nil,
        ← List.append_assoc] at this ⊢
      rw [this]
      ifs_omega
    · rw [if_neg h8, if_neg (by simp; omega)]

/-- groups and a dotted-quad tail -/
theorem lemma_pton6_v4_full (pre : List (List Char)) (a b c d : Nat) (hp : ∀ t ∈ pre, IsGroup t)
    (ha : a < 256) (hb : b < 256) (hc : c < 256) (hd : d < 256) (hne : pre ≠ []) :
    pton6 (joinSep ':' (pre ++ [renderQuad a b c d])) =
      if pre.length = 6 then some (pre.map groupVal ++ [a * 256 + b, c * 256 + d]) else none := by
  rw [lemma_join_snoc]
  have hqne : renderQuad a b c d ≠ [] := by
    unfold renderQuad renderOctet; split <;> simp
  match pre, hne, hp with
  | u :: pre', _, hp =>
    obtain ⟨c0, r, hu, hc0⟩ := lemma_group_head u (hp u (by simp))
    have e : withColons (u :: pre') ++ renderQuad a b c d
        = c0 :: (r ++ ':' :: (withColons pre' ++ renderQuad a b c d)) := by simp [withColons, hu]
    rw [e, lemma_pton6_hex_start c0 _ hc0, ← e, lemma_go6_groups _ _ [] none hp hqne (by simp)]
    simp only [List.length_nil, Nat.zero_add, List.nil_append]
    rw [lemma_go6_quad a b c d ha hb hc hd, lemma_finish6_none]
    simp only [List.length_map, List.length_append, List.length_cons, List.length_nil]
    ifs_omega

/-- groups, `::`, groups and a dotted-quad tail -/
theorem lemma_pton6_v4_compressed (pre post : List (List Char)) (a b c d : Nat) (hp : ∀ t ∈ pre, IsGroup t)
    (hq : ∀ t ∈ post, IsGroup t) (ha : a < 256) (hb : b < 256) (hc : c < 256) (hd : d < 256) :
    pton6 (joinSep ':' pre ++ ':' :: ':' :: joinSep ':' (post ++ [renderQuad a b c d])) =
      if pre.length + post.length ≤ 5 then
        some (pre.map groupVal ++ List.replicate (6 - (pre.length + post.length)) 0 ++
          (post.map groupVal ++ [a * 256 + b, c * 256 + d]))
      else none := by
  have hqne : renderQuad a b c d ≠ [] := by
    unfold renderQuad renderOctet; split <;> simp
  have hlen : (pre.map groupVal).length = pre.length := by simp
  rw [lemma_pton6_pre_dcolon pre _ hp, lemma_join_snoc]
  by_cases h8 : pre.length ≤ 8
  · rw [if_pos h8, lemma_go6_groups post _ _ _ hq hqne (by simpa using h8)]
    simp only [hlen]
    rw [lemma_go6_quad a b c d ha hb hc hd]
    have := lemma_finish6_some (pre.map groupVal) (post.map groupVal ++ [a * 256 + b, c * 256 + d])
    simp only [hlen, List.length_append, List.length_map, List.length_cons, List.length_nil,
      List.append_assoc] at this ⊢
    rw [this]
    by_cases h4 : pre.length + post.length ≤ 5
    · rw [if_pos h4, if_pos (by omega), if_pos (by omega), if_pos (by omega),
        show 8 - (pre.length + (post.length + (0 + 1 + 1))) = 6 - (pre.length + post.length) by omega]
    · rw [if_neg h4]
      ifs_omega
  · rw [if_neg h8, if_neg (by omega)]

end Oslo.Net
