import OsloModel.Proto
import OsloModel.Net
open Oslo Oslo.Net Oslo.Proto

def b (x : Bool) : String := if x then "1" else "0"

def showInt : Option Int → String
  | none => "E"
  | some v => toString v

/-- all validators on one str argument:
    `ipv4 ipv6 ip cidr cidr6 mac port icmp_type icmp_code int() ipv4(strict=False)` -/
def onStr (s : List Char) : String :=
  String.intercalate " " [
    b (isValidIPv4 s), b (isValidIPv6 s), b (isValidIP s), b (isValidCidr s),
    b (isValidIPv6Cidr s), b (isValidMac s), b (isValidPort (.str s)),
    b (isValidIcmpType (.str s)), b (isValidIcmpCode (.str s)), showInt (pyInt s),
    b (isValidIPv4Aton s)]

def onVal (v : PyVal) : String :=
  String.intercalate " " [b (isValidPort v), b (isValidIcmpType v), b (isValidIcmpCode v)]

def showGroups : Option (List Nat) → String
  | none => "E"
  | some g => String.intercalate "," (g.map toString)

def handle : List String → String
  | ["str", h] =>
    match unhexChars h with
    | some s => onStr s
    | none => "bad-request"
  | ["int", n] =>
    match n.toInt? with
    | some v => onVal (.int v)
    | none => "bad-request"
  | ["none"] => onVal .none
  -- white-box: the parsed value (octets / groups) of the two address parsers
  | ["parse", h] =>
    match unhexChars h with
    | some s => showGroups (pton4 s) ++ " " ++ showGroups (pton6 s)
    | none => "bad-request"
  | _ => "bad-request"

def main : IO Unit := serve handle
