import OsloModel.Proto
import OsloModel.Exc
open Oslo Oslo.Exc Oslo.Proto

/-
Request:  run <flag 0|1> <path absent|file|dir|lfile|ldir|dangling|loop> <excs> <body>
  excs : comma list, one `needsArgs:isExc:priorLen:cause:suppress` per declared exception id 0..n-1
         (class id = index; the initial traceback is `priorLen` frames O<priorLen-1>..O0; cause is N or
         a declared id; suppress 0|1 is `__suppress_context__`)
  body : prefix notation, tokens separated by one blank:
         nop | rc k | rn k | sr 0|1 | nest 0|1 B | fr 0|1 | cap | seq A B | h k B
         | fx form acc rais yes/no B | fc form acc rais yes/no k | rp d|n|w|r<k> B | rwc N|none|<k>
           yes/no: the objects the predicate returns for accepted / other ids: T F N o m i<int> s<len>
                 l<len> t<len> b0 b1 (object whose __bool__ is False / True)
           form: 0 function, 1 instance method, 2/3 classmethod via class/instance,
                 4/5 staticmethod via class/instance
         | nt 0|1 B LATE | hnt k 0|1 B LATE | ec B (with ctxt: B, the same object again) | sw B (try/except-pass)
         acc  = `-` or k,k,…      rais = `-` or k>k',…
Reply (blank separated):
  out=ok|R:<who> tb=<tags> cause=-|N|<who> log=-|<who>/<tags>@<S|I>;…  (S: the scenario's logger, I: the library's internal default logger) path=… ctx=<reraise>:<type>:<value>:<tags>
  tbs=<tags>|<tags>|…          (final traceback of every declared exception)
  chain=<cause>/<suppress>|…   (final __cause__ / __suppress_context__ of every declared exception)
-/

def parseBool : String → Option Bool
  | "0" => some false | "1" => some true | _ => none

def parseForm : String → Option FilterForm
  | "0" => some .func | "1" => some .method
  | "2" => some (.classMethod false) | "3" => some (.classMethod true)
  | "4" => some (.staticMethod false) | "5" => some (.staticMethod true)
  | _ => none

def parseVal (s : String) : Option PyVal :=
  match s.toList with
  | ['T'] => some (.bool true) | ['F'] => some (.bool false)
  | ['N'] => some .none | ['o'] => some .object | ['m'] => some .matchObj
  | 'i' :: r => (String.ofList r).toInt?.map .int
  | 's' :: r => (String.ofList r).toNat?.map .str
  | 'l' :: r => (String.ofList r).toNat?.map .list
  | 't' :: r => (String.ofList r).toNat?.map .tuple
  | ['b', '0'] => some (.custom false) | ['b', '1'] => some (.custom true)
  | _ => none

def parseStyle (s : String) : Option (PyVal × PyVal) :=
  match s.splitOn "/" with
  | [a, b] => do pure ((← parseVal a), (← parseVal b))
  | _ => none

def parseIds (s : String) : Option (List Nat) :=
  if s = "-" then some [] else (s.splitOn ",").mapM String.toNat?

def parsePairs (s : String) : Option (List (Nat × Nat)) :=
  if s = "-" then some [] else
  (s.splitOn ",").mapM fun p =>
    match p.splitOn ">" with
    | [a, b] => do pure ((← a.toNat?), (← b.toNat?))
    | _ => none

def parseRemove (s : String) : Option RemoveFn :=
  match s.toList with
  | ['d'] => some .default
  | ['n'] => some .noop
  | ['w'] => some .wrapped
  | 'r' :: rest => (String.ofList rest).toNat?.map .raises
  | _ => none

/-- one body from the front of the token list; `fuel` bounds the nesting -/
def parseBody : Nat → List String → Option (Body × List String)
  | 0, _ => none
  | fuel + 1, toks =>
    match toks with
    | "nop" :: r => some (.nop, r)
    | "cap" :: r => some (.capture, r)
    | "rc" :: k :: r => k.toNat?.map (fun k => (.raiseCatch k, r))
    | "rn" :: k :: r => k.toNat?.map (fun k => (.raiseNew k, r))
    | "sr" :: b :: r => (parseBool b).map (fun b => (.setReraise b, r))
    | "fr" :: b :: r => (parseBool b).map (fun b => (.forceReraise b, r))
    | "nest" :: b :: r => do
      let b ← parseBool b
      let (body, r) ← parseBody fuel r
      pure (.nest b body, r)
    | "seq" :: r => do
      let (a, r) ← parseBody fuel r
      let (b, r) ← parseBody fuel r
      pure (.seq a b, r)
    | "h" :: k :: r => do
      let k ← k.toNat?
      let (body, r) ← parseBody fuel r
      pure (.handle k body, r)
    | "fx" :: bound :: acc :: rais :: style :: r => do
      let bound ← parseForm bound
      let acc ← parseIds acc
      let rais ← parsePairs rais
      let (yes, no) ← parseStyle style
      let (body, r) ← parseBody fuel r
      pure (.filterCtx bound ⟨acc, rais, yes, no⟩ body, r)
    | "fc" :: bound :: acc :: rais :: style :: k :: r => do
      let bound ← parseForm bound
      let acc ← parseIds acc
      let rais ← parsePairs rais
      let (yes, no) ← parseStyle style
      let k ← k.toNat?
      pure (.filterCall bound ⟨acc, rais, yes, no⟩ k, r)
    | "rp" :: rm :: r => do
      let rm ← parseRemove rm
      let (body, r) ← parseBody fuel r
      pure (.rpoe rm body, r)
    | "nt" :: b :: r => do
      let b ← parseBool b
      let (body, r) ← parseBody fuel r
      let (late, r) ← parseBody fuel r
      pure (.nestThen b body late, r)
    | "hnt" :: k :: b :: r => do
      let k ← k.toNat?
      let b ← parseBool b
      let (body, r) ← parseBody fuel r
      let (late, r) ← parseBody fuel r
      pure (.handleNestThen k b body late, r)
    | "ec" :: r => do
      let (body, r) ← parseBody fuel r
      pure (.enterCur body, r)
    | "sw" :: r => do
      let (body, r) ← parseBody fuel r
      pure (.swallow body, r)
    | "rwc" :: x :: r =>
      if x = "N" then some (.rwc none, r)
      else if x = "none" then some (.rwc (some none), r)
      else x.toNat?.map (fun k => (.rwc (some (some k)), r))
    | _ => none

structure ExcSpec where
  needsArgs : Bool
  isExc : Bool
  prior : Nat
  cause : Option Nat
  suppress : Bool

def parseExc (s : String) : Option ExcSpec :=
  match s.splitOn ":" with
  | [a, b, n, c, sp] => do
    let cause ← if c = "N" then some none else c.toNat?.map some
    pure ⟨(← parseBool a), (← parseBool b), (← n.toNat?), cause, (← parseBool sp)⟩
  | _ => none

def parsePath : String → Option PathKind
  | "absent" => some .absent | "file" => some .file | "dir" => some .dir
  | "lfile" => some (.link .file) | "ldir" => some (.link .dir)
  | "dangling" => some (.link .missing) | "loop" => some (.link .loop)
  | _ => none

def priorTb (n : Nat) : Tb := (List.range n).reverse.map .prior

def showFrame : Frame → String
  | .scen => "S" | .sreExit => "X" | .sreForce => "F" | .sreCapture => "K"
  | .filtExit => "FE" | .filtCall => "C" | .pred => "P" | .rwc => "W"
  | .rpoeGen => "G" | .cmExit => "CM" | .delete => "D" | .removeFn => "R"
  | .prior n => s!"O{n}"

def showTb (t : Tb) : String := if t.isEmpty then "-" else String.intercalate "," (t.map showFrame)

def showCls : Cls → String
  | .user cid _ _ => s!"U{cid}" | .runtimeError => "RuntimeError" | .typeError => "TypeError"
  | .osError => "OSError" | .caused => "Caused"

def showWho (n : Nat) (h : Heap) (e : ExcId) : String :=
  if e < n then s!"E{e}" else "new:" ++ showCls (h.cls e)

def showOptWho (n : Nat) (h : Heap) : Option ExcId → String
  | none => "N" | some e => showWho n h e

def showPath : PathKind → String
  | .absent => "absent" | .file => "file" | .dir => "dir"
  | .link .file => "lfile" | .link .dir => "ldir" | .link .missing => "dangling" | .link .loop => "loop"

def showRes (n : Nat) (r : Res) : String :=
  let h := r.st.heap
  let out := match r.out with
    | .ok => "out=ok tb=- cause=-"
    | .raised e => s!"out=R:{showWho n h e} tb={showTb (h.tb e)} cause={showOptWho n h (h.cause e)}"
  let log := if r.st.log.isEmpty then "-" else
    String.intercalate ";" (r.st.log.map fun l =>
      s!"{showOptWho n h l.value}/{showTb l.tb}@{match l.sink with | .scenario => "S" | .library => "I"}")
  let ty := match r.ctx.type_ with
    | none => "N" | some c => showCls c
  let ctx := s!"{if r.ctx.reraise then 1 else 0}:{ty}:{showOptWho n h r.ctx.value}:{showTb r.ctx.tb}"
  let tbs := String.intercalate "|" ((List.range n).map fun i => showTb (h.tb i))
  let chain := String.intercalate "|" ((List.range n).map fun i =>
    s!"{showOptWho n h (h.cause i)}/{if h.suppress i then 1 else 0}")
  s!"{out} log={log} path={showPath r.st.path} ctx={ctx} tbs={tbs} chain={chain}"

def handle : List String → String
  | ["run", flag, path, excs, body] =>
    match parseBool flag, parsePath path, (excs.splitOn ",").mapM parseExc with
    | some flag, some path, some excs =>
      let toks := body.splitOn " "
      match parseBody (toks.length + 1) toks with
      | some (b, []) =>
        let n := excs.length
        if n = 0 ∨ b.maxId ≥ n ∨ excs.any (fun x => match x.cause with
            | some c => c ≥ n
            | none => false) then "bad-request" else
        let arr := excs.toArray
        -- ids below n are the declared exceptions; the two lookups below are never reached
        -- with i ≥ n before allocation (every id in the body was checked against n)
        let heap : Heap := {
          cls := fun i => match arr[i]? with
            | some x => .user i x.needsArgs x.isExc
            | none => .runtimeError
          tb := fun i => match arr[i]? with
            | some x => priorTb x.prior
            | none => []
          cause := fun i => match arr[i]? with
            | some x => x.cause
            | none => none
          suppress := fun i => match arr[i]? with
            | some x => x.suppress
            | none => false
          next := n }
        showRes n (run flag b ⟨heap, [], [], path⟩)
      | _ => "bad-request"
    | _, _, _ => "bad-request"
  | _ => "bad-request"

def main : IO Unit := serve handle
