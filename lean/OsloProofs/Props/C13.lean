/-
C13 — StopWatch obeys its state machine under every call sequence.

Property theorems only (helper lemmas that are not themselves part of the
property are marked `private`/`lemma_`-prefixed and live at the top).  Every
theorem quantifies over all clocks `c : Nat → Int`, all watches / all call
sequences `ops : List Op`, all durations.
-/
import OsloModel.StopWatch
namespace Oslo.StopWatch

/-- case-bash a watch into its 24 shapes (state x presence of the three optional fields) -/
macro "sw_cases" w:ident : tactic =>
  `(tactic| (obtain ⟨dur, sa, so, st, sps, rd⟩ := $w
             cases st <;> cases sa <;> cases so <;> cases dur))

/-! ### invariant of reachable watches -/

/-- the timestamps a state needs are present -/
def WF (w : Watch) : Prop :=
  (w.state = .started → w.startedAt.isSome) ∧
  (w.state = .stopped → w.startedAt.isSome ∧ w.stoppedAt.isSome)

theorem lemma_doStart_WF (c : Nat → Int) (w : Watch) (h : WF w) : WF (doStart c w) := by
  unfold doStart WF at *; split <;> simp_all

theorem lemma_doStop_WF (c : Nat → Int) (w : Watch) (h : WF w) : WF (doStop c w).1 := by
  unfold doStop WF at *; split <;> simp_all

theorem lemma_doElapsed_fields (c : Nat → Int) (w : Watch) (m : Option Int) :
    (doElapsed c w m).1 = w ∨ (doElapsed c w m).1 = { w with reads := w.reads + 1 } := by
  unfold doElapsed; repeat' split
  all_goals simp

theorem lemma_doElapsed_WF (c : Nat → Int) (w : Watch) (m : Option Int) (h : WF w) :
    WF (doElapsed c w m).1 := by
  rcases lemma_doElapsed_fields c w m with h1 | h1 <;> rw [h1] <;> simpa [WF] using h

theorem step_WF (c : Nat → Int) (w : Watch) (op : Op) (h : WF w) : WF (step c w op).1 := by
  sw_cases w <;> cases op <;> simp_all [step, doElapsed, doStop, doStart, WF]

theorem init_WF (d : Option Int) : WF (init d) := by simp [WF, init]

/-- every watch reachable from a fresh one by any call sequence is well formed -/
theorem exec_WF (c : Nat → Int) (d : Option Int) (ops : List Op) : WF (exec c (init d) ops) := by
  have : ∀ w, WF w → WF (exec c w ops) := by
    induction ops with
    | nil => intro w h; exact h
    | cons op ops ih => intro w h; exact ih _ (step_WF c w op h)
  exact this _ (init_WF d)

/-- the model's `TypeError` outcome (arithmetic on `None`) is unreachable -/
theorem reachable_no_typeError (c : Nat → Int) (w : Watch) (op : Op) (h : WF w) :
    (step c w op).2 ≠ .typeError := by
  sw_cases w <;> cases op <;> simp_all [step, doElapsed, doStop, doStart, WF, delta]
  all_goals (split <;> simp)

/-! ### elapsed -/

/-- elapsed time is never negative (whatever the clock does, whatever maximum is asked) -/
theorem elapsed_nonneg (c : Nat → Int) (w : Watch) (m : Option Int) (v : Int)
    (h : (step c w (.elapsed m)).2 = .num v) : 0 ≤ v := by
  sw_cases w <;> cases m <;> simp_all [step, doElapsed, delta] <;> omega

/-- while running, elapsed is the clock distance from the recorded start to now (clamped at 0) -/
theorem elapsed_running (c : Nat → Int) (w : Watch) (s : Int)
    (hs : w.state = .started) (ha : w.startedAt = some s) :
    (step c w (.elapsed none)).2 = .num (max 0 (c w.reads - s)) := by
  simp [step, doElapsed, delta, hs, ha]

/-- while stopped, elapsed is the distance from the recorded start to the stop instant -/
theorem elapsed_stopped (c : Nat → Int) (w : Watch) (s e : Int)
    (hs : w.state = .stopped) (ha : w.startedAt = some s) (hb : w.stoppedAt = some e) :
    (step c w (.elapsed none)).2 = .num (max 0 (e - s)) := by
  simp [step, doElapsed, delta, hs, ha, hb]

/-- a (re)start that takes effect records the clock reading made by that call … -/
theorem start_records_now (c : Nat → Int) (w : Watch) (h : w.state ≠ .started) :
    (step c w .start).1.startedAt = some (c w.reads) ∧ (step c w .start).1.state = .started := by
  simp [step, doStart, h]

theorem restart_records_now (c : Nat → Int) (w : Watch) :
    (step c w .restart).1.state = .started ∧
    (step c w .restart).1.startedAt =
      some (c (if w.state = .started then w.reads + 1 else w.reads)) := by
  cases hs : w.state <;> simp [step, doStart, doStop, hs]

/-- … a stop that takes effect records its own reading … -/
theorem stop_records_now (c : Nat → Int) (w : Watch) (h : w.state = .started) :
    (step c w .stop).1.stoppedAt = some (c w.reads) ∧ (step c w .stop).1.state = .stopped ∧
    (step c w .stop).1.startedAt = w.startedAt := by
  simp [step, doStop, h]

/-- … and nothing but an effective (re)start ever changes the recorded start instant,
    so "recorded start" in `elapsed_running`/`elapsed_stopped` is the last (re)start. -/
theorem startedAt_changed_only_by_start (c : Nat → Int) (w : Watch) (op : Op)
    (h : (step c w op).1.startedAt ≠ w.startedAt) :
    (op = .start ∨ op = .enter ∨ op = .restart) := by
  sw_cases w <;> cases op <;> simp_all [step, doElapsed, doStop, doStart]

/-- the recorded stop instant is changed only by an effective stop or cleared by a (re)start -/
theorem stoppedAt_changed_only_by_stop_or_start (c : Nat → Int) (w : Watch) (op : Op)
    (h : (step c w op).1.stoppedAt ≠ w.stoppedAt) :
    (op = .start ∨ op = .enter ∨ op = .restart ∨ op = .stop ∨ op = .exit) := by
  sw_cases w <;> cases op <;> simp_all [step, doElapsed, doStop, doStart]

/-- elapsed never exceeds a requested maximum (a negative maximum yields 0) -/
theorem elapsed_max (c : Nat → Int) (w : Watch) (m v : Int)
    (h : (step c w (.elapsed (some m))).2 = .num v) : v ≤ max 0 m := by
  sw_cases w <;> simp_all [step, doElapsed, delta] <;> omega

/-- … and equals the unclamped value whenever that does not exceed the maximum -/
theorem elapsed_max_exact (c : Nat → Int) (w : Watch) (m v : Int)
    (h : (step c w (.elapsed none)).2 = .num v) (hv : v ≤ m) :
    (step c w (.elapsed (some m))).2 = .num v := by
  sw_cases w <;> simp_all [step, doElapsed, delta] <;> omega

/-! ### leftover / expired -/

theorem leftover_eq (c : Nat → Int) (w : Watch) (d e : Int) (rn : Bool)
    (hs : w.state = .started) (hd : w.duration = some d)
    (he : (step c w (.elapsed none)).2 = .num e) :
    (step c w (.leftover rn)).2 = .num (max 0 (d - e)) := by
  sw_cases w <;> simp_all [step, doElapsed, delta]

theorem leftover_no_duration (c : Nat → Int) (w : Watch) (rn : Bool)
    (hs : w.state = .started) (hd : w.duration = none) :
    (step c w (.leftover rn)) = (w, if rn then .noneVal else .runtimeError) := by
  simp [step, hs, hd]

theorem expired_iff (c : Nat → Int) (w : Watch) (d e : Int)
    (hd : w.duration = some d)
    (he : (step c w (.elapsed none)).2 = .num e) :
    (step c w .expired).2 = .bool (decide (e > d)) := by
  sw_cases w <;> simp_all [step, doElapsed, delta]

theorem expired_no_duration (c : Nat → Int) (w : Watch)
    (hs : w.state ≠ .fresh) (hd : w.duration = none) :
    (step c w .expired) = (w, .bool false) := by
  simp [step, hs, hd]

/-! ### illegal calls -/

/-- every call that raises RuntimeError leaves the watch exactly as it was -/
theorem illegal_raises_unchanged (c : Nat → Int) (w : Watch) (op : Op)
    (h : (step c w op).2 = .runtimeError) : (step c w op).1 = w := by
  sw_cases w <;> cases op <;> simp_all [step, doElapsed, doStop, doStart, delta]

/-- which calls are illegal in which state (on reachable watches) -/
theorem illegal_iff (c : Nat → Int) (w : Watch) (op : Op) (hw : WF w) :
    (step c w op).2 = .runtimeError ↔
      (op = .stop ∧ w.state = .fresh) ∨
      (op = .resume ∧ w.state ≠ .stopped) ∨
      (op = .split ∧ w.state ≠ .started) ∨
      ((∃ m, op = .elapsed m) ∧ w.state = .fresh) ∨
      ((∃ rn, op = .leftover rn) ∧ w.state ≠ .started) ∨
      (op = .leftover false ∧ w.duration = none) ∨
      (op = .expired ∧ w.state = .fresh) := by
  sw_cases w <;> cases op <;> simp_all [step, doElapsed, doStop, doStart, WF]

/-! ### splits -/

/-- elapsed values non-decreasing from `prev`, each length the difference to its predecessor -/
def Chain (prev : Int) : List Split → Prop
  | [] => True
  | sp :: rest => prev ≤ sp.elapsed ∧ sp.length = sp.elapsed - prev ∧ Chain sp.elapsed rest

def lastElapsed (prev : Int) (l : List Split) : Int :=
  match l.getLast? with
  | some s => s.elapsed
  | none => prev

theorem lemma_chain_append (prev : Int) (l : List Split) (sp : Split) :
    Chain prev (l ++ [sp]) ↔
      Chain prev l ∧ lastElapsed prev l ≤ sp.elapsed ∧ sp.length = sp.elapsed - lastElapsed prev l := by
  induction l generalizing prev with
  | nil => simp [Chain, lastElapsed]
  | cons a l ih =>
    have hl : lastElapsed prev (a :: l) = lastElapsed a.elapsed l := by
      cases l with
      | nil => simp [lastElapsed]
      | cons b l =>
        simp only [lastElapsed, List.getLast?_cons_cons]
        cases h : (b :: l).getLast? with
        | none => simp at h
        | some x => rfl
    simp only [List.cons_append, Chain, ih, hl]
    constructor
    · rintro ⟨h1, h2, h3, h4, h5⟩; exact ⟨⟨h1, h2, h3⟩, h4, h5⟩
    · rintro ⟨⟨h1, h2, h3⟩, h4, h5⟩; exact ⟨h1, h2, h3, h4, h5⟩

def Monotone (c : Nat → Int) : Prop := ∀ i j, i ≤ j → c i ≤ c j

/-- invariant under a monotone clock: the splits form a chain from 0 and none of them
    exceeds what `elapsed` will report at any later clock read -/
def SplitsInv (c : Nat → Int) (w : Watch) : Prop :=
  Chain 0 w.splits ∧
  (w.splits ≠ [] → ∃ s, w.startedAt = some s ∧
      ∀ sp ∈ w.splits, ∀ r, w.reads ≤ r → sp.elapsed ≤ delta s (c r))

theorem lemma_inv_reads (c : Nat → Int) (w : Watch) (h : SplitsInv c w) :
    SplitsInv c { w with reads := w.reads + 1 } := by
  obtain ⟨h1, h2⟩ := h
  refine ⟨h1, fun hne => ?_⟩
  obtain ⟨s, hs, hall⟩ := h2 hne
  exact ⟨s, hs, fun sp hsp r hr => hall sp hsp r (by simp at hr; omega)⟩

theorem lemma_doElapsed_inv (c : Nat → Int) (w : Watch) (m : Option Int) (h : SplitsInv c w) :
    SplitsInv c (doElapsed c w m).1 := by
  rcases lemma_doElapsed_fields c w m with h1 | h1 <;> rw [h1]
  · exact h
  · exact lemma_inv_reads c w h

theorem lemma_doStart_inv (c : Nat → Int) (w : Watch) (h : SplitsInv c w) :
    SplitsInv c (doStart c w) := by
  unfold doStart; split
  · exact h
  · simp [SplitsInv, Chain]

theorem lemma_doStop_inv (c : Nat → Int) (w : Watch) (h : SplitsInv c w) :
    SplitsInv c (doStop c w).1 := by
  unfold doStop; split
  · exact h
  · have := lemma_inv_reads c w h
    obtain ⟨h1, h2⟩ := this
    exact ⟨h1, h2⟩
  · exact h

theorem step_splitsInv (c : Nat → Int) (hc : Monotone c) (w : Watch) (op : Op)
    (h : SplitsInv c w) : SplitsInv c (step c w op).1 := by
  cases op <;> simp only [step]
  case start => exact lemma_doStart_inv c w h
  case enter => exact lemma_doStart_inv c w h
  case stop => exact lemma_doStop_inv c w h
  case exit => exact lemma_doStop_inv c w h
  case resume =>
    split
    · obtain ⟨h1, h2⟩ := h; exact ⟨h1, h2⟩
    · exact h
  case restart =>
    apply lemma_doStart_inv; split
    · exact lemma_doStop_inv c w h
    · exact h
  case elapsed m => exact lemma_doElapsed_inv c w m h
  case leftover rn =>
    have := lemma_doElapsed_inv c w none h
    repeat' split
    all_goals simp_all
  case expired =>
    have := lemma_doElapsed_inv c w none h
    repeat' split
    all_goals simp_all
  case hasStarted => exact h
  case hasStopped => exact h
  case splits => exact h
  case split =>
    obtain ⟨dur, sa, so, st, sps, rd⟩ := w
    obtain ⟨h1, h2⟩ := h
    simp only at h1 h2
    by_cases hst : st = .started
    case neg => simpa [hst, SplitsInv] using ⟨h1, h2⟩
    subst hst
    cases sa with
    | none =>
      have : sps = [] := by
        by_cases hh : sps = []
        · exact hh
        · obtain ⟨s, hs, _⟩ := h2 hh; simp at hs
      subst this
      simp [doElapsed, SplitsInv, Chain]
    | some s =>
      have hlast : ∀ last, sps.getLast? = some last → last.elapsed ≤ delta s (c rd) := by
        intro last hl
        have hne : sps ≠ [] := by intro hh; simp [hh] at hl
        obtain ⟨s', hs', hall⟩ := h2 hne
        simp only [Option.some.injEq] at hs'
        subst hs'
        exact hall last (List.mem_of_getLast? hl) rd (Nat.le_refl _)
      simp only [doElapsed, if_true]
      refine ⟨?_, fun _ => ⟨s, rfl, ?_⟩⟩
      · show Chain 0 (sps ++ [_])
        rw [lemma_chain_append]
        refine ⟨h1, ?_, ?_⟩
        · cases hl : sps.getLast? with
          | none => simp only [lastElapsed, hl, delta]; omega
          | some last => simpa [lastElapsed, hl] using hlast last hl
        · cases hl : sps.getLast? with
          | none => simp [lastElapsed, hl]
          | some last =>
            have := hlast last hl
            simp only [lastElapsed, hl, delta] at this ⊢
            omega
      · intro sp hsp r hr
        simp only [List.mem_append, List.mem_singleton] at hsp
        simp only at hr
        rcases hsp with hsp | hsp
        · have hne : sps ≠ [] := List.ne_nil_of_mem hsp
          obtain ⟨s', hs', hall⟩ := h2 hne
          simp only [Option.some.injEq] at hs'
          subst hs'
          exact hall sp hsp r (by omega)
        · subst hsp
          have := hc rd r (by omega)
          simp only [delta]; omega

/-- **Splits** — after any call sequence under a monotone clock, the recorded splits have
    non-decreasing elapsed values (starting at ≥ 0) and each length is the difference to the
    previous split (the first one's length is its elapsed value). -/
theorem splits_chain (c : Nat → Int) (hc : Monotone c) (d : Option Int) (ops : List Op) :
    Chain 0 (exec c (init d) ops).splits := by
  have : ∀ w, SplitsInv c w → SplitsInv c (exec c w ops) := by
    induction ops with
    | nil => intro w h; exact h
    | cons op ops ih => intro w h; exact ih _ (step_splitsInv c hc w op h)
  exact (this _ (by simp [SplitsInv, init, Chain])).1

/-- a (re)start that takes effect clears the splits -/
theorem start_clears_splits (c : Nat → Int) (w : Watch) (h : w.state ≠ .started) :
    (step c w .start).1.splits = [] := by
  simp [step, doStart, h]

theorem restart_clears_splits (c : Nat → Int) (w : Watch) :
    (step c w .restart).1.splits = [] := by
  cases hs : w.state <;> simp [step, doStart, doStop, hs]

/-- only `split` adds a split and only an effective (re)start removes any -/
theorem splits_changed_only_by (c : Nat → Int) (w : Watch) (op : Op)
    (h : (step c w op).1.splits ≠ w.splits) :
    op = .start ∨ op = .enter ∨ op = .restart ∨ op = .split := by
  sw_cases w <;> cases op <;> simp_all [step, doElapsed, doStop, doStart]

/-! ### the context-manager protocol

`__exit__(type, value, tb)` is one operation of the model whatever exception is in flight: the
driver maps `exit:<ExceptionType>` to `.exit`, and the correspondence runs the real `__exit__`
with exceptions of several kinds (KeyboardInterrupt, SystemExit, GeneratorExit, Exception
subclasses, a custom BaseException). -/

/-- leaving the `with` block never raises, never leaves the watch running, and freezes the
    elapsed time at the exit instant when the watch was running -/
theorem exit_stops (c : Nat → Int) (w : Watch) :
    (step c w .exit).2 = .noneVal ∧ (step c w .exit).1.state ≠ .started ∧
    (w.state = .started → (step c w .exit).1.state = .stopped ∧
      (step c w .exit).1.stoppedAt = some (c w.reads)) ∧
    (w.state ≠ .started → (step c w .exit).1 = w) := by
  sw_cases w <;> simp_all [step, doStop]

/-- entering the `with` block is `start` -/
theorem enter_is_start (c : Nat → Int) (w : Watch) : step c w .enter = step c w .start := by
  simp [step]

/-! ### non-vacuity: a concrete reachable watch meeting the hypotheses above -/

example :
    let c : Nat → Int := fun i => 10 * i
    let w := exec c (init (some 25)) [.start, .split, .split, .stop, .resume, .split]
    w.state = .started ∧ w.startedAt = some 0 ∧ w.splits = [⟨10, 10⟩, ⟨20, 10⟩, ⟨40, 20⟩] ∧
    (step c w .expired).2 = .bool true ∧ (step c w (.leftover false)).2 = .num 0 := by
  decide

example : Monotone (fun i => (10 * i : Int)) := by
  intro i j h; simp; omega

end Oslo.StopWatch
