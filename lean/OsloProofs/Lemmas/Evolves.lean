/-
How post-processing may change the region table: existing regions stay as they are or are
stopped at what they hold, some disappear, new ones are empty and get fresh identities.
-/
import OsloProofs.Lemmas.Slice
namespace Oslo.Insp

/-- `x` is the region `y` unchanged, or (plain regions only) stopped at what it holds -/
def SameOrTrunc (y x : Region) : Prop :=
  x = y ∨ (y.isEnd = false ∧ x = { y with length := y.data.length })

theorem lemma_sot_refl (y : Region) : SameOrTrunc y y := Or.inl rfl

theorem lemma_sot_trans {a b c : Region} (h1 : SameOrTrunc a b) (h2 : SameOrTrunc b c) : SameOrTrunc a c := by
  rcases h1 with rfl | ⟨ha, rfl⟩
  · exact h2
  · rcases h2 with rfl | ⟨_, rfl⟩
    · exact Or.inr ⟨ha, rfl⟩
    · exact Or.inr ⟨ha, rfl⟩

theorem lemma_sot_rid {y x : Region} (h : SameOrTrunc y x) : x.rid = y.rid := by
  rcases h with rfl | ⟨_, rfl⟩ <;> rfl

theorem lemma_sot_data {y x : Region} (h : SameOrTrunc y x) : x.data = y.data := by
  rcases h with rfl | ⟨_, rfl⟩ <;> rfl

/-- all region identities are below the counter -/
def Bnd (s : Insp) : Prop := ∀ y ∈ s.regions, y.2.rid < s.nextRid

structure EvolvesC (s s' : Insp) : Prop where
  total : s'.total = s.total
  next : s.nextRid ≤ s'.nextRid
  old : ∀ x ∈ s'.regions, x.2.rid < s.nextRid → ∃ y ∈ s.regions, y.1 = x.1 ∧ SameOrTrunc y.2 x.2
  new : ∀ x ∈ s'.regions, s.nextRid ≤ x.2.rid → x.2.data = []
  bnd : Bnd s'

def Evolves (s s' : Insp) : Prop := Bnd s → EvolvesC s s'

theorem lemma_evolves_refl (s : Insp) : Evolves s s := fun hb =>
  ⟨rfl, Nat.le_refl _, fun x hx _ => ⟨x, hx, rfl, lemma_sot_refl _⟩,
   fun x hx h => absurd (hb x hx) (by omega), hb⟩

theorem lemma_evolves_trans {a b c : Insp} (h1 : Evolves a b) (h2 : Evolves b c) : Evolves a c := by
  intro hb
  have e1 := h1 hb
  have e2 := h2 e1.bnd
  refine ⟨e2.total.trans e1.total, Nat.le_trans e1.next e2.next, ?_, ?_, e2.bnd⟩
  · intro x hx hlt
    obtain ⟨y, hy, hn, hs⟩ := e2.old x hx (by have := e1.next; omega)
    have hyr : y.2.rid < a.nextRid := by rw [← lemma_sot_rid hs]; exact hlt
    obtain ⟨z, hz, hn2, hs2⟩ := e1.old y hy hyr
    exact ⟨z, hz, hn2.trans hn, lemma_sot_trans hs2 hs⟩
  · intro x hx hge
    by_cases hlt : x.2.rid < b.nextRid
    · obtain ⟨y, hy, _, hs⟩ := e2.old x hx hlt
      have : y.2.data = [] := e1.new y hy (by rw [← lemma_sot_rid hs]; exact hge)
      rw [lemma_sot_data hs, this]
    · exact e2.new x hx (by omega)

theorem lemma_evolves_new (s s' : Insp) (n : String) (off len : Nat) (ml : Option Nat) (isEnd : Bool)
    (h : s.newRegion n off len ml isEnd = .ok s') : Evolves s s' := by
  intro hb
  unfold Insp.newRegion at h
  split at h
  · simp at h
  · simp only [Except.ok.injEq] at h
    subst h
    refine ⟨rfl, by simp, ?_, ?_, ?_⟩
    · intro x hx hlt
      simp only [List.mem_append, List.mem_singleton] at hx
      rcases hx with hx | rfl
      · exact ⟨x, hx, rfl, lemma_sot_refl _⟩
      · simp at hlt
    · intro x hx hge
      simp only [List.mem_append, List.mem_singleton] at hx
      rcases hx with hx | rfl
      · exact absurd (hb x hx) (by omega)
      · rfl
    · intro x hx
      simp only [List.mem_append, List.mem_singleton] at hx
      rcases hx with hx | rfl
      · have := hb x hx; simp; omega
      · simp

theorem lemma_evolves_delete (s s' : Insp) (n : String) (h : s.deleteRegion n = .ok s') : Evolves s s' := by
  intro hb
  unfold Insp.deleteRegion at h
  split at h
  · simp only [Except.ok.injEq] at h
    subst h
    refine ⟨rfl, Nat.le_refl _, ?_, ?_, ?_⟩
    · intro x hx _
      exact ⟨x, (List.mem_filter.mp hx).1, rfl, lemma_sot_refl _⟩
    · intro x hx hge
      exact absurd (hb x (List.mem_filter.mp hx).1) (by omega)
    · intro x hx
      exact hb x (List.mem_filter.mp hx).1
  · simp at h

theorem lemma_evolves_trunc (s : Insp) (n : String) (hplain : ∀ y ∈ s.regions, y.1 = n → y.2.isEnd = false) :
    Evolves s (s.updRegion n (fun r => { r with length := r.data.length })) := by
  intro hb
  have hmem : ∀ x ∈ (s.updRegion n (fun r => { r with length := r.data.length })).regions,
      ∃ y ∈ s.regions, y.1 = x.1 ∧ SameOrTrunc y.2 x.2 := by
    intro x hx
    simp only [Insp.updRegion, List.mem_map] at hx
    obtain ⟨y, hy, rfl⟩ := hx
    refine ⟨y, hy, ?_, ?_⟩
    · split <;> rfl
    · split
      · rename_i hn
        exact Or.inr ⟨hplain y hy hn, rfl⟩
      · exact Or.inl rfl
  refine ⟨rfl, Nat.le_refl _, fun x hx _ => hmem x hx, ?_, ?_⟩
  · intro x hx hge
    obtain ⟨y, hy, _, hs⟩ := hmem x hx
    have := hb y hy
    rw [← lemma_sot_rid hs] at this
    exact absurd this (by omega)
  · intro x hx
    obtain ⟨y, hy, _, hs⟩ := hmem x hx
    have := hb y hy
    rw [← lemma_sot_rid hs] at this
    exact this

/-- changing only fields other than the region table -/
theorem lemma_evolves_fields (s s' : Insp) (h1 : s'.regions = s.regions) (h2 : s'.total = s.total)
    (h3 : s'.nextRid = s.nextRid) : Evolves s s' := by
  intro hb
  refine ⟨h2, by omega, ?_, ?_, ?_⟩
  · intro x hx _
    rw [h1] at hx
    exact ⟨x, hx, rfl, lemma_sot_refl _⟩
  · intro x hx hge
    rw [h1] at hx
    have := hb x hx
    omega
  · intro x hx
    rw [h1] at hx
    rw [h3]
    exact hb x hx

end Oslo.Insp

namespace Oslo.Insp

theorem lemma_vhdxAddVds_evolves (s : Insp) (m : Region) (ioff ilen : Nat) (h : SInv s) :
    Evolves s (vhdxAddVds s m ioff ilen).1 := by
  have h1 : Evolves s (s.updRegion "metadata" (fun r => { r with length := r.data.length })) := by
    apply lemma_evolves_trunc
    intro y hy hn
    cases hE : y.2.isEnd
    · rfl
    · have := ((h.each y hy).2.2.2 hE).2
      rw [hn] at this
      exact absurd this (by decide)
  unfold vhdxAddVds
  split
  · exact h1
  · rename_i s2 hn
    exact lemma_evolves_trans h1 (lemma_evolves_new _ _ _ _ _ _ _ hn)

theorem lemma_vhdxPP_evolves (s : Insp) (h : SInv s) : Evolves s (vhdxPostProcess s).1 := by
  unfold vhdxPostProcess
  split
  · exact lemma_evolves_refl s
  · split
    · split
      · exact lemma_evolves_refl s
      · exact lemma_evolves_refl s
      · split
        · exact lemma_evolves_refl s
        · rename_i s' hn
          exact lemma_evolves_new _ _ _ _ _ _ _ hn
    · split
      · split
        · exact lemma_evolves_refl s
        · exact lemma_evolves_refl s
        · split
          · exact lemma_evolves_refl s
          · exact lemma_vhdxAddVds_evolves s _ _ _ h
      · exact lemma_evolves_refl s

theorem lemma_vmdkAddFooter_evolves (s s1 : Insp) (g : Nat) (he : vmdkAddFooter s g = .ok s1) : Evolves s s1 := by
  unfold vmdkAddFooter at he
  split at he
  · split at he
    · simp at he
    · rename_i s' hn
      split at he
      · simp at he
      · simp only [Except.ok.injEq] at he
        subst he
        exact lemma_evolves_trans (lemma_evolves_new _ _ _ _ _ _ _ hn) (lemma_evolves_fields _ _ rfl rfl rfl)
  · simp only [Except.ok.injEq] at he
    subst he
    exact lemma_evolves_refl s

theorem lemma_vmdkRelocate_evolves (s1 : Insp) (a b : Nat) : Evolves s1 (vmdkRelocate s1 a b).1 := by
  unfold vmdkRelocate
  split
  · exact lemma_evolves_refl _
  · split
    · exact lemma_evolves_refl _
    · split
      · split
        · exact lemma_evolves_refl _
        · rename_i s2 hd
          split
          · exact lemma_evolves_delete _ _ _ hd
          · rename_i s3 hn
            exact lemma_evolves_trans (lemma_evolves_delete _ _ _ hd) (lemma_evolves_new _ _ _ _ _ _ _ hn)
      · exact lemma_evolves_refl _

theorem lemma_vmdkPP_evolves (s : Insp) : Evolves s (vmdkPostProcess s).1 := by
  unfold vmdkPostProcess
  split
  · exact lemma_evolves_refl s
  · split
    · exact lemma_evolves_refl s
    · split
      · exact lemma_evolves_refl s
      · split
        · split
          · split
            · exact lemma_evolves_refl s
            · rename_i s' hd
              exact lemma_evolves_delete _ _ _ hd
          · exact lemma_evolves_refl s
        · split
          · exact lemma_evolves_refl s
          · split
            · exact lemma_evolves_refl s
            · rename_i s1 he
              exact lemma_evolves_trans (lemma_vmdkAddFooter_evolves _ _ _ he) (lemma_vmdkRelocate_evolves s1 _ _)

theorem lemma_postProcess_evolves (s : Insp) (h : SInv s) : Evolves s (postProcess s).1 := by
  unfold postProcess
  split
  · exact lemma_vhdxPP_evolves s h
  · exact lemma_vmdkPP_evolves s
  · exact lemma_evolves_refl s

end Oslo.Insp
