/-
Locality of `eat_chunk`: a chunk from which no region can take anything is ignored whatever its
bytes are — only `_total_count` moves.  All ten formats.
-/
import OsloProofs.Lemmas.StableStep
import OsloProofs.Lemmas.LocalityDefs
namespace Oslo.Insp

theorem lemma_regionSkips_iff (r : Region) (total n : Nat) :
    regionSkips r total n = true ↔
      r.isEnd = false ∧ (r.complete = true ∨ n = 0 ∨ total + n ≤ r.offset ∨ r.offset + r.length < total) := by
  simp only [regionSkips, Bool.and_eq_true, Bool.not_eq_true', Bool.or_eq_true, decide_eq_true_eq, or_assoc]

/-- the window arithmetic of `CaptureRegion.capture` -/
theorem lemma_capture_skips (r : Region) (c : Bytes) (total : Nat) (hlen : r.data.length ≤ r.length)
    (hE : r.isEnd = false)
    (h : c.length = 0 ∨ total + c.length ≤ r.offset ∨ r.offset + r.length < total) :
    r.capture c (total + c.length) = r := by
  unfold Region.capture
  rw [if_neg (by rw [hE]; simp)]
  dsimp only
  split
  · rename_i hcond
    have hd : c.drop (if total + c.length - c.length < r.offset then r.offset - (total + c.length - c.length) else 0) = [] := by
      apply List.drop_eq_nil_of_le
      split <;> omega
    rw [hd, List.append_nil, List.take_of_length_le hlen]
  · rfl

theorem lemma_stepRegion_skips (r : Region) (c : Bytes) (total : Nat) (hlen : r.data.length ≤ r.length)
    (h : regionSkips r total c.length = true) : stepRegion c (total + c.length) r = r := by
  obtain ⟨hE, h⟩ := (lemma_regionSkips_iff r total c.length).mp h
  unfold stepRegion
  split
  · rcases h with hc | h
    · rename_i hcond
      rw [hE, hc] at hcond
      simp at hcond
    · exact lemma_capture_skips r c total hlen hE h
  · rfl

/-- `_capture(chunk)` over a skippable chunk changes no region -/
theorem lemma_captureAll_skippable (s : Insp) (c : Bytes) (hs : SInv s) (h : skippable s c.length = true) :
    ({ s with total := s.total + c.length } : Insp).captureAll c [] = { s with total := s.total + c.length } := by
  rw [lemma_captureAll_nil]
  have hmap : s.regions.map (fun p => (p.1, stepRegion c (s.total + c.length) p.2)) = s.regions := by
    have : ∀ p ∈ s.regions, (p.1, stepRegion c (s.total + c.length) p.2) = p := by
      intro p hp
      simp only [skippable, List.all_eq_true] at h
      rw [lemma_stepRegion_skips p.2 c s.total (hs.each p hp).2.1 (h p hp)]
    exact (List.map_congr_left this).trans (List.map_id' _)
  show ({ s with total := s.total + c.length,
                 regions := s.regions.map (fun p => (p.1, stepRegion c (s.total + c.length) p.2)) } : Insp) = _
  rw [hmap]

/-- at a boundary, a chunk that no region captures from moves `_total_count` and nothing else:
    post-processing sees the same regions again, no region is new, none is newly complete -/
theorem lemma_eat_no_capture (s : Insp) (c : Bytes) (hg : Good2 s)
    (hcap : ({ s with total := s.total + c.length } : Insp).captureAll c [] =
      { s with total := s.total + c.length }) :
    eatChunk s c = ({ s with total := s.total + c.length }, none) := by
  have hfix : postProcess ({ s with total := s.total + c.length } : Insp) =
      (({ s with total := s.total + c.length } : Insp), none) :=
    lemma_setAux_fix s (s.total + c.length) s.qcowInfo s.descText s.vmdkType hg.fix
  have hunf := hg.unfinished
  unfold eatChunk
  dsimp only
  rw [if_neg (by rw [hunf]; simp)]
  rw [hcap, hfix]
  dsimp only
  rw [lemma_followUp_none _ _ _ _ (fun p hp => List.mem_map.mpr ⟨p, hp, rfl⟩)]
  dsimp only
  have hnewly : (s.regions.filter (fun p => p.2.complete &&
      !((s.regions.filter (·.2.complete)).map (·.2.rid)).contains p.2.rid)) = [] := by
    rw [List.filter_eq_nil_iff]
    intro p hp
    cases hcp : p.2.complete
    · simp
    · have : ((s.regions.filter (·.2.complete)).map (·.2.rid)).contains p.2.rid = true := by
        simp only [List.contains_eq_mem, List.mem_map, List.mem_filter, decide_eq_true_eq]
        exact ⟨p, ⟨hp, hcp⟩, rfl⟩
      rw [this]
      simp
  rw [hnewly]
  rfl

/-- moving `_total_count` keeps the boundary invariant -/
theorem lemma_advance_good (s : Insp) (n : Nat) (hg : Good2 s) : Good2 (s.advance n) :=
  ⟨hg.unfinished, hg.quiet, hg.sinv, hg.bnd,
   lemma_setAux_fix s (s.total + n) s.qcowInfo s.descText s.vmdkType hg.fix⟩

theorem lemma_feed_append (a : List Bytes) : ∀ (s : Insp) (b : List Bytes),
    feed s (a ++ b) = match feed s a with
      | (s1, some e) => (s1, some e)
      | (s1, none) => feed s1 b := by
  induction a with
  | nil => intro s b; rfl
  | cons c cs ih =>
    intro s b
    simp only [List.cons_append, feed]
    cases he : eatChunk s c with
    | mk s1 e =>
      cases e with
      | some e => rfl
      | none => exact ih s1 b

end Oslo.Insp
