/-
The engine-level invariant behind "whatever an inspector retains for a region is exactly the
stream's bytes at that region's offsets", for all ten formats, under the forward proviso for
regions created while streaming.
-/
import OsloProofs.Lemmas.Evolves
namespace Oslo.Insp

/-- a region that holds nothing is consistent with the prefix `p` when it is an end-capture region
    or starts at or after `|p|` -/
theorem lemma_regInv_empty (r : Region) (p : Bytes) (hd : r.data = [])
    (h : (r.isEnd = true ∧ 0 < r.length) ∨ (r.isEnd = false ∧ p.length ≤ r.offset)) : RegInv r p := by
  rcases h with ⟨hE, hl⟩ | ⟨hE, hf⟩
  · refine ⟨fun h => by rw [hE] at h; simp at h, fun _ => ⟨hl, p.length, Nat.le_refl _, ?_, Or.inl hd⟩⟩
    rw [hd]; simp [lastN]
  · refine ⟨fun _ => ⟨by rw [hd]; simp, fun _ => ?_⟩, fun h => by rw [hE] at h; simp at h⟩
    rw [hd]
    simp only [sliceOf]
    rw [List.drop_eq_nil_of_le hf]
    simp

theorem lemma_regInv_sot {y x : Region} (q : Bytes) (h : SameOrTrunc y x) (hy : RegInv y q) : RegInv x q := by
  rcases h with rfl | ⟨hE, rfl⟩
  · exact hy
  · exact lemma_regInv_trunc y q hE hy

/-- new plain regions of one post-processing step start at or after the start of the current chunk -/
def PPFwd (s : Insp) (p : Bytes) : Prop :=
  ∀ x ∈ (postProcess s).1.regions, s.nextRid ≤ x.2.rid → x.2.isEnd = false → p.length ≤ x.2.offset

/-- invariant while chunk `c` (after prefix `p`) is being processed: regions whose identity is in
    `seen` have been presented `p ++ c`, the others only `p` and hold nothing yet -/
structure MidInv (s : Insp) (p c : Bytes) (seen : List Nat) : Prop where
  sinv : SInv s
  bnd : Bnd s
  total : s.total = p.length + c.length
  seenlt : ∀ i ∈ seen, i < s.nextRid
  regs : ∀ x ∈ s.regions, (x.2.rid ∈ seen → RegInv x.2 (p ++ c)) ∧
                          (x.2.rid ∉ seen → RegInv x.2 p ∧ x.2.data = [])

theorem lemma_mid_postProcess (s : Insp) (p c : Bytes) (seen : List Nat) (h : MidInv s p c seen)
    (hall : ∀ x ∈ s.regions, x.2.rid ∈ seen) (hf : PPFwd s p) :
    MidInv (postProcess s).1 p c seen := by
  have hev := lemma_postProcess_evolves s h.sinv h.bnd
  obtain ⟨hs', _⟩ := lemma_postProcess_inv s h.sinv
  refine ⟨hs', hev.bnd, by rw [hev.total]; exact h.total,
    fun i hi => Nat.lt_of_lt_of_le (h.seenlt i hi) hev.next, ?_⟩
  intro x hx
  by_cases hlt : x.2.rid < s.nextRid
  · obtain ⟨y, hy, _, hsot⟩ := hev.old x hx hlt
    have hrid := lemma_sot_rid hsot
    have hyseen := hall y hy
    refine ⟨fun _ => lemma_regInv_sot _ hsot ((h.regs y hy).1 hyseen), fun hns => ?_⟩
    rw [hrid] at hns
    exact absurd hyseen hns
  · have hge : s.nextRid ≤ x.2.rid := by omega
    have hdata := hev.new x hx hge
    have hns : x.2.rid ∉ seen := fun hm => by have := h.seenlt _ hm; omega
    refine ⟨fun hm => absurd hm hns, fun _ => ⟨?_, hdata⟩⟩
    apply lemma_regInv_empty _ _ hdata
    cases hE : x.2.isEnd
    · exact Or.inr ⟨rfl, hf x hx hge hE⟩
    · exact Or.inl ⟨rfl, ((hs'.each x hx).2.2.2 hE).1⟩

theorem lemma_nodup_fst {l : List (String × Region)} (hn : (l.map (·.1)).Nodup) {x y : String × Region}
    (hx : x ∈ l) (hy : y ∈ l) (h : x.1 = y.1) : x = y := by
  induction l with
  | nil => simp at hx
  | cons a l ih =>
    simp only [List.map_cons, List.nodup_cons, List.mem_map, not_exists, not_and] at hn
    simp only [List.mem_cons] at hx hy
    rcases hx with rfl | hx <;> rcases hy with rfl | hy
    · rfl
    · exact absurd h.symm (hn.1 y hy)
    · exact absurd h (hn.1 x hx)
    · exact ih hn.2 hx hy

/-- presenting the current chunk to the not-yet-seen regions (by name, as `_capture(chunk, only=…)`) -/
theorem lemma_mid_capture (s : Insp) (p c : Bytes) (seen : List Nat) (h : MidInv s p c seen)
    (hne : (s.regions.filter (fun x => !seen.contains x.2.rid)) ≠ []) :
    let fresh := s.regions.filter (fun x => !seen.contains x.2.rid)
    let s1 := s.captureAll c (fresh.map (·.1))
    MidInv s1 p c (seen ++ fresh.map (·.2.rid)) ∧ ∀ x ∈ s1.regions, x.2.rid ∈ seen ++ fresh.map (·.2.rid) := by
  intro fresh s1
  have hs1 : SInv s1 := lemma_rinv_captureAll s c _ h.sinv
  have hreg : s1.regions = s.regions.map (fun x => (x.1,
      if ((fresh.map (·.1)).isEmpty || (fresh.map (·.1)).contains x.1) && (x.2.isEnd || !x.2.complete)
      then x.2.capture c s.total else x.2)) := by
    show (s.captureAll c (fresh.map (·.1))).regions = _
    rw [lemma_captureAll_eq]
  have hnemp : (fresh.map (·.1)).isEmpty = false := by
    cases hf : fresh with
    | nil => exact absurd hf hne
    | cons a l => rfl
  -- membership in the name list is membership in `fresh`
  have hname : ∀ x ∈ s.regions, ((fresh.map (·.1)).contains x.1 = true ↔ x.2.rid ∉ seen) := by
    intro x hx
    simp only [List.contains_eq_mem, List.mem_map, decide_eq_true_eq]
    constructor
    · rintro ⟨y, hy, hyn⟩
      have hyl : y ∈ s.regions := (List.mem_filter.mp hy).1
      have := lemma_nodup_fst h.sinv.nodup hyl hx hyn
      subst this
      simpa using (List.mem_filter.mp hy).2
    · intro hns
      exact ⟨x, List.mem_filter.mpr ⟨hx, by simpa using hns⟩, rfl⟩
  have hstep : ∀ x ∈ s.regions,
      (if ((fresh.map (·.1)).isEmpty || (fresh.map (·.1)).contains x.1) && (x.2.isEnd || !x.2.complete)
       then x.2.capture c s.total else x.2) =
      if x.2.rid ∈ seen then x.2 else stepRegion c (p.length + c.length) x.2 := by
    intro x hx
    rw [hnemp, Bool.false_or]
    by_cases hs : x.2.rid ∈ seen
    · have : (fresh.map (·.1)).contains x.1 = false := by
        cases hc : (fresh.map (·.1)).contains x.1
        · rfl
        · exact absurd hs ((hname x hx).mp hc)
      simp only [this, Bool.false_and, Bool.false_eq_true, if_false, hs, if_true]
    · have : (fresh.map (·.1)).contains x.1 = true := (hname x hx).mpr hs
      simp only [this, Bool.true_and, hs, if_false, stepRegion, h.total]
  constructor
  · refine ⟨hs1, ?_, h.total, ?_, ?_⟩
    · intro x hx
      rw [hreg] at hx
      simp only [List.mem_map] at hx
      obtain ⟨y, hy, rfl⟩ := hx
      have hb := h.bnd y hy
      simp only [hstep y hy]
      show _ < s.nextRid
      split
      · exact hb
      · rw [lemma_stepRegion_rid]; exact hb
    · intro i hi
      simp only [List.mem_append, List.mem_map] at hi
      rcases hi with hi | ⟨y, hy, rfl⟩
      · exact h.seenlt i hi
      · exact h.bnd y (List.mem_filter.mp hy).1
    · intro x hx
      rw [hreg] at hx
      simp only [List.mem_map] at hx
      obtain ⟨y, hy, rfl⟩ := hx
      simp only [hstep y hy]
      by_cases hs : y.2.rid ∈ seen
      · simp only [hs, if_true]
        exact ⟨fun _ => (h.regs y hy).1 hs, fun hn => absurd (List.mem_append_left _ hs) hn⟩
      · simp only [hs, if_false]
        have hri := (h.regs y hy).2 hs
        refine ⟨fun _ => lemma_regInv_step y.2 p c hri.1, fun hn => ?_⟩
        exfalso
        apply hn
        rw [lemma_stepRegion_rid]
        apply List.mem_append_right
        exact List.mem_map.mpr ⟨y, List.mem_filter.mpr ⟨hy, by simpa using hs⟩, rfl⟩
  · intro x hx
    rw [hreg] at hx
    simp only [List.mem_map] at hx
    obtain ⟨y, hy, rfl⟩ := hx
    simp only [hstep y hy]
    by_cases hs : y.2.rid ∈ seen
    · simp only [hs, if_true]; exact List.mem_append_left _ hs
    · simp only [hs, if_false, lemma_stepRegion_rid]
      apply List.mem_append_right
      exact List.mem_map.mpr ⟨y, List.mem_filter.mpr ⟨hy, by simpa using hs⟩, rfl⟩

end Oslo.Insp
