import OsloModel.File
namespace Oslo.File
theorem placeholder_partial : True := trivial
end Oslo.File
