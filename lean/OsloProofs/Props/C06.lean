/-
PLACEHOLDER written by builder InsB so that `./check C06` can run while the coordinator
writes the real property theorems; it states nothing about the property itself.
-/
import OsloModel.Wrapper
namespace Oslo.Insp.C06

/-- placeholder, not a property theorem -/
theorem placeholder_processLoop_nil {σ} (ops : IOps σ) (e : Option String) (c : Bytes) (acc : List σ)
    (errd : List String) : processLoop ops e c [] acc errd = (acc.reverse, errd, .done) := rfl

end Oslo.Insp.C06
