/-
C11 — address validators accept exactly well-formed values and never raise.

Property theorems only; helper lemmas and the spec-level definitions they share
(`renderOctet`, `renderQuad`, `joinSep`, `IsGroup`, `groupVal`, `StrictDec`, `AddrOK`, `MaskOK`,
`PrefixOK`) live in `OsloProofs/Lemmas/C11*.lean`.  Every theorem quantifies over all texts
(`List Char`, i.e. every Python str without lone surrogates) or all numbers it talks about.

Totality ("never raises") is by construction: every model function is a total Lean function that
returns a Bool; that the implementation never answers with an exception where the model answers a
Bool is the correspondence / search obligation.

What is NOT proved here (covered by the correspondence and the search only): a full grammar
characterisation of `isValidIPv6` (accept ⇒ has one of the rendered shapes) and of the inet_aton part
of `isValidIP` (short / hex / octal forms, trailing text after white space = known finding
C11-ip-inet-aton-trailing-text).
-/
import OsloProofs.Lemmas.C11Cidr
import OsloProofs.Lemmas.C11V6c
import OsloProofs.Lemmas.C11Aton
set_option linter.unusedSimpArgs false
set_option linter.unusedVariables false
namespace Oslo.Net

/-! ### is_valid_ipv4 (strict) -/

/-- `is_valid_ipv4` accepts exactly the canonical dotted quads `'%d.%d.%d.%d'` with four octets below 256:
    four parts, ASCII digits only, no leading zero, nothing before, between or after. -/
theorem ipv4_accept_iff_canonical (s : List Char) :
    isValidIPv4 s = true ↔
      ∃ a b c d, a < 256 ∧ b < 256 ∧ c < 256 ∧ d < 256 ∧ s = renderQuad a b c d := by
  constructor
  · intro h
    unfold isValidIPv4 at h
    split at h
    · cases h
    · unfold strToInt4 at h
      split at h; · cases h
      split at h; · cases h
      split at h; · cases h
      split at h
      · rename_i q hq
        obtain ⟨a, b, c, d, ha, hb, hc, hd, e, _⟩ := lemma_pton4_some s q hq
        exact ⟨a, b, c, d, ha, hb, hc, hd, e⟩
      · cases h
  · rintro ⟨a, b, c, d, ha, hb, hc, hd, rfl⟩
    have hsp := lemma_renderQuad_split a b c d ha hb hc hd
    have hch := lemma_renderQuad_chars a b c d ha hb hc hd
    have hne : (renderQuad a b c d).isEmpty = false := by
      unfold renderQuad renderOctet; split <;> simp
    have hcolon : ':' ∉ renderQuad a b c d := by
      intro h; rcases hch _ h with h | h <;> revert h <;> decide
    have hnul : nul ∉ renderQuad a b c d := by
      intro h; rcases hch _ h with h | h <;> revert h <;> decide
    have ot := fun n hn => lemma_octetTok_render n hn
    have hlz : ∀ n, n < 256 → leadingZero (renderOctet n) = false := by
      intro n hn
      have := ot n hn
      simp only [octetTok, Bool.and_eq_true, Bool.not_eq_true'] at this
      exact this.1.2
    simp [isValidIPv4, strToInt4, hne, hcolon, hnul, hsp, pton4, hlz, ot, ha, hb, hc, hd, isOk]

/-- the rendering used above is ordinary decimal notation -/
theorem renderOctet_is_decimal : ∀ n, n < 256 → renderOctet n = Nat.toDigits 10 n := by decide +kernel

example : isValidIPv4 "192.168.0.255".toList = true := by decide +kernel
example : "192.168.0.255".toList = renderQuad 192 168 0 255 := by decide +kernel
example : isValidIPv4 "192.168.0.256".toList = false := by decide +kernel
example : isValidIPv4 "192.168.00.1".toList = false := by decide +kernel
example : isValidIPv4 "192.168.1".toList = false := by decide +kernel
example : isValidIPv4 "0x7f.0.0.1".toList = false := by decide +kernel
example : isValidIPv4 "1.2.3.4\n".toList = false := by decide +kernel

/-! ### is_valid_ipv6 -/

/-- the hex digit with value `k` (lower case) -/
def hexDig (k : Nat) : Char := if k < 10 then Char.ofNat (48 + k) else Char.ofNat (87 + k)

/-- `'%x' % g` for a 16-bit group -/
def renderGroup (g : Nat) : List Char :=
  if g < 16 then [hexDig g]
  else if g < 256 then [hexDig (g / 16), hexDig (g % 16)]
  else if g < 4096 then [hexDig (g / 256), hexDig (g / 16 % 16), hexDig (g % 16)]
  else [hexDig (g / 4096), hexDig (g / 256 % 16), hexDig (g / 16 % 16), hexDig (g % 16)]

theorem lemma_hexDig : ∀ k, k < 16 → isHex (hexDig k) = true ∧ hexVal (hexDig k) = k := by decide

theorem lemma_renderGroup (g : Nat) (h : g < 65536) : IsGroup (renderGroup g) ∧ groupVal (renderGroup g) = g := by
  unfold renderGroup
  split
  · have h1 := lemma_hexDig g (by omega)
    exact ⟨⟨by simp, by simp, by simp [h1.1]⟩, by simp [groupVal, h1.2]⟩
  · split
    · have h1 := lemma_hexDig (g / 16) (by omega)
      have h2 := lemma_hexDig (g % 16) (by omega)
      exact ⟨⟨by simp, by simp, by simp [h1.1, h2.1]⟩, by simp [groupVal, h1.2, h2.2]; omega⟩
    · split
      · have h1 := lemma_hexDig (g / 256) (by omega)
        have h2 := lemma_hexDig (g / 16 % 16) (by omega)
        have h3 := lemma_hexDig (g % 16) (by omega)
        exact ⟨⟨by simp, by simp, by simp [h1.1, h2.1, h3.1]⟩, by simp [groupVal, h1.2, h2.2, h3.2]; omega⟩
      · have h1 := lemma_hexDig (g / 4096) (by omega)
        have h2 := lemma_hexDig (g / 256 % 16) (by omega)
        have h3 := lemma_hexDig (g / 16 % 16) (by omega)
        have h4 := lemma_hexDig (g % 16) (by omega)
        exact ⟨⟨by simp, by simp, by simp [h1.1, h2.1, h3.1, h4.1]⟩,
          by simp [groupVal, h1.2, h2.2, h3.2, h4.2]; omega⟩

theorem lemma_renderGroups (gs : List Nat) (h : ∀ g ∈ gs, g < 65536) :
    (∀ t ∈ gs.map renderGroup, IsGroup t) ∧ (gs.map renderGroup).map groupVal = gs := by
  constructor
  · intro t ht
    simp only [List.mem_map] at ht
    obtain ⟨g, hg, rfl⟩ := ht
    exact (lemma_renderGroup g (h g hg)).1
  · induction gs with
    | nil => rfl
    | cons g gs ih =>
      simp only [List.map_cons]
      rw [(lemma_renderGroup g (h g (by simp))).2, ih (fun x hx => h x (by simp [hx]))]

/-- whatever the `inet_pton6` model parses is a valid address for `is_valid_ipv6` (no scope id involved) -/
theorem lemma_valid_of_pton6 (s : List Char) (g : List Nat) (h : pton6 s = some g) : isValidIPv6 s = true := by
  have hch := lemma_pton6_chars s g h
  have hpct : '%' ∉ s := fun hm => lemma_not_v6char.1 (hch _ hm)
  have hnul : nul ∉ s := fun hm => lemma_not_v6char.2.2 (hch _ hm)
  have hne : s.isEmpty = false := by
    cases s with
    | nil => simp [pton6] at h
    | cons c r => rfl
  simp [isValidIPv6, hne, lemma_rsplitLast_notin '%' s hpct, strToInt6, hnul, h, isOk]

/-- without a '%' the answer is the answer of `inet_pton6` on the whole text -/
theorem ipv6_noscope (s : List Char) (hp : '%' ∉ s) :
    isValidIPv6 s = true ↔ nul ∉ s ∧ ∃ g, pton6 s = some g := by
  constructor
  · intro h
    unfold isValidIPv6 at h
    split at h
    · cases h
    · rw [lemma_rsplitLast_notin '%' s hp] at h
      simp only [strToInt6] at h
      by_cases hn : nul ∈ s
      · simp [hn, isOk] at h
      · cases hq : pton6 s with
        | none => simp [hn, hq, isOk] at h
        | some g => exact ⟨hn, g, rfl⟩
  · rintro ⟨_, g, hg⟩
    exact lemma_valid_of_pton6 s g hg

/-- alphabet: a valid IPv6 text without '%' consists of hex digits, ':' and '.' only -/
theorem ipv6_alphabet (s : List Char) (hp : '%' ∉ s) (h : isValidIPv6 s = true) :
    ∀ c ∈ s, isHex c = true ∨ c = ':' ∨ c = '.' := by
  obtain ⟨_, g, hg⟩ := (ipv6_noscope s hp).1 h
  exact lemma_pton6_chars s g hg

/-- Full rendering: eight groups of at most four hex digits joined by ':' are accepted, and parse to
    their values.  (Groups may use either case and leading zeros; `renderGroup` is one instance.) -/
theorem ipv6_accepts_full (ts : List (List Char)) (h : ∀ t ∈ ts, IsGroup t) (h8 : ts.length = 8) :
    isValidIPv6 (joinSep ':' ts) = true ∧ pton6 (joinSep ':' ts) = some (ts.map groupVal) := by
  have := lemma_pton6_full ts h
  rw [if_pos h8] at this
  exact ⟨lemma_valid_of_pton6 _ _ this, this⟩

/-- Every `::`-compression: `pre :: post` with at most seven groups in total is accepted and parses to
    `pre`, then zeros up to eight groups, then `post` (also `::`, `::x`, `x::`). -/
theorem ipv6_accepts_compressed (pre post : List (List Char)) (hp : ∀ t ∈ pre, IsGroup t)
    (hq : ∀ t ∈ post, IsGroup t) (h7 : pre.length + post.length ≤ 7) :
    let s := joinSep ':' pre ++ ':' :: ':' :: joinSep ':' post
    isValidIPv6 s = true ∧
    pton6 s = some (pre.map groupVal ++ List.replicate (8 - (pre.length + post.length)) 0 ++ post.map groupVal) := by
  have := lemma_pton6_compressed pre post hp hq
  rw [if_pos h7] at this
  exact ⟨lemma_valid_of_pton6 _ _ this, this⟩

/-- IPv4-suffixed rendering: six groups and a canonical dotted quad. -/
theorem ipv6_accepts_v4_suffix (pre : List (List Char)) (a b c d : Nat) (hp : ∀ t ∈ pre, IsGroup t)
    (ha : a < 256) (hb : b < 256) (hc : c < 256) (hd : d < 256) (h6 : pre.length = 6) :
    let s := joinSep ':' (pre ++ [renderQuad a b c d])
    isValidIPv6 s = true ∧ pton6 s = some (pre.map groupVal ++ [a * 256 + b, c * 256 + d]) := by
  have := lemma_pton6_v4_full pre a b c d hp ha hb hc hd (by intro e; simp [e] at h6)
  rw [if_pos h6] at this
  exact ⟨lemma_valid_of_pton6 _ _ this, this⟩

/-- `::`-compressed IPv4-suffixed rendering (`::1.2.3.4`, `::ffff:1.2.3.4`, `64:ff9b::1.2.3.4`). -/
theorem ipv6_accepts_compressed_v4_suffix (pre post : List (List Char)) (a b c d : Nat)
    (hp : ∀ t ∈ pre, IsGroup t) (hq : ∀ t ∈ post, IsGroup t)
    (ha : a < 256) (hb : b < 256) (hc : c < 256) (hd : d < 256) (h5 : pre.length + post.length ≤ 5) :
    let s := joinSep ':' pre ++ ':' :: ':' :: joinSep ':' (post ++ [renderQuad a b c d])
    isValidIPv6 s = true ∧
    pton6 s = some (pre.map groupVal ++ List.replicate (6 - (pre.length + post.length)) 0 ++
                      (post.map groupVal ++ [a * 256 + b, c * 256 + d])) := by
  have := lemma_pton6_v4_compressed pre post a b c d hp hq ha hb hc hd
  rw [if_pos h5] at this
  exact ⟨lemma_valid_of_pton6 _ _ this, this⟩

/-- For every 128-bit value given as eight 16-bit groups: the full `%x` rendering, every
    `::`-compression of a run of zero groups, and the renderings with the last 32 bits as a dotted quad
    are accepted by `is_valid_ipv6` — and parse back to exactly the eight groups. -/
theorem ipv6_accepts_renderings (gs : List Nat) (hg : ∀ g ∈ gs, g < 65536) (h8 : gs.length = 8) :
    (isValidIPv6 (joinSep ':' (gs.map renderGroup)) = true ∧
      pton6 (joinSep ':' (gs.map renderGroup)) = some gs) ∧
    (∀ pre z post, gs = pre ++ List.replicate z 0 ++ post → 1 ≤ z →
      isValidIPv6 (joinSep ':' (pre.map renderGroup) ++ ':' :: ':' :: joinSep ':' (post.map renderGroup)) = true ∧
      pton6 (joinSep ':' (pre.map renderGroup) ++ ':' :: ':' :: joinSep ':' (post.map renderGroup)) = some gs) ∧
    (∀ pre a b c d, a < 256 → b < 256 → c < 256 → d < 256 → gs = pre ++ [a * 256 + b, c * 256 + d] →
      isValidIPv6 (joinSep ':' (pre.map renderGroup ++ [renderQuad a b c d])) = true ∧
      pton6 (joinSep ':' (pre.map renderGroup ++ [renderQuad a b c d])) = some gs) ∧
    (∀ pre z post a b c d, a < 256 → b < 256 → c < 256 → d < 256 →
      gs = pre ++ List.replicate z 0 ++ (post ++ [a * 256 + b, c * 256 + d]) → 1 ≤ z →
      isValidIPv6 (joinSep ':' (pre.map renderGroup) ++ ':' :: ':' ::
        joinSep ':' (post.map renderGroup ++ [renderQuad a b c d])) = true ∧
      pton6 (joinSep ':' (pre.map renderGroup) ++ ':' :: ':' ::
        joinSep ':' (post.map renderGroup ++ [renderQuad a b c d])) = some gs) := by
  refine ⟨?_, ?_, ?_, ?_⟩
  · have hr := lemma_renderGroups gs hg
    have := ipv6_accepts_full (gs.map renderGroup) hr.1 (by simpa using h8)
    rw [hr.2] at this; exact this
  · intro pre z post e hz
    subst e
    have hpre := lemma_renderGroups pre (fun g h => hg g (by simp [h]))
    have hpost := lemma_renderGroups post (fun g h => hg g (by simp [h]))
    simp only [List.length_append, List.length_replicate] at h8
    have := ipv6_accepts_compressed (pre.map renderGroup) (post.map renderGroup) hpre.1 hpost.1
      (by simp; omega)
    simp only [hpre.2, hpost.2, List.length_map] at this
    rw [show 8 - (pre.length + post.length) = z by omega] at this
    exact this
  · intro pre a b c d ha hb hc hd e
    subst e
    have hpre := lemma_renderGroups pre (fun g h => hg g (by simp [h]))
    simp only [List.length_append, List.length_cons, List.length_nil] at h8
    have := ipv6_accepts_v4_suffix (pre.map renderGroup) a b c d hpre.1 ha hb hc hd (by simp; omega)
    simp only [hpre.2] at this
    exact this
  · intro pre z post a b c d ha hb hc hd e hz
    subst e
    have hpre := lemma_renderGroups pre (fun g h => hg g (by simp [h]))
    have hpost := lemma_renderGroups post (fun g h => hg g (by simp [h]))
    simp only [List.length_append, List.length_replicate, List.length_cons, List.length_nil] at h8
    have := ipv6_accepts_compressed_v4_suffix (pre.map renderGroup) (post.map renderGroup) a b c d
      hpre.1 hpost.1 ha hb hc hd (by simp; omega)
    simp only [hpre.2, hpost.2, List.length_map] at this
    rw [show 6 - (pre.length + post.length) = z by omega] at this
    exact this

example : joinSep ':' ([0x2001, 0xdb8, 0, 0, 0, 0xff00, 0x42, 0x8329].map renderGroup)
    = "2001:db8:0:0:0:ff00:42:8329".toList := by decide
example : isValidIPv6 "2001:db8::ff00:42:8329".toList = true := by decide +kernel
example : isValidIPv6 "::ffff:192.0.2.128".toList = true := by decide +kernel
example : isValidIPv6 "::".toList = true := by decide +kernel

theorem lemma_joinSep_mem (sep : Char) (ts : List (List Char)) (c : Char) (h : c ∈ joinSep sep ts) :
    c = sep ∨ ∃ t ∈ ts, c ∈ t := by
  induction ts with
  | nil => simp [joinSep] at h
  | cons t r ih =>
    cases r with
    | nil => simp [joinSep] at h; exact Or.inr ⟨t, by simp, h⟩
    | cons u r' =>
      simp only [joinSep, List.mem_append, List.mem_cons] at h
      rcases h with h | h | h
      · exact Or.inr ⟨t, by simp, h⟩
      · exact Or.inl h
      · rcases ih h with h | ⟨x, hx, hc⟩
        · exact Or.inl h
        · exact Or.inr ⟨x, by simp [hx], hc⟩

theorem lemma_groups_no_pct (ts : List (List Char)) (h : ∀ t ∈ ts, IsGroup t) : '%' ∉ joinSep ':' ts := by
  intro hm
  rcases lemma_joinSep_mem ':' ts '%' hm with h1 | ⟨t, ht, hc⟩
  · revert h1; decide
  · exact (lemma_hex_ne '%' ((h t ht).2.2 '%' hc)).2.2.1 rfl

/-- wrong group count, no `::`: groups joined by ':' are accepted only when there are exactly eight -/
theorem ipv6_rejects_group_count (ts : List (List Char)) (h : ∀ t ∈ ts, IsGroup t) (h8 : ts.length ≠ 8) :
    isValidIPv6 (joinSep ':' ts) = false := by
  rw [Bool.eq_false_iff]
  intro hv
  obtain ⟨_, g, hg⟩ := (ipv6_noscope _ (lemma_groups_no_pct ts h)).1 hv
  rw [lemma_pton6_full ts h, if_neg h8] at hg
  cases hg

/-- wrong group count with `::`: eight or more groups around a `::` are rejected -/
theorem ipv6_rejects_group_count_compressed (pre post : List (List Char)) (hp : ∀ t ∈ pre, IsGroup t)
    (hq : ∀ t ∈ post, IsGroup t) (h8 : 8 ≤ pre.length + post.length) :
    isValidIPv6 (joinSep ':' pre ++ ':' :: ':' :: joinSep ':' post) = false := by
  rw [Bool.eq_false_iff]
  intro hv
  have hpct : '%' ∉ joinSep ':' pre ++ ':' :: ':' :: joinSep ':' post := by
    intro hm
    simp only [List.mem_append, List.mem_cons] at hm
    rcases hm with hm | hm | hm | hm
    · exact lemma_groups_no_pct pre hp hm
    · revert hm; decide
    · revert hm; decide
    · exact lemma_groups_no_pct post hq hm
  obtain ⟨_, g, hg⟩ := (ipv6_noscope _ hpct).1 hv
  rw [lemma_pton6_compressed pre post hp hq, if_neg (by omega)] at hg
  cases hg

/-- over-long group: five hex digits at the start of the text or right after a ':' are rejected,
    whatever stands before and after -/
theorem ipv6_rejects_long_group (p rest : List Char) (h1 h2 h3 h4 h5 : Char)
    (hp : p = [] ∨ ∃ q, p = q ++ [':'])
    (e1 : isHex h1 = true) (e2 : isHex h2 = true) (e3 : isHex h3 = true) (e4 : isHex h4 = true)
    (e5 : isHex h5 = true) (hpct : '%' ∉ p ++ h1 :: h2 :: h3 :: h4 :: h5 :: rest) :
    isValidIPv6 (p ++ h1 :: h2 :: h3 :: h4 :: h5 :: rest) = false := by
  rw [Bool.eq_false_iff]
  intro hv
  obtain ⟨_, g, hg⟩ := (ipv6_noscope _ hpct).1 hv
  rcases hp with rfl | ⟨q, rfl⟩
  · simp only [List.nil_append] at hg
    rw [lemma_pton6_hex_start h1 _ e1, lemma_go6_five _ _ _ _ _ _ _ rfl e1 e2 e3 e4 e5] at hg
    cases hg
  · simp only [List.append_assoc, List.cons_append, List.nil_append] at hg
    cases q with
    | nil =>
      simp only [List.nil_append, pton6, if_true] at hg
      rw [if_neg (lemma_hex_ne h1 e1).1] at hg
      cases hg
    | cons c q' =>
      simp only [List.cons_append, pton6] at hg
      split at hg
      · cases q' with
        | nil =>
          simp only [List.nil_append, if_true] at hg
          have := lemma_go6_long_group [] init6 h1 h2 h3 h4 h5 rest e1 e2 e3 e4 e5
          simp only [List.nil_append] at this
          rw [this] at hg
          cases hg
        | cons c2 q'' =>
          simp only [List.cons_append] at hg
          split at hg
          · rw [← List.cons_append, lemma_go6_long_group _ _ h1 h2 h3 h4 h5 rest e1 e2 e3 e4 e5] at hg
            cases hg
          · cases hg
      · rw [← List.cons_append, lemma_go6_long_group _ _ h1 h2 h3 h4 h5 rest e1 e2 e3 e4 e5] at hg
        cases hg

/-- two `::`: any text that contains `::` twice is rejected -/
theorem ipv6_rejects_two_double_colons (x y z : List Char)
    (hpct : '%' ∉ x ++ ':' :: ':' :: (y ++ ':' :: ':' :: z)) :
    isValidIPv6 (x ++ ':' :: ':' :: (y ++ ':' :: ':' :: z)) = false := by
  rw [Bool.eq_false_iff]
  intro hv
  obtain ⟨_, g, hg⟩ := (ipv6_noscope _ hpct).1 hv
  cases x with
  | nil =>
    simp only [List.nil_append, pton6, if_true, lemma_init6] at hg
    rw [lemma_go6_dcolon, lemma_go6_second_dcolon y _ z (by simp [S])] at hg
    cases hg
  | cons c x' =>
    simp only [List.cons_append, pton6] at hg
    split at hg
    · cases x' with
      | nil =>
        simp only [List.nil_append, if_true] at hg
        have := lemma_go6_two_dcolons [] init6 y z
        simp only [List.nil_append] at this
        rw [this] at hg
        cases hg
      | cons c2 x'' =>
        simp only [List.cons_append] at hg
        split at hg
        · rw [← List.cons_append, lemma_go6_two_dcolons _ _ y z] at hg
          cases hg
        · cases hg
    · rw [← List.cons_append, lemma_go6_two_dcolons _ _ y z] at hg
      cases hg

/-- scope id: with the text after the last '%' as scope id, the answer is "1 ≤ length ≤ 15 and the
    address part is valid on its own" -/
theorem ipv6_scope_iff (a sc : List Char) (hs : '%' ∉ sc) :
    isValidIPv6 (a ++ '%' :: sc) = true ↔
      1 ≤ sc.length ∧ sc.length ≤ 15 ∧ isOk (strToInt6 a) = true := by
  have hne : (a ++ '%' :: sc).isEmpty = false := by cases a <;> simp
  simp only [isValidIPv6, hne, lemma_rsplitLast_append '%' a sc hs]
  by_cases h1 : sc.length < 1
  · simp [h1]; omega
  · by_cases h2 : sc.length > 15
    · simp [h2]; omega
    · have a1 : 1 ≤ sc.length := by omega
      have a2 : sc.length ≤ 15 := by omega
      simp [h1, h2, a1, a2]

/-- scope id of length 0 -/
theorem ipv6_rejects_empty_scope (a : List Char) : isValidIPv6 (a ++ ['%']) = false := by
  rw [Bool.eq_false_iff]; intro h
  have := (ipv6_scope_iff a [] (by simp)).1 h
  simp at this

/-- scope id longer than 15 characters -/
theorem ipv6_rejects_long_scope (a sc : List Char) (hs : '%' ∉ sc) (hl : 15 < sc.length) :
    isValidIPv6 (a ++ '%' :: sc) = false := by
  rw [Bool.eq_false_iff]; intro h
  have := (ipv6_scope_iff a sc hs).1 h
  omega

example : isValidIPv6 "fe80::1%eth0".toList = true := by decide +kernel
example : isValidIPv6 "fe80::1%".toList = false := by decide +kernel
example : isValidIPv6 "fe80::1%0123456789abcdef".toList = false := by decide +kernel
example : isValidIPv6 "1:2:3:4:5:6:7".toList = false := by decide +kernel
example : isValidIPv6 "1::2::3".toList = false := by decide +kernel
example : isValidIPv6 "12345::".toList = false := by decide +kernel

/-! ### is_valid_ip -/

/-- `is_valid_ip` is "inet_aton form, or valid IPv6" (`is_valid_ipv4(address, strict=False) or is_valid_ipv6`) -/
theorem ip_iff (s : List Char) :
    isValidIP s = true ↔ isValidIPv4Aton s = true ∨ isValidIPv6 s = true := by
  simp [isValidIP]

/-- every valid IPv6 text (with or without scope id) is a valid IP -/
theorem ip_accepts_ipv6 (s : List Char) (h : isValidIPv6 s = true) : isValidIP s = true := by
  simp [isValidIP, h]

/-- `is_valid_ipv4(address, strict=False)` (inet_aton form) accepts everything the strict form accepts -/
theorem ipv4_nonstrict_accepts_strict (s : List Char) (h : isValidIPv4 s = true) : isValidIPv4Aton s = true := by
  obtain ⟨a, b, c, d, ha, hb, hc, hd, rfl⟩ := (ipv4_accept_iff_canonical s).1 h
  have hch := lemma_renderQuad_chars a b c d ha hb hc hd
  have hne : (renderQuad a b c d).isEmpty = false := by
    unfold renderQuad renderOctet; split <;> simp
  have hcolon : ':' ∉ renderQuad a b c d := by
    intro h; rcases hch _ h with h | h <;> revert h <;> decide
  have hnul : nul ∉ renderQuad a b c d := by
    intro h; rcases hch _ h with h | h <;> revert h <;> decide
  simp [isValidIPv4Aton, hne, hcolon, hnul, lemma_aton_quad a b c d ha hb hc hd]

/-- the non-strict form never accepts text with a ':' or a NUL, nor the empty text -/
theorem ipv4_nonstrict_alphabet (s : List Char) (h : isValidIPv4Aton s = true) : s ≠ [] ∧ ':' ∉ s ∧ nul ∉ s := by
  unfold isValidIPv4Aton at h
  refine ⟨?_, ?_, ?_⟩
  · intro e; subst e; simp at h
  · intro hm; simp [hm] at h
  · intro hm; simp [hm] at h

example : isValidIPv4Aton "10".toList = true ∧ isValidIPv4 "10".toList = false := by decide +kernel
example : isValidIPv4Aton "127.0.0.01".toList = true ∧ isValidIPv4 "127.0.0.01".toList = false := by decide +kernel
example : isValidIPv4Aton "1.2.3.256".toList = false := by decide +kernel

/-- every canonical dotted quad is a valid IP (through the inet_aton path) -/
theorem ip_accepts_canonical_ipv4 (a b c d : Nat) (ha : a < 256) (hb : b < 256) (hc : c < 256) (hd : d < 256) :
    isValidIP (renderQuad a b c d) = true := by
  have hch := lemma_renderQuad_chars a b c d ha hb hc hd
  have hne : (renderQuad a b c d).isEmpty = false := by
    unfold renderQuad renderOctet; split <;> simp
  have hcolon : ':' ∉ renderQuad a b c d := by
    intro h; rcases hch _ h with h | h <;> revert h <;> decide
  have hnul : nul ∉ renderQuad a b c d := by
    intro h; rcases hch _ h with h | h <;> revert h <;> decide
  simp [isValidIP, isValidIPv4Aton, hne, hcolon, hnul, lemma_aton_quad a b c d ha hb hc hd]

/-- whatever `is_valid_ipv4` (strict) accepts, `is_valid_ip` accepts -/
theorem ip_accepts_ipv4 (s : List Char) (h : isValidIPv4 s = true) : isValidIP s = true := by
  obtain ⟨a, b, c, d, ha, hb, hc, hd, rfl⟩ := (ipv4_accept_iff_canonical s).1 h
  exact ip_accepts_canonical_ipv4 a b c d ha hb hc hd

example : isValidIP "192.168.0.1".toList = true := by decide +kernel
example : isValidIP "fe80::1%eth0".toList = true := by decide +kernel
example : isValidIP "256.0.0.0".toList = false := by decide +kernel
example : isValidIP "1.2.3.4.5".toList = false := by decide +kernel
example : isValidIP "".toList = false := by decide +kernel
/-- recorded interpretation: inet_aton numeric forms are accepted by `is_valid_ip` … -/
example : isValidIP "10".toList = true ∧ isValidIP "10.1".toList = true ∧ isValidIP "0x7f.1".toList = true := by
  decide +kernel
/-- … and so is anything after an ASCII white-space character: known finding C11-ip-inet-aton-trailing-text
    (the model follows the code) -/
example : isValidIP "1.2.3.4 anything".toList = true ∧ isValidIP "1.2.3.4\n".toList = true := by decide +kernel

/-! ### is_valid_cidr / is_valid_ipv6_cidr -/

/-- `IPAddress(a, 4)` accepts exactly what `is_valid_ipv4` accepts -/
theorem addrOK_v4_iff (a : List Char) : AddrOK .v4 a ↔ isValidIPv4 a = true := by
  constructor
  · rintro ⟨x, hx⟩
    have hs := lemma_ipAddress_ok_noslash .v4 a x hx
    have hne : a.isEmpty = false := by
      cases a with
      | nil => rw [lemma_ipAddress_nil] at hx; cases hx
      | cons c r => rfl
    simp [ipAddress, hs] at hx
    simp [isValidIPv4, hne, hx, isOk]
  · intro h
    obtain ⟨p, q, r, t, hp, hq, hr, ht, rfl⟩ := (ipv4_accept_iff_canonical a).1 h
    have hs : '/' ∉ renderQuad p q r t := by
      intro hm
      rcases lemma_renderQuad_chars p q r t hp hq hr ht _ hm with h | h <;> revert h <;> decide
    unfold isValidIPv4 at h
    split at h
    · cases h
    · cases hx : strToInt4 (renderQuad p q r t) with
      | error e => rw [hx] at h; cases h
      | ok x => exact ⟨x, by simp [ipAddress, hs, hx]⟩

/-- `IPAddress(a, 6)` accepts exactly the texts without '%' that `is_valid_ipv6` accepts -/
theorem addrOK_v6_iff (a : List Char) : AddrOK .v6 a ↔ '%' ∉ a ∧ isValidIPv6 a = true := by
  constructor
  · rintro ⟨x, hx⟩
    have hs := lemma_ipAddress_ok_noslash .v6 a x hx
    simp only [ipAddress] at hx
    rw [if_neg (by simpa using hs)] at hx
    simp only [strToInt6] at hx
    split at hx
    · cases hx
    · cases hq : pton6 a with
      | none => rw [hq] at hx; cases hx
      | some g =>
        exact ⟨fun hm => lemma_not_v6char.1 (lemma_pton6_chars a g hq _ hm), lemma_valid_of_pton6 a g hq⟩
  · rintro ⟨hp, h⟩
    obtain ⟨hn, g, hg⟩ := (ipv6_noscope a hp).1 h
    have hs : '/' ∉ a := fun hm => lemma_not_v6char.2.1 (lemma_pton6_chars a g hg _ hm)
    exact ⟨groupsValue g, by simp [ipAddress, hs, strToInt6, hn, hg]⟩

/-- the class of known finding N5: text after the '/' that Python `int()` accepts although it is not
    `[0-9]+` (white space, sign, underscores, non-ASCII digits) -/
def N5Class (p : List Char) : Prop := (∃ n, pyInt p = some n) ∧ ¬ StrictDec p

/-- the strict reading of a prefix: `[0-9]+` with value at most the width, or a netmask / hostmask address -/
def StrictPrefixOK (v : Ver) (p : List Char) : Prop :=
  (StrictDec p ∧ decVal p ≤ width v) ∨ (¬ StrictDec p ∧ MaskOK v p)

/-- Full characterisation of the model (= the code as it is): exactly one leading address part, a '/',
    and a prefix text read with Python `int()` semantics (this is where N5 lives) or a mask. -/
theorem cidr_iff (s : List Char) :
    isValidCidr s = true ↔
      ∃ a p, s = a ++ '/' :: p ∧ '/' ∉ a ∧
        ((isValidIPv4 a = true ∧ PrefixOK .v4 p) ∨ (('%' ∉ a ∧ isValidIPv6 a = true) ∧ PrefixOK .v6 p)) := by
  rw [lemma_cidr_iff]
  simp only [addrOK_v4_iff, addrOK_v6_iff]

/-- a missing or empty prefix, doubled or extra slashes: an accepted text has exactly one '/' and
    something after it -/
theorem cidr_requires_one_slash (s : List Char) (h : isValidCidr s = true) :
    ∃ a p, s = a ++ '/' :: p ∧ '/' ∉ a ∧ '/' ∉ p ∧ p ≠ [] := by
  obtain ⟨a, p, e, ha, hp⟩ := (lemma_cidr_iff s).1 h
  have := (hp.elim (fun h => lemma_prefix_shape _ p h.2) (fun h => lemma_prefix_shape _ p h.2))
  exact ⟨a, p, e, ha, this.2, this.1⟩

theorem cidr_rejects_no_slash (s : List Char) (h : '/' ∉ s) : isValidCidr s = false := by
  rw [Bool.eq_false_iff]; intro hv
  obtain ⟨a, p, e, _⟩ := cidr_requires_one_slash s hv
  exact h (by rw [e]; simp)

theorem cidr_rejects_empty_prefix (a : List Char) : isValidCidr (a ++ ['/']) = false := by
  rw [Bool.eq_false_iff]; intro hv
  obtain ⟨a', p, e, ha', hp, hne⟩ := cidr_requires_one_slash _ hv
  by_cases ha : '/' ∈ a
  · obtain ⟨a1, a2, rfl, h1⟩ := lemma_first_split '/' a ha
    have e2 : a1 ++ '/' :: (a2 ++ ['/']) = a' ++ '/' :: p := by simpa using e
    obtain ⟨_, rfl⟩ := lemma_split_unique '/' a1 _ a' p h1 ha' e2
    exact hp (by simp)
  · obtain ⟨_, rfl⟩ := lemma_split_unique '/' a [] a' p ha ha' e
    exact hne rfl

theorem cidr_rejects_second_slash (a p : List Char) (hp : '/' ∈ p) : isValidCidr (a ++ '/' :: p) = false := by
  rw [Bool.eq_false_iff]; intro hv
  obtain ⟨a', p', e, ha', hp', _⟩ := cidr_requires_one_slash _ hv
  by_cases ha : '/' ∈ a
  · obtain ⟨a1, a2, rfl, h1⟩ := lemma_first_split '/' a ha
    have e2 : a1 ++ '/' :: (a2 ++ '/' :: p) = a' ++ '/' :: p' := by simpa using e
    obtain ⟨_, rfl⟩ := lemma_split_unique '/' a1 _ a' p' h1 ha' e2
    exact hp' (by simp)
  · obtain ⟨_, rfl⟩ := lemma_split_unique '/' a p a' p' ha ha' e
    exact hp' hp

theorem lemma_prefix_strict (v : Ver) (p : List Char) (hN5 : ¬ N5Class p)
    (hlen : Gen.maxStrDigits = 0 ∨ p.length ≤ Gen.maxStrDigits) : PrefixOK v p ↔ StrictPrefixOK v p := by
  unfold PrefixOK StrictPrefixOK
  by_cases hs : StrictDec p
  · rw [lemma_pyInt_strict p hs hlen]
    simp [hs]
  · have hnone : pyInt p = none := by
      cases hq : pyInt p with
      | none => rfl
      | some n => exact absurd ⟨⟨n, hq⟩, hs⟩ hN5
    simp [hs, hnone]

/-- `is_valid_cidr` over the strict prefix grammar.  PARTIAL: it excludes the known-finding class
    `N5Class p` (prefix text accepted by `int()` but not `[0-9]+`, where the code answers true — see
    `cidr_iff` and the examples below) and assumes the prefix is not longer than CPython's
    `int` digit limit (4300). Under these: the text is valid iff the address part is a valid IPv4
    (IPv6, without scope id) address and the prefix is `[0-9]+` with value ≤ 32 (≤ 128) or a
    netmask/hostmask of the same family. -/
theorem cidr_iff_strict_partial (a p : List Char) (ha : '/' ∉ a) (hN5 : ¬ N5Class p)
    (hlen : Gen.maxStrDigits = 0 ∨ p.length ≤ Gen.maxStrDigits) :
    isValidCidr (a ++ '/' :: p) = true ↔
      (isValidIPv4 a = true ∧ StrictPrefixOK .v4 p) ∨
      (('%' ∉ a ∧ isValidIPv6 a = true) ∧ StrictPrefixOK .v6 p) := by
  rw [cidr_iff]
  constructor
  · rintro ⟨a', p', e, ha', h⟩
    obtain ⟨rfl, rfl⟩ := lemma_split_unique '/' a p a' p' ha ha' e
    simpa only [lemma_prefix_strict _ p hN5 hlen] using h
  · intro h
    exact ⟨a, p, rfl, ha, by simpa only [lemma_prefix_strict _ p hN5 hlen] using h⟩

/-- the mask branch is not empty: for every prefix length the corresponding netmask and hostmask pass
    netaddr's `is_netmask` / `is_hostmask` bit test (the converse — only these pass — is not proved here; the
    correspondence exercises masks with holes) -/
theorem masks_v4_accepted : ∀ k, k ≤ 32 →
    isNetmask .v4 (2 ^ 32 - 2 ^ (32 - k)) = true ∧ isHostmask (2 ^ (32 - k) - 1) = true := by decide +kernel

theorem masks_v6_accepted : ∀ k, k ≤ 128 →
    isNetmask .v6 (2 ^ 128 - 2 ^ (128 - k)) = true ∧ isHostmask (2 ^ (128 - k) - 1) = true := by decide +kernel

/-- `is_valid_ipv6_cidr`: a bare IPv6 address, or address '/' prefix (model semantics, `int()` prefix) -/
theorem cidr6_iff (s : List Char) :
    isValidIPv6Cidr s = true ↔
      ('/' ∉ s ∧ '%' ∉ s ∧ isValidIPv6 s = true) ∨
      ∃ a p, s = a ++ '/' :: p ∧ '/' ∉ a ∧ ('%' ∉ a ∧ isValidIPv6 a = true) ∧ PrefixOK .v6 p := by
  rw [lemma_cidr6_iff]
  simp only [addrOK_v6_iff]

/-- PARTIAL in the same way as `cidr_iff_strict_partial` (excludes N5, digit limit). -/
theorem cidr6_iff_strict_partial (a p : List Char) (ha : '/' ∉ a) (hN5 : ¬ N5Class p)
    (hlen : Gen.maxStrDigits = 0 ∨ p.length ≤ Gen.maxStrDigits) :
    isValidIPv6Cidr (a ++ '/' :: p) = true ↔
      ('%' ∉ a ∧ isValidIPv6 a = true) ∧ StrictPrefixOK .v6 p := by
  rw [cidr6_iff]
  constructor
  · rintro (⟨hno, _⟩ | ⟨a', p', e, ha', h⟩)
    · exact absurd (by simp) hno
    · obtain ⟨rfl, rfl⟩ := lemma_split_unique '/' a p a' p' ha ha' e
      simpa only [lemma_prefix_strict _ p hN5 hlen] using h
  · intro h
    exact Or.inr ⟨a, p, rfl, ha, by simpa only [lemma_prefix_strict _ p hN5 hlen] using h⟩

/-- every prefix length 0..32 / 0..128 written in decimal is a strict prefix (non-vacuity of the
    strict branch), and the 33 IPv4 netmasks are masks -/
example : StrictPrefixOK .v4 "24".toList := Or.inl ⟨⟨by decide, by decide⟩, by decide⟩
example : ¬ N5Class "24".toList := fun h => h.2 ⟨by decide, by decide⟩
example : isValidCidr "10.0.0.0/24".toList = true := by decide +kernel
example : isValidCidr "10.0.0.0/33".toList = false := by decide +kernel
example : isValidCidr "10.0.0.0/255.255.255.0".toList = true := by decide +kernel
example : isValidCidr "10.0.0.0/255.0.255.0".toList = false := by decide +kernel
example : isValidCidr "2600::/64".toList = true := by decide +kernel
example : isValidCidr "2600::/129".toList = false := by decide +kernel
example : isValidIPv6Cidr "2600::".toList = true := by decide +kernel
example : isValidIPv6Cidr "10.0.0.0/8".toList = false := by decide +kernel
/-- the N5 witnesses: the model (like the code) accepts them; they are in `N5Class` -/
example : isValidCidr "10.0.0.0/8 ".toList = true := by decide +kernel
example : isValidCidr "10.0.0.0/+8".toList = true := by decide +kernel
example : isValidCidr "10.0.0.0/0_8".toList = true := by decide +kernel
example : N5Class "8 ".toList := ⟨⟨8, by decide⟩, fun h => by have := h.2 ' ' (by decide); revert this; decide⟩

/-! ### is_valid_mac -/

/-- two hex digits -/
def HexPair (t : List Char) : Prop := ∃ a b, t = [a, b] ∧ isHex a = true ∧ isHex b = true

theorem lemma_macGo_iff (n : Nat) (s : List Char) :
    macGo n s = true ↔ ∃ g : List (List Char), g.length = n + 1 ∧ (∀ t ∈ g, HexPair t) ∧ s = joinSep ':' g := by
  induction n generalizing s with
  | zero =>
    constructor
    · intro h
      match s, h with
      | [a, b], h =>
        simp [macGo] at h
        exact ⟨[[a, b]], rfl, by intro t ht; simp at ht; subst ht; exact ⟨a, b, rfl, h.1, h.2⟩, by simp [joinSep]⟩
    · rintro ⟨g, hl, hp, rfl⟩
      match g, hl with
      | [t], _ =>
        obtain ⟨a, b, rfl, ha, hb⟩ := hp t (by simp)
        simp [joinSep, macGo, ha, hb]
  | succ n ih =>
    constructor
    · intro h
      match s, h with
      | a :: b :: c :: rest, h =>
        simp [macGo] at h
        obtain ⟨⟨⟨ha, hb⟩, hc⟩, hr⟩ := h
        obtain ⟨g, hl, hp, rfl⟩ := (ih rest).1 hr
        refine ⟨[a, b] :: g, by simp [hl], ?_, ?_⟩
        · intro t ht
          simp at ht
          rcases ht with rfl | ht
          · exact ⟨a, b, rfl, ha, hb⟩
          · exact hp t ht
        · rw [lemma_joinSep_cons _ _ _ (by intro e; simp [e] at hl)]; simp [hc]
    · rintro ⟨g, hl, hp, rfl⟩
      match g, hl with
      | t :: g', hl =>
        obtain ⟨a, b, rfl, ha, hb⟩ := hp t (by simp)
        have hg' : g'.length = n + 1 := by simpa using hl
        rw [lemma_joinSep_cons _ _ _ (by intro e; simp [e] at hg')]
        simp only [List.cons_append, List.nil_append, macGo, ha, hb, Bool.and_true, decide_true, Bool.true_and]
        exact (ih _).2 ⟨g', hg', fun t ht => hp t (by simp [ht]), rfl⟩

/-- `is_valid_mac` accepts exactly six groups of two hex digits (either case) separated by ':' —
    no other separator, nothing before or after (in particular no trailing newline, N2) -/
theorem mac_iff (s : List Char) :
    isValidMac s = true ↔
      ∃ g : List (List Char), g.length = 6 ∧ (∀ t ∈ g, HexPair t) ∧ s = joinSep ':' g :=
  lemma_macGo_iff 5 s

theorem mac_length (s : List Char) (h : isValidMac s = true) : s.length = 17 := by
  obtain ⟨g, hl, hp, rfl⟩ := (mac_iff s).1 h
  match g, hl with
  | [t1, t2, t3, t4, t5, t6], _ =>
    obtain ⟨_, _, rfl, _, _⟩ := hp t1 (by simp)
    obtain ⟨_, _, rfl, _, _⟩ := hp t2 (by simp)
    obtain ⟨_, _, rfl, _, _⟩ := hp t3 (by simp)
    obtain ⟨_, _, rfl, _, _⟩ := hp t4 (by simp)
    obtain ⟨_, _, rfl, _, _⟩ := hp t5 (by simp)
    obtain ⟨_, _, rfl, _, _⟩ := hp t6 (by simp)
    simp [joinSep]

/-- alphabet: every character of an accepted MAC is an ASCII hex digit or ':' — no non-ASCII character
    (ligature, fullwidth form, …) can stand for one or two of them -/
theorem mac_alphabet (s : List Char) (h : isValidMac s = true) :
    ∀ c ∈ s, (isHex c = true ∨ c = ':') ∧ c.toNat < 128 := by
  obtain ⟨g, _, hp, rfl⟩ := (mac_iff s).1 h
  intro c hc
  have key : isHex c = true ∨ c = ':' := by
    rcases lemma_joinSep_mem ':' g c hc with h1 | ⟨t, ht, hct⟩
    · exact Or.inr h1
    · obtain ⟨a, b, rfl, ha, hb⟩ := hp t ht
      simp at hct
      rcases hct with rfl | rfl
      · exact Or.inl ha
      · exact Or.inl hb
  refine ⟨key, ?_⟩
  rcases key with hh | rfl
  · simp [isHex, isDigit] at hh; omega
  · decide

example : isValidMac ['5','2',':','5','4',':','0','0',':','c','f',':','2','d',':', Char.ofNat 0xFB00] = false := by
  decide +kernel

example : isValidMac "52:54:00:cf:2D:31".toList = true := by decide +kernel
example : isValidMac "52:54:00:cf:2d:31\n".toList = false := by decide +kernel
example : isValidMac "52-54-00-cf-2d-31".toList = false := by decide +kernel
example : isValidMac "52:54:00:cf:2d".toList = false := by decide +kernel
example : isValidMac "52:54:00:cf:2d:31:00".toList = false := by decide +kernel

/-! ### ports and ICMP numbers -/

/-- a str is a valid port exactly when Python `int()` reads it as a number in 0..65535 -/
theorem port_iff (s : List Char) :
    isValidPort (.str s) = true ↔ ∃ n : Int, pyInt s = some n ∧ 0 ≤ n ∧ n ≤ 65535 := by
  simp only [isValidPort, isIntInRange, toInt]
  cases pyInt s <;> simp

theorem port_int_iff (n : Int) : isValidPort (.int n) = true ↔ 0 ≤ n ∧ n ≤ 65535 := by
  simp [isValidPort, isIntInRange, toInt]

theorem port_none : isValidPort .none = false := rfl

theorem icmp_type_iff (s : List Char) :
    isValidIcmpType (.str s) = true ↔ ∃ n : Int, pyInt s = some n ∧ 0 ≤ n ∧ n ≤ 255 := by
  simp only [isValidIcmpType, isIntInRange, toInt]
  cases pyInt s <;> simp

theorem icmp_type_int_iff (n : Int) : isValidIcmpType (.int n) = true ↔ 0 ≤ n ∧ n ≤ 255 := by
  simp [isValidIcmpType, isIntInRange, toInt]

theorem icmp_type_none : isValidIcmpType .none = false := rfl

theorem icmp_code_iff (s : List Char) :
    isValidIcmpCode (.str s) = true ↔ ∃ n : Int, pyInt s = some n ∧ 0 ≤ n ∧ n ≤ 255 := by
  simp only [isValidIcmpCode, isIntInRange, toInt]
  cases pyInt s <;> simp

theorem icmp_code_int_iff (n : Int) : isValidIcmpCode (.int n) = true ↔ 0 ≤ n ∧ n ≤ 255 := by
  simp [isValidIcmpCode, isIntInRange, toInt]

theorem icmp_code_none : isValidIcmpCode .none = true := rfl

/-- On plain decimal numerals `[0-9]+` the answer is the numeric comparison.  PARTIAL only in that it
    assumes the numeral is within CPython's `int` digit limit (4300 digits; longer ones raise
    ValueError inside `int()` and are answered False). -/
theorem port_decimal_iff_partial (p : List Char) (h : StrictDec p)
    (hlen : Gen.maxStrDigits = 0 ∨ p.length ≤ Gen.maxStrDigits) :
    isValidPort (.str p) = true ↔ decVal p ≤ 65535 := by
  rw [port_iff, lemma_pyInt_strict p h hlen]
  simp
  omega

/-- every character of an accepted port text is white space, a sign, '_' or a decimal digit -/
theorem port_alphabet (s : List Char) (h : isValidPort (.str s) = true) : ∀ c ∈ s, IntChar c := by
  obtain ⟨n, hn, _⟩ := (port_iff s).1 h
  exact lemma_pyInt_chars s n hn

example : isValidPort (.str "65535".toList) = true := by decide +kernel
example : isValidPort (.str "65536".toList) = false := by decide +kernel
example : isValidPort (.str "-1".toList) = false := by decide +kernel
example : isValidPort (.str " 80 ".toList) = true := by decide +kernel
example : isValidPort (.str "8_0".toList) = true := by decide +kernel
example : isValidPort (.str "80.0".toList) = false := by decide +kernel
example : isValidPort (.str "".toList) = false := by decide +kernel
example : isValidIcmpType (.str "255".toList) = true := by decide +kernel
example : isValidIcmpType (.str "256".toList) = false := by decide +kernel
example : StrictDec "65535".toList := ⟨by decide, by decide⟩

end Oslo.Net
