/-
C05 — inspector memory is bounded by a constant, whatever the stream claims.

`retained` is `sum(context_info.values())`.  Theorems hold for all ten formats (VHDX and
VMDK included), every byte string, every chunking, **every prefix of the feed**, and also
when feeding continues after an inspector raised.  The numeric step is `decide` over the
*generated* initial regions and constants, so removing a clamp or enlarging a region in the
code breaks an obligation here.
-/
import OsloProofs.Lemmas.Bounded
namespace Oslo.Insp

/-- feed every chunk whether or not an earlier one raised (a direct user may do that) -/
def feedAll (s : Insp) (chunks : List Bytes) : Insp := chunks.foldl (fun s c => (eatChunk s c).1) s

/-- every format's freshly initialised inspector satisfies the invariant -/
theorem init_inv (f : Fmt) (s0 : Insp) (h0 : Insp.init f = some s0) : SInv s0 := by
  unfold Insp.init at h0
  split at h0
  · simp at h0
  · simp only [Option.some.injEq] at h0
    subst h0
    apply lemma_rinvB
    cases f <;> decide

/-- **region_data_le_length / region_caps** — in every state reachable by feeding, every region
    holds at most `length` bytes, `length` is at most the cap of its name, names are distinct and
    come from the format's fixed list. -/
theorem reachable_inv (f : Fmt) (s0 : Insp) (h0 : Insp.init f = some s0) (chunks : List Bytes) :
    SInv (feedAll s0 chunks) ∧ (feedAll s0 chunks).fmt = f := by
  have hf : s0.fmt = f := by
    unfold Insp.init at h0
    split at h0
    · simp at h0
    · simp only [Option.some.injEq] at h0; subst h0; rfl
  have : ∀ (s : Insp), SInv s → SInv (feedAll s chunks) ∧ (feedAll s chunks).fmt = s.fmt := by
    induction chunks with
    | nil => intro s h; exact ⟨h, rfl⟩
    | cons c cs ih =>
      intro s h
      obtain ⟨h1, f1⟩ := lemma_eatChunk_inv s c h
      obtain ⟨h2, f2⟩ := ih _ h1
      exact ⟨h2, f2.trans f1⟩
  obtain ⟨a, b⟩ := this s0 (init_inv f s0 h0)
  exact ⟨a, b.trans hf⟩

/-- the caps add up to less than the bound: 1.5 MiB for VMDK, 512 KiB for every other format
    (over the generated tables and constants) -/
theorem caps_below_limit (f : Fmt) : ((allowed f).map (cap f)).sum ≤ limit f := by
  cases f <;> decide

/-- **retained_le_bound** — after any chunk list (any prefix of any chunking of any stream, with or
    without errors along the way) the bytes an inspector retains never exceed the bound. -/
theorem retained_le_bound (f : Fmt) (s0 : Insp) (h0 : Insp.init f = some s0) (chunks : List Bytes) :
    (feedAll s0 chunks).retained ≤ limit f := by
  obtain ⟨h, hf⟩ := reachable_inv f s0 h0 chunks
  have := lemma_retained_le (feedAll s0 chunks).fmt (feedAll s0 chunks).regions h
  rw [hf] at this
  exact Nat.le_trans this (caps_below_limit f)

/-- … also after `finish()` -/
theorem retained_le_bound_finished (f : Fmt) (s0 : Insp) (h0 : Insp.init f = some s0)
    (chunks : List Bytes) : (feedAll s0 chunks).finish.retained ≤ limit f := by
  obtain ⟨h, hf⟩ := reachable_inv f s0 h0 chunks
  have h' := lemma_finish_inv _ h
  have := lemma_retained_le (feedAll s0 chunks).finish.fmt (feedAll s0 chunks).finish.regions h'
  have hf' : (feedAll s0 chunks).finish.fmt = f := hf
  rw [hf'] at this
  exact Nat.le_trans this (caps_below_limit f)

theorem lemma_feed_eq_feedAll (chunks : List Bytes) : ∀ (s : Insp), ∃ k, (feed s chunks).1 = feedAll s (chunks.take k) := by
  induction chunks with
  | nil => intro s; exact ⟨0, rfl⟩
  | cons c cs ih =>
    intro s
    unfold feed
    split
    · rename_i s1 e heq
      refine ⟨1, ?_⟩
      simp [feedAll, heq]
    · rename_i s1 heq
      obtain ⟨k, hk⟩ := ih s1
      refine ⟨k + 1, ?_⟩
      simp only [List.take_succ_cons, feedAll, List.foldl_cons, heq]
      exact hk

/-- the same under InspectWrapper's discipline (an inspector that raised is not fed again) -/
theorem retained_le_bound_wrapper (f : Fmt) (s0 : Insp) (h0 : Insp.init f = some s0)
    (chunks : List Bytes) : (runChunks s0 chunks).1.retained ≤ limit f := by
  obtain ⟨k, hk⟩ := lemma_feed_eq_feedAll chunks s0
  simp only [runChunks, hk]
  exact retained_le_bound_finished f s0 h0 (chunks.take k)

/-- each single region is bounded by its own cap -/
theorem region_le_cap (f : Fmt) (s0 : Insp) (h0 : Insp.init f = some s0) (chunks : List Bytes) :
    ∀ p ∈ (feedAll s0 chunks).regions, p.2.data.length ≤ p.2.length ∧ p.2.length ≤ cap f p.1 := by
  obtain ⟨h, hf⟩ := reachable_inv f s0 h0 chunks
  intro p hp
  obtain ⟨_, b, c, _⟩ := h.each p hp
  rw [hf] at c
  exact ⟨b, c⟩

theorem lemma_sum_filterMap_le {α : Type} (g : α → Option Nat) (h : α → Nat)
    (hb : ∀ a x, g a = some x → x ≤ h a) : ∀ (l : List α), (l.filterMap g).sum ≤ (l.map h).sum := by
  intro l
  induction l with
  | nil => simp
  | cons a l ih =>
    cases hg : g a with
    | none => simp only [List.filterMap_cons, hg, List.map_cons, List.sum_cons]; omega
    | some x =>
      have := hb a x hg
      simp only [List.filterMap_cons, hg, List.map_cons, List.sum_cons]; omega

/-- **the whole detector** — the bytes retained by all inspectors an `InspectWrapper` can hold (one per
    format), after any chunk list, add up to at most the sum of the per-format bounds … -/
theorem retained_all_inspectors_le (chunks : List Bytes) :
    (Fmt.all.filterMap (fun f => (Insp.init f).map (fun s0 => (feedAll s0 chunks).retained))).sum
      ≤ (Fmt.all.map limit).sum := by
  apply lemma_sum_filterMap_le
  intro f x hx
  cases h0 : Insp.init f with
  | none => simp [h0] at hx
  | some s0 =>
    simp only [h0, Option.map_some, Option.some.injEq] at hx
    subst hx
    exact retained_le_bound f s0 h0 chunks

/-- the same under `InspectWrapper`'s discipline (failed inspectors no longer fed, all finished at close) -/
theorem retained_all_inspectors_le_wrapper (chunks : List Bytes) :
    (Fmt.all.filterMap (fun f => (Insp.init f).map (fun s0 => (runChunks s0 chunks).1.retained))).sum
      ≤ (Fmt.all.map limit).sum := by
  apply lemma_sum_filterMap_le
  intro f x hx
  cases h0 : Insp.init f with
  | none => simp [h0] at hx
  | some s0 =>
    simp only [h0, Option.map_some, Option.some.injEq] at hx
    subst hx
    exact retained_le_bound_wrapper f s0 h0 chunks

/-- … which is the constant 6 MiB (over the generated constants), and every format is present in that sum -/
theorem all_limits_sum : (Fmt.all.map limit).sum = 6 * 1024 * 1024 ∧
    (Fmt.all.filterMap (fun f => (Insp.init f).map (fun _ => 1))).sum = 10 := by decide

/-- the bound does not depend on the stream: it is the same constant for an empty feed and for any other -/
theorem retained_bound_is_constant (f : Fmt) (s0 : Insp) (h0 : Insp.init f = some s0)
    (chunks chunks' : List Bytes) :
    (feedAll s0 chunks).retained ≤ limit f ∧ (feedAll s0 chunks').retained ≤ limit f ∧
    (feedAll s0 (chunks ++ chunks')).retained ≤ limit f :=
  ⟨retained_le_bound f s0 h0 chunks, retained_le_bound f s0 h0 chunks', retained_le_bound f s0 h0 _⟩

/-! non-vacuity: a VMDK header announcing 2^64-1 descriptor sectors is clamped -/
example : cap .vmdk "descriptor" = 1048575 ∧ cap .vhdx "vds" = 65536 ∧ limit .vmdk = 1572864 := by decide

example : ∀ f ∈ Fmt.all, (Insp.init f).isSome = true := by decide

end Oslo.Insp
