/-
Reading a whole source through an `InspectWrapper` WITH an expected format, generic in the
inspectors (`IOps σ`; assumptions: `NameStable`, pairwise distinct names).

* `lemma_loop_absent`   — if no (non-errored) inspector carries the expected name, one
  `_process_chunk` is exactly the one of the wrapper without expected format.
* `lemma_loop_expected` — otherwise it ends the way the expected inspector `x` alone decides on this
  chunk (`xdec`): its own `eat_chunk` error, its `format_match` error / `False` once complete, or it
  goes on — and then it is again exactly the `_process_chunk` without expected format.
* `lemma_pipe_expected` — the whole read: the stream is cut at the first chunk on which the expected
  inspector's decision is not "go on" (`xrun`), what was delivered is the chunks before it, and if
  it is never cut the closed wrapper is the one of the run without expected format.
Used by Props/C01WrapExp.lean.
-/
import OsloProofs.Lemmas.WrapRun
namespace Oslo.Insp

variable {σ : Type}

/-- how `_process_chunk` reads the expected inspector's `format_match` once it is complete -/
def ofMatch : Except Err Bool → POut
  | .error e => .raised e
  | .ok false => .mismatch
  | .ok true => .done

/-- decision read off the result of feeding the expected inspector -/
def decOf (ops : IOps σ) (r : σ × Option Err) : POut :=
  match r.2 with
  | some e => .raised e
  | none => if ops.complete r.1 then ofMatch (ops.fmatch r.1) else .done

/-- the expected inspector's decision on one chunk -/
def xdec (ops : IOps σ) (s : σ) (c : Bytes) : POut := decOf ops (ops.eat s c)

/-- the expected inspector alone over the chunk list: how many chunks pass before the first chunk
    whose decision is not "go on", and that decision (`.done` = all chunks passed) -/
def xrun (ops : IOps σ) : σ → List Bytes → Nat × POut
  | _, [] => (0, .done)
  | s, c :: cs =>
    match xdec ops s c with
    | .done => ((xrun ops (ops.eat s c).1 cs).1 + 1, (xrun ops (ops.eat s c).1 cs).2)
    | o => (0, o)

theorem lemma_xdec_done_noerr (ops : IOps σ) (s : σ) (c : Bytes) (h : xdec ops s c = .done) :
    (ops.eat s c).2 = none := by
  unfold xdec decOf at h
  cases he : (ops.eat s c).2 with
  | none => rfl
  | some e => rw [he] at h; simp at h

theorem lemma_xrun_cons_done (ops : IOps σ) (s : σ) (c : Bytes) (cs : List Bytes) (h : xdec ops s c = .done) :
    xrun ops s (c :: cs) = ((xrun ops (ops.eat s c).1 cs).1 + 1, (xrun ops (ops.eat s c).1 cs).2) := by
  simp only [xrun, h]

theorem lemma_xrun_cons_stop (ops : IOps σ) (s : σ) (c : Bytes) (cs : List Bytes) (h : xdec ops s c ≠ .done) :
    xrun ops s (c :: cs) = (0, xdec ops s c) := by
  simp only [xrun]

/-! ### one `_process_chunk` -/

theorem lemma_loop_absent (ops : IOps σ) (n : String) (c : Bytes) : ∀ (todo acc : List σ) (errd : List String),
    (∀ i ∈ todo, ops.name i = n → ops.name i ∈ errd) →
    processLoop ops (some n) c todo acc errd = processLoop ops none c todo acc errd := by
  intro todo
  induction todo with
  | nil => intro acc errd _; rfl
  | cons i rest ih =>
    intro acc errd h
    have hrest : ∀ (errd' : List String), (∀ m ∈ errd, m ∈ errd') →
        ∀ j ∈ rest, ops.name j = n → ops.name j ∈ errd' :=
      fun errd' hsub j hj hjn => hsub _ (h j (List.mem_cons_of_mem _ hj) hjn)
    simp only [processLoop]
    by_cases herr : errd.contains (ops.name i) = true
    · rw [if_pos herr, if_pos herr]
      exact ih (i :: acc) errd (hrest errd (fun _ hm => hm))
    · rw [if_neg herr, if_neg herr]
      have hm : ops.name i ∉ errd := by simpa using herr
      have hne : ops.name i ≠ n := fun hn => hm (h i (by simp) hn)
      have hne' : ¬ (some (ops.name i) = some n) := by simpa using hne
      cases he : ops.eat i c with
      | mk i' e =>
        cases e with
        | none =>
          simp only [hne', reduceCtorEq, decide_false, Bool.false_and, Bool.false_eq_true, if_false]
          exact ih (i' :: acc) errd (hrest errd (fun _ hm => hm))
        | some e =>
          simp only [hne', reduceCtorEq, if_false]
          exact ih (i' :: acc) (errd ++ [ops.name i]) (hrest _ (fun m hm => by simp [hm]))

theorem lemma_loop_expected (ops : IOps σ) (n : String) (c : Bytes) (x : σ) (hxn : ops.name x = n) :
    ∀ (todo acc : List σ) (errd : List String), Distinct ops todo → x ∈ todo → ops.name x ∉ errd →
    (xdec ops x c = .done →
      processLoop ops (some n) c todo acc errd = processLoop ops none c todo acc errd) ∧
    (xdec ops x c ≠ .done → (processLoop ops (some n) c todo acc errd).2.2 = xdec ops x c) := by
  intro todo
  induction todo with
  | nil => intro acc errd _ hx; simp at hx
  | cons i rest ih =>
    intro acc errd hd hx hxe
    obtain ⟨hi, hrest⟩ := List.pairwise_cons.mp hd
    simp only [List.mem_cons] at hx
    by_cases hxi : x = i
    · subst hxi
      have habs : ∀ (errd' : List String), ∀ j ∈ rest, ops.name j = n → ops.name j ∈ errd' :=
        fun errd' j hj hjn => absurd (hxn.trans hjn.symm) (hi j hj)
      have herr : ¬ (errd.contains (ops.name x) = true) := by simpa using hxe
      simp only [processLoop]
      rw [if_neg herr, if_neg herr]
      unfold xdec decOf
      cases he : ops.eat x c with
      | mk x' e =>
        cases e with
        | some e =>
          simp only [hxn, if_true]
          exact ⟨fun h => by simp at h, fun _ => by first | rfl | trivial⟩
        | none =>
          simp only [hxn, reduceCtorEq, decide_false, Bool.false_and, Bool.false_eq_true, if_false,
            decide_true, Bool.true_and]
          by_cases hc : ops.complete x' = true
          · simp only [hc, if_true]
            cases hfm : ops.fmatch x' with
            | error e => exact ⟨fun h => by simp [ofMatch] at h, fun _ => by first | rfl | trivial⟩
            | ok b =>
              cases b with
              | false => exact ⟨fun h => by simp [ofMatch] at h, fun _ => by first | rfl | trivial⟩
              | true =>
                refine ⟨fun _ => ?_, fun h => by simp [ofMatch] at h⟩
                exact lemma_loop_absent ops n c rest (x' :: acc) errd (habs errd)
          · simp only [hc, Bool.false_eq_true, if_false]
            refine ⟨fun _ => ?_, fun h => by simp at h⟩
            exact lemma_loop_absent ops n c rest (x' :: acc) errd (habs errd)
    · have hxr : x ∈ rest := by
        rcases hx with h | h
        · exact absurd h hxi
        · exact h
      have hne : ops.name i ≠ n := fun h => hi x hxr (h.trans hxn.symm)
      have hne' : ¬ (some (ops.name i) = some n) := by simpa using hne
      simp only [processLoop]
      by_cases herr : errd.contains (ops.name i) = true
      · rw [if_pos herr, if_pos herr]
        exact ih (i :: acc) errd hrest hxr hxe
      · rw [if_neg herr, if_neg herr]
        cases he : ops.eat i c with
        | mk i' e =>
          cases e with
          | none =>
            simp only [hne', reduceCtorEq, decide_false, Bool.false_and, Bool.false_eq_true, if_false]
            exact ih (i' :: acc) errd hrest hxr hxe
          | some e =>
            simp only [hne', reduceCtorEq, if_false]
            have hxe' : ops.name x ∉ errd ++ [ops.name i] := by
              simp only [List.mem_append, List.mem_singleton, not_or]
              exact ⟨hxe, fun h => hi x hxr h.symm⟩
            exact ih (i' :: acc) (errd ++ [ops.name i]) hrest hxr hxe'

theorem lemma_stepI_name (ops : IOps σ) (hn : NameStable ops) (errd : List String) (c : Bytes) (i : σ) :
    ops.name (stepI ops errd c i) = ops.name i := by
  unfold stepI
  split
  · rfl
  · exact hn i c

/-- a `_process_chunk` that behaves like the one without expected format -/
theorem lemma_chunk_as_none (ops : IOps σ) (hn : NameStable ops) (w : Wrap σ) (n : String) (c : Bytes)
    (hexp : w.expected = some n) (hd : Distinct ops w.insps)
    (heq : processLoop ops (some n) c w.insps [] w.errored = processLoop ops none c w.insps [] w.errored) :
    ∃ errd', w.processChunk ops c =
        ({ w with insps := w.insps.map (stepI ops w.errored c), errored := errd' }, .done) ∧
      Wrap.processChunk ops { w with expected := none } c =
        ({ w with expected := none, insps := w.insps.map (stepI ops w.errored c), errored := errd' }, .done) ∧
      (∀ m, m ∈ errd' ↔ m ∈ w.errored ∨ ∃ i ∈ w.insps, ops.name i = m ∧ newErr ops w.errored c i = true) ∧
      Distinct ops (w.insps.map (stepI ops w.errored c)) := by
  obtain ⟨errd', hl, hmem⟩ := lemma_loop_none ops c w.insps [] w.errored hd
  refine ⟨errd', ?_, ?_, hmem, lemma_distinct_map ops _ (lemma_stepI_name ops hn w.errored c) _ hd⟩
  · simp only [Wrap.processChunk, hexp, heq, hl, List.reverse_nil, List.nil_append]
  · simp only [Wrap.processChunk, hl, List.reverse_nil, List.nil_append]

/-! ### the whole read -/

/-- no inspector carries the expected name: the read is the one without expected format -/
theorem lemma_pipe_absent (ops : IOps σ) (hn : NameStable ops) (n : String) :
    ∀ (cs : List Bytes) (w : Wrap σ) (out : List Bytes), w.expected = some n → Distinct ops w.insps →
    (∀ i ∈ w.insps, ops.name i ≠ n) →
    Wrap.pipe ops w cs out =
      ((Wrap.pipe ops { w with expected := none } cs out).1,
       { (Wrap.pipe ops { w with expected := none } cs out).2.1 with expected := some n },
       (Wrap.pipe ops { w with expected := none } cs out).2.2) := by
  intro cs
  induction cs with
  | nil =>
    intro w out hexp _ _
    simp only [Wrap.pipe, Wrap.finish]
    rw [← hexp]
  | cons c cs ih =>
    intro w out hexp hd habs
    have heq := lemma_loop_absent ops n c w.insps [] w.errored (fun i hi hin => absurd hin (habs i hi))
    obtain ⟨errd', h1, h2, _, hd'⟩ := lemma_chunk_as_none ops hn w n c hexp hd heq
    simp only [Wrap.pipe, h1, h2]
    have habs' : ∀ i ∈ w.insps.map (stepI ops w.errored c), ops.name i ≠ n := by
      intro i hi
      obtain ⟨j, hj, rfl⟩ := List.mem_map.mp hi
      rw [lemma_stepI_name ops hn]
      exact habs j hj
    exact ih { w with insps := w.insps.map (stepI ops w.errored c), errored := errd' } (c :: out) hexp hd' habs'

/-- the inspector `x` carries the expected name: the read is cut where `x` alone decides -/
theorem lemma_pipe_expected (ops : IOps σ) (hn : NameStable ops) (n : String) :
    ∀ (cs : List Bytes) (w : Wrap σ) (out : List Bytes) (x : σ), w.expected = some n → Distinct ops w.insps →
    x ∈ w.insps → ops.name x = n → ops.name x ∉ w.errored →
    (Wrap.pipe ops w cs out).1 = out.reverse ++ cs.take (xrun ops x cs).1 ∧
    (Wrap.pipe ops w cs out).2.2 = (xrun ops x cs).2 ∧
    ((xrun ops x cs).2 = .done →
      (Wrap.pipe ops w cs out).2.1 =
        { (Wrap.pipe ops { w with expected := none } cs out).2.1 with expected := some n }) := by
  intro cs
  induction cs with
  | nil =>
    intro w out x hexp _ _ _ _
    simp only [Wrap.pipe, Wrap.finish, xrun, List.take_nil, List.append_nil, true_and]
    intro _
    rw [← hexp]
  | cons c cs ih =>
    intro w out x hexp hd hx hxn hxe
    obtain ⟨hdone, hstop⟩ := lemma_loop_expected ops n c x hxn w.insps [] w.errored hd hx hxe
    by_cases hdec : xdec ops x c = .done
    · obtain ⟨errd', h1, h2, hmem, hd'⟩ := lemma_chunk_as_none ops hn w n c hexp hd (hdone hdec)
      have hnoerr := lemma_xdec_done_noerr ops x c hdec
      have hstep : stepI ops w.errored c x = (ops.eat x c).1 := by
        have : ¬ (w.errored.contains (ops.name x) = true) := by simpa using hxe
        simp only [stepI, if_neg this]
      have hx' : (ops.eat x c).1 ∈ w.insps.map (stepI ops w.errored c) := by
        rw [← hstep]; exact List.mem_map.mpr ⟨x, hx, rfl⟩
      have hxn' : ops.name (ops.eat x c).1 = n := (hn x c).trans hxn
      have hxe' : ops.name (ops.eat x c).1 ∉ errd' := by
        rw [hn x c, hmem]
        rintro (h | ⟨j, hj, hjn, hje⟩)
        · exact hxe h
        · have := lemma_distinct_inj ops w.insps hd j hj x hx hjn
          subst this
          simp [newErr, hnoerr] at hje
      obtain ⟨i1, i2, i3⟩ := ih { w with insps := w.insps.map (stepI ops w.errored c), errored := errd' }
        (c :: out) (ops.eat x c).1 hexp hd' hx' hxn' hxe'
      simp only [Wrap.pipe, h1, h2, lemma_xrun_cons_done ops x c cs hdec]
      refine ⟨?_, i2, i3⟩
      rw [i1]
      simp
    · have ho := hstop hdec
      rw [lemma_xrun_cons_stop ops x c cs hdec]
      have hpc : (w.processChunk ops c).2 = xdec ops x c := by
        simp only [Wrap.processChunk, hexp]
        exact ho
      simp only [Wrap.pipe]
      cases hw : w.processChunk ops c with
      | mk w' o =>
        rw [hw] at hpc
        simp only at hpc
        subst hpc
        cases hxd : xdec ops x c with
        | done => exact absurd hxd hdec
        | raised e => simp
        | mismatch => simp

/-! ### the expected inspector's run, read prefix by prefix -/

theorem lemma_gfeed_cons_ok (ops : IOps σ) (s : σ) (c : Bytes) (cs : List Bytes) (h : (ops.eat s c).2 = none) :
    gfeed ops s (c :: cs) = gfeed ops (ops.eat s c).1 cs := by
  simp only [gfeed]
  cases he : ops.eat s c with
  | mk s1 e =>
    rw [he] at h
    simp only at h
    subst h
    rfl

theorem lemma_gfeed_single (ops : IOps σ) (s : σ) (c : Bytes) : gfeed ops s [c] = ops.eat s c := by
  simp only [gfeed]
  cases he : ops.eat s c with
  | mk s1 e => cases e <;> rfl

/-- where the run stops, the decision is the one read off the expected inspector fed the chunks up
    to and including the stopping one; nothing raised before -/
theorem lemma_xrun_stop (ops : IOps σ) : ∀ (cs : List Bytes) (s : σ), (xrun ops s cs).2 ≠ .done →
    ∃ pre c post, cs = pre ++ c :: post ∧ pre.length = (xrun ops s cs).1 ∧
      (gfeed ops s pre).2 = none ∧ decOf ops (gfeed ops s (pre ++ [c])) = (xrun ops s cs).2 := by
  intro cs
  induction cs with
  | nil => intro s h; simp [xrun] at h
  | cons c cs ih =>
    intro s h
    by_cases hdec : xdec ops s c = .done
    · rw [lemma_xrun_cons_done ops s c cs hdec] at h ⊢
      have hnoerr := lemma_xdec_done_noerr ops s c hdec
      obtain ⟨pre, c', post, hcs, hlen, hok, hd⟩ := ih (ops.eat s c).1 h
      refine ⟨c :: pre, c', post, by simp [hcs], by simp [hlen], ?_, ?_⟩
      · rw [lemma_gfeed_cons_ok ops s c pre hnoerr]; exact hok
      · rw [List.cons_append, lemma_gfeed_cons_ok ops s c _ hnoerr]; exact hd
    · rw [lemma_xrun_cons_stop ops s c cs hdec]
      refine ⟨[], c, cs, rfl, rfl, rfl, ?_⟩
      rw [List.nil_append, lemma_gfeed_single]
      rfl

/-- when the run never stops, every chunk passed, nothing raised, and the decision read off every
    non-empty prefix of the chunk list is "go on" -/
theorem lemma_xrun_done (ops : IOps σ) : ∀ (cs : List Bytes) (s : σ), (xrun ops s cs).2 = .done →
    (xrun ops s cs).1 = cs.length ∧ (gfeed ops s cs).2 = none ∧
    ∀ pre c post, cs = pre ++ c :: post → decOf ops (gfeed ops s (pre ++ [c])) = .done := by
  intro cs
  induction cs with
  | nil =>
    intro s _
    refine ⟨rfl, rfl, ?_⟩
    intro pre c post h
    simp at h
  | cons c cs ih =>
    intro s h
    by_cases hdec : xdec ops s c = .done
    · rw [lemma_xrun_cons_done ops s c cs hdec] at h ⊢
      have hnoerr := lemma_xdec_done_noerr ops s c hdec
      obtain ⟨h1, h2, h3⟩ := ih (ops.eat s c).1 h
      refine ⟨by simp [h1], by rw [lemma_gfeed_cons_ok ops s c cs hnoerr]; exact h2, ?_⟩
      intro pre c' post hsplit
      cases pre with
      | nil =>
        simp only [List.nil_append, List.cons.injEq] at hsplit
        rw [List.nil_append, ← hsplit.1, lemma_gfeed_single]
        exact hdec
      | cons p pre =>
        simp only [List.cons_append, List.cons.injEq] at hsplit
        rw [List.cons_append, ← hsplit.1, lemma_gfeed_cons_ok ops s c _ hnoerr]
        exact h3 pre c' post hsplit.2
    · rw [lemma_xrun_cons_stop ops s c cs hdec] at h
      exact absurd h hdec

/-- if the decision read off every non-empty prefix is "go on", the run never stops -/
theorem lemma_xrun_all_done (ops : IOps σ) (cs : List Bytes) (s : σ)
    (h : ∀ pre c post, cs = pre ++ c :: post → decOf ops (gfeed ops s (pre ++ [c])) = .done) :
    (xrun ops s cs).2 = .done := by
  by_cases hd : (xrun ops s cs).2 = .done
  · exact hd
  · obtain ⟨pre, c, post, hcs, _, _, hdec⟩ := lemma_xrun_stop ops cs s hd
    rw [← hdec]
    exact h pre c post hcs

/-- if the decision read off every non-empty prefix is "go on" or `o`, and it is `o` for the whole
    (non-empty) chunk list, the run stops with `o` -/
theorem lemma_xrun_two (ops : IOps σ) (cs : List Bytes) (s : σ) (o : POut) (ho : o ≠ .done)
    (h : ∀ pre c post, cs = pre ++ c :: post →
      decOf ops (gfeed ops s (pre ++ [c])) = .done ∨ decOf ops (gfeed ops s (pre ++ [c])) = o)
    (hlast : ∃ pre c post, cs = pre ++ c :: post ∧ decOf ops (gfeed ops s (pre ++ [c])) = o) :
    (xrun ops s cs).2 = o := by
  by_cases hd : (xrun ops s cs).2 = .done
  · obtain ⟨pre, c, post, hcs, hdec⟩ := hlast
    have := (lemma_xrun_done ops cs s hd).2.2 pre c post hcs
    rw [hdec] at this
    exact absurd this ho
  · obtain ⟨pre, c, post, hcs, _, _, hdec⟩ := lemma_xrun_stop ops cs s hd
    rcases h pre c post hcs with h1 | h1
    · rw [hdec] at h1; exact absurd h1 hd
    · rw [← hdec]; exact h1

end Oslo.Insp
