/-
C08 — mask_dict_password masks recursively and never modifies its argument.
-/
import OsloModel.MaskDict
namespace Oslo.MaskDict
open Oslo.Mask

/-- a non-mapping argument raises TypeError -/
theorem maskdict_non_mapping_typeerror (v : PyVal) (mask : List Char) :
    (∀ items, v ≠ .map items) ↔ maskDict v mask = .error .typeError := by
  cases v <;> simp [maskDict]

end Oslo.MaskDict
