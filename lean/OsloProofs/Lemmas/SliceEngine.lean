/-
The engine-level invariant behind "whatever an inspector retains for a region is exactly the
stream's bytes at that region's offsets", for all ten formats, under the forward proviso for
regions created while streaming.
-/
import OsloProofs.Lemmas.Evolves
namespace Oslo.Insp

/-- a region that holds nothing is consistent with the prefix `p` when it is an end-capture region
    or starts at or after `|p|` -/
theorem lemma_regInv_empty (r : Region) (p : Bytes) (hd : r.data = [])
    (h : (r.isEnd = true ∧ 0 < r.length) ∨ (r.isEnd = false ∧ p.length ≤ r.offset)) : RegInv r p := by
  rcases h with ⟨hE, hl⟩ | ⟨hE, hf⟩
  · refine ⟨fun h => by rw [hE] at h; simp at h, fun _ => ⟨hl, p.length, Nat.le_refl _, ?_, Or.inl hd⟩⟩
    rw [hd]; simp [lastN]
  · refine ⟨fun _ => ⟨by rw [hd]; simp, fun _ => ?_⟩, fun h => by rw [hE] at h; simp at h⟩
    rw [hd]
    simp only [sliceOf]
    rw [List.drop_eq_nil_of_le hf]
    simp

theorem lemma_regInv_sot {y x : Region} (q : Bytes) (h : SameOrTrunc y x) (hy : RegInv y q) : RegInv x q := by
  rcases h with rfl | ⟨hE, rfl⟩
  · exact hy
  · exact lemma_regInv_trunc y q hE hy

/-- new plain regions of one post-processing step start at or after the start of the current chunk -/
def PPFwd (s : Insp) (p : Bytes) : Prop :=
  ∀ x ∈ (postProcess s).1.regions, s.nextRid ≤ x.2.rid → x.2.isEnd = false → p.length ≤ x.2.offset

/-- invariant while chunk `c` (after prefix `p`) is being processed: regions whose identity is in
    `seen` have been presented `p ++ c`, the others only `p` and hold nothing yet -/
structure MidInv (s : Insp) (p c : Bytes) (seen : List Nat) : Prop where
  sinv : SInv s
  bnd : Bnd s
  total : s.total = p.length + c.length
  seenlt : ∀ i ∈ seen, i < s.nextRid
  regs : ∀ x ∈ s.regions, (x.2.rid ∈ seen → RegInv x.2 (p ++ c)) ∧
                          (x.2.rid ∉ seen → RegInv x.2 p ∧ x.2.data = [])

theorem lemma_mid_postProcess (s : Insp) (p c : Bytes) (seen : List Nat) (h : MidInv s p c seen)
    (hall : ∀ x ∈ s.regions, x.2.rid ∈ seen) (hf : PPFwd s p) :
    MidInv (postProcess s).1 p c seen := by
  have hev := lemma_postProcess_evolves s h.sinv h.bnd
  obtain ⟨hs', _⟩ := lemma_postProcess_inv s h.sinv
  refine ⟨hs', hev.bnd, by rw [hev.total]; exact h.total,
    fun i hi => Nat.lt_of_lt_of_le (h.seenlt i hi) hev.next, ?_⟩
  intro x hx
  by_cases hlt : x.2.rid < s.nextRid
  · obtain ⟨y, hy, _, hsot⟩ := hev.old x hx hlt
    have hrid := lemma_sot_rid hsot
    have hyseen := hall y hy
    refine ⟨fun _ => lemma_regInv_sot _ hsot ((h.regs y hy).1 hyseen), fun hns => ?_⟩
    rw [hrid] at hns
    exact absurd hyseen hns
  · have hge : s.nextRid ≤ x.2.rid := by omega
    have hdata := hev.new x hx hge
    have hns : x.2.rid ∉ seen := fun hm => by have := h.seenlt _ hm; omega
    refine ⟨fun hm => absurd hm hns, fun _ => ⟨?_, hdata⟩⟩
    apply lemma_regInv_empty _ _ hdata
    cases hE : x.2.isEnd
    · exact Or.inr ⟨rfl, hf x hx hge hE⟩
    · exact Or.inl ⟨rfl, ((hs'.each x hx).2.2.2 hE).1⟩

theorem lemma_nodup_fst {l : List (String × Region)} (hn : (l.map (·.1)).Nodup) {x y : String × Region}
    (hx : x ∈ l) (hy : y ∈ l) (h : x.1 = y.1) : x = y := by
  induction l with
  | nil => simp at hx
  | cons a l ih =>
    simp only [List.map_cons, List.nodup_cons, List.mem_map, not_exists, not_and] at hn
    simp only [List.mem_cons] at hx hy
    rcases hx with rfl | hx <;> rcases hy with rfl | hy
    · rfl
    · exact absurd h.symm (hn.1 y hy)
    · exact absurd h (hn.1 x hx)
    · exact ih hn.2 hx hy

/-- presenting the current chunk to the not-yet-seen regions (by name, as `_capture(chunk, only=…)`) -/
theorem lemma_mid_capture (s : Insp) (p c : Bytes) (seen : List Nat) (h : MidInv s p c seen)
    (hne : (s.regions.filter (fun x => !seen.contains x.2.rid)) ≠ []) :
    let fresh := s.regions.filter (fun x => !seen.contains x.2.rid)
    let s1 := s.captureAll c (fresh.map (·.1))
    MidInv s1 p c (seen ++ fresh.map (·.2.rid)) ∧ ∀ x ∈ s1.regions, x.2.rid ∈ seen ++ fresh.map (·.2.rid) := by
  intro fresh s1
  have hs1 : SInv s1 := lemma_rinv_captureAll s c _ h.sinv
  have hreg : s1.regions = s.regions.map (fun x => (x.1,
      if ((fresh.map (·.1)).isEmpty || (fresh.map (·.1)).contains x.1) && (x.2.isEnd || !x.2.complete)
      then x.2.capture c s.total else x.2)) := by
    show (s.captureAll c (fresh.map (·.1))).regions = _
    rw [lemma_captureAll_eq]
  have hnemp : (fresh.map (·.1)).isEmpty = false := by
    cases hf : fresh with
    | nil => exact absurd hf hne
    | cons a l => rfl
  -- membership in the name list is membership in `fresh`
  have hname : ∀ x ∈ s.regions, ((fresh.map (·.1)).contains x.1 = true ↔ x.2.rid ∉ seen) := by
    intro x hx
    simp only [List.contains_eq_mem, List.mem_map, decide_eq_true_eq]
    constructor
    · rintro ⟨y, hy, hyn⟩
      have hyl : y ∈ s.regions := (List.mem_filter.mp hy).1
      have := lemma_nodup_fst h.sinv.nodup hyl hx hyn
      subst this
      simpa using (List.mem_filter.mp hy).2
    · intro hns
      exact ⟨x, List.mem_filter.mpr ⟨hx, by simpa using hns⟩, rfl⟩
  have hstep : ∀ x ∈ s.regions,
      (if ((fresh.map (·.1)).isEmpty || (fresh.map (·.1)).contains x.1) && (x.2.isEnd || !x.2.complete)
       then x.2.capture c s.total else x.2) =
      if x.2.rid ∈ seen then x.2 else stepRegion c (p.length + c.length) x.2 := by
    intro x hx
    rw [hnemp, Bool.false_or]
    by_cases hs : x.2.rid ∈ seen
    · have : (fresh.map (·.1)).contains x.1 = false := by
        cases hc : (fresh.map (·.1)).contains x.1
        · rfl
        · exact absurd hs ((hname x hx).mp hc)
      simp only [this, Bool.false_and, Bool.false_eq_true, if_false, hs, if_true]
    · have : (fresh.map (·.1)).contains x.1 = true := (hname x hx).mpr hs
      simp only [this, Bool.true_and, hs, if_false, stepRegion, h.total]
  constructor
  · refine ⟨hs1, ?_, h.total, ?_, ?_⟩
    · intro x hx
      rw [hreg] at hx
      simp only [List.mem_map] at hx
      obtain ⟨y, hy, rfl⟩ := hx
      have hb := h.bnd y hy
      simp only [hstep y hy]
      show _ < s.nextRid
      split
      · exact hb
      · rw [lemma_stepRegion_rid]; exact hb
    · intro i hi
      simp only [List.mem_append, List.mem_map] at hi
      rcases hi with hi | ⟨y, hy, rfl⟩
      · exact h.seenlt i hi
      · exact h.bnd y (List.mem_filter.mp hy).1
    · intro x hx
      rw [hreg] at hx
      simp only [List.mem_map] at hx
      obtain ⟨y, hy, rfl⟩ := hx
      simp only [hstep y hy]
      by_cases hs : y.2.rid ∈ seen
      · simp only [hs, if_true]
        exact ⟨fun _ => (h.regs y hy).1 hs, fun hn => absurd (List.mem_append_left _ hs) hn⟩
      · simp only [hs, if_false]
        have hri := (h.regs y hy).2 hs
        refine ⟨fun _ => lemma_regInv_step y.2 p c hri.1, fun hn => ?_⟩
        exfalso
        apply hn
        rw [lemma_stepRegion_rid]
        apply List.mem_append_right
        exact List.mem_map.mpr ⟨y, List.mem_filter.mpr ⟨hy, by simpa using hs⟩, rfl⟩
  · intro x hx
    rw [hreg] at hx
    simp only [List.mem_map] at hx
    obtain ⟨y, hy, rfl⟩ := hx
    simp only [hstep y hy]
    by_cases hs : y.2.rid ∈ seen
    · simp only [hs, if_true]; exact List.mem_append_left _ hs
    · simp only [hs, if_false, lemma_stepRegion_rid]
      apply List.mem_append_right
      exact List.mem_map.mpr ⟨y, List.mem_filter.mpr ⟨hy, by simpa using hs⟩, rfl⟩

end Oslo.Insp

namespace Oslo.Insp

/-- invariant between chunks -/
structure StreamInv (s : Insp) (p : Bytes) : Prop where
  sinv : SInv s
  bnd : Bnd s
  total : s.total = p.length
  regs : ∀ x ∈ s.regions, RegInv x.2 p

/-- the first `_capture(chunk)` of `eat_chunk` presents the chunk to every region -/
theorem lemma_first_capture (s : Insp) (p c : Bytes) (h : StreamInv s p) :
    let s1 := ({ s with total := s.total + c.length } : Insp).captureAll c []
    MidInv s1 p c (s.regions.map (·.2.rid)) ∧ ∀ x ∈ s1.regions, x.2.rid ∈ s.regions.map (·.2.rid) := by
  intro s1
  have hs0 : SInv ({ s with total := s.total + c.length } : Insp) := h.sinv
  have hs1 : SInv s1 := lemma_rinv_captureAll _ c [] hs0
  have hreg : s1.regions = s.regions.map (fun x => (x.1, stepRegion c (p.length + c.length) x.2)) := by
    show (({ s with total := s.total + c.length } : Insp).captureAll c []).regions = _
    rw [lemma_captureAll_nil]
    simp only [h.total]
  have hmem : ∀ x ∈ s1.regions, ∃ y ∈ s.regions, x = (y.1, stepRegion c (p.length + c.length) y.2) := by
    intro x hx
    rw [hreg] at hx
    simp only [List.mem_map] at hx
    obtain ⟨y, hy, rfl⟩ := hx
    exact ⟨y, hy, rfl⟩
  constructor
  · refine ⟨hs1, ?_, by show s.total + c.length = _; rw [h.total], ?_, ?_⟩
    · intro x hx
      obtain ⟨y, hy, rfl⟩ := hmem x hx
      show _ < s.nextRid
      rw [lemma_stepRegion_rid]
      exact h.bnd y hy
    · intro i hi
      simp only [List.mem_map] at hi
      obtain ⟨y, hy, rfl⟩ := hi
      exact h.bnd y hy
    · intro x hx
      obtain ⟨y, hy, rfl⟩ := hmem x hx
      refine ⟨fun _ => lemma_regInv_step y.2 p c (h.regs y hy), fun hn => ?_⟩
      exfalso
      apply hn
      simp only [lemma_stepRegion_rid]
      exact List.mem_map.mpr ⟨y, hy, rfl⟩
  · intro x hx
    obtain ⟨y, hy, rfl⟩ := hmem x hx
    simp only [lemma_stepRegion_rid]
    exact List.mem_map.mpr ⟨y, hy, rfl⟩

/-- the forward proviso for every post-processing step inside the `while new_regions` loop -/
def fwdFollow : Nat → Insp → Bytes → List Nat → Bytes → Prop
  | 0, _, _, _, _ => True
  | fuel + 1, s, c, seen, p =>
    let fresh := s.regions.filter (fun x => !seen.contains x.2.rid)
    if fresh.isEmpty then True else
    let s1 := s.captureAll c (fresh.map (·.1))
    PPFwd s1 p ∧
    match postProcess s1 with
    | (_, some _) => True
    | (s2, none) => fwdFollow fuel s2 c (seen ++ fresh.map (·.2.rid)) p

/-- … and for one whole `eat_chunk` -/
def fwdEat (s : Insp) (c p : Bytes) : Prop :=
  if s.finished then True else
  let s2 := ({ s with total := s.total + c.length } : Insp).captureAll c []
  PPFwd s2 p ∧
  match postProcess s2 with
  | (_, some _) => True
  | (s3, none) => fwdFollow 8 s3 c (s.regions.map (·.2.rid)) p

/-- what is guaranteed about the state `followUp` returns -/
theorem lemma_followUp_mid (fuel : Nat) : ∀ (s : Insp) (p c : Bytes) (seen : List Nat),
    MidInv s p c seen → fwdFollow fuel s c seen p →
    ∃ seen', MidInv (followUp fuel s c seen).1 p c seen' ∧
      ((followUp fuel s c seen).2 = none → ∀ x ∈ (followUp fuel s c seen).1.regions, x.2.rid ∈ seen') := by
  induction fuel with
  | zero =>
    intro s p c seen h _
    by_cases hany : (s.regions.any (fun x => !seen.contains x.2.rid)) = true
    · refine ⟨seen, by simp only [followUp, hany, if_true]; exact h, fun hnone => ?_⟩
      simp only [followUp] at hnone
      rw [if_pos hany] at hnone
      exact absurd hnone (by simp)
    · refine ⟨seen, by simp only [followUp, hany, Bool.false_eq_true, if_false]; exact h, fun _ x hx => ?_⟩
      simp only [followUp, hany, Bool.false_eq_true, if_false] at hx
      simp only [Bool.not_eq_true, List.any_eq_false, Bool.not_eq_true', List.contains_eq_mem,
        decide_eq_false_iff_not, Decidable.not_not] at hany
      exact hany x hx
  | succ n ih =>
    intro s p c seen h hf
    unfold followUp
    unfold fwdFollow at hf
    dsimp only at hf ⊢
    split
    · rename_i hemp
      refine ⟨seen, h, fun _ x hx => ?_⟩
      simp only [List.isEmpty_iff, List.filter_eq_nil_iff, Bool.not_eq_true', List.contains_eq_mem,
        decide_eq_false_iff_not, Decidable.not_not] at hemp
      exact hemp x hx
    · rename_i hemp
      rw [if_neg hemp] at hf
      have hne : s.regions.filter (fun x => !seen.contains x.2.rid) ≠ [] := by
        simpa [List.isEmpty_iff] using hemp
      obtain ⟨hmid1, hall1⟩ := lemma_mid_capture s p c seen h hne
      obtain ⟨hpp, hrest⟩ := hf
      have hmid2 := lemma_mid_postProcess _ p c _ hmid1 hall1 hpp
      split
      · rename_i s2 e heq
        rw [heq] at hmid2
        exact ⟨_, hmid2, fun hnone => by simp at hnone⟩
      · rename_i s2 heq
        rw [heq] at hmid2 hrest
        exact ih s2 p c _ hmid2 hrest

end Oslo.Insp

namespace Oslo.Insp

theorem lemma_regionComplete_misc (s : Insp) (n : String) :
    (regionComplete s n).1.total = s.total ∧ (regionComplete s n).1.nextRid = s.nextRid := by
  unfold regionComplete
  split
  · unfold qcowRegionComplete
    split
    · exact ⟨rfl, rfl⟩
    · dsimp only
      repeat' split
      all_goals exact ⟨rfl, rfl⟩
  · split
    · unfold vmdkParseDescriptor
      split
      · exact ⟨rfl, rfl⟩
      · dsimp only
        repeat' split
        all_goals exact ⟨rfl, rfl⟩
    · exact ⟨rfl, rfl⟩
  · exact ⟨rfl, rfl⟩

theorem lemma_runCallbacks_misc (names : List String) : ∀ (s : Insp),
    (runCallbacks s names).1.total = s.total ∧ (runCallbacks s names).1.nextRid = s.nextRid := by
  induction names with
  | nil => intro s; exact ⟨rfl, rfl⟩
  | cons n ns ih =>
    intro s
    unfold runCallbacks
    obtain ⟨r1, f1⟩ := lemma_regionComplete_misc s n
    split
    · rename_i s1 e heq
      rw [heq] at r1 f1
      exact ⟨r1, f1⟩
    · rename_i s1 heq
      rw [heq] at r1 f1
      obtain ⟨r2, f2⟩ := ih s1
      exact ⟨r2.trans r1, f2.trans f1⟩

/-- what a region holds is the stream's bytes at the offset it reports -/
def SliceOK (s : Insp) (q : Bytes) : Prop :=
  ∀ x ∈ s.regions, x.2.data = sliceOf q x.2.offset x.2.data.length

theorem lemma_slice_extend (x p c : Bytes) (o : Nat) (h : x = sliceOf p o x.length) :
    x = sliceOf (p ++ c) o x.length := by
  have hl : x.length ≤ (p.drop o).length := by
    have := congrArg List.length h
    simp only [sliceOf, List.length_take] at this
    omega
  have e : sliceOf (p ++ c) o x.length = sliceOf p o x.length := by
    simp only [sliceOf, List.drop_append]
    exact List.take_append_of_le_length hl
  rw [e]; exact h

theorem lemma_mid_sliceOK (s : Insp) (p c : Bytes) (seen : List Nat) (h : MidInv s p c seen) :
    SliceOK s (p ++ c) := by
  intro x hx
  by_cases hs : x.2.rid ∈ seen
  · exact lemma_regInv_slice _ _ ((h.regs x hx).1 hs)
  · rw [((h.regs x hx).2 hs).2]
    simp [sliceOf]

/-- one `eat_chunk` under the forward proviso -/
theorem lemma_eat_slice (s : Insp) (p c : Bytes) (h : StreamInv s p) (hf : fwdEat s c p) :
    SliceOK (eatChunk s c).1 (p ++ c) ∧
    ((eatChunk s c).2 = none → StreamInv (eatChunk s c).1 (p ++ c)) := by
  obtain ⟨fmt, total, regions, nextRid, finished, checks, qi, dt, vt⟩ := s
  unfold eatChunk
  unfold fwdEat at hf
  dsimp only at hf ⊢
  cases finished
  case true =>
    simp only [if_true]
    refine ⟨?_, fun hn => by simp at hn⟩
    intro x hx
    exact lemma_slice_extend _ p c _ (lemma_regInv_slice _ _ (h.regs x hx))
  case false =>
    simp only [Bool.false_eq_true, if_false] at hf ⊢
    obtain ⟨hmid1, hall1⟩ := lemma_first_capture _ p c h
    obtain ⟨hpp, hrest⟩ := hf
    have hmid2 := lemma_mid_postProcess _ p c _ hmid1 hall1 hpp
    split
    · rename_i s3 e heq
      rw [heq] at hmid2
      exact ⟨lemma_mid_sliceOK _ _ _ _ hmid2, fun hn => by simp at hn⟩
    · rename_i s3 heq
      rw [heq] at hmid2 hrest
      obtain ⟨seen', hmid3, hall3⟩ := lemma_followUp_mid 8 s3 p c _ hmid2 hrest
      split
      · rename_i s4 e heq4
        rw [heq4] at hmid3
        exact ⟨lemma_mid_sliceOK _ _ _ _ hmid3, fun hn => by simp at hn⟩
      · rename_i s4 heq4
        rw [heq4] at hmid3 hall3
        have hall4 := hall3 rfl
        obtain ⟨hregs, hfmt⟩ := lemma_runCallbacks_regions
          ((s4.regions.filter (fun p => p.2.complete &&
              !((regions.filter (·.2.complete)).map (·.2.rid)).contains p.2.rid)).map (·.1)) s4
        obtain ⟨htot, hnext⟩ := lemma_runCallbacks_misc
          ((s4.regions.filter (fun p => p.2.complete &&
              !((regions.filter (·.2.complete)).map (·.2.rid)).contains p.2.rid)).map (·.1)) s4
        have hstream : StreamInv (runCallbacks s4
            ((s4.regions.filter (fun p => p.2.complete &&
              !((regions.filter (·.2.complete)).map (·.2.rid)).contains p.2.rid)).map (·.1))).1 (p ++ c) := by
          refine ⟨?_, ?_, ?_, ?_⟩
          · unfold SInv; rw [hregs, hfmt]; exact hmid3.sinv
          · unfold Bnd; rw [hregs, hnext]; exact hmid3.bnd
          · rw [htot, hmid3.total]; simp
          · rw [hregs]
            intro x hx
            exact (hmid3.regs x hx).1 (hall4 x hx)
        refine ⟨?_, fun _ => hstream⟩
        intro x hx
        exact lemma_regInv_slice _ _ (hstream.regs x hx)

/-- the forward proviso for a whole feed (InspectWrapper's discipline: stops at the first error) -/
def fwdFeed : Insp → List Bytes → Bytes → Prop
  | _, [], _ => True
  | s, c :: cs, p =>
    fwdEat s c p ∧
    match eatChunk s c with
    | (_, some _) => True
    | (s1, none) => fwdFeed s1 cs (p ++ c)

theorem lemma_feed_slice (chunks : List Bytes) : ∀ (s : Insp) (p : Bytes), StreamInv s p →
    fwdFeed s chunks p → (feed s chunks).2 = none →
    StreamInv (feed s chunks).1 (p ++ chunks.flatten) := by
  induction chunks with
  | nil => intro s p h _ _; simpa [feed] using h
  | cons c cs ih =>
    intro s p h hf hnone
    unfold fwdFeed at hf
    obtain ⟨hfe, hrest⟩ := hf
    obtain ⟨_, hstream⟩ := lemma_eat_slice s p c h hfe
    cases heq : eatChunk s c with
    | mk s1 e =>
    rw [heq] at hstream hrest
    simp only [feed, heq] at hnone ⊢
    cases e with
    | some e => simp at hnone
    | none =>
      simp only at hnone hrest ⊢
      have := ih s1 (p ++ c) (hstream rfl) hrest hnone
      have e : p ++ (c :: cs).flatten = p ++ c ++ cs.flatten := by simp
      rw [e]
      exact this

end Oslo.Insp
