"""setup_cmd: run every translator, then build every driver and proof module."""
import glob
import importlib
import os
import sys

sys.path.insert(0, os.path.dirname(os.path.abspath(__file__)))
import common  # noqa: E402


def main():
    ids = sorted(os.path.basename(p)[:-3] for p in glob.glob(os.path.join(common.VERIF, 'harness', 'props', 'C*.py')))
    targets = []
    rc = 0
    with common.BuildLock():
        for pid in ids:
            p = importlib.import_module('props.' + pid)
            if getattr(p, 'generate', None):
                try:
                    p.generate()
                except Exception as e:
                    print('generate %s failed: %r' % (pid, e))
                    rc = 1
            for t in [p.DRIVER] + ['+' + m for m in p.PROOF_MODULES] + list(getattr(p, 'MODEL_TARGETS', [])):
                if t not in targets:
                    targets.append(t)
        ok, out = common.lake_build(targets)
        print(out[-4000:])
        if not ok:
            rc = 1
    sys.exit(rc)


if __name__ == '__main__':
    main()
