/-
VHDX: a byte-level description of a well-formed image (`VhdxImage`) and what the two table walks
find on it; well-formed images satisfy the hypotheses of the chunk-independence theorem.
-/
import OsloProofs.Lemmas.VhdxInv
namespace Oslo.Insp

theorem lemma_vslice_slice (x : Bytes) (a e a' e' : Nat) (h : a + e' ≤ e) :
    slice (slice x a e) a' e' = slice x (a + a') (a + e') := by
  apply List.ext_getElem?
  intro i
  simp only [slice, List.getElem?_drop, List.getElem?_take]
  by_cases h1 : a' + i < e'
  · have h2 : a + (a' + i) < e := by omega
    have h3 : a + a' + i < a + e' := by omega
    simp [h1, h2, Nat.add_assoc]
  · have h3 : ¬ (a + a' + i < a + e') := by omega
    simp [h1, h3]

theorem lemma_vslice_sliceOf (s : Bytes) (o L a e : Nat) (h : e ≤ L) :
    slice (sliceOf s o L) a e = slice s (o + a) (o + e) := by
  apply List.ext_getElem?
  intro i
  simp only [slice, sliceOf, List.getElem?_drop, List.getElem?_take]
  by_cases h1 : a + i < e
  · have h2 : a + i < L := by omega
    simp [h1, h2, Nat.add_assoc]
  · have h3 : ¬ (o + a + i < o + e) := by omega
    simp [h1, h3]

/-- the region-table walk returns the offset stored in the first entry carrying the metadata GUID -/
theorem lemma_scanRegions_found (data : Bytes) (j mo : Nat)
    (hlen : 16 + j * 32 + 32 ≤ data.length)
    (hg : slice data (16 + j * 32) (16 + j * 32 + 16) = Gen.vhdxMetaRegionGuid)
    (ho : leNat (slice data (16 + j * 32 + 16) (16 + j * 32 + 24)) = mo) :
    ∀ (n i : Nat), i ≤ j → j < i + n →
      (∀ k, i ≤ k → k < j → slice data (16 + k * 32) (16 + k * 32 + 16) ≠ Gen.vhdxMetaRegionGuid) →
      vhdxScanRegions data n i = .ok (some mo) := by
  intro n
  induction n with
  | zero => intro i h1 h2 _; omega
  | succ n ih =>
    intro i h1 h2 hb
    unfold vhdxScanRegions
    have e1 : slice (slice data (16 + i * 32) (16 + i * 32 + 32)) 0 16 =
        slice data (16 + i * 32) (16 + i * 32 + 16) := by
      rw [lemma_vslice_slice _ _ _ 0 16 (by omega)]; rfl
    have l1 : (slice data (16 + i * 32) (16 + i * 32 + 16)).length = 16 := by
      rw [lemma_slice_length]; omega
    simp only [e1, l1, ne_eq, not_true_eq_false, if_false]
    by_cases hij : i = j
    · subst hij
      have l2 : ((slice data (16 + i * 32) (16 + i * 32 + 32)).drop 16).length = 16 := by
        simp only [List.length_drop, lemma_slice_length]; omega
      have e2 : slice (slice data (16 + i * 32) (16 + i * 32 + 32)) 16 24 =
          slice data (16 + i * 32 + 16) (16 + i * 32 + 24) :=
        lemma_vslice_slice _ _ _ 16 24 (by omega)
      simp only [hg, BEq.rfl, if_true, l2, not_true_eq_false, if_false, e2, ho]
    · have hne := hb i (Nat.le_refl _) (by omega)
      have : (slice data (16 + i * 32) (16 + i * 32 + 16) == Gen.vhdxMetaRegionGuid) = false := by
        simpa using hne
      simp only [this, Bool.false_eq_true, if_false]
      exact ih (i + 1) (by omega) (by omega) (fun k hk1 hk2 => hb k (by omega) hk2)

/-- the metadata-entry walk returns (item offset, item length) of the first entry carrying the
    virtual-disk-size GUID -/
theorem lemma_scanMeta_found (buf : Bytes) (j ioff ilen : Nat)
    (hlen : 32 + j * 32 + 32 ≤ buf.length)
    (hg : slice buf (32 + j * 32) (32 + j * 32 + 16) = Gen.vhdxVdsGuid)
    (ho : leNat (slice buf (32 + j * 32 + 16) (32 + j * 32 + 20)) = ioff)
    (hl : leNat (slice buf (32 + j * 32 + 20) (32 + j * 32 + 24)) = ilen) :
    ∀ (n i : Nat), i ≤ j → j < i + n →
      (∀ k, i ≤ k → k < j → slice buf (32 + k * 32) (32 + k * 32 + 16) ≠ Gen.vhdxVdsGuid) →
      vhdxScanMeta buf n i = .ok (some (ioff, ilen)) := by
  intro n
  induction n with
  | zero => intro i h1 h2 _; omega
  | succ n ih =>
    intro i h1 h2 hb
    unfold vhdxScanMeta
    have l1 : (slice buf (32 + i * 32) (32 + i * 32 + 16)).length = 16 := by
      rw [lemma_slice_length]; omega
    simp only [l1, ne_eq, not_true_eq_false, if_false]
    by_cases hij : i = j
    · subst hij
      have l2 : (slice buf (32 + i * 32 + 16) (32 + i * 32 + 28)).length = 12 := by
        rw [lemma_slice_length]; omega
      have e2 : slice (slice buf (32 + i * 32 + 16) (32 + i * 32 + 28)) 0 4 =
          slice buf (32 + i * 32 + 16) (32 + i * 32 + 20) := by
        rw [lemma_vslice_slice _ _ _ 0 4 (by omega)]
      have e3 : slice (slice buf (32 + i * 32 + 16) (32 + i * 32 + 28)) 4 8 =
          slice buf (32 + i * 32 + 20) (32 + i * 32 + 24) := by
        rw [lemma_vslice_slice _ _ _ 4 8 (by omega)]
      simp only [hg, BEq.rfl, if_true, l2, not_true_eq_false, if_false, e2, e3, ho, hl]
    · have hne := hb i (Nat.le_refl _) (by omega)
      have : (slice buf (32 + i * 32) (32 + i * 32 + 16) == Gen.vhdxVdsGuid) = false := by
        simpa using hne
      simp only [this, Bool.false_eq_true, if_false]
      exact ih (i + 1) (by omega) (by omega) (fun k hk1 hk2 => hb k (by omega) hk2)

/-- **a well-formed VHDX image**, byte by byte: the region table at 192 KiB has the `regi` signature
    and `rc` entries, the first one carrying the metadata GUID is entry `j` and points to `mo` ≥ 256 KiB;
    at `mo` the metadata table has the `metadata` signature and `mc` entries, the first one carrying
    the virtual-disk-size GUID is entry `i`, with item offset `ioff` at or after the end of the entry
    table and item length 8; the stream
    reaches the end of that item. -/
structure VhdxImage (s : Bytes) (rc j mo mc i ioff : Nat) : Prop where
  regi : leNat (slice s 196608 196612) = 0x69676572
  rcount : leNat (slice s 196616 196620) = rc
  rc_lt : rc < 2048
  j_lt : j < rc
  rbefore : ∀ k, k < j → slice s (196624 + k * 32) (196624 + k * 32 + 16) ≠ Gen.vhdxMetaRegionGuid
  rguid : slice s (196624 + j * 32) (196624 + j * 32 + 16) = Gen.vhdxMetaRegionGuid
  roff : leNat (slice s (196624 + j * 32 + 16) (196624 + j * 32 + 24)) = mo
  mo_ge : 262144 ≤ mo
  msig : slice s mo (mo + 8) = ascii "metadata"
  mcount : leNat (slice s (mo + 10) (mo + 12)) = mc
  mc_lt : mc < 2047
  i_lt : i < mc
  mbefore : ∀ k, k < i → slice s (mo + 32 + k * 32) (mo + 32 + k * 32 + 16) ≠ Gen.vhdxVdsGuid
  mguid : slice s (mo + 32 + i * 32) (mo + 32 + i * 32 + 16) = Gen.vhdxVdsGuid
  mioff : leNat (slice s (mo + 32 + i * 32 + 16) (mo + 32 + i * 32 + 20)) = ioff
  milen : leNat (slice s (mo + 32 + i * 32 + 20) (mo + 32 + i * 32 + 24)) = 8
  ioff_ge : 32 + mc * 32 ≤ ioff
  hlen : mo + ioff + 8 ≤ s.length

theorem lemma_image_region (s : Bytes) (rc j mo mc i ioff : Nat) (h : VhdxImage s rc j mo mc i ioff) :
    findMetaRegionB (sliceOf s 196608 65536) = .ok (some mo) := by
  have hl := h.hlen
  have hmo := h.mo_ge
  have hlen : (sliceOf s 196608 65536).length = 65536 := by rw [lemma_sliceOf_length]; omega
  unfold findMetaRegionB
  have l16 : (slice (sliceOf s 196608 65536) 0 16).length = 16 := by rw [lemma_slice_length]; omega
  have e1 : slice (slice (sliceOf s 196608 65536) 0 16) 0 4 = slice s 196608 196612 := by
    rw [lemma_vslice_slice _ _ _ 0 4 (by omega), lemma_vslice_sliceOf _ _ _ _ _ (by omega)]
  have e2 : slice (slice (sliceOf s 196608 65536) 0 16) 8 12 = slice s 196616 196620 := by
    rw [lemma_vslice_slice _ _ _ 8 12 (by omega), lemma_vslice_sliceOf _ _ _ _ _ (by omega)]
  have c2 : ¬ (rc ≥ 2048) := by have := h.rc_lt; omega
  simp only [l16, e1, e2, h.regi, h.rcount, c2, ne_eq, not_true_eq_false, if_false, bind, Except.bind]
  have hj := h.j_lt
  have hrc := h.rc_lt
  apply lemma_scanRegions_found _ j mo (by omega) ?_ ?_ rc 0 (by omega) (by omega)
  · intro k _ hk
    rw [lemma_vslice_sliceOf _ _ _ _ _ (by omega)]
    have := h.rbefore k hk
    have e : 196608 + (16 + k * 32) = 196624 + k * 32 := by omega
    have e' : 196608 + (16 + k * 32 + 16) = 196624 + k * 32 + 16 := by omega
    rw [e, e']; exact this
  · rw [lemma_vslice_sliceOf _ _ _ _ _ (by omega)]
    have e : 196608 + (16 + j * 32) = 196624 + j * 32 := by omega
    have e' : 196608 + (16 + j * 32 + 16) = 196624 + j * 32 + 16 := by omega
    rw [e, e']; exact h.rguid
  · rw [lemma_vslice_sliceOf _ _ _ _ _ (by omega)]
    have e : 196608 + (16 + j * 32 + 16) = 196624 + j * 32 + 16 := by omega
    have e' : 196608 + (16 + j * 32 + 24) = 196624 + j * 32 + 24 := by omega
    rw [e, e']; exact h.roff

theorem lemma_image_entry (s : Bytes) (rc j mo mc i ioff : Nat) (h : VhdxImage s rc j mo mc i ioff) :
    findMetaEntryB (sliceOf s mo 65536) = .ok (some (ioff, 8)) ∧
    entriesEnd (sliceOf s mo 65536) = 32 + mc * 32 ∧
    (sliceOf s mo 65536).take 8 = ascii "metadata" := by
  have hl := h.hlen
  have hio := h.ioff_ge
  have hmc := h.mc_lt
  have hi := h.i_lt
  have hlen : 32 + mc * 32 ≤ (sliceOf s mo 65536).length := by rw [lemma_sliceOf_length]; omega
  have l12 : (slice (sliceOf s mo 65536) 0 12).length = 12 := by rw [lemma_slice_length]; omega
  have e1 : slice (slice (sliceOf s mo 65536) 0 12) 0 8 = slice s mo (mo + 8) := by
    rw [lemma_vslice_slice _ _ _ 0 8 (by omega), lemma_vslice_sliceOf _ _ _ _ _ (by omega)]; rfl
  have e2 : slice (slice (sliceOf s mo 65536) 0 12) 10 12 = slice s (mo + 10) (mo + 12) := by
    rw [lemma_vslice_slice _ _ _ 10 12 (by omega), lemma_vslice_sliceOf _ _ _ _ _ (by omega)]
  have e3 : (sliceOf s mo 65536).take 8 = slice s mo (mo + 8) := by
    have := lemma_vslice_sliceOf s mo 65536 0 8 (by omega)
    simpa [slice] using this
  refine ⟨?_, by unfold entriesEnd; rw [e2, h.mcount], by rw [e3]; exact h.msig⟩
  unfold findMetaEntryB
  have c1 : ¬ ((sliceOf s mo 65536).length < 32) := by omega
  have c3 : ¬ ((sliceOf s mo 65536).length < 32 + mc * 32) := by omega
  have c5 : ¬ (mc ≥ 2048) := by omega
  simp only [c1, l12, e1, e2, h.msig, h.mcount, c3, c5, ne_eq, not_true_eq_false, if_false, bind, Except.bind, pure,
    Except.pure]
  apply lemma_scanMeta_found _ i ioff 8 (by omega) ?_ ?_ ?_ mc 0 (by omega) (by omega)
  · intro k _ hk
    rw [lemma_vslice_sliceOf _ _ _ _ _ (by omega)]
    have := h.mbefore k hk
    simp only [← Nat.add_assoc] at this ⊢
    exact this
  · rw [lemma_vslice_sliceOf _ _ _ _ _ (by omega)]
    have := h.mguid
    simp only [← Nat.add_assoc] at this ⊢
    exact this
  · rw [lemma_vslice_sliceOf _ _ _ _ _ (by omega)]
    have := h.mioff
    simp only [← Nat.add_assoc] at this ⊢
    exact this
  · rw [lemma_vslice_sliceOf _ _ _ _ _ (by omega)]
    have := h.milen
    simp only [← Nat.add_assoc] at this ⊢
    exact this

/-- well-formed images satisfy both hypotheses of the chunk-independence theorem -/
theorem lemma_image_hyps (s : Bytes) (rc j mo mc i ioff : Nat) (h : VhdxImage s rc j mo mc i ioff) :
    VhdxForward s ∧ VhdxMetaSigOK s := by
  have hr := lemma_image_region s rc j mo mc i ioff h
  obtain ⟨he, hes, hsig⟩ := lemma_image_entry s rc j mo mc i ioff h
  have hl := h.hlen
  have hmo := h.mo_ge
  have hoff := lemma_metaOff s mo (by omega) hr
  constructor
  · unfold VhdxForward vhdxForwardB
    rw [hoff]
    simp only [he, hes, Bool.and_eq_true, decide_eq_true_eq]
    exact ⟨hmo, h.ioff_ge⟩
  · unfold VhdxMetaSigOK vhdxMetaSigOKB
    rw [hoff]
    simp [hsig]

end Oslo.Insp
