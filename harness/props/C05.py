"""C05 - inspector memory is bounded by a constant, whatever the stream claims."""
import json
import os
import re

import common
import whitebox
import gen_insp
import insp_gen as G
import insp_impl
from common import Failure

ID = 'C05'
DRIVER = 'drv_insp'
DRIVER_ROOT = 'Drivers.Insp'
PROOF_MODULES = ['OsloProofs.Props.C05']
LEVEL = 'proof'
RULE = ('(format, bytes, chunking) triples, observed after every chunk: hostile headers (VMDK descriptor sector counts up '
        'to 2^64-1, VHDX item lengths up to 2^32-1, table counts 2047/2048/65535, metadata and item pointers everywhere), '
        'a generic sweep of every 4-byte field of every header structure of every format (0, 0xFFFFFFF8, 0x00100000, '
        '0xFFFFFFFF in both byte orders) followed by a tail longer than the bound, '
        'well-formed and field-mutated images of all ten layouts, pure text, random data and streams longer than the bound '
        '(multi-MiB in the thorough tier), x one giant chunk, fixed sizes, cuts at the structure boundaries, random '
        'compositions.  A case is non-trivial when the stream is cut into at least two non-empty chunks and at least one '
        'region holds bytes at the end; distinct by (format, bytes, chunk sizes).')
TRUSTED_BASE = [
    'Lean 4 kernel; axioms audited per theorem (subset of propext, Classical.choice, Quot.sound)',
    'hand-written model OsloModel/Capture.lean + Inspector.lean, tied to format_inspector.py by this correspondence: '
    'every region\'s offset, length and held byte count after every chunk, and ctx = sum(context_info.values()) at the end',
    'translator harness/gen_insp.py: the initial region tables and DESC_MAX_SIZE / VHDX_METADATA_TABLE_MAX_SIZE the numeric '
    'step of the theorems is evaluated on',
]
UNMODELLED = ['the transient `data += chunk` before `data = data[:length]` inside CaptureRegion.capture (context_info never '
              'observes it); memory other than the regions\' data (desc_text is at most a copy of the descriptor region)']
ASSUMPTIONS = ['retention is what context_info reports: the sum of len(region.data) over the capture regions']


def generate():
    gen_insp.generate()


# --------------------------------------------------------------------------

def compressible_big(rng, quick):
    """streams longer than the bound whose bulk is one run (so the protocol line stays small)"""
    out = []
    sizes = [700 * G.K, (1 << 20) + 640 * G.K] if quick else [700 * G.K, 2 << 20, 6 << 20]
    if os.environ.get('VERIF_AMBIENT'):
        sizes = sizes[-1:] if quick else sizes[:2]          # ambient children: one size, still longer than every bound
    for n in sizes:
        head_t = G.rand_text(rng, 1500)
        text = head_t + b'a' * (n - len(head_t) - 1) + b'\n'
        rnd = rng.randbytes(3000) + b'\xa5' * (n - 6000) + rng.randbytes(3000)
        out.append(G.Img('vmdk', text, [64, 512, (1 << 20) - 1, 1 << 20], 'big/text'))
        out.append(G.Img('vmdk', b'KDMV' + text[4:], [64, 512, 1 << 20], 'big/kdmv-text'))
        out.append(G.Img('vmdk', rnd, [64, 512], 'big/random'))
        out.append(G.Img('vhdx', rnd, [G.H, 256 * G.K], 'big/random'))
        out.append(G.Img('vhdx', text, [G.H, 256 * G.K], 'big/text'))
        for fmt in ('qcow2', 'vhd', 'vdi', 'qed', 'iso', 'gpt', 'luks', 'raw'):
            out.append(G.Img(fmt, rng.choice([text, rnd]), [512, 592, 32 * G.K, 34 * G.K], 'big/' + fmt))
    return out


def more_hostile(rng, quick):
    """unbounded-looking structures that a missing clamp would follow"""
    import images
    out = []
    long_ = 700 * G.K if quick else 3 << 20
    d, b = images.vhdx(vds_guid=bytes(16), meta_off=256 * G.K, total=256 * G.K + long_, fill=0x11)
    out.append(G.Img('vhdx', d, b, 'hostile/vhdx/no-vds-long'))
    d, b = images.vhdx(meta_off=256 * G.K, item_off=192, item_len=G.U32, total=256 * G.K + long_, fill=0x22)
    out.append(G.Img('vhdx', d, b, 'hostile/vhdx/item_len-max-long'))
    d, b = images.vhdx(nmeta=2047, vidx=2046, meta_off=256 * G.K, item_off=G.K64, item_len=G.U32,
                       total=256 * G.K + G.K64 + long_, fill=0x23)
    out.append(G.Img('vhdx', d, b, 'hostile/vhdx/full-table-item_len-max-long'))
    for kw in (dict(), dict(footer=True)):
        d, b = images.vmdk(desc_num=G.U64, desc=b'createType="streamOptimized"\n', desc_pad=b'\n', **kw)
        d = d[:512] + b'\n' * ((3 << 19) + long_ // 4) + d[-1536:]
        out.append(G.Img('vmdk', d, b + [512 + (1 << 20) - 1], 'hostile/vmdk/desc_num-max-long' + ('-footer' if kw else '')))
    return out


def c05_images(ctx, rng, for_search=False):
    quick = ctx.quick
    imgs = G.hostile(rng, quick) + more_hostile(rng, quick) + compressible_big(rng, quick)
    imgs += G.repeated_structures(rng, quick, short=not for_search)
    # the optional follow-on structures of each layout (GPT header + entries, VHD dynamic header, qcow2 tables ...),
    # clean and with a few fields made hostile, followed by some data
    for fmt in G.FORMATS:
        for base in G.sweep_bases(fmt)[1:]:
            tail = 70000 if not for_search else 2 * G.bound(fmt)
            bounds = [e for _, a, b in base.ranges for e in (a, b)]
            imgs.append(G.Img(fmt, base.stream(None, tail), bounds, 'followon/%s/clean' % base.name))
            fields = list(base.fields())
            for part, off, v in rng.sample(fields, 4 if quick else 16):
                imgs.append(G.Img(fmt, base.stream((part, off, v), tail), bounds, 'followon/%s/%s+%d=%s' % (base.name, part, off, v.hex())))
    if not quick or for_search:
        imgs += G.big_streams(rng, quick=True)[:9]          # incompressible text / random data
    for fmt in G.FORMATS:
        imgs.append(G.wellformed(fmt, rng, big=not quick))
        imgs += G.mutated(fmt, rng, count=4 if quick else 12)
    imgs += G.unstructured(rng, 10 if quick else 40)
    imgs += G.known_class_images(rng, per_class=1)
    return imgs


def c05_family(img, rng, quick, for_model=True):
    n = len(img.data)
    fam = [('one', [n])]
    for cs in (1 << 20, 65536, 4096):
        if cs < n:
            fam.append(('fixed%d' % cs, G.fixed(n, cs)))
    if n <= 40 * G.K or (not for_model and not os.environ.get('VERIF_AMBIENT')):      # ambient children: coarse reads of long streams only
        for cs in (512, 64, 17):
            if cs < n and n // cs <= 20000:
                fam.append(('fixed%d' % cs, G.fixed(n, cs)))
    if n <= 3000:
        fam.append(('fixed1', G.fixed(n, 1)))
    pts = sorted({b + d for b in img.bounds for d in (-1, 0, 1) if 0 < b + d < n})
    for p in (pts if len(pts) <= 12 else rng.sample(pts, 12)):
        fam.append(('cut1', G.images.sizes_from_cuts([p], n)))
    for _ in range(3):
        if len(pts) >= 2:
            fam.append(('cut2+', G.images.sizes_from_cuts(sorted(rng.sample(pts, min(len(pts), rng.randint(2, 5)))), n)))
        k = rng.randint(1, 8)
        fam.append(('random', G.images.sizes_from_cuts(sorted(rng.randrange(0, n + 1) for _ in range(k)), n)))
    # a giant first chunk that swallows several dependent structures, then dribbles
    if n > 4096:
        fam.append(('giant+dribble', G.images.sizes_from_cuts([n - 4000, n - 3000, n - 10], n)))
        fam.append(('dribble+giant', [1, 3, 60, 448] + [n - 512]))
    return fam


BUDGET = {'quick': dict(pair=6_000_000, total=420_000_000), 'thorough': dict(pair=80_000_000, total=8_000_000_000)}


def correspondence(ctx):
    rng = ctx.rng
    budget = dict(BUDGET['quick' if ctx.quick else 'thorough'])
    budget['total'] = G.scale(ctx, budget['total'])
    pairs, spent = [], 0
    imgs = G.thin(ctx, c05_images(ctx, rng), lambda i: (i.fmt, i.tag.split('/')[0]))
    # cheap streams first, so that the total model budget is never used up before they are reached
    imgs.sort(key=lambda i: (i.tag.startswith('big/'), len(i.data) > 64 * G.K))
    for img in imgs:
        n = len(img.data)
        mo = img.params.get('meta_off') if isinstance(img.params.get('meta_off'), int) else None
        fam, skipped = G.select(img.fmt, n, c05_family(img, rng, ctx.quick), budget['pair'], mo)
        if skipped:
            ctx.count('chunkings-skipped-for-model-cost', skipped)
        cap = (5 if img.tag.startswith('big/') else 7 if n > 64 * G.K else 10) * (1 if ctx.quick else 3)
        if len(fam) > cap:
            head = [f for f in fam if f[0] in ('one', 'giant+dribble', 'dribble+giant', 'fixed65536')][:cap]
            fam = head + rng.sample([f for f in fam if f not in head], cap - len(head))
        for tag, sizes in fam:
            c = G.model_cost(img.fmt, n, sizes, mo)
            if spent + c > budget['total']:
                ctx.count('chunkings-skipped-for-total-budget')
                continue
            spent += c
            # trace = the region table (offset, length, held) after every chunk
            feed, ctor = G.pick_presentation(img.fmt, rng, 0.4)
            pr = G.Pair(img, sizes, tag, trace=len(sizes) <= 3000, poke=rng.random() < 0.3, feed=feed, ctor=ctor)
            if rng.random() < 0.6:
                # the bound holds at every point of the stream, also for an inspector that raised and is fed on:
                # driver request inspk continues with the state eatChunk left, compared chunk by chunk
                pr.after_error = 'continue'
            pairs.append(pr)
    peak = {}

    def on(p, impl):
        G.note_verdict(ctx, p, impl)
        st, v = G.final_parts(impl)
        ctxv = int(G.vfield(v, 'ctx') or 0)
        peak[p.img.fmt] = max(peak.get(p.img.fmt, 0), ctxv)
        announced = [int(x) for x in re.findall(r':\d+:(\d+):(?:N|\d+):\d+:\d+:[01]', st)]
        if p.after_error == 'continue' and ' err=' in impl.split('\t')[0] and impl.split('\t')[0].count('|') > impl.split('\t')[0].split(' err=')[0].count('|'):
            ctx.count('corr/fed-on-after-an-error')
        if any(a > G.bound(p.img.fmt) for a in announced):
            ctx.count('corr/final-state-has-a-region-longer-than-the-bound')
        ctx.sample({'fmt': p.img.fmt, 'tag': p.img.tag, 'length': len(p.img.data), 'chunking': p.ctag,
                    'final': impl.split('\t')[-2][:300] + ' ' + v}, 5)
    G.add_companions(pairs, rng, 0.1)
    out = G.run_pairs(ctx, pairs, on)
    ctx.notes.append('largest final ctx= per format: %s' % dict(sorted(peak.items())))
    ctx.notes.append('model cost units spent: %d' % spent)
    return out


# --------------------------------------------------------------------------
# failing-input search: sum(context_info.values()) <= bound after every chunk, on the real inspector

def watch(fmt, data, sizes, feed='bytes', ctor=None, after_error='continue'):
    """(largest sum(context_info.values()) seen, index of the chunk after which it was seen, position).
    The bound holds "at every point of the stream": by default the inspector keeps being fed after an eat_chunk
    error (a caller that catches the error and goes on), and is observed after every chunk, erroring or not."""
    best = [0, -1, 0]
    k = [0]

    def every(i, pos):
        s = sum(i.context_info.values())
        if s > best[0]:
            best[:] = [s, k[0], pos]
        k[0] += 1
    _, _, insp = G.impl_run(fmt, data, sizes, every_chunk=every, feed=feed, ctor=ctor, after_error=after_error)
    s = sum(insp.context_info.values())          # after finish()
    if s > best[0]:
        best[:] = [s, k[0], len(data)]
    return best


def presentations_for(ctx, img, tag, sizes, thorough_all):
    """how one chunking is presented: always plainly; with every other combination of the public constructor
    arguments (tracing=True) always for the hostile families and on a sample otherwise; as a reused bytearray /
    memoryview on the coarse chunkings and a sample of the rest"""
    rng = ctx.rng
    out = [('bytes', {})]
    hostile = img.tag.startswith(('hostile/', 'repeat/', 'sweep/', 'seed'))
    variants = G.ctor_variants(img.fmt)[1:]
    if thorough_all:
        out += [('bytes', c) for c in variants]
    elif hostile or rng.random() < 0.3:
        # the other constructor argument combinations and the user subclasses: tracing always, one subclass kind
        out += [('bytes', variants[0]), ('bytes', rng.choice(variants[1:]))][:2 if hostile else 1]
    if thorough_all or tag in ('one', 'fixed65536', 'seed') or rng.random() < 0.1:
        f = rng.choice(G.FEEDS[1:])
        out.append((f, rng.choice(G.ctor_variants(img.fmt))))
    return out


def check_image(ctx, img, fam, fails, thorough_all=False):
    lim = G.bound(img.fmt)
    for tag, sizes in fam:
        ctx.count('search/chunking/' + tag)
        for feed, ctor in presentations_for(ctx, img, tag, sizes, thorough_all):
            ctx.evaluations += 1
            if feed != 'bytes' or ctor:
                ctx.count('search/presentation/%s%s' % (feed, ''.join('+%s=%s' % kv for kv in sorted(ctor.items()))))
            peak, k, pos = watch(img.fmt, img.data, sizes, feed, ctor)
            ctx.count('search/peak/%s/%s' % (img.fmt, 'over-half-bound' if peak > lim // 2 else 'small'))
            if peak <= lim:
                continue
            # smallest prefix + simplest chunking that still exceeds the bound
            data, small = img.data[:pos], G.fixed(pos, 65536)
            if watch(img.fmt, data, small, feed, ctor)[0] <= lim:
                small = [s for s in sizes[:k + 1]]
                small[-1] -= sum(small) - pos
            elif watch(img.fmt, data, [pos], feed, ctor)[0] > lim:
                small = [pos]
            if not ctor or watch(img.fmt, data, small, feed, {})[0] > lim:
                ctor = {}                     # the constructor argument is not needed
            if feed != 'bytes' and watch(img.fmt, data, small, 'bytes', ctor)[0] > lim:
                feed = 'bytes'
            peak2 = watch(img.fmt, data, small, feed, ctor)[0]
            keep = watch(img.fmt, data, small, feed, ctor, 'stop')[0] <= lim     # only visible when feeding goes on after an error
            sub = G.Img(img.fmt, data, [], img.tag)
            case = {'kind': 'insp', 'fmt': img.fmt, 'content': sub.field, 'length': len(data),
                    'sizes': G.pack_sizes(small), 'tag': img.tag}
            if feed != 'bytes':
                case['feed'] = feed
            if ctor:
                case['ctor'] = ctor
            case['after_error'] = 'continue' if keep else 'stop'
            getattr(ctx, '_c05_clock', G.Clock(ctx)).failed()
            fails.append(Failure(case, {
                'kind': 'retained-bytes-exceed-the-bound',
                'what': '%s(%s) inspector holds %d bytes (context_info) after %d of %d stream bytes%s; the bound is %d'
                        % (img.fmt, ', '.join('%s=%s' % kv for kv in sorted(ctor.items())), peak2, len(data), len(img.data),
                           ('' if feed == 'bytes' else ' presented as ' + feed)
                           + (' (the caller caught the %s raised by an earlier eat_chunk and kept feeding)'
                              % G.impl_run(img.fmt, data, small, feed=feed, ctor=ctor, after_error='continue')[1].split('raised=')[1].split(' ')[0]
                              if keep else ''), lim)}))
            return True
    return False


def peak_of(fmt, data, sizes):
    """(largest retained sum, True when some region announces a negative length or one above the bound)"""
    odd = [False]
    best = [0]

    def every(i, pos):
        best[0] = max(best[0], sum(i.context_info.values()))
        for r in whitebox.regions(i).values():
            if not isinstance(r.length, int) or r.length < 0 or r.length > G.bound(fmt):
                odd[0] = True           # no length at all, a negative one, or one above the bound
    insp = G.impl_run(fmt, data, sizes, every_chunk=every, after_error='continue')[2]
    best[0] = max(best[0], sum(insp.context_info.values()))
    return best[0], odd[0]


SCREEN_TAIL = 64 * G.K


def field_sweep(ctx, rng, fails, full):
    """generic hostile family: for every format the clean image - and a plausible instance of the optional
    structures that follow it in the format's layout (GPT header + entry array, VHD dynamic header + BAT, qcow2
    tables + header extensions, VDI block map, LUKS key slots, ISO path tables + root directory) - with each
    4-byte-aligned field of its header structures overwritten, one at a time, by 0 / 0xFFFFFFF8 / 0x00100000 /
    0xFFFFFFFF (both byte orders), and on the length / count / offset carrying structures also by structured
    values (small counts, powers of two, multiples of 128 / 512 / 4096, 2^k - 128 ...) and by count x size
    pairs written over two adjacent fields,
    followed by a tail longer than the bound, under {one giant chunk, 64 KiB chunks, 512 bytes then the rest}.
    Every (field, value) pair is first screened with a 64 KiB tail (cheap): a pair that makes the inspector
    retain noticeably more than the clean image does, or announce an out-of-range region length, always gets the
    long tail; of the others a sample (quick) or all (thorough)."""
    for fmt in G.FORMATS:
        lim = G.bound(fmt)
        long_tail = (2 << 20) + 64 * G.K if fmt == 'vmdk' else 768 * G.K
        for base in G.sweep_bases(fmt):
            def shapes(n):
                return [('one', [n]), ('512+rest', [512, n - 512]), ('fixed65536', G.fixed(n, 65536))]
            clean = base.stream(None, SCREEN_TAIL)
            clean_peak = {tag: peak_of(fmt, clean, sz)[0] for tag, sz in shapes(len(clean))[:2]}
            flagged, plain = [], []
            fields = list(base.fields(structured_everywhere=(full or not ctx.quick) and not G.ambient(ctx)))
            fields = G.thin(ctx, fields, lambda f: (f[0], f[1] // 64))
            for field in fields:
                if getattr(ctx, '_c05_clock', None) and ctx._c05_clock.expired():
                    return
                data = base.stream(field, SCREEN_TAIL)
                hit = False
                for tag, sz in shapes(len(data))[:2]:
                    ctx.evaluations += 1
                    pk, odd = peak_of(fmt, data, sz)
                    if odd or pk > clean_peak[tag] + 16 * G.K:
                        hit = True
                        break
                (flagged if hit else plain).append(field)
            ctx.count('search/sweep/%s/fields-screened' % base.name, len(flagged) + len(plain))
            ctx.count('search/sweep/%s/fields-flagged' % base.name, len(flagged))
            todo = flagged[:60 if ctx.quick else 400]
            k = (30 if not full else 80) if ctx.quick else len(plain)
            todo += rng.sample(plain, min(k, len(plain)))
            for field in todo:
                part, off, v = field
                data = base.stream(field, long_tail)
                img = G.Img(fmt, data, [], 'sweep/%s/%s+%d=%s' % (base.name, part, off, v.hex()))
                ctx.count('search/sweep/%s/long-tail-runs' % base.name)
                if check_image(ctx, img, shapes(len(data)), fails):
                    break                      # one failing input per base is enough
            if len(fails) >= 5:
                return


def unstructured_big(ctx, rng, fails, full):
    """the property's own words: pure text and random data x one giant chunk.  Streams of 2 - 4 MiB of text,
    random bytes and constant fill that carry no structure at all, to EVERY inspector class, as one giant chunk,
    as 3 bytes then the rest, in 2 MiB reads, in 64 KiB reads and as a giant chunk after a dribble"""
    sizes = [(2 << 20) + 4097] + ([4 << 20] if ((full or not ctx.quick) and not G.ambient(ctx)) else [])
    for n in sizes:
        line = G.rand_text(rng, 71) + b'\n'
        streams = [('text', (line * (n // len(line) + 1))[:n]), ('random', rng.randbytes(n)),
                   ('text-run', G.rand_text(rng, 900) + b'a' * (n - 900)), ('zeros', bytes(n)), ('ff', b'\xff' * n)]
        if ctx.quick and not full:
            streams = streams[:2]
        for kind, data in streams:
            for fmt in G.FORMATS:
                img = G.Img(fmt, data, [], 'unstructured-big/%s' % kind)
                fam = [('one', [n]), ('3+rest', [3, n - 3]), ('fixed2097152', G.fixed(n, 2 << 20)), ('fixed65536', G.fixed(n, 65536)),
                       ('dribble+giant', [1, 2, 61, 448, n - 512])]
                if ctx.quick and not full:
                    fam = [f for f in fam if f[0] != 'fixed65536']         # the big/ family below has 64 KiB reads
                ctx.count('search/unstructured-big/%s' % kind)
                if check_image(ctx, img, fam, fails) and len(fails) >= 5:
                    return


def sparse_bound(ctx, rng, fails):
    """streams beyond 4 GiB (sparse): the bound after every chunk"""
    for sp in G.far_images(rng, True) + G.sparse_generic(rng):
        lim = G.bound(sp.fmt)
        for tag in ('extents', 'extents%d' % (1 << 20)):
            cuts = sp.plan(tag)
            ctx.evaluations += 1
            ctx.count('search/sparse/' + tag)
            peak = [0]
            v, i = G.sparse_run(sp, cuts, lambda insp: peak.__setitem__(0, max(peak[0], sum(insp.context_info.values()))))
            peak[0] = max(peak[0], sum(i.context_info.values()))
            if peak[0] > lim:
                fails.append(Failure(sp.case(tag), {'kind': 'retained-bytes-exceed-the-bound',
                                                    'what': '%s inspector holds %d bytes on a sparse stream of %d bytes (plan "%s"); the bound is %d'
                                                            % (sp.fmt, peak[0], sp.total, tag, lim)}))
                return


def search(ctx, seeds, full=False):
    rng = ctx.rng
    fails = []
    clock = G.Clock(ctx)
    ctx._c05_clock = clock
    for s in [s for s in seeds if s.get('kind') == 'insp' and 'content' in s][:40]:
        data = G.decode_content(s['content'])
        img = G.Img(s['fmt'], data, [64, 512, G.H, 256 * G.K], 'seed: ' + s.get('tag', ''))
        # the disagreeing stream, and the same header followed by enough data to fill whatever it announces
        check_image(ctx, img, [('seed', G.unpack_sizes(s['sizes']))] + c05_family(img, rng, ctx.quick, False), fails, thorough_all=True)
        ext = G.Img(s['fmt'], data + bytes([data[-1] if data else 0]) * (2 << 20), img.bounds, img.tag + '+2MiB')
        check_image(ctx, ext, c05_family(ext, rng, ctx.quick, False), fails)
        if len(fails) >= 5:
            return fails
    unstructured_big(ctx, rng, fails, full)
    sparse_bound(ctx, rng, fails)
    if len(fails) >= 5:
        return fails
    field_sweep(ctx, rng, fails, full)
    if len(fails) >= 5:
        return fails
    rounds = (2 if full else 1) if ctx.quick else (5 if full else 4)
    for _ in range(rounds):
        for img in G.thin(ctx, c05_images(ctx, rng, for_search=True), lambda i: (i.fmt, i.tag.split('/')[0])):
            if clock.expired():
                return fails
            ctx.count('search/' + '/'.join(img.tag.split('/')[:2]))
            check_image(ctx, img, c05_family(img, rng, ctx.quick, False), fails)
            # every header again, followed by more data than the bound (what an unclamped length would swallow)
            if len(img.data) < 2 * G.bound(img.fmt) and (img.tag.startswith(('hostile/', 'mut/')) or full) \
                    and (not G.ambient(ctx) or img.tag.startswith('hostile/')):
                n = len(img.data)
                ext = G.Img(img.fmt, img.data + b'\n' * (2 * G.bound(img.fmt)), img.bounds, img.tag + '+ext')
                check_image(ctx, ext, [('one', [len(ext.data)]), ('fixed65536', G.fixed(len(ext.data), 65536)),
                                       ('cut1', G.images.sizes_from_cuts([n], len(ext.data)))], fails)
            if len(fails) >= 5:
                return fails
    return fails


def replay(ctx, payload):
    case = payload.get('failure', {}).get('case') or payload.get('case')
    if not case:
        print('nothing to replay: this file names the obligation that no longer checks:')
        print(json.dumps(payload.get('no_longer_checks'), indent=1)[:3000])
        return 0
    if case.get('kind') == 'sparse':
        sp, cuts = G.sparse_of_case(case)
        peak = [0]
        v, i = G.sparse_run(sp, cuts, lambda insp: peak.__setitem__(0, max(peak[0], sum(insp.context_info.values()))))
        peak[0] = max(peak[0], sum(i.context_info.values()))
        print('%s, sparse stream of %d bytes, plan "%s"' % (sp.fmt, sp.total, case['plan']))
        print('implementation:', v)
        print('model         :', ctx.driver.ask(G.inspx_line(sp, cuts, False)).split('\t')[-1])
        print('property oracle on the implementation: largest sum(context_info.values()) = %d; bound %d' % (peak[0], G.bound(sp.fmt)))
        return 1 if peak[0] > G.bound(sp.fmt) else 0
    data = G.decode_content(case['content'])
    sizes = G.unpack_sizes(case['sizes'])
    fmt = case['fmt']
    feed, ctor = case.get('feed', 'bytes'), case.get('ctor') or {}
    ae = case.get('after_error', 'stop')
    peak, k, pos = watch(fmt, data, sizes, feed, ctor, ae)
    if ae == 'continue':
        print('the caller catches eat_chunk errors and keeps feeding the same inspector (model: request inspk)')
    impl = G.run_insp_x(fmt, data, sizes, trace=len(sizes) <= 200, feed=feed, ctor=ctor, after_error=ae)
    model = ctx.driver.ask(common.req('inspk' if ae == 'continue' else 'insp', fmt, case['content'], G.sizes_field(sizes),
                                      1 if len(sizes) <= 200 else 0))
    print('%s(%s), %d bytes, %d chunk(s) %s, presented as %s' % (fmt, ', '.join('%s=%s' % kv for kv in sorted(ctor.items())),
                                                               len(data), len(sizes), case['sizes'][:10], feed))
    print('implementation:', impl[-1500:])
    print('model         :', model[-1500:])
    print('property oracle on the implementation: largest sum(context_info.values()) = %d after chunk %d (position %d); bound %d -> %s'
          % (peak, k, pos, G.bound(fmt), 'EXCEEDED' if peak > G.bound(fmt) else 'ok'))
    if 'sizes_a' in case or impl != model:
        print('model and implementation %s' % ('agree' if impl == model else 'DISAGREE'))
    return 1 if (peak > G.bound(fmt) or impl != model) else 0


LEVEL_TEXT = ('Machine-checked proof (Lean 4) over the hand-written inspector model: for every format, stream, chunking and '
              'every prefix of the feed, each region holds at most its length, every region that can exist has a length '
              'capped by the generated class constants (DESC_MAX_SIZE clamp, fixed 64 KiB metadata table, item length '
              'clamp, count limits), and the sum reported by context_info is at most 1.5 MiB for VMDK and 512 KiB otherwise; '
              'all ten inspectors of one wrapper together retain at most 6 MiB (retained_all_inspectors_le, all_limits_sum); '
              'the numeric step is evaluated on the region tables and constants extracted from the code on every run. The '
              'model is tied to the code by a differential correspondence that compares every region\'s offset, length and '
              'held byte count after every chunk.')
LEVEL_NOTE = ('Trusted: Lean kernel; audited axioms; the hand model, the translator and this correspondence. Not covered: the '
              'transient concatenation inside capture() before truncation, and memory outside the capture regions.')
TECHNIQUE = 'Lean 4 invariants over the chunk list + generated constants + model/implementation correspondence + implementation-only bound search'
DESIGN_REF = 'DESIGN.md section 5, C05'
