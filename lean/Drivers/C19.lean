import OsloModel.Proto
import OsloModel.Split
open Oslo Oslo.Split Oslo.Proto

/-
Requests (fields TAB-separated, strings hex-encoded UTF-8, "-" = empty string):
  path   <hex path> <minsegs> <maxsegs | N> <0|1>   ->  ok:<seg>,<seg>,…  (seg = hex | - | N)  |  ValueError | …
  commas <hex value>                                ->  ok:<hex>,<hex>,…  |  ValueError | …
  split  <hex s> <maxsplit>                         ->  <hex>,<hex>,…      (model of s.split('/', maxsplit))
  tabs   <hex s>                                    ->  <hex>              (model of s.expandtabs())
-/

def showErr : Err → String
  | .valueError => "ValueError"
  | .indexError => "IndexError"
  | .outOfFuel => "OutOfFuel"

def showSeg : Seg → String
  | none => "N"
  | some s => hexChars s

def optNat (s : String) : Option (Option Nat) :=
  if s = "N" then some none else (s.toNat?).map some

def handle : List String → String
  | ["path", p, mn, mx, rwl] =>
    match unhexChars p, mn.toNat?, optNat mx, (if rwl = "0" then some false else if rwl = "1" then some true else none) with
    | some p, some mn, some mx, some rwl =>
      match splitPath p mn mx rwl with
      | .ok segs => "ok:" ++ String.intercalate "," (segs.map showSeg)
      | .error e => showErr e
    | _, _, _, _ => "bad-request"
  | ["commas", v] =>
    match unhexChars v with
    | some v =>
      match splitByCommas v with
      | .ok items => "ok:" ++ String.intercalate "," (items.map hexChars)
      | .error e => showErr e
    | none => "bad-request"
  | ["split", s, n] =>
    match unhexChars s, n.toNat? with
    | some s, some n => String.intercalate "," ((pySplit '/' n s).map hexChars)
    | _, _ => "bad-request"
  | ["tabs", s] =>
    match unhexChars s with
    | some s => hexChars (expandTabs 0 s)
    | none => "bad-request"
  | _ => "bad-request"

def main : IO Unit := serve handle
