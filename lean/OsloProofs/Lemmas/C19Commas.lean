/-
Helper lemmas for C19 about the hand parser of the split_by_commas grammar
(OsloModel/Split.lean, part 4).  Not property obligations.
-/
import OsloModel.Split
import OsloProofs.Lemmas.C19Split
namespace Oslo.Split

/-! ### vocabulary of the statements -/

/-- characters an item may contain for the round trip: anything but TAB (expanded to spaces by
    pyparsing before parsing), LF and CR (not allowed inside a quoted string) -/
def okChar (c : Char) : Bool := c != '\t' && c != '\n' && c != '\r'

def okItem (item : List Char) : Bool := item.all okChar

/-- printable ASCII, the domain named in the property -/
def printable (c : Char) : Bool := 0x20 ≤ c.toNat && c.toNat ≤ 0x7e

/-- `e` is an admissible encoding of `item`: quoted with escapes, or verbatim when the item is a
    non-empty run of word characters -/
def IsEnc (item e : List Char) : Prop :=
  e = quote item ∨ (e = item ∧ item ≠ [] ∧ ∀ c ∈ item, isWordChar c = true)

/-- every item followed by a comma: what precedes a later item in a joined list -/
def prefixStr : List (List Char) → List Char
  | [] => []
  | i :: is => quoteIfNeeded i ++ ',' :: prefixStr is

/-- reading left to right with `\` taking the next character along, no bare `"` occurs -/
def noClosingQuote : List Char → Bool
  | [] => true
  | [c] => c != '"'
  | c :: e :: r =>
    if c = '"' then false
    else if c = '\\' then noClosingQuote r
    else noClosingQuote (e :: r)

/-- next character (if any) cannot continue a bare word -/
def Stops (rest : List Char) : Prop := ∀ c, rest.head? = some c → isWordChar c = false

theorem printable_okChar (c : Char) (h : printable c = true) : okChar c = true := by
  have h1 : c ≠ '\t' := by intro hh; subst hh; revert h; decide
  have h2 : c ≠ '\n' := by intro hh; subst hh; revert h; decide
  have h3 : c ≠ '\r' := by intro hh; subst hh; revert h; decide
  simp [okChar, h1, h2, h3]

theorem isWs_not_word (c : Char) (h : isWs c = true) : isWordChar c = false := by
  simp only [isWs, Bool.or_eq_true, decide_eq_true_eq] at h
  rcases h with ((h | h) | h) | h <;> subst h <;> decide

theorem word_not_ws (c : Char) (h : isWordChar c = true) : isWs c = false := by
  cases hw : isWs c with
  | false => rfl
  | true => rw [isWs_not_word c hw] at h; exact absurd h (by simp)

theorem word_ne_quote (c : Char) (h : isWordChar c = true) : c ≠ '"' := by
  intro hh; subst hh; revert h; decide

theorem word_ne_comma (c : Char) (h : isWordChar c = true) : c ≠ ',' := by
  intro hh; subst hh; revert h; decide

theorem word_okChar (c : Char) (h : isWordChar c = true) : okChar c = true := by
  have h1 : c ≠ '\t' := by intro hh; subst hh; revert h; decide
  have h2 : c ≠ '\n' := by intro hh; subst hh; revert h; decide
  have h3 : c ≠ '\r' := by intro hh; subst hh; revert h; decide
  simp [okChar, h1, h2, h3]

/-! ### expandtabs -/

theorem expandTabs_notab (col : Nat) (s : List Char) (h : '\t' ∉ s) : expandTabs col s = s := by
  induction s generalizing col with
  | nil => simp [expandTabs]
  | cons c r ih =>
    have hc : c ≠ '\t' := fun hh => h (by simp [hh])
    have hr : '\t' ∉ r := fun hh => h (by simp [hh])
    simp only [expandTabs, hc, if_false]
    split <;> simp [ih _ hr]

theorem escape_mem (item : List Char) (c : Char) (h : c ∈ escape item) : c ∈ item ∨ c = '\\' := by
  induction item with
  | nil => simp [escape] at h
  | cons a r ih =>
    simp only [escape] at h
    split at h
    · simp only [List.mem_cons] at h
      rcases h with h | h | h
      · right; exact h
      · left; simp [h]
      · rcases ih h with h | h
        · left; simp [h]
        · right; exact h
    · simp only [List.mem_cons] at h
      rcases h with h | h
      · left; simp [h]
      · rcases ih h with h | h
        · left; simp [h]
        · right; exact h

theorem quote_notab (item : List Char) (h : '\t' ∉ item) : '\t' ∉ quote item := by
  intro hh
  simp only [quote, List.mem_cons, List.mem_append, List.mem_nil_iff, or_false] at hh
  rcases hh with hh | hh | hh
  · revert hh; decide
  · rcases escape_mem _ _ hh with h1 | h1
    · exact h h1
    · revert h1; decide
  · revert hh; decide

theorem okItem_notab (item : List Char) (h : okItem item = true) : '\t' ∉ item := by
  intro hh
  simp only [okItem, List.all_eq_true] at h
  have := h _ hh
  revert this; decide

theorem okItem_char (item : List Char) (h : okItem item = true) (c : Char) (hc : c ∈ item) :
    c ≠ '\n' ∧ c ≠ '\r' := by
  simp only [okItem, List.all_eq_true] at h
  have := h _ hc
  simp only [okChar, Bool.and_eq_true, bne_iff_ne, ne_eq] at this
  exact ⟨this.1.2, this.2⟩

/-! ### whitespace -/

theorem skipWs_of_head (s : List Char) (h : ∀ c, s.head? = some c → isWs c = false) : skipWs s = s := by
  cases s with
  | nil => rfl
  | cons c r => simp [skipWs, h c rfl]

theorem skipWs_append (w s : List Char) (hw : ∀ c ∈ w, isWs c = true)
    (h : ∀ c, s.head? = some c → isWs c = false) : skipWs (w ++ s) = s := by
  induction w with
  | nil => exact skipWs_of_head s h
  | cons a r ih =>
    simp only [List.cons_append, skipWs, hw a (by simp), if_true]
    exact ih (fun c hc => hw c (by simp [hc]))

theorem skipWs_length_le (s : List Char) : (skipWs s).length ≤ s.length := by
  induction s with
  | nil => simp [skipWs]
  | cons c r ih => simp only [skipWs]; split <;> simp <;> omega

/-! ### Word -/

theorem spanWord_eq (s : List Char) : (spanWord s).1 ++ (spanWord s).2 = s := by
  induction s with
  | nil => simp [spanWord]
  | cons c r ih => simp only [spanWord]; split <;> simp [ih]

theorem spanWord_append (w rest : List Char) (hw : ∀ c ∈ w, isWordChar c = true) (hs : Stops rest) :
    spanWord (w ++ rest) = (w, rest) := by
  induction w with
  | nil =>
    cases rest with
    | nil => simp [spanWord]
    | cons c r => simp [spanWord, hs c rfl]
  | cons a r ih =>
    have := ih (fun c hc => hw c (by simp [hc]))
    simp [spanWord, hw a (by simp), this]

theorem scanWord_append (w rest : List Char) (hne : w ≠ []) (hw : ∀ c ∈ w, isWordChar c = true)
    (hs : Stops rest) : scanWord (w ++ rest) = some (w, rest) := by
  unfold scanWord; rw [spanWord_append w rest hw hs]
  cases w with
  | nil => exact absurd rfl hne
  | cons a r => rfl

theorem scanWord_rest_lt (s w rest : List Char) (h : scanWord s = some (w, rest)) :
    rest.length < s.length := by
  unfold scanWord at h
  have he := spanWord_eq s
  cases hsp : spanWord s with
  | mk w' rest' =>
    rw [hsp] at h he
    cases w' with
    | nil => simp at h
    | cons a t =>
      simp only [Option.some.injEq, Prod.mk.injEq] at h
      obtain ⟨h1, h2⟩ := h; subst h1; subst h2
      rw [← he]; simp; omega

theorem scanWord_none_of_not_word (c : Char) (r : List Char) (h : isWordChar c = false) :
    scanWord (c :: r) = none := by
  simp [scanWord, spanWord, h]

/-! ### QuotedString -/

theorem scanQuoted_close (rest : List Char) : scanQuoted ('"' :: rest) = some ([], rest) := by
  cases rest <;> simp [scanQuoted]

/-- one unfolding step on a string of at least two characters -/
theorem scanQuoted_cons2 (c e : Char) (r : List Char) :
    scanQuoted (c :: e :: r) =
      if c = '"' then some ([], e :: r)
      else if c = '\\' then
        if e = '\n' then none else (scanQuoted r).map (fun p => (c :: e :: p.1, p.2))
      else if c = '\n' ∨ c = '\r' then none
      else (scanQuoted (e :: r)).map (fun p => (c :: p.1, p.2)) := by
  simp only [scanQuoted]
  repeat' split
  all_goals simp_all

theorem scanQuoted_esc (e : Char) (r : List Char) (he : e ≠ '\n') :
    scanQuoted ('\\' :: e :: r) = (scanQuoted r).map (fun p => ('\\' :: e :: p.1, p.2)) := by
  rw [scanQuoted_cons2]; simp [he]

theorem scanQuoted_plain (c : Char) (tail : List Char) (hne : tail ≠ [])
    (h1 : c ≠ '"') (h2 : c ≠ '\\') (h3 : c ≠ '\n') (h4 : c ≠ '\r') :
    scanQuoted (c :: tail) = (scanQuoted tail).map (fun p => (c :: p.1, p.2)) := by
  cases tail with
  | nil => exact absurd rfl hne
  | cons e r => rw [scanQuoted_cons2]; simp [h1, h2, h3, h4]

theorem scanQuoted_escape (item rest : List Char) (h : ∀ c ∈ item, c ≠ '\n' ∧ c ≠ '\r') :
    scanQuoted (escape item ++ '"' :: rest) = some (escape item, rest) := by
  induction item with
  | nil => simp [escape, scanQuoted_close]
  | cons a r ih =>
    have ih' := ih (fun c hc => h c (by simp [hc]))
    have ha := h a (by simp)
    simp only [escape]
    split
    · rename_i hq
      have : a ≠ '\n' := ha.1
      simp only [List.cons_append]
      rw [scanQuoted_esc _ _ this, ih']; rfl
    · rename_i hq
      simp only [not_or] at hq
      simp only [List.cons_append]
      rw [scanQuoted_plain a _ (by simp) hq.1 hq.2 ha.1 ha.2, ih']; rfl

theorem scanQuoted_rest_lt_aux (n : Nat) : ∀ (s raw rest : List Char), s.length ≤ n →
    scanQuoted s = some (raw, rest) → rest.length < s.length := by
  induction n with
  | zero =>
    intro s raw rest hn h
    have : s = [] := List.eq_nil_of_length_eq_zero (by omega)
    subst this; simp [scanQuoted] at h
  | succ n ih =>
    intro s raw rest hn h
    match s, hn, h with
    | [], _, h => simp [scanQuoted] at h
    | [c], _, h =>
      simp only [scanQuoted] at h
      split at h
      · simp only [Option.some.injEq, Prod.mk.injEq] at h; rw [← h.2]; simp
      · simp at h
    | c :: e :: r, hn, h =>
      rw [scanQuoted_cons2] at h
      split at h
      · simp only [Option.some.injEq, Prod.mk.injEq] at h; rw [← h.2]; simp
      · split at h
        · split at h
          · simp at h
          · cases hq : scanQuoted r with
            | none => rw [hq] at h; simp at h
            | some p =>
              rw [hq] at h
              simp only [Option.map_some, Option.some.injEq, Prod.mk.injEq] at h
              have := ih r p.1 p.2 (by simp at hn; omega) hq
              rw [← h.2]; simp; omega
        · split at h
          · simp at h
          · cases hq : scanQuoted (e :: r) with
            | none => rw [hq] at h; simp at h
            | some p =>
              rw [hq] at h
              simp only [Option.map_some, Option.some.injEq, Prod.mk.injEq] at h
              have := ih (e :: r) p.1 p.2 (by simp at hn ⊢; omega) hq
              rw [← h.2]; simp at this ⊢; omega

theorem scanQuoted_rest_lt (s raw rest : List Char) (h : scanQuoted s = some (raw, rest)) :
    rest.length < s.length := scanQuoted_rest_lt_aux s.length s raw rest (Nat.le_refl _) h

end Oslo.Split
