/-
C01-7 — the VMDK inspector's verdict in sparse-header mode depends on the bytes only, never on
the chunking: `verdict (runChunks s0 chunks) = specVmdk chunks.flatten` under `VmdkSparse`.
-/
import OsloProofs.Lemmas.VmdkVerdict
namespace Oslo.Insp

/-- the sparse-extent header fields of a stream (`struct.unpack('<4sIIQQQQIQQ', s[:64])`) -/
def hdrOf (s : Bytes) : SparseHeader :=
  { sig := s.take 4, ver := leNat (slice s 4 8), sectors := leNat (slice s 12 20),
    descSec := leNat (slice s 28 36), descNum := leNat (slice s 36 44), gdOffset := leNat (slice s 56 64) }

/-- **sparse-header mode**: at least the 64-byte header, the `KDMV` signature, a supported version,
    and — when the header announces a footer — a length outside the 63-byte window of finding F3 -/
def VmdkSparse (s : Bytes) : Prop :=
  64 ≤ s.length ∧ s.take 4 = kdmv ∧
  ((hdrOf s).ver = 1 ∨ (hdrOf s).ver = 2 ∨ (hdrOf s).ver = 3) ∧
  ((hdrOf s).gdOffset = Gen.vmdkGdAtEnd → s.length < 1536 ∨ 1599 ≤ s.length)

instance (s : Bytes) : Decidable (VmdkSparse s) := by unfold VmdkSparse; infer_instance

/-- **the whole-stream specification of the verdict** (transcription of `spec_vmdk` in
    notes/design-spec-vhdx-vmdk.py) -/
def specVmdk (s : Bytes) : Verdict :=
  let H := hdrOf s
  let foot := decide (H.gdOffset = Gen.vmdkGdAtEnd)
  if H.descSec * 512 ≠ Gen.vmdkDescOffset then
    -- post_process raises after adding the (never fed) footer region; the inspector is not fed again
    { fmtMatch := .ok true, complete := !foot, vsize := .ok 0,
      safety := if foot then .refused else .failed ["descriptor"], raised := some .imageFormat }
  else
    let dl := min (H.descNum * 512) Gen.vmdkDescMaxSize
    let dd := sliceOf s 512 dl
    let parsed := if dl = dd.length then parseDesc dd else none
    let dt := parsed.map (·.1)
    let vt := (parsed.map (·.2)).getD formatNotFound
    let complete := (!foot || decide (1536 ≤ s.length)) && decide (dl = dd.length)
    { fmtMatch := .ok true, complete := complete, vsize := .ok (vsizeOn dt vt H.sectors),
      safety := safetyOn complete foot (checkDescOn dt vt) (CheckRes.ofExcept (footerCheckH H (lastN 1536 s))),
      raised := none }

theorem lemma_vmdk_parse_hdrOf (s : Bytes) (h : 64 ≤ s.length) : parseSparseHeader s 0 = .ok (hdrOf s) := by
  unfold parseSparseHeader hdrOf
  simp only [Gen.vmdkMinSparseHeader, Nat.zero_add]
  have hl : (slice s 0 64).length = 64 := by simp [slice]; omega
  rw [if_neg (by rw [hl]; simp)]
  have e : ∀ a b, b ≤ 64 → slice (slice s 0 64) a b = slice s a b := by
    intro a b hb
    simp only [slice, List.drop_zero, List.take_take]
    congr 2; omega
  rw [e 0 4 (by omega), e 4 8 (by omega), e 12 20 (by omega), e 28 36 (by omega), e 36 44 (by omega),
    e 56 64 (by omega)]
  simp [slice]


/-- with a version in {1,2,3} byte 5 of the stream is NUL: every early parse of a prefix shorter than
    64 bytes sees at most `KDMV` and the version byte, hence no `createType` -/
theorem lemma_nulAt5_of_ver (s : Bytes) (h : 64 ≤ s.length) (hv : leNat (slice s 4 8) ≤ 3) : NulAt5 s := by
  rcases s with _ | ⟨a0, _ | ⟨a1, _ | ⟨a2, _ | ⟨a3, _ | ⟨a4, _ | ⟨a5, _ | ⟨a6, _ | ⟨a7, rest⟩⟩⟩⟩⟩⟩⟩⟩
  all_goals try (simp only [List.length_cons, List.length_nil] at h; omega)
  right
  simp only [slice, leNat, List.take_succ_cons, List.take_zero, List.drop_succ_cons, List.drop_zero,
    List.foldr_cons, List.foldr_nil] at hv
  have h5 : a5.toNat = 0 := by omega
  have : a5 = 0 := UInt8.toNat_inj.mp h5
  simp [this]


theorem lemma_vmdk_safetyOn_congr (c foot cd : Bool) (cf cf' : CheckRes) (h : c = true → foot = true → cf = cf') :
    safetyOn c foot cd cf = safetyOn c foot cd cf' := by
  cases c
  · rfl
  · cases foot
    · rfl
    · rw [h rfl rfl]

theorem lemma_descSt_spec (dd : Bytes) (dl : Nat) (dt : Option Bytes) (vt : Bytes) (n : Nat)
    (h : DescSt dd dl dt vt) :
    vsizeOn dt vt n = vsizeOn ((if dl = dd.length then parseDesc dd else none).map (·.1))
        (((if dl = dd.length then parseDesc dd else none).map (·.2)).getD formatNotFound) n ∧
    checkDescOn dt vt = checkDescOn ((if dl = dd.length then parseDesc dd else none).map (·.1))
        (((if dl = dd.length then parseDesc dd else none).map (·.2)).getD formatNotFound) := by
  unfold DescSt at h
  split at h
  · rename_i hc
    rw [if_pos hc]
    cases hp : parseDesc dd with
    | none =>
      rw [hp] at h
      simp only at h
      subst h
      simp [lemma_vsizeOn_fnf, lemma_checkDescOn_fnf]
    | some x =>
      obtain ⟨t, ty⟩ := x
      rw [hp] at h
      obtain ⟨rfl, rfl⟩ := h
      simp
  · rename_i hc
    rw [if_neg hc]
    subst h
    simp [lemma_vsizeOn_fnf, lemma_checkDescOn_fnf]

theorem lemma_vmdk_lastN_pos (n : Nat) (hn : n ≠ 0) (x : Bytes) : lastN n x = x.drop (x.length - n) := by
  unfold lastN
  rw [if_neg hn]

theorem lemma_footInv_full (fd s : Bytes) (h : FootInv fd s) :
    (1599 ≤ s.length → fd = lastN 1536 s) ∧ (s.length < 1536 → fd.length < 1536) ∧
    (1599 ≤ s.length → fd.length = 1536) := by
  obtain ⟨b, hb, hbl, hfd⟩ := h
  have hlen : fd.length = min 1536 (s.length - b) := by
    rw [hfd, lemma_lastN_length 1536 (by omega)]; simp
  refine ⟨fun hs => ?_, fun hs => by omega, fun hs => by omega⟩
  rw [hfd, lemma_vmdk_lastN_pos 1536 (by omega), lemma_vmdk_lastN_pos 1536 (by omega), List.length_drop, List.drop_drop]
  have e : b + (s.length - b - 1536) = s.length - 1536 := by omega
  rw [e]

/-- the final state of a feed in sparse-header mode, for any chunking (state-level form of C01-7,
    used by C02/C07 to talk about `desc_text` and `vmdktype`) -/
theorem lemma_vmdk_outcome (s0 : Insp) (h0 : Insp.init .vmdk = some s0) (chunks : List Bytes)
    (hs : VmdkSparse chunks.flatten) :
    HdrOK (hdrOf chunks.flatten) ∧
    VmdkOutcome (decide ((hdrOf chunks.flatten).gdOffset = Gen.vmdkGdAtEnd))
      (min ((hdrOf chunks.flatten).descNum * 512) Gen.vmdkDescMaxSize) (hdrOf chunks.flatten)
      chunks.flatten (feed s0 chunks) := by
  obtain ⟨hlen, hsig, hver, _⟩ := hs
  have hpar := lemma_vmdk_parse_hdrOf chunks.flatten hlen
  have hok : HdrOK (hdrOf chunks.flatten) := ⟨hsig, hver⟩
  have h5 : NulAt5 chunks.flatten := lemma_nulAt5_of_ver _ hlen (by
    have : (hdrOf chunks.flatten).ver = leNat (slice chunks.flatten 4 8) := rfl
    rw [← this]; omega)
  exact ⟨hok, lemma_vmdk_feed _ _ (hdrOf chunks.flatten) hok rfl rfl s0 h0 chunks h5 hlen hpar⟩

/-- **vmdk_chunk_independent_partial** (C01-7) — for every stream in sparse-header mode and every
    chunking of it (empty chunks included), the verdict of the VMDK inspector — `format_match`,
    `complete`, `virtual_size`, the `safety_check` outcome and whether `eat_chunk` raised — is the
    whole-stream function `specVmdk` of the concatenated bytes.
    Missing (hypothesis `VmdkSparse`): streams shorter than 64 bytes, without the `KDMV` signature or
    with a version outside {1,2,3} (text-descriptor mode and the early-parse residue, known finding
    KF_F1), and streams that announce a footer and have 1536 ≤ length < 1599 (known finding KF_F3);
    the statement is false there. -/
theorem vmdk_chunk_independent_partial (s0 : Insp) (h0 : Insp.init .vmdk = some s0) (chunks : List Bytes)
    (hs : VmdkSparse chunks.flatten) :
    verdict (runChunks s0 chunks) = specVmdk chunks.flatten := by
  obtain ⟨hok, hout⟩ := lemma_vmdk_outcome s0 h0 chunks hs
  obtain ⟨hlen, hsig, hver, hfl⟩ := hs
  generalize hs : chunks.flatten = s at *
  generalize hH : hdrOf s = H at *
  unfold specVmdk
  simp only [hH]
  unfold runChunks
  rcases hout with ⟨hds, hd, fo, fd, dt, vt, hr, hp, hl, hfi, hst⟩ | ⟨hds, n, hd, d0, dt, hr, hp, hl, hc⟩
  · rw [hr, if_neg (by simpa using hds)]
    simp only [lemma_post_finish, verdict, lemma_post_formatMatch, lemma_vmdk_startsWith_kdmv hd H hp hok.sig,
      lemma_post_complete _ _ hd _ _ _ _ _ _ hl, lemma_post_vsize _ _ hd _ _ _ _ _ _ _ H hp,
      lemma_post_safety _ _ hd _ _ _ _ _ _ H hp hok.sig]
    obtain ⟨hv1, hv2⟩ := lemma_descSt_spec _ _ _ _ H.sectors hst
    obtain ⟨hf1, hf2, hf3⟩ := lemma_footInv_full fd s hfi
    have hcomp : (!decide (H.gdOffset = Gen.vmdkGdAtEnd) || decide (1536 = fd.length)) =
        (!decide (H.gdOffset = Gen.vmdkGdAtEnd) || decide (1536 ≤ s.length)) := by
      by_cases hg : H.gdOffset = Gen.vmdkGdAtEnd
      · rcases hfl hg with h | h
        · have := hf2 h
          simp [hg]; omega
        · have := hf3 h
          simp [hg]; omega
      · simp [hg]
    rw [hcomp, hv1, hv2]
    rw [lemma_vmdk_safetyOn_congr _ _ _ (CheckRes.ofExcept (footerCheckH H fd))
      (CheckRes.ofExcept (footerCheckH H (lastN 1536 s)))]
    intro hc hfoot
    have hg : H.gdOffset = Gen.vmdkGdAtEnd := of_decide_eq_true hfoot
    have h1536 : 1536 ≤ s.length := by
      rw [hfoot] at hc
      simp only [Bool.not_true, Bool.false_or, Bool.and_eq_true, decide_eq_true_eq] at hc
      exact hc.1
    rcases hfl hg with h | h
    · omega
    · rw [hf1 h]
  · rw [hr, if_pos hds]
    simp only [lemma_err_finish, verdict, lemma_err_formatMatch, lemma_vmdk_startsWith_kdmv hd H hp hok.sig,
      lemma_err_complete _ _ hd _ _ hl hc, lemma_err_vsize, lemma_err_safety _ _ hd _ _ H hp hok.sig hc]

/-- **two chunkings of the same sparse-header stream give the same verdict** -/
theorem vmdk_verdict_eq_partial (s0 : Insp) (h0 : Insp.init .vmdk = some s0) (c1 c2 : List Bytes)
    (h : c1.flatten = c2.flatten) (hs : VmdkSparse c1.flatten) :
    let v1 := verdict (runChunks s0 c1)
    let v2 := verdict (runChunks s0 c2)
    v1.fmtMatch = v2.fmtMatch ∧ v1.complete = v2.complete ∧ v1.vsize = v2.vsize ∧
    v1.safety = v2.safety ∧ v1.raised = v2.raised := by
  rw [vmdk_chunk_independent_partial s0 h0 c1 hs, vmdk_chunk_independent_partial s0 h0 c2 (h ▸ hs), h]
  simp


/-! ### non-vacuity: a concrete sparse image (header, descriptor at sector 1), three chunkings -/

/-- 64-byte header: KDMV, version 1, capacity 2048 sectors, descriptor at sector 1, one sector long,
    no footer; padding to sector 1; a one-sector descriptor -/
def exVmdk : Bytes :=
  kdmv ++ [1, 0, 0, 0] ++ zeros 4 ++ [0, 8, 0, 0, 0, 0, 0, 0] ++ zeros 8 ++
    [1, 0, 0, 0, 0, 0, 0, 0] ++ [1, 0, 0, 0, 0, 0, 0, 0] ++ zeros 20 ++ zeros 448 ++
    ascii "createType=\"monolithicSparse\"\nRW 2048 SPARSE \"x.vmdk\"\n" ++ zeros 458

example : exVmdk.length = 1024 ∧ VmdkSparse exVmdk := by decide +kernel

instance instDecEqVmdkVsize : DecidableEq (Except Err Int) := fun a b =>
  match a, b with
  | .ok x, .ok y => if h : x = y then isTrue (by rw [h]) else isFalse (by intro e; cases e; exact h rfl)
  | .error x, .error y => if h : x = y then isTrue (by rw [h]) else isFalse (by intro e; cases e; exact h rfl)
  | .ok _, .error _ => isFalse (by intro e; cases e)
  | .error _, .ok _ => isFalse (by intro e; cases e)

example :
    (specVmdk exVmdk).complete = true ∧ (specVmdk exVmdk).vsize = .ok (2048 * 512) ∧
    (specVmdk exVmdk).safety = .ok ∧ (specVmdk exVmdk).raised = none := by decide +kernel

example : ∀ s0, Insp.init .vmdk = some s0 →
    safetyCheck (runChunks s0 [exVmdk]).1 = .ok ∧
    safetyCheck (runChunks s0 [exVmdk.take 10, [], (exVmdk.drop 10).take 60, exVmdk.drop 70]).1 = .ok ∧
    virtualSize (runChunks s0 [exVmdk.take 3, exVmdk.drop 3]).1 = .ok (2048 * 512) := by
  intro s0 h0
  have e1 : [exVmdk].flatten = exVmdk := by simp
  have e2 : [exVmdk.take 10, [], (exVmdk.drop 10).take 60, exVmdk.drop 70].flatten = exVmdk := by
    simp only [List.flatten_cons, List.flatten_nil, List.nil_append, List.append_nil]
    rw [show exVmdk.drop 70 = (exVmdk.drop 10).drop 60 by rw [List.drop_drop], List.take_append_drop,
      List.take_append_drop]
  have e3 : [exVmdk.take 3, exVmdk.drop 3].flatten = exVmdk := by simp
  have hs : VmdkSparse exVmdk := by decide +kernel
  have h1 := vmdk_chunk_independent_partial s0 h0 [exVmdk] (by rw [e1]; exact hs)
  have h2 := vmdk_chunk_independent_partial s0 h0
    [exVmdk.take 10, [], (exVmdk.drop 10).take 60, exVmdk.drop 70] (by rw [e2]; exact hs)
  have h3 := vmdk_chunk_independent_partial s0 h0 [exVmdk.take 3, exVmdk.drop 3] (by rw [e3]; exact hs)
  rw [e1] at h1; rw [e2] at h2; rw [e3] at h3
  refine ⟨?_, ?_, ?_⟩
  · have := congrArg Verdict.safety h1
    exact this.trans (by decide +kernel)
  · have := congrArg Verdict.safety h2
    exact this.trans (by decide +kernel)
  · have := congrArg Verdict.vsize h3
    exact this.trans (by decide +kernel)


/-! ### the hypothesis is needed: finding F3 reproduced by the model -/

/-- a 1540-byte stream whose header announces a footer (descriptor at sector 1, zero sectors long) -/
def exF3 : Bytes :=
  kdmv ++ [1, 0, 0, 0] ++ zeros 20 ++ [1, 0, 0, 0, 0, 0, 0, 0] ++ zeros 8 ++ zeros 12 ++
    List.replicate 8 255 ++ zeros 1476

/-- **vmdk_footer_window_counterexample** (known finding KF_F3) — for a footer-announcing stream of
    1540 bytes, `complete` depends on the chunking: one chunk gives `true`, a cut after 10 bytes gives
    `false` (the footer window is created at the chunk that completes the header and misses the
    bytes before it).  Such streams are excluded by `VmdkSparse`. -/
theorem vmdk_footer_window_counterexample (s0 : Insp) (h0 : Insp.init .vmdk = some s0) :
    exF3.length = 1540 ∧ ¬ VmdkSparse exF3 ∧
    (verdict (runChunks s0 [exF3])).complete = true ∧
    (verdict (runChunks s0 [exF3.take 10, exF3.drop 10])).complete = false := by
  rw [lemma_vmdk_init s0 h0]
  decide +kernel


/-! ### … and finding F1's early-parse residue, outside `VmdkSparse` (version field not in {1,2,3}) -/

def exF1 : Bytes := ascii "KDMVcreateType=\"monolithicSparse\"\n" ++ zeros 30

/-- **vmdk_early_parse_counterexample** (known finding KF_F1) — a 64-byte `KDMV…` stream whose version
    field is text: fed in one chunk `virtual_size` is 0, with a cut after 40 bytes the offset-0
    descriptor region is parsed early, its `createType` survives the header's rejection, and
    `virtual_size` is a 71-bit number.  Excluded by the version clause of `VmdkSparse`. -/
theorem vmdk_early_parse_counterexample (s0 : Insp) (h0 : Insp.init .vmdk = some s0) :
    exF1.length = 64 ∧ ¬ VmdkSparse exF1 ∧
    (verdict (runChunks s0 [exF1])).vsize = .ok 0 ∧
    (verdict (runChunks s0 [exF1.take 40, exF1.drop 40])).vsize ≠ .ok 0 := by
  rw [lemma_vmdk_init s0 h0]
  decide +kernel

end Oslo.Insp
