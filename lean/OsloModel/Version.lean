/-
Model of oslo_utils/versionutils.py (is_compatible 31-52, convert_version_to_int 55-69,
convert_version_to_str 72-84, convert_version_to_tuple 87-93, VersionPredicate 96-125).

Text is `List Char`.  The character classes (`\s`, `\d`, what `int()` strips), the
`int()` digit limit, `_COMP_MAP` and the predicate pattern text come from
`Generated/C17.lean` (read from the running interpreter / the code on every run).
`packaging.version` is a parameter (`Pep V`): parsing, `.major` and the six comparison
operators are abstract; the correspondence passes their outcomes.
-/
import OsloModel.Generated.C17
namespace Oslo.Version

inductive Err
  | valueError        -- ValueError raised by the module / by int()
  | invalidVersion    -- packaging.version.InvalidVersion (a ValueError subclass)
  | typeError
  | keyError
  deriving DecidableEq, Repr

/-! ### character classes -/

/-- `\s` of a str pattern -/
def isReSpace (c : Char) : Bool := Gen.reSpace.contains c.toNat

/-- what `int(str)` strips at both ends -/
def isIntSpace (c : Char) : Bool := Gen.intSpace.contains c.toNat

/-- value of a Unicode decimal digit (`\d`; the digits `int()` accepts) -/
def digitVal (c : Char) : Option Nat :=
  match Gen.decimalZeros.find? (fun z => z ≤ c.toNat && c.toNat < z + 10) with
  | some z => some (c.toNat - z)
  | none => none

def isDigit (c : Char) : Bool := (digitVal c).isSome

/-! ### int(str), base 10 -/

/-- `digit ('_'? digit)*`: the digit values, or none -/
def digitsU : List Char → Option (List Nat)
  | [] => none
  | [c] => (digitVal c).map (fun d => [d])
  | c :: u :: rest =>
    match digitVal c with
    | none => none
    | some d =>
      if u = '_' then (digitsU rest).map (fun ds => d :: ds)
      else (digitsU (u :: rest)).map (fun ds => d :: ds)

def ofDigits (ds : List Nat) : Nat := ds.foldl (fun a d => a * 10 + d) 0

def stripInt (s : List Char) : List Char :=
  ((s.dropWhile isIntSpace).reverse.dropWhile isIntSpace).reverse

/-- optional sign: (negative?, rest) -/
def signSplit : List Char → Bool × List Char
  | '+' :: r => (false, r)
  | '-' :: r => (true, r)
  | r => (false, r)

/-- `int(s)` for a str `s`; `none` = ValueError (includes the max-str-digits limit) -/
def pyInt (s : List Char) : Option Int :=
  let sb := signSplit (stripInt s)
  match digitsU sb.2 with
  | none => none
  | some ds =>
    if Gen.intMaxStrDigits > 0 ∧ ds.length > Gen.intMaxStrDigits then none
    else some (if sb.1 then - (ofDigits ds : Int) else (ofDigits ds : Int))

/-! ### str.split(sep) / sep.join / str(int) -/

/-- `s.split(sep)` for a one-character separator (keeps empty fields, never returns []) -/
def splitOn (sep : Char) : List Char → List (List Char)
  | [] => [[]]
  | c :: rest =>
    if c = sep then [] :: splitOn sep rest
    else match splitOn sep rest with
      | [] => [[c]]
      | p :: ps => (c :: p) :: ps

def join (sep : Char) : List (List Char) → List Char
  | [] => []
  | [p] => p
  | p :: q :: rest => p ++ sep :: join sep (q :: rest)

def digitChar (d : Nat) : Char := Char.ofNat (48 + d)

/-- `str(n)` for a non-negative int -/
def natRepr (n : Nat) : List Char :=
  if n < 10 then [digitChar n] else natRepr (n / 10) ++ [digitChar (n % 10)]
termination_by n
decreasing_by omega

/-! ### convert_version_to_tuple (87-93) -/

/-- the alternation `(a|alpha|b|beta|rc)`, in the order of the pattern -/
def markers : List (List Char) :=
  [['a'], ['a', 'l', 'p', 'h', 'a'], ['b'], ['b', 'e', 't', 'a'], ['r', 'c']]

/-- which alternative matches, given the reversed text before the final digit run: the marker
    must end there and be preceded by a digit (the `(\d+)` group) -/
def findMarker (r : List Char) : Option (List Char) :=
  markers.find? (fun m => m.reverse.isPrefixOf r &&
                          (match (r.drop m.length).head? with
                           | some c => isDigit c
                           | none => false))

/-- one match of `(\d+)(a|alpha|b|beta|rc)\d+` ending exactly at the end of `t`, replaced by its
    group 1; `none` = no match.  The last `\d+` is the maximal digit run at the end of `t`
    (no marker ends in a digit), the marker sits directly before it, and whatever digits precede
    the marker are kept whether they are inside the match (group 1) or before it. -/
def stripCore (t : List Char) : Option (List Char) :=
  let rt := t.reverse
  let d2 := rt.takeWhile isDigit
  let r := rt.dropWhile isDigit
  if d2.isEmpty then none else
  match findMarker r with
  | some m => some (r.drop m.length).reverse
  | none => none

/-- `re.sub(r'(\d+)(a|alpha|b|beta|rc)\d+$', '\\1', s)` (line 92).  `$` matches at the end of the
    string and just before one final newline; when `s` ends in a newline only the latter position
    can follow a digit. -/
def stripSuffix (s : List Char) : List Char :=
  if s.getLast? = some '\n' then
    match stripCore s.dropLast with
    | some t => t ++ ['\n']
    | none => s
  else
    match stripCore s with
    | some t => t
    | none => s

/-- `int(part) for part in …`: first failure raises ValueError -/
def parseParts : List (List Char) → Option (List Int)
  | [] => some []
  | p :: ps =>
    match pyInt p with
    | none => none
    | some v => (parseParts ps).map (fun vs => v :: vs)

def toTuple (s : List Char) : Except Err (List Int) :=
  match parseParts (splitOn '.' (stripSuffix s)) with
  | some l => .ok l
  | none => .error .valueError

/-! ### convert_version_to_int (55-69) -/

inductive VerIn
  | str (s : List Char)
  | tuple (l : List Int)        -- a tuple of ints
  | other                       -- any other type: falls through both `isinstance` tests
  deriving DecidableEq, Repr

inductive IntOut
  | int (v : Int)
  | noneVal                     -- the function ends without `return`
  deriving DecidableEq, Repr

/-- `functools.reduce(lambda x, y: (x * 1000) + y, version)`; `none` = TypeError on the empty tuple -/
def reduce1000 : List Int → Option Int
  | [] => none
  | x :: xs => some (xs.foldl (fun a y => a * 1000 + y) x)

/-- the `isinstance(version, tuple)` branch; on the empty tuple `reduce` raises TypeError and
    the handler's `"…%s…" % ()` raises TypeError itself, which is what escapes -/
def tupleToInt (l : List Int) : Except Err IntOut :=
  match reduce1000 l with
  | some v => .ok (.int v)
  | none => .error .typeError

def toInt : VerIn → Except Err IntOut
  | .str s =>
    match toTuple s with
    | .error _ => .error .valueError       -- handler: `% version` with the str still bound
    | .ok l => tupleToInt l
  | .tuple l => tupleToInt l
  | .other => .ok .noneVal

/-! ### convert_version_to_str (72-84) -/

/-- the `while version_int != 0` loop; `acc` is `version_numbers` (insert at 0) -/
def strLoop (n : Nat) (acc : List (List Char)) : List (List Char) :=
  if n = 0 then acc else strLoop (n / 1000) (natRepr (n - n / 1000 * 1000) :: acc)
termination_by n
decreasing_by omega

def toStr (n : Nat) : List Char := join '.' (strLoop n [])

/-- on a negative int `//` floors towards -1 and the loop never reaches 0: `none` = diverges -/
def toStrInt (n : Int) : Option (List Char) :=
  if n < 0 then none else some (toStr n.toNat)

/-! ### packaging.version as a parameter -/

structure Pep (V : Type) where
  parse : List Char → Option V          -- `Version(s)`; none = InvalidVersion
  major : V → Nat
  lt : V → V → Bool
  le : V → V → Bool
  eq : V → V → Bool
  gt : V → V → Bool
  ge : V → V → Bool
  ne : V → V → Bool

def Pep.version {V} (P : Pep V) (s : List Char) : Except Err V :=
  match P.parse s with
  | some v => .ok v
  | none => .error .invalidVersion

/-- is_compatible (31-52) -/
def isCompatible {V} (P : Pep V) (requested current : List Char) (sameMajor : Bool) : Except Err Bool :=
  match P.version requested with
  | .error e => .error e
  | .ok r =>
    match P.version current with
    | .error e => .error e
    | .ok c =>
      if sameMajor && P.major r != P.major c then .ok false
      else .ok (P.ge c r)

/-! ### VersionPredicate (96-125) -/

inductive Cmp | lt | le | eq | gt | ge | ne
  deriving DecidableEq, Repr

def Pep.cmp {V} (P : Pep V) : Cmp → V → V → Bool
  | .lt => P.lt | .le => P.le | .eq => P.eq | .gt => P.gt | .ge => P.ge | .ne => P.ne

/-- `operator.<name>` -/
def cmpOfName (n : List Char) : Option Cmp :=
  if n = ['l', 't'] then some .lt else if n = ['l', 'e'] then some .le
  else if n = ['e', 'q'] then some .eq else if n = ['g', 't'] then some .gt
  else if n = ['g', 'e'] then some .ge else if n = ['n', 'e'] then some .ne else none

/-- `_COMP_MAP[cond]`; none = KeyError -/
def lookupCmp (cond : List Char) : Option Cmp :=
  match Gen.compMap.find? (fun kv => kv.1 = cond) with
  | some kv => cmpOfName kv.2
  | none => none

/-- the alternation `(<=|>=|<|>|!=|==)`, in the order of the pattern -/
def opAlternatives : List (List Char) :=
  [['<', '='], ['>', '='], ['<'], ['>'], ['!', '='], ['=', '=']]

def stripPrefix : List Char → List Char → Option (List Char)
  | [], s => some s
  | _ :: _, [] => none
  | a :: p, b :: s => if a = b then stripPrefix p s else none

/-- what must follow the operator: `\s*([^\s]+)\s*$` -/
def matchRest (r : List Char) : Option (List Char) :=
  let r1 := r.dropWhile isReSpace
  let ver := r1.takeWhile (fun c => !isReSpace c)
  let post := r1.dropWhile (fun c => !isReSpace c)
  if !ver.isEmpty && post.all isReSpace then some ver else none

def firstAlt (p1 : List Char) : List (List Char) → Option (List Char × List Char)
  | [] => none
  | op :: ops =>
    match stripPrefix op p1 with
    | none => firstAlt p1 ops
    | some r =>
      match matchRest r with
      | some ver => some (op, ver)
      | none => firstAlt p1 ops

/-- `_PREDICATE_MATCH.match(pred)` → `(cond, ver_str)`: alternatives are tried in order, the
    first one after which the rest has the shape `\s*[^\s]+\s*` wins (backtracking) -/
def matchPiece (p : List Char) : Option (List Char × List Char) :=
  firstAlt (p.dropWhile isReSpace) opAlternatives

/-- `_parse_predicate` (113-118) -/
def parsePiece {V} (P : Pep V) (p : List Char) : Except Err (List Char × V) :=
  match matchPiece p with
  | none => .error .valueError
  | some (cond, ver) =>
    match P.version ver with
    | .error e => .error e
    | .ok v => .ok (cond, v)

def parsePieces {V} (P : Pep V) : List (List Char) → Except Err (List (List Char × V))
  | [] => .ok []
  | p :: ps =>
    match parsePiece P p with
    | .error e => .error e
    | .ok x =>
      match parsePieces P ps with
      | .error e => .error e
      | .ok xs => .ok (x :: xs)

/-- `VersionPredicate.__init__` (109-111): `self.pred` -/
def mkPredicate {V} (P : Pep V) (s : List Char) : Except Err (List (List Char × V)) :=
  parsePieces P (splitOn ',' s)

/-- the loop of `satisfied_by` (122-125) -/
def satLoop {V} (P : Pep V) (v : V) : List (List Char × V) → Except Err Bool
  | [] => .ok true
  | (cond, w) :: rest =>
    match lookupCmp cond with
    | none => .error .keyError
    | some op => if P.cmp op v w then satLoop P v rest else .ok false

def satisfiedBy {V} (P : Pep V) (pred : List (List Char × V)) (vs : List Char) : Except Err Bool :=
  match P.version vs with
  | .error e => .error e
  | .ok v => satLoop P v pred

/-- one predicate object asked about several candidates in turn: the object has no state besides
    `pred`, which `satisfied_by` only reads, so the k-th answer is that of the k-th candidate alone -/
def satRun {V} (P : Pep V) (pred : List (List Char × V)) : List (List Char) → List (Except Err Bool)
  | [] => []
  | vs :: rest => satisfiedBy P pred vs :: satRun P pred rest

end Oslo.Version
