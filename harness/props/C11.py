"""C11 - address validators accept exactly well-formed values and never raise."""
import ipaddress
import os
import re
import string
import sys

import common
from common import Disagreement, Failure, req

ID = 'C11'
DRIVER = 'drv_C11'
PROOF_MODULES = ['OsloProofs.Props.C11']
LEVEL = 'proof'
RULE = ('strings generated from the address grammars (dotted quads with 1..5 parts, octets -1..300, leading zeros, '
        'hex/octal spellings; IPv6 with 1..9 groups, every placement of "::", embedded IPv4, scope ids of length '
        '0..17; CIDRs with prefix -1..129, netmask/hostmask forms, missing/empty/doubled/extra slashes, int() '
        'decorations; MACs with 5..7 groups and every separator; integers around each range end in str and int '
        'form), single-character mutations of them, NUL insertions, well-formed spellings in which Unicode '
        'stand-ins (every character whose lower/upper/casefold/NFKC/digit form lies in the address alphabet: '
        'ligatures, fullwidth and mathematical forms, superscripts ...; table read from unicodedata) replace one or '
        'more characters, and arbitrary printable/Unicode strings. Every '
        'string is put to all nine validators in EVERY legal call form of their pinned signatures (argument '
        'positional / by keyword, strict omitted / positional / keyword / keyword order permuted, strict True and '
        'False: 19 forms) and to int(); ints and None to both forms of the three number validators. A case is non-trivial when at least one validator '
        'accepts it on both sides, or it is a grammar-generated near miss (one rule of the grammar broken); '
        'distinct by the string itself')
TRUSTED_BASE = [
    'Lean 4 kernel; axioms audited per theorem (subset of propext, Classical.choice, Quot.sound)',
    'hand-written model OsloModel/Net.lean (own parsers for what glibc inet_pton/inet_aton, netaddr.IPNetwork and '
    'CPython int() accept), tied to netutils + netaddr + glibc + CPython by this correspondence',
    'translator generate(): the non-ASCII white space int() skips, the Unicode decimal-digit runs and '
    'sys.get_int_max_str_digits() are read from the running interpreter; it also checks that str.lower() maps '
    'exactly A-F onto a-f (MAC) and that the ASCII facts hard-coded in the model hold',
]
UNMODELLED = [
    'arguments that are neither str, int nor None (bytes, float, bool subclasses, objects with __int__)',
    "lone surrogate code points in a str (not representable as Lean Char): exercised by the search only ('never raises')",
    'the numeric prefix length IPNetwork derives from a netmask (only acceptance is modelled)',
]
ASSUMPTIONS = [
    'INTERPRETATION (coordinator): is_valid_ip deliberately calls is_valid_ipv4(strict=False); for is_valid_ip a '
    'well-formed IPv4 value is an inet_aton numeric form: 1..4 "."-separated C numerals (decimal, 0octal, 0xhex), '
    'leading parts <= 255, last part within the remaining bytes, nothing after',
    'INTERPRETATION: is_valid_ipv6_cidr accepts a bare IPv6 address (the existing suite asserts it); a missing '
    'prefix is rejected by is_valid_cidr only',
    'INTERPRETATION: a scope id is any 1..15 characters after the last "%"',
    'IPv6 netmask/hostmask prefixes (::/ffff::) are a netaddr feature the model follows',
    'platform: glibc inet_pton/inet_aton (2.36 here); Python ipaddress is the third voice for is_valid_ipv4, '
    'is_valid_ipv6 without "%", and CIDR with an ASCII-decimal prefix',
]

FUNCS = ['is_valid_ipv4', 'is_valid_ipv6', 'is_valid_ip', 'is_valid_cidr', 'is_valid_ipv6_cidr',
         'is_valid_mac', 'is_valid_port', 'is_valid_icmp_type', 'is_valid_icmp_code']
N5 = 'N5-cidr-prefix-int-leniency'
ATON_TRAIL = 'C11-ip-inet-aton-trailing-text'


# --------------------------------------------------------------------------
# translator: tables read from the running interpreter

def _int_or_none(s):
    try:
        return int(s)
    except ValueError:
        return None


def extract_tables():
    digits = {}
    for cp in range(0x110000):
        if 0xD800 <= cp < 0xE000:
            continue
        v = _int_or_none(chr(cp))
        if v is not None:
            digits[cp] = v
    zeros = sorted(cp for cp, v in digits.items() if v == 0)
    for z in zeros:
        if [digits.get(z + i) for i in range(10)] != list(range(10)):
            raise RuntimeError('decimal digits at U+%04X are not a run of ten' % z)
    if len(zeros) * 10 != len(digits):
        raise RuntimeError('decimal digits outside runs of ten')
    if [z for z in zeros if z < 128] != [0x30]:
        raise RuntimeError('ASCII decimal digits are not 0-9')
    spaces = []
    for cp in range(0x110000):
        if 0xD800 <= cp < 0xE000 or cp in digits or cp in (0x2B, 0x2D):
            continue
        c = chr(cp)
        if _int_or_none(c + '7') == 7:
            if _int_or_none('7' + c) != 7 or _int_or_none(c + '-7' + c) != -7:
                raise RuntimeError('int() white space U+%04X is not symmetric' % cp)
            spaces.append(cp)
    if [s for s in spaces if s < 128] != [9, 10, 11, 12, 13, 32]:
        raise RuntimeError('ASCII white space of int() is not \\t\\n\\v\\f\\r and space')
    hexset = set('0123456789abcdef')
    for cp in range(0x110000):
        if 0xD800 <= cp < 0xE000:
            continue
        c = chr(cp)
        low = c.lower()
        if c in '0123456789abcdefABCDEF':
            if low not in hexset or len(low) != 1:
                raise RuntimeError('str.lower of hex digit %r' % c)
        elif set(low) & hexset:
            raise RuntimeError('str.lower maps U+%04X into [0-9a-f]' % cp)
    return {'spaces': [s for s in spaces if s >= 128], 'zeros': [z for z in zeros if z >= 128],
            'max_digits': sys.get_int_max_str_digits()}


_TABLES = None


def tables():
    global _TABLES
    if _TABLES is None:
        _TABLES = extract_tables()
    return _TABLES


def generate():
    t = tables()
    text = ('/- GENERATED by harness/props/C11.py from the running interpreter; do not edit. -/\n'
            'namespace Oslo.Net.Gen\n\n'
            '/-- non-ASCII code points int() skips before and after a literal -/\n'
            'def intSpacesNonAscii : List Nat := [%s]\n'
            '/-- first code point of every non-ASCII run of ten Unicode decimal digits; value = cp - start -/\n'
            'def decZerosNonAscii : List Nat := [%s]\n'
            '/-- sys.get_int_max_str_digits(); 0 = no limit -/\n'
            'def maxStrDigits : Nat := %d\n\n'
            'end Oslo.Net.Gen\n'
            % (', '.join(map(str, t['spaces'])), ', '.join(map(str, t['zeros'])), t['max_digits']))
    common.write_if_changed(os.path.join(common.LEAN, 'OsloModel', 'Generated', 'C11.lean'), text)


# --------------------------------------------------------------------------
# implementation runner

def _netutils():
    from oslo_utils import netutils
    return netutils


def canon(fn, arg):
    """'1' / '0' for a truthy / falsy answer, the exception class name otherwise."""
    try:
        return '1' if fn(arg) else '0'
    except Exception as e:      # noqa - anything at all is an answer of the implementation
        return type(e).__name__


# Pinned public signatures (as on the clean tree; written here as data, never read from the tree under test):
# parameter names, order, defaults.  Every legal call form of them must give the answer the model gives for the
# same logical arguments.
REQUIRED = object()
SIGNATURES = {
    'is_valid_ipv4': [('address', REQUIRED), ('strict', True)],
    'is_valid_ipv6': [('address', REQUIRED)],
    'is_valid_ip': [('address', REQUIRED)],
    'is_valid_cidr': [('address', REQUIRED)],
    'is_valid_ipv6_cidr': [('address', REQUIRED)],
    'is_valid_mac': [('address', REQUIRED)],
    'is_valid_port': [('port', REQUIRED)],
    'is_valid_icmp_type': [('type', REQUIRED)],
    'is_valid_icmp_code': [('code', REQUIRED)],
}
# values exercised for every optional parameter
OPTIONAL_VALUES = {('is_valid_ipv4', 'strict'): [True, False]}
MAIN = object()      # placeholder for the value under test (always the first parameter)


class Form:
    """One way of writing a call: which parameters are positional, which by keyword (and in which order),
    which omitted."""

    def __init__(self, fname, lname, pos, kw):
        self.fname, self.lname, self.pos, self.kw = fname, lname, pos, kw
        self.template = '%s(%s)' % (fname, ', '.join(
            ['{a}' if v is MAIN else repr(v) for v in pos] +
            ['%s=%s' % (k, '{a}' if v is MAIN else repr(v)) for k, v in kw]))

    def label(self, arg):
        return self.template.replace('{a}', repr(arg))

    def call(self, nu, arg):
        """'1' / '0' for a truthy / falsy answer, the exception class name otherwise."""
        try:
            r = getattr(nu, self.fname)(*[arg if v is MAIN else v for v in self.pos],
                                        **{k: (arg if v is MAIN else v) for k, v in self.kw})
            return '1' if r else '0'
        except Exception as e:      # noqa - anything at all is an answer of the implementation
            return type(e).__name__


def logical_name(fname, opts):
    extra = ['%s=%r' % (k, v) for (k, d) in SIGNATURES[fname][1:] for v in [opts[k]] if v is not d]
    return fname + ('[%s]' % ','.join(extra) if extra else '')


def build_forms():
    import itertools
    forms = []
    for fname, params in SIGNATURES.items():
        optional = params[1:]
        for values in itertools.product(*[OPTIONAL_VALUES[(fname, k)] for k, _ in optional]):
            opts = dict(zip([k for k, _ in optional], values))
            lname = logical_name(fname, opts)
            modes_per_param = []
            for k, d in params:
                m = ['pos', 'kw']
                if d is not REQUIRED and opts[k] is d:
                    m.append('omit')
                modes_per_param.append(m)
            for modes in itertools.product(*modes_per_param):
                # positional parameters must form a prefix of the parameter list
                seen_non_pos = False
                ok = True
                for m in modes:
                    if m == 'pos' and seen_non_pos:
                        ok = False
                    if m != 'pos':
                        seen_non_pos = True
                if not ok:
                    continue
                val = {params[0][0]: MAIN, **opts}
                pos = [val[k] for (k, _), m in zip(params, modes) if m == 'pos']
                kws = [(k, val[k]) for (k, _), m in zip(params, modes) if m == 'kw']
                for perm in itertools.permutations(kws):
                    forms.append(Form(fname, lname, pos, list(perm)))
    return forms


FORMS = build_forms()
LNAMES = []
for _f in FORMS:
    if _f.lname not in LNAMES:
        LNAMES.append(_f.lname)
# position of each logical function in the driver's reply to `str` (int() is field 9)
MODEL_FIELD = {f: i for i, f in enumerate(FUNCS)}
MODEL_FIELD['is_valid_ipv4[strict=False]'] = 10
VAL_FORMS = [f for f in FORMS if f.fname in FUNCS[6:]]
VAL_FIELD = {f: i for i, f in enumerate(FUNCS[6:])}
assert set(LNAMES) == set(MODEL_FIELD)


def impl_forms(arg, forms=None):
    nu = _netutils()
    return [f.call(nu, arg) for f in (FORMS if forms is None else forms)]


def impl_str(s):
    """canonical call of every logical function + int(), in the order of the driver's reply"""
    res = {}
    for f, r in zip(FORMS, impl_forms(s)):
        res.setdefault(f.lname, r)
    v = _int_or_none(s)
    out = [res[f] for f in FUNCS] + ['E' if v is None else str(v), res['is_valid_ipv4[strict=False]']]
    return out


def impl_val(v):
    res = {}
    for f, r in zip(VAL_FORMS, impl_forms(v, VAL_FORMS)):
        res.setdefault(f.lname, r)
    return [res[f] for f in FUNCS[6:]]


def encodable(s):
    try:
        s.encode('utf-8')
        return True
    except UnicodeEncodeError:
        return False


# --------------------------------------------------------------------------
# generators (grammar-directed)

HEXL = '0123456789abcdef'
OCTET_EDGE = [-1, 0, 1, 7, 8, 9, 10, 11, 77, 99, 100, 101, 127, 199, 200, 249, 250, 254, 255, 256, 257, 260, 299, 300]
PREFIX_EDGE = [-1, 0, 1, 7, 8, 9, 16, 24, 30, 31, 32, 33, 34, 48, 63, 64, 65, 96, 120, 127, 128, 129]
INT_EDGE = [-2, -1, 0, 1, 2, 79, 80, 253, 254, 255, 256, 257, 1023, 65533, 65534, 65535, 65536, 65537,
            2 ** 31 - 1, 2 ** 31, 2 ** 32, 2 ** 63, 10 ** 20]
SEPARATORS = [':', '-', '.', ' ', '', ';', '_', '::', '\t', '/']


def nonascii_digits(rng, text):
    z = rng.choice(tables()['zeros'])
    return ''.join(chr(z + ord(c) - 48) if c.isascii() and c.isdigit() else c for c in text)


def decorate_int(rng, text):
    """int() decorations (white space, sign, underscore, leading zeros, non-ASCII digits) and near misses."""
    k = rng.randrange(22)
    sp = rng.choice([' ', '\t', '\n', '\r', '\x0b', '\x0c', '\xa0', '　', ' ', '\x85', '\x1c', '\x1f',
                     '​', chr(rng.choice(tables()['spaces']))])
    if k == 0:
        return text + sp
    if k == 1:
        return sp + text
    if k == 2:
        return sp + text + sp + sp
    if k == 3:
        return '+' + text
    if k == 4:
        return '-' + text
    if k == 5:
        return '0' * rng.randrange(1, 4) + text
    if k == 6 and len(text) > 1:
        i = rng.randrange(1, len(text))
        return text[:i] + '_' + text[i:]
    if k == 7:
        return text + '_'
    if k == 8:
        return '_' + text
    if k == 9 and len(text) > 1:
        i = rng.randrange(1, len(text))
        return text[:i] + '__' + text[i:]
    if k == 10:
        return nonascii_digits(rng, text)
    if k == 11:
        return '+' + sp + text
    if k == 12:
        return text + '\n'
    if k == 13:
        return text + '.0'
    if k == 14:
        return '0x' + text
    if k == 15:
        return text + rng.choice(['e1', 'L', 'j', ' 1', '+', '-', '%', '\x00'])
    if k == 16:
        return sp + '+' + nonascii_digits(rng, text) + sp
    if k == 17:
        return '0_' + text
    if k == 18:
        return '+-' + text
    if k == 19:
        return text[:1] + sp + text[1:]
    if k == 20:
        return '-0'
    return text


def g_octet(rng):
    v = rng.choice(OCTET_EDGE) if rng.random() < 0.5 else rng.randrange(0, 301)
    k = rng.random()
    if k < 0.72:
        return str(v)
    if k < 0.78:
        return '0' * rng.randrange(1, 3) + str(abs(v))
    if k < 0.83:
        return ('0x%x' if rng.random() < 0.7 else '0X%X') % abs(v)
    if k < 0.87:
        return '0%o' % abs(v)
    if k < 0.89:
        return ''
    if k < 0.91:
        return '0x'
    if k < 0.93:
        return decorate_int(rng, str(abs(v)))
    if k < 0.95:
        return '%x' % abs(v)
    if k < 0.97:
        return str(v) + rng.choice(['8', '9', 'a', 'x', ' '])
    return str(rng.choice([65535, 65536, 16777215, 16777216, 4294967295, 4294967296, 2 ** 64]))


def valid_quad(rng):
    return '.'.join(str(rng.choice([0, 1, 9, 10, 99, 100, 199, 200, 249, 250, 255, rng.randrange(256)]))
                    for _ in range(4))


def g_quad(rng):
    r = rng.random()
    if r < 0.30:
        return valid_quad(rng), 'quad/valid'
    n = 4 if r < 0.75 else rng.choice([1, 2, 3, 5])
    parts = [g_octet(rng) for _ in range(n)]
    if r > 0.93:
        # large last part (inet_aton 'a.b', 'a.b.c', 'a')
        parts[-1] = str(rng.choice([255, 256, 65535, 65536, 16777215, 16777216, 4294967295, 4294967296]))
    s = '.'.join(parts)
    if rng.random() < 0.06:
        s += rng.choice(['.', ' ', '\n', ' x', '\t1.2.3.4', '\x0b', '\xa0', ':', '%eth0', '/'])
    if rng.random() < 0.03:
        s = rng.choice(['.', ' ', '+', '-']) + s
    return s, 'quad/%dparts' % n


def g_group(rng):
    r = rng.random()
    if r < 0.86:
        g = ''.join(rng.choice(HEXL) for _ in range(rng.choice([1, 1, 2, 3, 4, 4])))
        if rng.random() < 0.2:
            g = g.upper()
        return g
    if r < 0.91:
        return ''.join(rng.choice(HEXL) for _ in range(rng.choice([5, 5, 6])))
    if r < 0.94:
        return '0' * rng.randrange(1, 6)
    if r < 0.96:
        return ''
    if r < 0.98:
        return rng.choice(['g', 'xyz', '-1', '0x1', ' 1', '1 ', '1_0', '１'])
    return 'ffff'


def g_scope(rng):
    n = rng.choice([0, 1, 1, 2, 4, 8, 14, 15, 15, 16, 16, 17])
    alpha = string.ascii_lowercase + string.digits + '.-_' + rng.choice(['', '', '%', '/', ' ', ':', '\xe9中', '\U0001f600'])
    return ''.join(rng.choice(alpha) for _ in range(n))


def g_v6(rng, clean=False):
    """IPv6 text; `clean` keeps to valid addresses (for use inside CIDRs)."""
    mode = rng.choice(['full', 'compress', 'compress', 'v4full', 'v4compress'])
    grp = (lambda: ''.join(rng.choice(HEXL) for _ in range(rng.randrange(1, 5)))) if clean else (lambda: g_group(rng))
    quad = valid_quad(rng) if clean or rng.random() < 0.7 else g_quad(rng)[0]
    tag = 'v6/' + mode
    if mode == 'full':
        n = 8 if clean or rng.random() < 0.6 else rng.randrange(1, 10)
        s = ':'.join(grp() for _ in range(n))
        tag += '/%d' % n
    elif mode == 'compress':
        tot = rng.randrange(0, 8) if clean or rng.random() < 0.7 else rng.randrange(0, 10)
        k = rng.randrange(0, tot + 1)
        s = ':'.join(grp() for _ in range(k)) + '::' + ':'.join(grp() for _ in range(tot - k))
        tag += '/%d+%d' % (k, tot - k)
    elif mode == 'v4full':
        n = 6 if clean or rng.random() < 0.6 else rng.randrange(0, 9)
        s = ':'.join([grp() for _ in range(n)] + [quad])
        tag += '/%d' % n
    else:
        tot = rng.randrange(0, 6) if clean or rng.random() < 0.7 else rng.randrange(0, 9)
        k = rng.randrange(0, tot + 1)
        post = [grp() for _ in range(tot - k)] + [quad]
        s = ':'.join(grp() for _ in range(k)) + '::' + ':'.join(post)
        tag += '/%d+%d' % (k, tot - k)
    if clean:
        return s, tag
    r = rng.random()
    if r < 0.04:
        s = ':' + s
    elif r < 0.08:
        s = s + ':'
    elif r < 0.11:
        i = rng.randrange(len(s) + 1)
        s = s[:i] + '::' + s[i:]
    elif r < 0.13:
        s = s + ':' + valid_quad(rng)
    elif r < 0.15:
        s = valid_quad(rng) + ':' + s
    if rng.random() < 0.3:
        s = s + '%' + g_scope(rng)
        tag += '/scope'
    return s, tag


def mask_text(rng, ver):
    w = 32 if ver == 4 else 128
    k = rng.randrange(0, w + 1)
    kind = rng.choice(['net', 'net', 'host', 'random', 'holes'])
    if kind == 'net':
        v = (2 ** w - 1) ^ (2 ** (w - k) - 1)
    elif kind == 'host':
        v = 2 ** (w - k) - 1
    elif kind == 'random':
        v = rng.getrandbits(w)
    else:
        v = ((2 ** w - 1) ^ (2 ** (w - k) - 1)) ^ (1 << rng.randrange(w))
    a = ipaddress.IPv4Address(v) if ver == 4 else ipaddress.IPv6Address(v)
    return rng.choice([a.compressed, a.exploded]) if ver == 6 else str(a)


def g_prefix(rng, ver):
    r = rng.random()
    v = rng.choice(PREFIX_EDGE) if rng.random() < 0.6 else rng.randrange(-1, 130)
    if r < 0.55:
        return str(v)
    if r < 0.75:
        return decorate_int(rng, str(abs(v)))
    if r < 0.90:
        return mask_text(rng, ver if rng.random() < 0.9 else 10 - ver)
    if r < 0.93:
        return ''
    if r < 0.95:
        return rng.choice(['x', '0x8', '8.0', '1e1', '٣', '８', '²', '①', ' ', '_', '+', '-'])
    return str(v) + '/' + str(rng.choice(PREFIX_EDGE))


def g_cidr(rng):
    ver = rng.choice([4, 6])
    if rng.random() < 0.85:
        addr = valid_quad(rng) if ver == 4 else g_v6(rng, clean=True)[0]
    else:
        addr = g_quad(rng)[0] if ver == 4 else g_v6(rng)[0]
    r = rng.random()
    if r < 0.07:
        return addr, 'cidr/noslash'
    if r < 0.12:
        return addr + '/', 'cidr/emptyprefix'
    if r < 0.16:
        return addr + '//' + g_prefix(rng, ver), 'cidr/doubled'
    if r < 0.20:
        return addr + '/' + g_prefix(rng, ver) + '/' + g_prefix(rng, ver), 'cidr/extra'
    if r < 0.22:
        return '/' + g_prefix(rng, ver), 'cidr/noaddr'
    return addr + '/' + g_prefix(rng, ver), 'cidr/v%d' % ver


def g_mac(rng):
    n = 6 if rng.random() < 0.7 else rng.choice([5, 7])
    groups = []
    for _ in range(n):
        r = rng.random()
        if r < 0.88:
            g = rng.choice(HEXL) + rng.choice(HEXL)
        elif r < 0.92:
            g = ''.join(rng.choice(HEXL) for _ in range(rng.choice([1, 3])))
        elif r < 0.96:
            g = rng.choice(HEXL) + rng.choice('ghxyzGZ ıK０')
        else:
            g = ''
        groups.append(g)
    r = rng.random()
    if r < 0.6:
        s = ':'.join(groups)
    elif r < 0.8:
        s = rng.choice(SEPARATORS).join(groups)
    else:
        s = groups[0]
        for g in groups[1:]:
            s += (':' if rng.random() < 0.8 else rng.choice(SEPARATORS)) + g
    c = rng.random()
    if c < 0.25:
        s = s.upper()
    elif c < 0.35:
        s = ''.join(ch.upper() if rng.random() < 0.5 else ch for ch in s)
    if rng.random() < 0.15:
        s += rng.choice(['\n', ' ', ':', '\x00', 'x', '\r\n', ':0', '\n\n', ' '])
    if rng.random() < 0.04:
        s = rng.choice([' ', '\n', ':']) + s
    return s, 'mac/%d' % n


def g_intstr(rng):
    v = rng.choice(INT_EDGE) if rng.random() < 0.7 else rng.randrange(-10, 70000)
    r = rng.random()
    if r < 0.45:
        return str(v), 'int/plain'
    if r < 0.97:
        return decorate_int(rng, str(abs(v))), 'int/decorated'
    n = rng.choice([4299, 4300, 4301, 5000])
    return rng.choice(['0' * n, '0' * (n - 2) + '80', ' ' + '0' * (n - 1) + '1 ', '0_' * (n // 2) + '0']), 'int/long'


def g_printable(rng):
    r = rng.random()
    if r < 0.4:
        alpha = '0123456789abcdefxABCDEFX.:/% \n_+-'
        return ''.join(rng.choice(alpha) for _ in range(rng.randrange(0, 24))), 'arbitrary/address-alphabet'
    if r < 0.8:
        return ''.join(rng.choice(string.printable) for _ in range(rng.randrange(0, 20))), 'arbitrary/printable'
    pool = [0x20, 0x30, 0x31, 0x3a, 0x2e, 0x2f, 0x25, 0x61, 0x85, 0xa0, 0xe9, 0x130, 0x131, 0x17f, 0x212a, 0x660,
            0x661, 0xff10, 0xff11, 0xff21, 0x1d7ce, 0x2003, 0x3000, 0x200b, 0x1f600, 0x7f, 0x1c, 0]
    return ''.join(chr(rng.choice(pool)) for _ in range(rng.randrange(1, 10))), 'arbitrary/unicode'


def mutate(rng, s):
    if not s:
        return s
    i = rng.randrange(len(s))
    k = rng.randrange(5)
    pool = '0123456789afAFgx.:/% \n\x00_+-\xa0٣'
    if k == 0:
        return s[:i] + s[i + 1:]
    if k == 1:
        return s[:i] + rng.choice(pool) + s[i:]
    if k == 2:
        return s[:i] + rng.choice(pool) + s[i + 1:]
    if k == 3:
        return s[:i] + s[i] + s[i:]
    j = rng.randrange(len(s))
    l = list(s)
    l[i], l[j] = l[j], l[i]
    return ''.join(l)


# --------------------------------------------------------------------------
# Unicode stand-ins: every character that some str transformation (lower, upper, casefold, title, swapcase,
# NFKC, NFKD, or its decimal/digit value) turns into one or more characters of the address alphabet.  Read from
# the running interpreter (unicodedata), never hard-coded: ligatures (U+FB00 'ff'), fullwidth forms, Kelvin sign,
# long s, mathematical alphanumerics, superscripts, circled digits, small/fullwidth ':' '.' '/' '%' ...
# A validator that normalises its argument with a transformation that is not the identity on non-ASCII text
# accepts a spelling in which such a character stands for one or more characters of a valid one.

CONF_ALPHABET = set('0123456789abcdefABCDEFxX:./%+-_ ')
_CONF = None


def confusables():
    """{ASCII expansion (1..4 address characters): sorted list of non-ASCII characters standing for it}"""
    global _CONF
    if _CONF is not None:
        return _CONF
    import unicodedata
    table = {}

    def note(c, f):
        if f and f != c and len(f) <= 4 and all(ch in CONF_ALPHABET for ch in f):
            table.setdefault(f, set()).add(c)
    for cp in range(128, 0x110000):
        if 0xD800 <= cp < 0xE000:
            continue
        c = chr(cp)
        forms = {c.lower(), c.upper(), c.casefold(), c.title(), c.swapcase()}
        nk = unicodedata.normalize('NFKC', c)
        if nk != c:
            forms.update((nk, nk.lower(), nk.casefold(), unicodedata.normalize('NFKD', c)))
        for f in forms:
            note(c, f)
        for fn in (unicodedata.decimal, unicodedata.digit):
            v = fn(c, None)
            if v is not None:
                note(c, str(v))
        v = unicodedata.numeric(c, None)
        if v is not None and v == int(v) and 0 <= v <= 300:
            note(c, str(int(v)))
    _CONF = {k: sorted(v) for k, v in table.items()}
    return _CONF


def confuse(rng, s):
    """Replace one or more substrings of `s` by a Unicode stand-in.  A multi-character stand-in ('ff', '10',
    '1.', ...) is first planted where that keeps the spelling inside the grammar (digit over digit, hex letter
    over hex digit, punctuation over itself) and then substituted."""
    tab = confusables()

    def fits(k, i):
        if i + len(k) > len(s):
            return False
        for kc, sc in zip(k, s[i:]):
            if kc in '0123456789':
                if sc not in '0123456789':
                    return False
            elif kc in 'abcdefABCDEF':
                if sc not in '0123456789abcdefABCDEF':
                    return False
            elif kc != sc:
                return False
        return True
    if rng.random() < 0.5:
        multi = [k for k in tab if len(k) > 1]
        cats = [[k for k in multi if any(c.isalpha() for c in k)],
                [k for k in multi if k.isdigit()],
                [k for k in multi if not k.isalnum()]]
        cats = [[(k, i) for k in cat for i in range(len(s)) if fits(k, i)] for cat in cats]
        cats = [c for c in cats if c]
        if cats:
            k, i = rng.choice(rng.choice(cats))
            s = s[:i] + k + s[i + len(k):]
            if rng.random() < 0.8:
                return s[:i] + rng.choice(tab[k]) + s[i + len(k):]
    occ = [(i, k) for k in tab for i in range(len(s)) if s.startswith(k, i)]
    if not occ:
        return s
    weights = [4 if len(k) > 1 else 1 for _, k in occ]
    n = 1 if rng.random() < 0.6 else rng.randrange(1, 7)
    for _ in range(n):
        i, k = rng.choices(occ, weights)[0]
        if not s.startswith(k, i):
            continue        # an earlier substitution moved or consumed it
        s = s[:i] + rng.choice(tab[k]) + s[i + len(k):]
        if len(k) > 1:
            break           # positions after i have shifted
    return s


def valid_mac(rng):
    s = ':'.join(rng.choice(HEXL) + rng.choice(HEXL) for _ in range(6))
    return s.upper() if rng.random() < 0.3 else s


def g_confusable(rng):
    """A well-formed spelling of one of the kinds with Unicode stand-ins substituted."""
    k = rng.randrange(6)
    if k == 0:
        base = valid_quad(rng)
    elif k == 1:
        base = g_v6(rng, clean=True)[0] + ('%eth0' if rng.random() < 0.2 else '')
    elif k == 2:
        ver = rng.choice([4, 6])
        base = (valid_quad(rng) if ver == 4 else g_v6(rng, clean=True)[0]) + '/' + \
            (str(rng.randrange(0, 33 if ver == 4 else 129)) if rng.random() < 0.7 else mask_text(rng, ver))
    elif k in (3, 4):
        base = valid_mac(rng)
    else:
        base = str(rng.choice(INT_EDGE[2:18]))
    return confuse(rng, base), 'confusable/' + ['quad', 'v6', 'cidr', 'mac', 'mac', 'int'][k]


FIXED = [
    '', ' ', '.', ':', '::', ':::', '/', '%', '::%', '::%a', '1.2.3.4', '0.0.0.0', '255.255.255.255', '256.0.0.0',
    '1.2.3.04', '1.2.3.4 x', '1.2.3.4\n', '1', '1.2', '1.2.3', '0x7f.1', '0x', '08', '4294967295', '4294967296',
    '::1', '::1%eth0', '::1%' + 'a' * 15, '::1%' + 'a' * 16, '::1%%a', '1:2:3:4:5:6:7:8', '1:2:3:4:5:6:7::',
    '::2:3:4:5:6:7:8', '1:2:3:4:5:6:7::8', '::1:2:3:4:5:6:7:8', '1:2:3:4:5:6:1.2.3.4', '::1.2.3.4', '1.2.3.4::',
    '1:2:3:4:5:6:7:1.2.3.4', '::ffff:01.2.3.4', '00000::', '1::2::3', '10.0.0.0/8', '10.0.0.0/8 ', '10.0.0.0/ 8',
    '10.0.0.0/+8', '10.0.0.0/-0', '10.0.0.0/8\n', '10.0.0.0/٣', '10.0.0.0/32', '10.0.0.0/33', '10.0.0.0/',
    '10.0.0.0', '10.0.0.0/8/8', '10.0.0.0//8', '10.0.0.0/255.0.0.0', '10.0.0.0/0.0.0.255', '10.0.0.0/255.0.255.0',
    '::/128', '::/129', '::/8/8', '::/ffff::', '::/::ffff', '::/ff00:1::', '::/255.0.0.0', '1.2.3.4/::',
    'fe80::1%eth0/64', 'aa:bb:cc:dd:ee:ff', 'aa:bb:cc:dd:ee:ff\n', 'AA:BB:CC:DD:EE:FF', 'aa-bb-cc-dd-ee-ff',
    'aa:bb:cc:dd:ee', 'aa:bb:cc:dd:ee:ff:00', '0', '65535', '65536', '-1', '255', '256', ' 80 ', '+80', '8_0',
    '52:54:00:cf:2d:\ufb00', '１.2.3.4', '1.2.3.4／8', '::１', 'ＡＡ:bb:cc:dd:ee:ff', '８０',
    '\x00', '1.2.3.4\x00', '::1\x00', '10.0.0.0/8\x00', '\x001', '1.2.3.4 \x00',
]


def gen_strings(ctx, rng, n):
    """Yield (tag, string, near_miss) triples."""
    for s in FIXED:
        yield 'fixed', s, True
    fams = [g_quad, g_quad, g_v6, g_v6, g_v6, g_cidr, g_cidr, g_cidr, g_mac, g_mac, g_intstr, g_printable,
            g_confusable, g_confusable]
    for _ in range(n):
        f = rng.choice(fams)
        s, tag = f(rng)
        near = f is not g_printable
        r = rng.random()
        if r < 0.12:
            s = mutate(rng, s)
            tag = tag.split('/')[0] + '/mutated'
        elif r < 0.15:
            i = rng.randrange(len(s) + 1)
            s = s[:i] + '\x00' + s[i:]
            tag = tag.split('/')[0] + '/nul'
        yield tag, s, near


def gen_values(rng, n):
    for v in INT_EDGE + [-(2 ** 64), 2 ** 200]:
        yield v
    for _ in range(n):
        yield rng.choice(INT_EDGE) + rng.randrange(-3, 4) if rng.random() < 0.7 else rng.randrange(-100, 70000)


# --------------------------------------------------------------------------
# correspondence: model (Lean driver) vs implementation, all validators on every string

def correspondence(ctx):
    rng = ctx.rng
    n = 25000 if ctx.quick else 500000
    cases = [(t, s, near) for t, s, near in gen_strings(ctx, rng, n) if encodable(s)]
    replies = ctx.driver.ask_many([req('str', common.hexs(s)) for _, s, _ in cases])
    out = []
    for (tag, s, near), rep in zip(cases, replies):
        ctx.evaluations += 1
        ctx.count('corr/' + tag.split('/')[0] + '/' + tag.split('/')[1][:12] if '/' in tag else 'corr/' + tag)
        forms = impl_forms(s)
        model = rep.split(' ')
        v = _int_or_none(s)
        acc = False
        bad = {}
        canonical = {}
        for fm, a in zip(FORMS, forms):
            b = model[MODEL_FIELD[fm.lname]]
            first = fm.lname not in canonical
            canonical.setdefault(fm.lname, a)
            if first and a == '1' and b == '1':
                ctx.count('accepted-by-both/' + fm.lname)
                acc = True
            elif first and a not in ('0', '1'):
                ctx.count('implementation-raised/' + a)
            if a != b:
                bad[fm.label(s)] = '%s (model %s)' % (a, b)
        if ('E' if v is None else str(v)) != model[9]:
            bad['int(%r)' % s] = '%s (model %s)' % (v, model[9])
        ctx.count('corr/call-forms', len(FORMS))
        if acc or near:
            ctx.nontrivial(s)
        if acc:
            ctx.sample({'arg': s, 'implementation': canonical}, 6)
        if bad:
            out.append(Disagreement({'kind': 'str', 'arg': s}, bad, rep))
    # white box: the parsed value (used by the netmask test) against socket.inet_pton
    import socket
    wb = [s for _, s, _ in cases if s and '\x00' not in s][: (3000 if ctx.quick else 40000)]
    replies = ctx.driver.ask_many([req('parse', common.hexs(s)) for s in wb])
    for s, rep in zip(wb, replies):
        ctx.evaluations += 1
        ctx.count('corr/parsed-value')
        try:
            a = ','.join(str(x) for x in socket.inet_pton(socket.AF_INET, s))
        except OSError:
            a = 'E'
        try:
            p = socket.inet_pton(socket.AF_INET6, s)
            b = ','.join(str(p[i] * 256 + p[i + 1]) for i in range(0, 16, 2))
        except OSError:
            b = 'E'
        if a + ' ' + b != rep:
            out.append(Disagreement({'kind': 'parse', 'arg': s}, a + ' ' + b, rep))
    vals = list(gen_values(rng, 300 if ctx.quick else 5000))
    replies = ctx.driver.ask_many([req('int', v) for v in vals] + [req('none')])
    for v, rep in zip(vals + [None], replies):
        ctx.evaluations += 1
        ctx.count('corr/int-or-None')
        model = rep.split(' ')
        bad = {}
        res = impl_forms(v, VAL_FORMS)
        for fm, a in zip(VAL_FORMS, res):
            if a != model[VAL_FIELD[fm.lname]]:
                bad[fm.label(v)] = '%s (model %s)' % (a, model[VAL_FIELD[fm.lname]])
        if any(x == '1' for x in res):
            ctx.nontrivial(('int', v))
        if bad:
            out.append(Disagreement({'kind': 'int' if v is not None else 'none', 'arg': v}, bad, rep))
    return out


# --------------------------------------------------------------------------
# failing-input search: the property stated directly, implementation only.
# Expected answers come from specifications written here (regular expressions and token rules, not the
# model) and from Python's ipaddress as a third voice where it defines the same notion.

OCTET = r'(?:0|[1-9][0-9]?|1[0-9][0-9]|2[0-4][0-9]|25[0-5])'
RE_QUAD = re.compile(r'%s(?:\.%s){3}\Z' % (OCTET, OCTET))
RE_GROUP = re.compile(r'[0-9A-Fa-f]{1,4}\Z')
CNUM = r'(?:0[xX][0-9a-fA-F]+|0[0-7]*|[1-9][0-9]*)'
RE_ATON = re.compile(r'(%s(?:\.%s){0,3})\Z' % (CNUM, CNUM))
RE_ATON_PREFIX = re.compile(r'(%s(?:\.%s){0,3})[ \t\n\x0b\x0c\r]' % (CNUM, CNUM))
RE_DEC = re.compile(r'[0-9]+\Z')


def spec_quad(s):
    return RE_QUAD.match(s) is not None


def spec_v6addr(a):
    """RFC 4291 text forms: 8 groups of 1-4 hex digits; one '::' for one or more zero groups;
    a dotted quad may stand for the last two groups (only at the very end)."""
    def groups(toks, allow_v4):
        n = 0
        for i, t in enumerate(toks):
            if allow_v4 and i == len(toks) - 1 and '.' in t:
                if not spec_quad(t):
                    return None
                n += 2
            elif RE_GROUP.match(t):
                n += 1
            else:
                return None
        return n
    if '::' in a:
        left, right = a.split('::', 1)
        nl = groups(left.split(':'), False) if left else 0
        nr = groups(right.split(':'), True) if right else 0
        return nl is not None and nr is not None and nl + nr <= 7
    return groups(a.split(':'), True) == 8


def spec_ipv6(s):
    if '%' in s:
        a, sc = s.rsplit('%', 1)
        return 1 <= len(sc) <= 15 and spec_v6addr(a)
    return spec_v6addr(s)


def c_numeral(t):
    return int(t, 16) if t[:2] in ('0x', '0X') else int(t, 8) if t[0] == '0' and len(t) > 1 else int(t)


def aton_form_ok(t):
    parts = [c_numeral(p) for p in t.split('.')]
    return all(p <= 255 for p in parts[:-1]) and parts[-1] < 256 ** (5 - len(parts))


def spec_aton(s):
    m = RE_ATON.match(s)
    return m is not None and aton_form_ok(s)


def spec_mask(p, ver):
    if ver == 4:
        if not spec_quad(p):
            return False
        v = int(ipaddress.IPv4Address(p))
    else:
        if not spec_v6addr(p):
            return False
        v = int(ipaddress.IPv6Address(p))
    bits = format(v, '0%db' % (32 if ver == 4 else 128))
    return re.fullmatch('1*0*', bits) is not None or re.fullmatch('0*1*', bits) is not None


def spec_prefix(p, ver):
    if RE_DEC.match(p):
        md = sys.get_int_max_str_digits()
        return (md == 0 or len(p) <= md) and int(p) <= (32 if ver == 4 else 128)
    return spec_mask(p, ver)


def spec_network(s, ver):
    a, _, p = s.partition('/')
    ok = spec_quad(a) if ver == 4 else spec_v6addr(a)
    return ok and spec_prefix(p, ver)


def spec_cidr(s):
    return s.count('/') == 1 and (spec_network(s, 4) or spec_network(s, 6))


def spec_cidr6(s):
    if '/' not in s:
        return spec_v6addr(s)
    return s.count('/') == 1 and spec_network(s, 6)


def spec_mac(s):
    return (len(s) == 17 and all(s[i] in '0123456789abcdefABCDEF' for i in range(17) if i % 3 != 2)
            and all(s[i] == ':' for i in (2, 5, 8, 11, 14)))


def spec_range(v, lo, hi):
    if v is None:
        return False
    if isinstance(v, str):
        v = _int_or_none(v)
        if v is None:
            return False
    return lo <= v <= hi


def third_voice(s):
    """ipaddress' answers where it defines the same notion, as {function: bool}."""
    out = {}

    def ok(f, x):
        try:
            f(x)
            return True
        except ValueError:
            return False
    if not encodable(s):
        return out
    out['is_valid_ipv4'] = ok(ipaddress.IPv4Address, s)
    if '%' not in s:
        out['is_valid_ipv6'] = ok(ipaddress.IPv6Address, s)
        a, sl, p = s.partition('/')
        if sl and RE_DEC.match(p):
            out['is_valid_cidr'] = ok(ipaddress.ip_interface, s)
            out['is_valid_ipv6_cidr'] = ok(ipaddress.IPv6Interface, s)
        elif not sl:
            out['is_valid_ipv6_cidr'] = ok(ipaddress.IPv6Address, s)
    return out


def expected_str(s):
    return {
        'is_valid_ipv4': spec_quad(s),
        'is_valid_ipv6': spec_ipv6(s),
        'is_valid_ip': spec_aton(s) or spec_ipv6(s),
        'is_valid_cidr': spec_cidr(s),
        'is_valid_ipv6_cidr': spec_cidr6(s),
        'is_valid_mac': spec_mac(s),
        'is_valid_port': spec_range(s, 0, 65535),
        'is_valid_icmp_type': spec_range(s, 0, 255),
        'is_valid_icmp_code': spec_range(s, 0, 255),
        # recorded interpretation: the non-strict form is the inet_aton numeric form, nothing after
        'is_valid_ipv4[strict=False]': spec_aton(s),
    }


def oracle_str(s):
    """List of (logical function, kind, text, form) for every way the property fails on this string: every call
    form of the pinned signatures must give the answer the grammar gives for the same logical arguments.  One
    entry per (function, kind): the first call form that shows it."""
    nu = _netutils()
    exp = expected_str(s)
    voice = third_voice(s)
    fails, seen = [], set()
    for fm in FORMS:
        f = fm.lname
        got = fm.call(nu, s)
        if got not in ('0', '1'):
            kind, what = 'raised', '%s raised %s' % (fm.label(s), got)
        else:
            g = got == '1'
            if g != exp[f]:
                kind = 'accepts-malformed' if g else 'rejects-well-formed'
                what = '%s is %s, the grammar says %s' % (fm.label(s), g, exp[f])
            elif f in voice and voice[f] != g:
                kind, what = 'differs-from-ipaddress', '%s is %s, ipaddress says %s' % (fm.label(s), g, voice[f])
            else:
                continue
        if (f, kind) not in seen:
            seen.add((f, kind))
            fails.append((f, kind, what, fm.template))
    return fails


RANGES = {'is_valid_port': (0, 65535), 'is_valid_icmp_type': (0, 255), 'is_valid_icmp_code': (0, 255)}


def oracle_val(v):
    nu = _netutils()
    fails, seen = [], set()
    for fm in VAL_FORMS:
        f = fm.lname
        lo, hi = RANGES[f]
        got = fm.call(nu, v)
        want = True if (v is None and f == 'is_valid_icmp_code') else spec_range(v, lo, hi)
        if got not in ('0', '1'):
            kind, what = 'raised', '%s raised %s' % (fm.label(v), got)
        elif (got == '1') != want:
            kind, what = 'range', '%s is %s, expected %s' % (fm.label(v), got == '1', want)
        else:
            continue
        if (f, kind) not in seen:
            seen.add((f, kind))
            fails.append((f, kind, what, fm.template))
    return fails


def in_n5_class(f, s):
    """exactly one '/', address part valid, text after it accepted by int() in range but not [0-9]+"""
    if f not in ('is_valid_cidr', 'is_valid_ipv6_cidr') or s.count('/') != 1:
        return False
    a, _, p = s.partition('/')
    v = _int_or_none(p)
    if v is None or RE_DEC.match(p):
        return False
    if spec_v6addr(a):
        return 0 <= v <= 128
    return f == 'is_valid_cidr' and spec_quad(a) and 0 <= v <= 32


def in_aton_trailing_class(f, s):
    """inet_aton numeric form, then an ASCII white-space character, then anything"""
    if f not in ('is_valid_ip', 'is_valid_ipv4[strict=False]') or ':' in s or '\x00' in s:
        return False
    m = RE_ATON_PREFIX.match(s)
    return m is not None and aton_form_ok(m.group(1))


def known_class(f, kind, s):
    if kind != 'accepts-malformed' or not isinstance(s, str):
        return None
    if in_n5_class(f, s):
        return N5
    if in_aton_trailing_class(f, s):
        return ATON_TRAIL
    return None


def shrink_str(s, f, kind, form):
    def still(chars):
        t = ''.join(chars)
        return any(ff == f and kk == kind and fo == form and known_class(ff, kk, t) == known_class(f, kind, s)
                   for ff, kk, _, fo in oracle_str(t))
    if len(s) < 2:
        return s
    return ''.join(common.shrink_list(list(s), still, max_steps=300))


def search(ctx, seeds, full=False):
    rng = ctx.rng
    fails, per_kind = [], {}

    def note(case, f, kind, what, klass):
        key = (f, kind, klass)
        per_kind[key] = per_kind.get(key, 0) + 1
        if per_kind[key] > (1 if klass else 2) or len(fails) >= 12:
            return
        fails.append(Failure(case, {'kind': '%s:%s' % (f, kind) + (':' + klass if klass else ''), 'what': what,
                                    'function': f}, klass))

    def try_str(s):
        ctx.evaluations += 1
        for f, kind, what, form in oracle_str(s):
            klass = known_class(f, kind, s)
            ctx.count('search/failing/%s:%s' % (f, kind) + (':known' if klass else ''))
            if per_kind.get((f, kind, klass), 0) >= (1 if klass else 2):
                per_kind[(f, kind, klass)] += 1
                continue
            small = shrink_str(s, f, kind, form)
            w2 = [w for ff, kk, w, fo in oracle_str(small) if ff == f and kk == kind and fo == form]
            note({'kind': 'str', 'arg': small, 'function': f, 'form': form.replace('{a}', repr(small))},
                 f, kind, w2[0] if w2 else what, klass)

    def try_val(v):
        ctx.evaluations += 1
        for f, kind, what, form in oracle_val(v):
            note({'kind': 'int' if v is not None else 'none', 'arg': v, 'function': f,
                  'form': form.replace('{a}', repr(v))}, f, kind, what, None)

    for sd in seeds[:300]:
        if sd.get('kind') in ('str', 'parse'):
            try_str(sd['arg'])
        elif sd.get('kind') in ('int', 'none'):
            try_val(sd['arg'])
    n = (60000 if full else 10000) if ctx.quick else (600000 if full else 150000)
    for tag, s, _ in gen_strings(ctx, rng, n):
        ctx.count('search/' + tag.split('/')[0])
        try_str(s)
    # outside the model's domain: lone surrogates must still be answered, not raised
    for _ in range(200 if ctx.quick else 3000):
        s, _ = rng.choice([g_quad, g_v6, g_cidr, g_mac, g_intstr])(rng)
        i = rng.randrange(len(s) + 1)
        ctx.count('search/surrogate')
        try_str(s[:i] + chr(rng.randrange(0xD800, 0xE000)) + s[i:])
    for v in list(gen_values(rng, 500 if ctx.quick else 5000)) + [None]:
        ctx.count('search/int-or-None')
        try_val(v)
    return fails


# --------------------------------------------------------------------------
# known findings

def classify(ctx, failure, listed):
    ids = {f['id'] for f in listed}
    case = failure.case
    kind = failure.detail.get('kind', '') if isinstance(failure.detail, dict) else ''
    parts = kind.split(':')
    if case.get('kind') != 'str' or len(parts) < 2:
        return None
    kid = known_class(parts[0], parts[1], case['arg'])
    if kid is None or kid not in ids:
        return None
    # the model must reproduce it (the model follows the code as it is)
    if ctx.driver is not None and encodable(case['arg']):
        rep = ctx.driver.ask(req('str', common.hexs(case['arg']))).split(' ')
        if rep[MODEL_FIELD[parts[0]]] != '1':
            return None
    return kid


def witness_reproduces(ctx, finding):
    w = finding.get('witness', {})
    fn = getattr(_netutils(), w['fn'])
    return canon(fn, w['arg']) == '1' and known_class(w['fn'], 'accepts-malformed', w['arg']) == finding['id']


# --------------------------------------------------------------------------

def replay(ctx, payload):
    case = payload.get('failure', {}).get('case') or payload.get('case')
    if not case:
        print('nothing to replay: this file names the obligation that no longer checks:')
        print(payload.get('no_longer_checks'))
        return 0
    arg = case['arg']
    FIELDS = FUNCS + ['int()', 'is_valid_ipv4[strict=False]']
    if case['kind'] in ('str', 'parse'):
        print('argument      : %r' % (arg,))
        if case.get('form'):
            print('call form     : %s' % case['form'])
        print('implementation, every call form of the pinned signatures:')
        for fm, r in zip(FORMS, impl_forms(arg)):
            print('    %-60s -> %s' % (fm.label(arg), r))
        if encodable(arg):
            print('model         :', dict(zip(FIELDS, ctx.driver.ask(req('str', common.hexs(arg))).split(' '))))
        fails = oracle_str(arg)
        print('grammar oracle:', expected_str(arg))
        print('ipaddress     :', third_voice(arg))
    else:
        v = None if case['kind'] == 'none' else arg
        print('argument      : %r' % (v,))
        if case.get('form'):
            print('call form     : %s' % case['form'])
        print('implementation, every call form of the pinned signatures:')
        for fm, r in zip(VAL_FORMS, impl_forms(v, VAL_FORMS)):
            print('    %-60s -> %s' % (fm.label(v), r))
        print('model         :', dict(zip(FUNCS[6:], ctx.driver.ask(req('none') if v is None else req('int', v)).split(' '))))
        fails = oracle_val(v)
    new = [x for x in fails if known_class(x[0], x[1], arg) is None]
    for x in fails:
        print('property oracle: %s%s' % (x[2], '' if x in new else '   [known finding %s]' % known_class(x[0], x[1], arg)))
    if not fails:
        print('property oracle: holds on this input')
    return 1 if new else 0


LEVEL_TEXT = ('Machine-checked proof (Lean 4) over a hand-written model of the netutils validators and of the parsers '
              'underneath them (glibc inet_pton/inet_aton, netaddr.IPNetwork, CPython int()). Full strength, for every '
              'text: is_valid_ipv4 accepts exactly the canonical dotted quads (iff); is_valid_mac accepts exactly six '
              'hex pairs joined by ":" (iff); port / ICMP type / ICMP code iff int() reads a number in range (str, int, '
              'None); is_valid_ipv6 accepts every full, "::"-compressed and IPv4-suffixed rendering of every 128-bit '
              'value and parses it back to the same groups, rejects wrong group counts, any five-hex-digit group, any '
              'second "::", scope ids of length 0 or > 15 (scope iff); is_valid_cidr / is_valid_ipv6_cidr iff one "/", '
              'valid address part and an int()-in-range or mask prefix, with no-slash / empty-prefix / second-slash '
              'rejection; is_valid_ip accepts every strict IPv4 and every IPv6 text. Partial (named _partial): the CIDR '
              'theorems over the strict prefix grammar [0-9]+ exclude the known-finding class N5 (prefix text accepted by '
              'int() only) and assume the 4300-digit int limit. Not proved (correspondence and search only): the converse '
              'grammar characterisation of is_valid_ipv6, the inet_aton branch of is_valid_ip beyond canonical quads, and '
              '"only contiguous masks pass". The model is tied to the code by a grammar-directed differential '
              'correspondence on every run; "never raises" is checked there and by the implementation-only search with a '
              'grammar oracle and ipaddress as third voice.')
LEVEL_NOTE = ('Trusted: Lean kernel; the hand model and the correspondence harness; the interpreter tables read by the '
              'translator. is_valid_ip follows inet_aton forms by recorded interpretation.')
TECHNIQUE = 'Lean 4 theorems over total parsers + model/implementation correspondence + grammar oracle search'
DESIGN_REF = 'DESIGN.md section 5, C11'
