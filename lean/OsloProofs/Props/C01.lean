/-
C01 — the inspection verdict depends on the bytes only, never on the chunking;
whatever is retained for a region is exactly the stream's bytes at its offsets.

Part 1 (this file): the capture engine, for every offset, length, stream and
chunking (empty chunks included).  Part 2: `C01Static.lean`-style theorems for
whole inspectors live further down.
-/
import OsloModel.Inspector
import OsloProofs.Lemmas.Capture
namespace Oslo.Insp

/-- a freshly created plain region -/
def Region.fresh (rid off len : Nat) (ml : Option Nat) : Region :=
  { rid := rid, offset := off, length := len, minLength := ml, data := [], isEnd := false, endDone := false }

/-- a freshly created end-capture region (`EndCaptureRegion(n)`) -/
def Region.freshEnd (rid n : Nat) : Region :=
  { rid := rid, offset := n, length := n, minLength := none, data := [], isEnd := true, endDone := false }

theorem lemma_fresh_inv (rid off len : Nat) (ml : Option Nat) :
    PlainInv (Region.fresh rid off len ml) [] := by
  simp [PlainInv, Region.fresh, sliceOf]

theorem lemma_region_ext (a b : Region) (h1 : a.rid = b.rid) (h2 : a.offset = b.offset)
    (h3 : a.length = b.length) (h4 : a.minLength = b.minLength) (h5 : a.data = b.data)
    (h6 : a.isEnd = b.isEnd) (h7 : a.endDone = b.endDone) : a = b := by
  cases a; cases b; simp_all

/-- **capture_static** — a region without `min_length`, present from the first chunk and fed any
    chunking of the stream (empty chunks included) under the skip-when-complete rule, holds exactly
    `stream[offset : offset+length]`; nothing else about it changes. -/
theorem capture_static (rid off len : Nat) (chunks : List Bytes) :
    (Region.fresh rid off len none).feed 0 chunks =
      { Region.fresh rid off len none with data := sliceOf chunks.flatten off len } := by
  have h := lemma_plain_feed chunks (Region.fresh rid off len none) [] rfl (lemma_fresh_inv rid off len none)
  simp only [List.length_nil, List.nil_append] at h
  obtain ⟨⟨hp, hc⟩, e1, e2, e3, e4, e5, e6⟩ := h
  generalize (Region.fresh rid off len none).feed 0 chunks = r' at *
  simp only [Region.fresh] at e1 e2 e3 e4 e5 e6
  apply lemma_region_ext <;> simp only [Region.fresh, e1, e2, e3, e4, e5, e6]
  rw [e2, e3] at hp hc
  by_cases hcomp : r'.complete = false
  · exact hc hcomp
  · simp only [Region.complete, e4, e5, e3, Bool.false_eq_true, if_false, decide_eq_false_iff_not,
      Decidable.not_not] at hcomp
    apply lemma_prefix_eq_of_length hp
    rw [lemma_sliceOf_length]; omega

/-- it is complete exactly when the stream reaches the end of the region -/
theorem capture_static_complete (rid off len : Nat) (chunks : List Bytes) :
    ((Region.fresh rid off len none).feed 0 chunks).complete = decide (len ≤ chunks.flatten.length - off) := by
  rw [capture_static]
  simp only [Region.complete, Region.fresh, Bool.false_eq_true, if_false, lemma_sliceOf_length]
  by_cases h : len ≤ chunks.flatten.length - off <;> simp <;> omega

/-- **capture_minlen** — with `min_length = m` the retained data is a prefix of the stream slice,
    the region is complete exactly when `m` bytes of the slice exist in the stream, and once
    complete its first `m` bytes do not depend on the chunking. -/
theorem capture_minlen (rid off len m : Nat) (chunks : List Bytes) :
    let r := (Region.fresh rid off len (some m)).feed 0 chunks
    r.data <+: sliceOf chunks.flatten off len ∧
    (r.complete = decide (m ≤ (sliceOf chunks.flatten off len).length)) ∧
    (r.complete = true → r.data.take m = (sliceOf chunks.flatten off len).take m) ∧
    r.offset = off ∧ r.length = len := by
  have h := lemma_plain_feed chunks (Region.fresh rid off len (some m)) [] rfl (lemma_fresh_inv rid off len (some m))
  simp only [List.length_nil, List.nil_append] at h
  obtain ⟨⟨hp, hc⟩, e1, e2, e3, e4, e5, e6⟩ := h
  generalize (Region.fresh rid off len (some m)).feed 0 chunks = r' at *
  simp only [Region.fresh] at e1 e2 e3 e4 e5 e6
  rw [e2, e3] at hp hc
  have hlen : r'.data.length ≤ (sliceOf chunks.flatten off len).length := List.IsPrefix.length_le hp
  have hcompl : r'.complete = decide (m ≤ r'.data.length) := by
    simp only [Region.complete, e4, e5, Bool.false_eq_true, if_false]
  refine ⟨hp, ?_, ?_, e2, e3⟩
  · by_cases hcomp : r'.complete = false
    · rw [← hc hcomp]; exact hcompl
    · simp only [Bool.not_eq_false] at hcomp
      rw [hcomp]
      rw [hcompl] at hcomp
      simp only [decide_eq_true_eq] at hcomp
      simp; omega
  · intro hcomp
    rw [hcompl] at hcomp
    simp only [decide_eq_true_eq] at hcomp
    obtain ⟨t, ht⟩ := hp
    rw [← ht, List.take_append_of_le_length hcomp]

/-- **endcapture_suffix** — an `EndCaptureRegion(n)` (n > 0) present from the start and fed any
    non-empty chunk list holds the last `min n |stream|` bytes, reports the offset where they start,
    and is complete exactly when `finish()` was called and the stream has at least `n` bytes. -/
theorem endcapture_suffix (rid n : Nat) (hn : 0 < n) (chunks : List Bytes) (hne : chunks ≠ []) :
    let r := ((Region.freshEnd rid n).feed 0 chunks)
    r.data = lastN n chunks.flatten ∧
    r.data.length = min n chunks.flatten.length ∧
    r.offset = chunks.flatten.length - r.data.length ∧
    r.complete = false ∧
    r.finish.complete = decide (n ≤ chunks.flatten.length) := by
  have h := lemma_end_feed chunks (Region.freshEnd rid n) [] rfl (by simp [Region.freshEnd, lastN])
  simp only [List.length_nil, List.nil_append] at h
  obtain ⟨hd, hl, he, hdone, hml, _, hoff⟩ := h
  generalize (Region.freshEnd rid n).feed 0 chunks = r' at *
  simp only [Region.freshEnd] at hd hl he hdone hml
  have hdl : r'.data.length = min n chunks.flatten.length := by
    rw [hd]; exact lemma_lastN_length n hn _
  refine ⟨hd, hdl, hoff hne, ?_, ?_⟩
  · simp [Region.complete, he, hdone]
  · simp only [Region.finish, he, if_true, Region.complete, hml, hl, hdl, Bool.and_true]
    by_cases h : n ≤ chunks.flatten.length <;> simp <;> omega

/-- what an end-capture region retains is the stream's bytes at the offset it reports -/
theorem endcapture_is_stream_slice (rid n : Nat) (hn : 0 < n) (chunks : List Bytes) (hne : chunks ≠ []) :
    let r := ((Region.freshEnd rid n).feed 0 chunks)
    r.data = sliceOf chunks.flatten r.offset r.data.length := by
  obtain ⟨hd, hl, ho, _, _⟩ := endcapture_suffix rid n hn chunks hne
  simp only at hd hl ho ⊢
  generalize (Region.freshEnd rid n).feed 0 chunks = r' at *
  rw [ho, hl, hd]
  simp only [lastN, sliceOf]
  split
  · omega
  · generalize chunks.flatten = s
    by_cases h : n ≤ s.length
    · have e1 : min n s.length = n := by omega
      have e2 : s.length - n + n = s.length := by omega
      rw [e1]
      have : (s.drop (s.length - n)).length = n := by simp; omega
      exact (List.take_of_length_le (by omega)).symm
    · have e1 : min n s.length = s.length := by omega
      have e2 : s.length - n = 0 := by omega
      rw [e1, e2]; simp

/-- an empty chunk never changes a plain region -/
theorem capture_empty_chunk_noop (r : Region) (pos : Nat) (h : r.isEnd = false) (hd : r.data.length ≤ r.length) :
    r.capture [] pos = r := by
  obtain ⟨rid, off, len, ml, data, isEnd, endDone⟩ := r
  simp only at h hd
  subst h
  simp only [Region.capture, Bool.false_eq_true, if_false, List.length_nil, Nat.sub_zero, List.drop_nil,
    List.append_nil]
  split
  · congr 1; exact List.take_of_length_le hd
  · rfl

/-! non-vacuity: a concrete stream, three chunkings, the same retained bytes -/
example :
    let s : Bytes := [1, 2, 3, 4, 5, 6, 7, 8, 9]
    ((Region.fresh 0 2 4 none).feed 0 [s]).data = [3, 4, 5, 6] ∧
    ((Region.fresh 0 2 4 none).feed 0 [[1], [], [2, 3, 4], [5, 6, 7, 8], [], [9]]).data = [3, 4, 5, 6] ∧
    ((Region.freshEnd 0 3).feed 0 [[1, 2], [3, 4, 5, 6, 7], [], [8, 9]]).data = [7, 8, 9] := by
  decide

end Oslo.Insp
