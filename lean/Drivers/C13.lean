import OsloModel.Proto
import OsloModel.StopWatch
open Oslo Oslo.StopWatch Oslo.Proto

def parseOp (s : String) : Option Op :=
  match s.splitOn ":" with
  | ["start"] => some .start | ["stop"] => some .stop | ["resume"] => some .resume
  | ["restart"] => some .restart | ["split"] => some .split
  | ["expired"] => some .expired | ["has_started"] => some .hasStarted
  | ["has_stopped"] => some .hasStopped | ["splits"] => some .splits
  | ["enter"] => some .enter | ["exit"] => some .exit
  | ["elapsed", m] => (optInt m).map .elapsed
  | ["leftover", "0"] => some (.leftover false)
  | ["leftover", "1"] => some (.leftover true)
  | _ => none

def showSplit (s : Split) : String := s!"{s.elapsed}:{s.length}"

def showOut : Out → String
  | .self => "self" | .num v => s!"num:{v}" | .noneVal => "none"
  | .bool b => if b then "bool:1" else "bool:0"
  | .split s => s!"split:{showSplit s}"
  | .splits l => "splits:" ++ String.intercalate "|" (l.map showSplit)
  | .runtimeError => "RuntimeError" | .typeError => "TypeError"

def showSt : St → String
  | .fresh => "None" | .started => "STARTED" | .stopped => "STOPPED"

def showWatch (w : Watch) : String :=
  s!"state={showSt w.state} started={showOptInt w.startedAt} stopped={showOptInt w.stoppedAt} splits={String.intercalate "|" (w.splits.map showSplit)} reads={w.reads}"

def parseList {α} (f : String → Option α) (s : String) : Option (List α) :=
  if s = "-" then some [] else (s.splitOn ",").mapM f

def handle : List String → String
  | ["run", d, clk, ops] =>
    match optInt d, parseList String.toInt? clk, parseList parseOp ops with
    | some d, some clk, some ops =>
      let c : Nat → Int := fun i => clk.getD i 0
      let (w, outs) := run c (init d) ops
      String.intercalate ";" (outs.map showOut) ++ "\t" ++ showWatch w
    | _, _, _ => "bad-request"
  | _ => "bad-request"

def main : IO Unit := serve handle
