/-
Helper lemmas for C17 (version helpers).  Nothing here is a property obligation.
-/
import OsloModel.Version
namespace Oslo.Version

deriving instance DecidableEq for Except

/-! ### facts read off the generated tables (`decide` over the complete tables) -/

theorem lemma_digitVal_digitChar : ∀ d, d < 10 → digitVal (digitChar d) = some d := by decide
theorem lemma_isDigit_digitChar : ∀ d, d < 10 → isDigit (digitChar d) = true := by decide
theorem lemma_intSpace_digitChar : ∀ d, d < 10 → isIntSpace (digitChar d) = false := by decide
theorem lemma_digitChar_ne : ∀ d, d < 10 → digitChar d ≠ '.' ∧ digitChar d ≠ '+' ∧ digitChar d ≠ '-' ∧
    digitChar d ≠ '_' ∧ digitChar d ≠ '\n' := by decide
theorem lemma_not_digit :
    isDigit '.' = false ∧ isDigit '\n' = false ∧ isDigit '_' = false ∧ isDigit '+' = false ∧
    isDigit '-' = false ∧ isDigit 'a' = false ∧ isDigit 'b' = false ∧ isDigit 'c' = false ∧
    isDigit 'h' = false ∧ isDigit 't' = false := by decide
theorem lemma_limit : Gen.intMaxStrDigits = 0 ∨ 1000 ≤ Gen.intMaxStrDigits := by decide

/-! ### lists -/

theorem lemma_dropWhile_none {α} (p : α → Bool) (l : List α) (h : ∀ c ∈ l, p c = false) :
    l.dropWhile p = l := by
  cases l with
  | nil => rfl
  | cons a t => simp [List.dropWhile, h a (by simp)]

theorem lemma_mem_dropWhile {α} (p : α → Bool) (l : List α) (c : α) (hc : c ∈ l) (hp : p c = false) :
    c ∈ l.dropWhile p := by
  induction l with
  | nil => cases hc
  | cons a t ih =>
    by_cases ha : p a = true
    · rw [List.dropWhile_cons_of_pos ha]
      rcases List.mem_cons.mp hc with rfl | h
      · simp [hp] at ha
      · exact ih h
    · rw [List.dropWhile_cons_of_neg ha]; exact hc

/-- a run of `p` followed by something that does not start with `p` -/
theorem lemma_takeWhile_run {α} (p : α → Bool) (a b : List α) (ha : ∀ c ∈ a, p c = true)
    (hb : ∀ c ∈ b.head?, p c = false) : (a ++ b).takeWhile p = a ∧ (a ++ b).dropWhile p = b := by
  rw [List.takeWhile_append_of_pos ha, List.dropWhile_append_of_pos ha]
  cases b with
  | nil => simp
  | cons x t =>
    have : p x = false := hb x (by simp)
    simp [List.takeWhile, List.dropWhile, this]

/-! ### splitOn / join -/

theorem lemma_splitOn_ne_nil (sep : Char) (s : List Char) : splitOn sep s ≠ [] := by
  induction s with
  | nil => simp [splitOn]
  | cons c t ih =>
    unfold splitOn
    split
    · simp
    · split <;> simp

theorem lemma_splitOn_nosep (sep : Char) (p : List Char) (h : sep ∉ p) : splitOn sep p = [p] := by
  induction p with
  | nil => simp [splitOn]
  | cons c t ih =>
    have hc : c ≠ sep := by intro e; exact h (by simp [e])
    have ht : sep ∉ t := by intro e; exact h (by simp [e])
    simp [splitOn, hc, ih ht]

theorem lemma_splitOn_append (sep : Char) (p rest : List Char) (h : sep ∉ p) :
    splitOn sep (p ++ sep :: rest) = p :: splitOn sep rest := by
  induction p with
  | nil => simp [splitOn]
  | cons c t ih =>
    have hc : c ≠ sep := by intro e; exact h (by simp [e])
    have ht : sep ∉ t := by intro e; exact h (by simp [e])
    simp [splitOn, hc, ih ht]

theorem lemma_splitOn_join (sep : Char) (parts : List (List Char)) (hne : parts ≠ [])
    (h : ∀ p ∈ parts, sep ∉ p) : splitOn sep (join sep parts) = parts := by
  induction parts with
  | nil => exact absurd rfl hne
  | cons p t ih =>
    cases t with
    | nil => simpa [join] using lemma_splitOn_nosep sep p (h p (by simp))
    | cons q rest =>
      have := ih (by simp) (fun x hx => h x (by simp [hx]))
      simp only [join]
      rw [lemma_splitOn_append sep p _ (h p (by simp)), this]

/-! ### natRepr -/

theorem lemma_natRepr_chars (n : Nat) : ∀ c ∈ natRepr n, ∃ d, d < 10 ∧ c = digitChar d := by
  induction n using Nat.strongRecOn with
  | _ n ih =>
    unfold natRepr
    split
    · intro c hc; simp at hc; exact ⟨n, by omega, hc⟩
    · intro c hc
      simp only [List.mem_append, List.mem_singleton] at hc
      rcases hc with hc | hc
      · exact ih (n / 10) (by omega) c hc
      · exact ⟨n % 10, by omega, hc⟩

theorem lemma_natRepr_ne_nil (n : Nat) : natRepr n ≠ [] := by
  unfold natRepr; split <;> simp

theorem lemma_natRepr_length (n : Nat) : (natRepr n).length ≤ n + 1 := by
  induction n using Nat.strongRecOn with
  | _ n ih =>
    unfold natRepr
    split
    · simp
    · have := ih (n / 10) (by omega)
      simp only [List.length_append, List.length_singleton]; omega

theorem lemma_natRepr_isDigit (n : Nat) : ∀ c ∈ natRepr n, isDigit c = true := by
  intro c hc
  obtain ⟨d, hd, rfl⟩ := lemma_natRepr_chars n c hc
  exact lemma_isDigit_digitChar d hd

theorem lemma_natRepr_nodot (n : Nat) : '.' ∉ natRepr n := by
  intro h
  obtain ⟨d, hd, e⟩ := lemma_natRepr_chars n _ h
  exact (lemma_digitChar_ne d hd).1 e.symm

/-! ### digitsU / pyInt on plain digit strings -/

theorem lemma_digitsU_plain (l : List Char) (hne : l ≠ []) (h : ∀ c ∈ l, isDigit c = true) :
    digitsU l = some (l.filterMap digitVal) := by
  induction l with
  | nil => exact absurd rfl hne
  | cons c t ih =>
    have hc : isDigit c = true := h c (by simp)
    obtain ⟨d, hd⟩ : ∃ d, digitVal c = some d := by
      simp only [isDigit] at hc; exact Option.isSome_iff_exists.mp hc
    cases t with
    | nil => simp [digitsU, hd]
    | cons u rest =>
      have hu : isDigit u = true := h u (by simp)
      have hu' : u ≠ '_' := by
        intro e; rw [e] at hu; have := lemma_not_digit.2.2.1; simp [this] at hu
      have := ih (by simp) (fun x hx => h x (by simp [hx]))
      simp only [digitsU, hd, hu', if_false, this, Option.map_some, List.filterMap_cons_some hd]

theorem lemma_ofDigits_append (ds : List Nat) (d : Nat) : ofDigits (ds ++ [d]) = ofDigits ds * 10 + d := by
  simp [ofDigits, List.foldl_append]

theorem lemma_natRepr_value (n : Nat) : ofDigits ((natRepr n).filterMap digitVal) = n := by
  induction n using Nat.strongRecOn with
  | _ n ih =>
    unfold natRepr
    split
    · rename_i h
      simp [List.filterMap_cons_some (lemma_digitVal_digitChar n h), ofDigits]
    · rename_i h
      have h10 : n % 10 < 10 := by omega
      rw [List.filterMap_append]
      simp only [List.filterMap_cons_some (lemma_digitVal_digitChar _ h10), List.filterMap_nil]
      rw [lemma_ofDigits_append, ih (n / 10) (by omega)]
      omega

theorem lemma_stripInt_plain (l : List Char) (h : ∀ c ∈ l, isIntSpace c = false) : stripInt l = l := by
  unfold stripInt
  rw [lemma_dropWhile_none _ l h, lemma_dropWhile_none _ l.reverse (by simpa using h), List.reverse_reverse]

theorem lemma_signSplit_plain (c : Char) (t : List Char) (h1 : c ≠ '+') (h2 : c ≠ '-') :
    signSplit (c :: t) = (false, c :: t) := by
  unfold signSplit; split <;> simp_all

/-- `int(str(n)) == n` below the digit limit -/
theorem lemma_pyInt_natRepr (n : Nat) (hn : n < 1000) : pyInt (natRepr n) = some (n : Int) := by
  have hchars := lemma_natRepr_chars n
  have hsp : ∀ c ∈ natRepr n, isIntSpace c = false := by
    intro c hc; obtain ⟨d, hd, rfl⟩ := hchars c hc; exact lemma_intSpace_digitChar d hd
  obtain ⟨c, t, hct⟩ : ∃ c t, natRepr n = c :: t := by
    cases h : natRepr n with
    | nil => exact absurd h (lemma_natRepr_ne_nil n)
    | cons c t => exact ⟨c, t, rfl⟩
  obtain ⟨d, hd, hcd⟩ := hchars c (by simp [hct])
  have hne := lemma_digitChar_ne d hd
  have hlen := lemma_natRepr_length n
  have hfl : ((natRepr n).filterMap digitVal).length ≤ (natRepr n).length := List.length_filterMap_le _ _
  have hlim := lemma_limit
  unfold pyInt
  rw [lemma_stripInt_plain _ hsp]
  simp only [hct]
  rw [lemma_signSplit_plain c t (hcd ▸ hne.2.1) (hcd ▸ hne.2.2.1)]
  simp only [← hct]
  rw [lemma_digitsU_plain _ (lemma_natRepr_ne_nil n) (lemma_natRepr_isDigit n)]
  simp only [lemma_natRepr_value]
  have : ¬ (Gen.intMaxStrDigits > 0 ∧ ((natRepr n).filterMap digitVal).length > Gen.intMaxStrDigits) := by
    omega
  simp [this]

/-! ### canonical rendering -/



theorem lemma_parseParts_canonical (l : List Nat) (h : ∀ c ∈ l, c < 1000) :
    parseParts (l.map natRepr) = some (l.map Int.ofNat) := by
  induction l with
  | nil => rfl
  | cons a t ih =>
    simp [parseParts, lemma_pyInt_natRepr a (h a (by simp)), ih (fun c hc => h c (by simp [hc]))]

theorem lemma_split_render (l : List Nat) (hne : l ≠ []) : splitOn '.' (join '.' (l.map natRepr)) = l.map natRepr := by
  apply lemma_splitOn_join
  · simpa using hne
  · intro p hp
    simp only [List.mem_map] at hp
    obtain ⟨n, _, rfl⟩ := hp
    exact lemma_natRepr_nodot n

theorem lemma_render_chars (l : List Nat) : ∀ c ∈ join '.' (l.map natRepr), isDigit c = true ∨ c = '.' := by
  induction l with
  | nil => simp [join]
  | cons a t ih =>
    cases t with
    | nil => intro c hc; simp [join] at hc; exact Or.inl (lemma_natRepr_isDigit a c hc)
    | cons b rest =>
      intro c hc
      simp only [List.map_cons, join, List.mem_append, List.mem_cons] at hc
      rcases hc with hc | hc | hc
      · exact Or.inl (lemma_natRepr_isDigit a c hc)
      · exact Or.inr hc
      · exact ih c (by simpa [join] using hc)


/-! ### the suffix regex -/


theorem lemma_dropWhile_head {α} (p : α → Bool) (l : List α) : ∀ c ∈ (l.dropWhile p).head?, p c = false := by
  induction l with
  | nil => simp
  | cons a t ih =>
    by_cases ha : p a = true
    · rw [List.dropWhile_cons_of_pos ha]; exact ih
    · rw [List.dropWhile_cons_of_neg ha]; intro c hc; simp at hc; subst hc; simpa using ha

theorem lemma_mem_of_mem_dropWhile {α} (p : α → Bool) (l : List α) (c : α) (h : c ∈ l.dropWhile p) : c ∈ l :=
  (List.dropWhile_sublist p).subset h

theorem lemma_findMarker_none (r : List Char) (h : r = [] ∨ ∃ t, r = '.' :: t) : findMarker r = none := by
  rcases h with rfl | ⟨t, rfl⟩ <;> simp [findMarker, markers, List.isPrefixOf]

theorem lemma_stripCore_digits_dots (t : List Char) (h : ∀ c ∈ t, isDigit c = true ∨ c = '.') :
    stripCore t = none := by
  unfold stripCore
  simp only
  split
  · rfl
  · have hr : t.reverse.dropWhile isDigit = [] ∨ ∃ u, t.reverse.dropWhile isDigit = '.' :: u := by
      cases hd : t.reverse.dropWhile isDigit with
      | nil => exact Or.inl rfl
      | cons x u =>
        right
        have hx : isDigit x = false := by
          have := lemma_dropWhile_head isDigit t.reverse x (by simp [hd])
          exact this
        have hm : x ∈ t := by
          have : x ∈ t.reverse.dropWhile isDigit := by simp [hd]
          simpa using lemma_mem_of_mem_dropWhile _ _ _ this
        rcases h x hm with h1 | h1
        · simp [hx] at h1
        · exact ⟨u, by rw [h1]⟩
    rw [lemma_findMarker_none _ hr]

/-- the marker found after the reversed text `m.reverse ++ c :: s'` (c a digit) is `m` -/
theorem lemma_findMarker_hit (m : List Char) (hm : m ∈ markers) (c : Char) (hc : isDigit c = true) (s' : List Char) :
    findMarker (m.reverse ++ c :: s') = some m := by
  have nd := lemma_not_digit
  simp only [markers, List.mem_cons, List.mem_nil_iff, or_false] at hm
  rcases hm with rfl | rfl | rfl | rfl | rfl <;>
    simp [findMarker, markers, List.isPrefixOf, hc, nd]

theorem lemma_marker_head (m : List Char) (hm : m ∈ markers) : ∀ x ∈ (m.reverse ++ l).head?, isDigit x = false := by
  have nd := lemma_not_digit
  simp only [markers, List.mem_cons, List.mem_nil_iff, or_false] at hm
  rcases hm with rfl | rfl | rfl | rfl | rfl <;> simp [nd]

theorem lemma_stripCore_suffix (s m d : List Char) (c : Char) (hs : s.getLast? = some c) (hc : isDigit c = true)
    (hm : m ∈ markers) (hd : d ≠ []) (hdd : ∀ x ∈ d, isDigit x = true) :
    stripCore (s ++ m ++ d) = some s := by
  obtain ⟨s', rfl⟩ := List.getLast?_eq_some_iff.mp hs
  have hrev : (s' ++ [c] ++ m ++ d).reverse = d.reverse ++ (m.reverse ++ c :: s'.reverse) := by simp
  have hrun := lemma_takeWhile_run isDigit d.reverse (m.reverse ++ c :: s'.reverse)
    (by simpa using hdd) (lemma_marker_head m hm)
  unfold stripCore
  simp only [hrev, hrun.1, hrun.2, lemma_findMarker_hit m hm c hc]
  have : d.reverse.isEmpty = false := by simpa using hd
  simp [this]


/-! ### radix-1000 fold and the str loop -/


/-- positional value, radix 1000, over Nat -/
def valueNat (l : List Nat) : Nat := l.foldl (fun a y => a * 1000 + y) 0

theorem lemma_foldl_cast (xs : List Nat) (x : Nat) :
    (xs.map Int.ofNat).foldl (fun a y => a * 1000 + y) (x : Int) = ((xs.foldl (fun a y => a * 1000 + y) x : Nat) : Int) := by
  induction xs generalizing x with
  | nil => rfl
  | cons y t ih =>
    simp only [List.map_cons, List.foldl_cons]
    have : (x : Int) * 1000 + Int.ofNat y = ((x * 1000 + y : Nat) : Int) := by simp
    rw [this, ih]

theorem lemma_reduce_cast (l : List Nat) (hne : l ≠ []) :
    reduce1000 (l.map Int.ofNat) = some ((valueNat l : Nat) : Int) := by
  cases l with
  | nil => exact absurd rfl hne
  | cons x xs =>
    simp only [List.map_cons, reduce1000, valueNat, List.foldl_cons]
    have := lemma_foldl_cast xs x
    simp only [Int.ofNat_eq_natCast] at this ⊢
    simp [this]

theorem lemma_strLoop_step (v y : Nat) (acc : List (List Char)) (hy : y < 1000) (hv : 0 < v) :
    strLoop (v * 1000 + y) acc = strLoop v (natRepr y :: acc) := by
  rw [strLoop]
  have h1 : v * 1000 + y ≠ 0 := by omega
  have h2 : (v * 1000 + y) / 1000 = v := by omega
  have h3 : v * 1000 + y - (v * 1000 + y) / 1000 * 1000 = y := by omega
  rw [if_neg h1, h3, h2]

theorem lemma_strLoop_fold (xs : List Nat) (x : Nat) (acc : List (List Char)) (hx : 0 < x)
    (h : ∀ c ∈ xs, c < 1000) :
    strLoop (xs.foldl (fun a y => a * 1000 + y) x) acc = strLoop x (xs.map natRepr ++ acc) := by
  induction xs generalizing x acc with
  | nil => rfl
  | cons y t ih =>
    simp only [List.foldl_cons, List.map_cons, List.cons_append]
    rw [ih (x * 1000 + y) acc (by omega) (fun c hc => h c (by simp [hc]))]
    have := lemma_strLoop_step x y (t.map natRepr ++ acc) (h y (by simp)) hx
    rw [this]


theorem lemma_strLoop_value (l : List Nat) (hne : l ≠ []) (hh : l.head? ≠ some 0) (h : ∀ c ∈ l, c < 1000) :
    strLoop (valueNat l) [] = l.map natRepr := by
  cases l with
  | nil => exact absurd rfl hne
  | cons x xs =>
    have hx : 0 < x := by
      cases x with
      | zero => simp at hh
      | succ k => omega
    have hx' : x < 1000 := h x (by simp)
    simp only [valueNat, List.foldl_cons, Nat.zero_mul, Nat.zero_add]
    rw [lemma_strLoop_fold xs x [] hx (fun c hc => h c (by simp [hc]))]
    rw [strLoop]
    have h1 : x ≠ 0 := by omega
    have h2 : x / 1000 = 0 := by omega
    rw [if_neg h1, h2, strLoop]
    simp


/-! ### rejected components -/


theorem lemma_digitsU_chars (l : List Char) (ds : List Nat) (h : digitsU l = some ds) :
    ∀ c ∈ l, isDigit c = true ∨ c = '_' := by
  induction l using digitsU.induct generalizing ds with
  | case1 => simp [digitsU] at h
  | case2 c =>
    intro x hx
    simp only [List.mem_singleton] at hx; subst hx
    left
    simp only [digitsU, Option.map_eq_some_iff] at h
    obtain ⟨d, hd, _⟩ := h
    simp [isDigit, hd]
  | case3 c u rest hc =>
    simp [digitsU, hc] at h
  | case4 c rest d hc ih =>
    simp only [digitsU, hc, if_true, Option.map_eq_some_iff] at h
    obtain ⟨ds', hds, _⟩ := h
    intro x hx
    simp only [List.mem_cons] at hx
    rcases hx with rfl | rfl | hx
    · left; simp [isDigit, hc]
    · right; rfl
    · exact ih ds' hds x hx
  | case5 c u rest d hc hu ih =>
    simp only [digitsU, hc, hu, if_false, Option.map_eq_some_iff] at h
    obtain ⟨ds', hds, _⟩ := h
    intro x hx
    simp only [List.mem_cons] at hx
    rcases hx with rfl | hx
    · left; simp [isDigit, hc]
    · exact ih ds' hds x (by simpa using hx)

theorem lemma_mem_stripInt (l : List Char) (c : Char) (hc : c ∈ l) (hp : isIntSpace c = false) : c ∈ stripInt l := by
  unfold stripInt
  have h1 := lemma_mem_dropWhile isIntSpace l c hc hp
  have h2 := lemma_mem_dropWhile isIntSpace (l.dropWhile isIntSpace).reverse c (by simpa using h1) hp
  simpa using h2

theorem lemma_mem_signSplit (t : List Char) (c : Char) (hc : c ∈ t) (h1 : c ≠ '+') (h2 : c ≠ '-') :
    c ∈ (signSplit t).2 := by
  unfold signSplit
  split
  · simp only [List.mem_cons] at hc; rcases hc with rfl | hc
    · exact absurd rfl h1
    · exact hc
  · simp only [List.mem_cons] at hc; rcases hc with rfl | hc
    · exact absurd rfl h2
    · exact hc
  · exact hc

/-- a component containing a character that is neither a decimal digit, nor int() whitespace,
    nor a sign, nor an underscore is rejected by int() -/
theorem lemma_pyInt_nonnumeric (p : List Char) (c : Char) (hc : c ∈ p) (hd : isDigit c = false)
    (hs : isIntSpace c = false) (h1 : c ≠ '+') (h2 : c ≠ '-') (h3 : c ≠ '_') : pyInt p = none := by
  have hm := lemma_mem_signSplit _ c (lemma_mem_stripInt p c hc hs) h1 h2
  unfold pyInt
  simp only
  cases hdu : digitsU (signSplit (stripInt p)).2 with
  | none => rfl
  | some ds =>
    rcases lemma_digitsU_chars _ ds hdu c hm with h | h
    · simp [hd] at h
    · exact absurd h h3

theorem lemma_pyInt_empty : pyInt [] = none := by decide

theorem lemma_parseParts_none (ps : List (List Char)) (p : List Char) (hp : p ∈ ps) (h : pyInt p = none) :
    parseParts ps = none := by
  induction ps with
  | nil => cases hp
  | cons q t ih =>
    simp only [parseParts]
    rcases List.mem_cons.mp hp with rfl | hm
    · simp [h]
    · cases pyInt q with
      | none => rfl
      | some v => simp [ih hm]

theorem lemma_parseParts_some (ps : List (List Char)) (l : List Int) (h : parseParts ps = some l) :
    ∀ p ∈ ps, pyInt p ≠ none := by
  intro p hp hn
  rw [lemma_parseParts_none ps p hp hn] at h
  cases h


/-! ### the predicate regex -/


theorem lemma_opchars_not_space :
    isReSpace '<' = false ∧ isReSpace '>' = false ∧ isReSpace '!' = false ∧ isReSpace '=' = false := by decide

theorem lemma_stripPrefix_append (op r : List Char) : stripPrefix op (op ++ r) = some r := by
  induction op with
  | nil => cases r <;> rfl
  | cons a t ih => simp [stripPrefix, ih]

theorem lemma_stripPrefix_some (op s r : List Char) (h : stripPrefix op s = some r) : s = op ++ r := by
  induction op generalizing s with
  | nil => cases s <;> simp_all [stripPrefix]
  | cons a t ih =>
    cases s with
    | nil => simp [stripPrefix] at h
    | cons b u =>
      simp only [stripPrefix] at h
      split at h
      · rename_i e; subst e; simp [ih u h]
      · cases h

theorem lemma_mem_takeWhile {α} (p : α → Bool) (l : List α) (c : α) (h : c ∈ l.takeWhile p) : p c = true := by
  have := List.all_takeWhile (p := p) (l := l)
  rw [List.all_eq_true] at this
  exact this c h

theorem lemma_firstAlt_sound (p1 : List Char) (ops : List (List Char)) (op ver : List Char)
    (h : firstAlt p1 ops = some (op, ver)) :
    op ∈ ops ∧ ∃ r, p1 = op ++ r ∧ matchRest r = some ver := by
  induction ops with
  | nil => simp [firstAlt] at h
  | cons o t ih =>
    simp only [firstAlt] at h
    split at h
    · obtain ⟨h1, h2⟩ := ih h; exact ⟨by simp [h1], h2⟩
    · rename_i r hr
      split at h
      · rename_i v hv
        simp only [Option.some.injEq, Prod.mk.injEq] at h
        obtain ⟨rfl, rfl⟩ := h
        exact ⟨by simp, r, lemma_stripPrefix_some _ _ _ hr, hv⟩
      · obtain ⟨h1, h2⟩ := ih h; exact ⟨by simp [h1], h2⟩

theorem lemma_firstAlt_complete (ops : List (List Char)) (op r ver : List Char) (hop : op ∈ ops)
    (hm : matchRest r = some ver) : (firstAlt (op ++ r) ops).isSome = true := by
  induction ops with
  | nil => cases hop
  | cons o t ih =>
    simp only [firstAlt]
    rcases List.mem_cons.mp hop with rfl | hmem
    · simp [lemma_stripPrefix_append, hm]
    · split
      · exact ih hmem
      · split
        · rfl
        · exact ih hmem

theorem lemma_dropWhile_pre (pre rest : List Char) (c : Char) (hpre : ∀ x ∈ pre, isReSpace x = true)
    (hc : isReSpace c = false) : (pre ++ c :: rest).dropWhile isReSpace = c :: rest :=
  (lemma_takeWhile_run isReSpace pre (c :: rest) hpre (by intro x hx; simp at hx; subst hx; exact hc)).2

theorem lemma_op_head (op : List Char) (hop : op ∈ opAlternatives) :
    ∃ c t, op = c :: t ∧ isReSpace c = false := by
  have := lemma_opchars_not_space
  simp only [opAlternatives, List.mem_cons, List.mem_nil_iff, or_false] at hop
  rcases hop with rfl | rfl | rfl | rfl | rfl | rfl <;> simp [this]


end Oslo.Version
