"""C02 - the safety check is fail-closed: unsafe or unverifiable images are never accepted."""
import shutil
import struct
import tempfile

import common
import whitebox
import gen_insp
import images
import insp_gen_b as G
import insp_impl
from common import Disagreement, Failure

ID = 'C02'
DRIVER = 'drv_insp'
DRIVER_ROOT = 'Drivers.Insp'
PROOF_MODULES = ['OsloProofs.Props.C02Gate', 'OsloProofs.Props.C02', 'OsloProofs.Props.C02More', 'OsloProofs.Props.C02Gpt', 'OsloProofs.Props.C02Vmdk']
LEVEL = 'proof'
RULE = ('trait-combination images built from each format\'s layout (qcow2: each of the 64 incompatible-feature bits, '
        'random sets, versions 0..5 and extremes, backing-file offset classes 0/1/2^63/2^64-1, v2 headers with '
        'feature bytes, arbitrary irrelevant fields; VMDK: createType spellings and case, recognised and '
        'unrecognised line classes, no extent, extents naming a path, descriptor missing / misplaced / zero '
        'sectors, header version, every footer / marker field perturbed - also on images whose descriptor area is at '
        'or beyond the 2048-sector clamp (> 1 MiB, header desc_num 2048/2049/4096 vs a different large footer '
        'desc_num) -, text-descriptor mode and KDMV headers '
        'with a text version field (class KF_F1); QED; LUKS versions; MBR tables over ten entry kinds - all 3^4 '
        'empty/plain/protective occupancies, for the protective entry every other value of each start-CHS byte '
        '(3 x 255), deviating pairs, every bit flip and byte deviation of the start LBA, all 2^4 bootable ones, every single deviation from the clean '
        'protective table, random (quick) or all 10^4 (thorough) combinations; raw/vhd/vdi/iso/vhdx clean) plus '
        'truncations at every structure boundary, each streamed under chunkings from images.chunkings (one chunk, '
        'fixed sizes, cuts at -1/0/+1 of structure boundaries, random, empty chunks); the same images as files '
        'for detect_file_format, from_file and the CLI, and read through InspectWrapper -> format -> safety_check() '
        'with zero-length reads before and between the real ones, sizes None / -1, every legal constructor call '
        'form, read(size=...), real files, iterator sources and iteration protocols; chunks are presented as bytes or as bytearray / memoryview '
        'slices of one reused buffer that afterwards holds a clean header of the same format; every verdict is '
        'taken three times on the same inspector, interleaved with the other property reads. A case is non-trivial when the checks actually ran on both sides '
        '(verdict ok or failed:<names>) or, for the CLI, when a specific (non-raw) format was detected; distinct by '
        '(format, content digest, chunking)')
TRUSTED_BASE = [
    'Lean 4 kernel; axioms audited per theorem (subset of propext, Classical.choice, Quot.sound)',
    'hand-written model OsloModel/{Capture,Inspector,Wrapper}.lean (safetyCheck, the per-format checks, the VMDK line '
    'classifier, detectFileFormat, cliExit), tied to format_inspector.py / cli.py by this correspondence; initial '
    'regions, registered check names and class constants come from the translator (Generated/Insp.lean)',
    'the by-construction labels of the generated images (harness/insp_gen_b.py): which trait values are unsafe',
    'CPython bytes/str/struct semantics re-implemented in the model',
]
UNMODELLED = [
    'argparse, file-system access and the not-a-file branch of cli.main (the model takes the file content)',
    'exit status of an uncaught exception is rendered as 2 on both sides (the interpreter would print a traceback '
    'and exit 1)',
    'log output of the checks',
]
ASSUMPTIONS = [
    'an inspector is fed the way InspectWrapper feeds it (not fed again after eat_chunk raised) and finish() is '
    'called before safety_check()',
]

KF = 'KF_F1'


def generate():
    gen_insp.generate()


def proj(reply):
    """what C02 talks about: match / complete / safety of an `insp` reply"""
    v = G.verdict_fields(reply)
    return 'match=%s complete=%s safety=%s' % (v.get('match'), v.get('complete'), v.get('safety'))


def proj_detect(reply):
    head, _, ex = reply.partition('\t')
    if head.startswith('EXC:'):
        return head + ' ' + ex
    name = head.split(' ')[0]
    v = G.verdict_fields(head)
    return '%s match=%s complete=%s safety=%s %s' % (name, v.get('match'), v.get('complete'), v.get('safety'), ex)


def case_of(it, sizes, kind='insp', feed='bytes'):
    c = {'kind': kind, 'fmt': it['fmt'], 'label': it['label'], 'expect': it['expect'], 'cli': it.get('cli', 'free'),
         'content': insp_impl.content_field(it['data'])}
    if kind == 'insp':
        c['sizes'] = list(sizes)
        if feed != 'bytes':
            c['feed'] = feed
    return c


def impl_verdicts(fmt, data, sizes, feed='bytes', forms=None):
    """the implementation's verdict taken three times on the SAME inspector (each taking reads format_match,
    complete, virtual_size, runs safety_check and reads context_info): a verdict is a function of the bytes, so
    the three agree - and agree with the model.  With a reused-buffer feed the buffer is refilled with a clean
    header of the same format before the verdicts are taken."""
    try:
        i, raised = G.feed_inspector(fmt, data, sizes, feed, G.clean_header(fmt) if feed != 'bytes' else None, forms)
    except G.CallFormError as e:
        return ['CALL-FORM-REJECTED: %s' % e] * 3
    except Exception as e:
        return ['ESCAPED:%s' % type(e).__name__] * 3
    return [proj(insp_impl.show_verdict(i, None)) for _ in range(3)]


def wrap_verdict(data, ops, u=None, expected=None):
    """the image read through an InspectWrapper (all formats) the way `u` says, closed, then
    wrapper.format.safety_check() three times: 'final=<format or EXC:...> safety=<verdict>'"""
    try:
        t = G.wrap_trace(None, data, ops, expected, 'str', u)
    except G.CallFormError as e:
        return 'CALL-FORM-REJECTED: %s' % e
    except Exception as e:
        return 'ESCAPED:%s' % type(e).__name__
    if t['escaped'] or t['close_escaped']:
        return 'ESCAPED:%s' % (t['escaped'] or t['close_escaped'])
    w = t['wrapper']
    try:
        i = w.format
    except Exception as e:
        return 'final=EXC:%s safety=-' % type(e).__name__
    if i is None:
        return 'final=None safety=-'
    outs = [G.safety_outcome(i) for _ in range(3)]
    return 'final=%s safety=%s' % (i.NAME, outs[0] if len(set(outs)) == 1 else 'REPEATED QUERIES DISAGREE: ' + ' ~ '.join(outs))


def model_wrap_verdict(reply):
    parts = reply.split('\t')
    if len(parts) != 4:
        return reply
    final = parts[2].split('/')[0]
    if final.startswith('EXC:'):
        return 'final=%s safety=-' % final
    for ent in parts[3].split(';'):
        if ent.split(' ')[0].rstrip('!') == final:
            return 'final=%s safety=%s' % (final, G.verdict_fields(ent).get('safety'))
    return 'final=%s safety=?' % final


def wrap_ops(it, rng):
    """(read ops, usage) for a wrapper run: a chunking of the image with zero-length reads before and between the
    real ones, None / -1 for the rest, and an unusual but legal use of the public interface half of the time"""
    n = len(it['data'])
    base = rng.choice(G.pick_chunkings(it, rng, 3))
    if len(base) > 300:
        base = [n]
    u = G.pick_usage(rng, None, None, iterator=False, p_plain=0.4)
    if rng.random() < 0.25 and len(base) <= 64:
        u['iterator'] = True
        u['proto'] = rng.choice(G.ITER_PROTOS)
        return list(base), u
    ops = G.vary_ops(base, n, rng, u['source']) if rng.random() < 0.8 else list(base)
    return ops, u


def pick_feed(rng):
    return rng.choice(['bytes', 'bytes', 'bytearray', 'memoryview', 'memoryview'])


def family_of(label):
    """kind key of a failure: the label without its numeric detail"""
    parts = label.split('/')
    head = parts[0] + '/' + parts[1].split('-')[0] if len(parts) > 1 else label
    return head + ('/trunc' if '/trunc@' in label else '')


def cli_files(items, rng, n):
    """a diverse selection of items to be written to disk"""
    by = {}
    for it in items:
        by.setdefault(family_of(it['label']), []).append(it)
    fams = sorted(by)
    rng.shuffle(fams)
    out = []
    while len(out) < n and fams:
        for f in list(fams):
            if not by[f]:
                fams.remove(f)
                continue
            out.append(by[f].pop(rng.randrange(len(by[f]))))
            if len(out) >= n:
                break
    return out


def correspondence(ctx):
    rng = ctx.rng
    items = G.thin(ctx, G.c02_items(rng, ctx.quick))
    cases = []
    for it in items:
        for sizes in G.pick_chunkings(it, rng, 5 if ctx.quick else 10):
            cases.append((it, sizes))
    lines = [G.insp_req(it['fmt'], it['data'], sizes) for it, sizes in cases]
    replies = G.ask_par(ctx.driver, lines)
    out = []
    for (it, sizes), rep in zip(cases, replies):
        ctx.evaluations += 1
        feed = pick_feed(rng)
        forms = G.pick_insp_forms(rng)
        vs = impl_verdicts(it['fmt'], it['data'], sizes, feed, forms)
        if forms:
            ctx.count('inspector-call-forms/%s%s%s' % (forms[0], '+tracing' if forms[1] else '', '+eat_chunk(chunk=)' if forms[2] else ''))
        pm = proj(rep)
        pi = vs[0] if vs[0] == vs[1] == vs[2] else 'REPEATED QUERIES DISAGREE: ' + ' ~ '.join(vs)
        saf = G.verdict_fields(vs[0]).get('safety', '?')
        ctx.count('feed/' + feed)
        ctx.count('corr/insp/' + it['fmt'])
        ctx.count('verdict/' + saf.split(':')[0] + (':' + saf.split(':')[1] if ':' in saf else ''))
        ctx.count('expect/' + it['expect'])
        if saf == 'ok' or saf.startswith('failed'):
            ctx.nontrivial((it['fmt'], G.digest(it['data']), tuple(sizes)))
        if ctx.evaluations % 211 == 1:
          ctx.sample({'label': it['label'], 'expect': it['expect'], 'length': len(it['data']), 'chunks': len(sizes),
                    'implementation': pi, 'model': pm}, 5)
        if pi != pm:
            c = case_of(it, sizes, feed=feed)
            if forms:
                c['forms'] = list(forms)
            out.append(Disagreement(c, pi, pm))
    # the same images through InspectWrapper -> format -> safety_check()
    small = [it for it in items if len(it['data']) <= 64 * images.K]
    wl = cli_files(small, rng, 220 if ctx.quick else 2500)
    wcases = [(it,) + wrap_ops(it, rng) for it in wl]
    replies = G.ask_par(ctx.driver, [G.wrap_req(None, None, it['data'], ops) for it, ops, _u in wcases])
    for (it, ops, uu), rep in zip(wcases, replies):
        ctx.evaluations += 1
        pi, pm = wrap_verdict(it['data'], ops, uu), model_wrap_verdict(rep)
        ctx.count('corr/wrapper/' + pi.split(' ')[0])
        if 'safety=ok' in pi or 'safety=failed' in pi:
            ctx.nontrivial(('wrap', G.digest(it['data']), str(ops), str(sorted(uu.items()))))
        if pi != pm:
            c = case_of(it, None, 'wrap')
            c.update(sizes=list(ops), usage=uu)
            out.append(Disagreement(c, pi, pm))
    # detect_file_format + CLI exit status on real files
    files = cli_files([it for it in items if len(it['data']) <= 64 * images.K], rng, 18 if ctx.quick else 290)
    big = [it for it in items if len(it['data']) > 64 * images.K]
    ctx.rng.shuffle(big)
    files += big[:3 if ctx.quick else 12]
    lines = [G.detect_req(it['data']) for it in files]
    replies = G.ask_par(ctx.driver, lines)
    tmp = tempfile.mkdtemp(prefix='verif-C02-')
    try:
        for it, rep in zip(files, replies):
            ctx.evaluations += 1
            try:
                impl = insp_impl.run_detect(it['data'], tmp)
            except Exception as e:
                impl = 'EXC:ESCAPED-%s\texit=2' % type(e).__name__
            pi, pm = proj_detect(impl), proj_detect(rep)
            ctx.count('corr/detect/' + pi.split(' ')[0])
            ctx.count('cli-exit/' + pi.rsplit('exit=', 1)[-1])
            if not pi.startswith(('raw ', 'EXC')):
                ctx.nontrivial(('cli', G.digest(it['data'])))
            ctx.sample({'label': it['label'], 'file': True, 'implementation': pi, 'model': pm}, 8)
            if pi != pm:
                out.append(Disagreement(case_of(it, None, 'cli'), pi, pm))
    finally:
        shutil.rmtree(tmp, ignore_errors=True)
    return out


# --------------------------------------------------------------------------
# failing-input search: the property stated on the implementation only

def insp_oracle(fmt, data, sizes, expect, feed='bytes', forms=None):
    """None, or how the fail-closed property fails for this image under this chunking.  The verdict is taken
    three times on the same inspector, interleaved with reads of the other properties; with a reused-buffer
    feed the buffer holds a clean header of the same format by then."""
    try:
        i, _raised = G.feed_inspector(fmt, data, sizes, feed, G.clean_header(fmt) if feed != 'bytes' else None,
                                      tuple(forms) if forms else None)
    except G.CallFormError as e:
        return str(e)
    except Exception as e:
        return '%s escaped while the inspector was being constructed or fed' % type(e).__name__
    outs = []
    for k in range(3):
        o = G.safety_outcome(i)
        outs.append(o)
        if o.startswith('returned:'):
            return 'safety_check returned a value: ' + o
        if o == 'ok':
            # first sentence of the property, checked on the real object
            try:
                cm = (i.complete, i.format_match)
            except Exception as e:
                return 'safety_check accepted but complete/format_match raises %s' % type(e).__name__
            if not (cm[0] and cm[1]):
                return 'safety_check accepted a stream with complete=%s format_match=%s' % cm
            if expect == 'unsafe':
                return 'unsafe image accepted' + ('' if k == 0 else ' by safety_check call number %d (earlier: %s)'
                                                  % (k + 1, outs[0]))
        elif expect == 'clean':
            return 'clean image not accepted (%s)%s' % (o, '' if k == 0 else ' by safety_check call number %d' % (k + 1))
        for q in (lambda: i.virtual_size, lambda: i.format_match, lambda: i.context_info, lambda: str(i)):
            try:
                q()
            except Exception:
                pass
    if len(set(outs)) != 1:
        return 'repeated safety_check calls on the same inspector disagree: %s' % ' then '.join(outs)
    return None


def shrink_sizes(fmt, data, sizes, expect, feed='bytes'):
    n = len(data)
    if insp_oracle(fmt, data, [n], expect, feed):
        return [n]
    cuts, pos = [], 0
    for s in sizes[:-1]:
        pos += s
        cuts.append(pos)

    def still(sub):
        return insp_oracle(fmt, data, images.sizes_from_cuts(sub, n), expect, feed) is not None
    if not cuts:
        return sizes
    small = common.shrink_list(cuts, still, max_steps=80)
    cand = images.sizes_from_cuts(small, n)
    return cand if still(small) else sizes


def check_error_oracle(fmt, exc_cls):
    """'an error inside a check counts as a failure of that check': make each registered check of a clean
    image's inspector raise an arbitrary exception; safety_check must then name it in SafetyCheckFailed"""
    F = G.fi()
    kw = {'body_len': 16} if fmt == 'luks' else ({'tail': 8} if fmt == 'vhdx' else {})
    data = images.clean(fmt, **kw)[0]
    i, _ = G.feed_inspector(fmt, data, [len(data)])
    bad = []
    for name, chk in list(whitebox.safety_checks(i).items()):
        saved = chk.target_fn

        def boom():
            raise exc_cls('injected into check')
        chk.target_fn = boom
        try:
            try:
                i.safety_check()
                bad.append((name, 'accepted'))
            except F.SafetyCheckFailed as e:
                if name not in e.failures:
                    bad.append((name, 'SafetyCheckFailed without the erroring check: %s' % sorted(e.failures)))
            except Exception as e:
                # not accepted, but the error escaped instead of being counted as a failure of that check
                bad.append((name, 'escaped as %s' % type(e).__name__))
        finally:
            chk.target_fn = saved
    return bad


def structural_oracle():
    """every inspector declares a check; one without any cannot be constructed"""
    F = G.fi()
    out = []
    for n, cls in F.ALL_FORMATS.items():
        if not whitebox.safety_checks(cls()):
            out.append('%s declares no safety check' % n)

    class NoChecks(F.FileInspector):
        NAME = 'nochecks'

        def _initialize(self):
            pass

        @property
        def format_match(self):
            return True
    try:
        NoChecks()
        out.append('an inspector without any safety check can be constructed')
    except RuntimeError:
        pass
    return out


def cli_oracle(it_or_case, tmp):
    """(why or None, rendered run).  Exit 0 only if detection and the safety check both succeeded; an image
    that is unsafe as a file never exits 0; a clean one does."""
    data = it_or_case['data']
    line = insp_impl.run_detect(data, tmp)
    head, _, ex = line.partition('\t')
    code = int(ex.split('=')[1])
    safety = G.verdict_fields(head).get('safety') if not head.startswith('EXC:') else None
    why = None
    if code == 0 and (head.startswith('EXC:') or safety != 'ok'):
        why = 'CLI exit 0 although detection/safety check did not succeed (%s)' % head.split(' ctx=')[0]
    elif code == 0 and it_or_case.get('cli') == 'unsafe':
        why = 'CLI exit 0 for an unsafe image (detected %s)' % head.split(' ')[0]
    elif code != 0 and it_or_case.get('cli') == 'clean':
        why = 'CLI exit %d for a clean image (%s)' % (code, head.split(' ctx=')[0])
    elif it_or_case.get('cli') == 'clean' and head.split(' ')[0] != it_or_case['fmt']:
        why = 'clean %s image detected as %s' % (it_or_case['fmt'], head.split(' ')[0])
    if why is None:
        why = file_verdicts(it_or_case, tmp)
    return why, line


def file_verdicts(it_or_case, tmp):
    """the other entry points on the same file - detect_file_format(path).safety_check() and
    <Inspector>.from_file(path).safety_check() - each verdict taken three times on the same object: they agree
    with each other, and an image that is unsafe as a file is never accepted"""
    import os
    F = G.fi()
    path = os.path.join(tmp, 'img')
    with open(path, 'wb') as fh:
        fh.write(it_or_case['data'])
    objs = []
    for tag in G.call_tags('detect_file_format', [path]):             # positional and filename=...
        try:
            objs.append((G.render_call('detect_file_format', ['<path>'], tag),
                         G.invoke(F.detect_file_format, 'detect_file_format', [path], tag)))
        except F.ImageFormatError:
            pass
        except G.CallFormError as e:
            return str(e)
        except Exception as e:
            return 'detect_file_format raised %s' % type(e).__name__
    cls = F.ALL_FORMATS.get(it_or_case.get('fmt'))
    if cls is not None:
        for tag in G.call_tags('FileInspector.from_file', [path]):
            shown = '%s.from_file' % cls.__name__
            try:
                objs.append((G.render_call('FileInspector.from_file', ['<path>'], tag, shown),
                             G.invoke(cls.from_file, 'FileInspector.from_file', [path], tag, shown)))
            except F.ImageFormatError:
                pass
            except G.CallFormError as e:
                return str(e)
            except Exception as e:
                return 'from_file raised %s' % type(e).__name__
    for how, i in objs:
        outs = []
        for _ in range(3):
            outs.append(G.safety_outcome(i))
            try:
                i.virtual_size, i.format_match
            except Exception:
                pass
        if len(set(outs)) != 1:
            return 'repeated safety_check calls on the inspector from %s disagree: %s' % (how, ' then '.join(outs))
        if outs[0] == 'ok' and it_or_case.get('cli') == 'unsafe' and str(i) == it_or_case.get('fmt'):
            return 'unsafe image accepted through %s' % how
    return None


def wrap_oracle(it_or_case, ops, u):
    """an image that is unsafe as a file is never accepted through wrapper.format.safety_check(), however the
    wrapper is read; a clean one is detected as its format and accepted"""
    v = wrap_verdict(it_or_case['data'], ops, u)
    if v.startswith('CALL-FORM-REJECTED') or 'REPEATED QUERIES DISAGREE' in v:
        return v
    if v.startswith('ESCAPED:'):
        return '%s escaped from reading through InspectWrapper (no expected format: nothing may)' % v[8:]
    exp = it_or_case.get('cli', 'free')
    if exp == 'unsafe' and v.endswith('safety=ok'):
        return 'unsafe image accepted through InspectWrapper: %s' % v
    if exp == 'clean' and v != 'final=%s safety=ok' % it_or_case['fmt']:
        return 'clean %s image not accepted through InspectWrapper: %s' % (it_or_case['fmt'], v)
    return None


def search(ctx, seeds, full=False):
    rng = ctx.rng
    known_like, fresh = [], []
    seen_kinds = {}

    def add(case, kind, what, f1):
        # f1: the input lies in class KF_F1 (whether it is *known* is decided by classify, which also
        # asks the model); one such candidate per kind, two of every other kind
        n = seen_kinds.get(kind, 0)
        seen_kinds[kind] = n + 1
        if n >= (1 if f1 else 2):
            return
        (known_like if f1 else fresh).append(Failure(case, {'kind': kind, 'what': what}))

    for msg in structural_oracle():
        ctx.evaluations += 1
        add({'kind': 'structural'}, 'structural', msg, False)
    excs = [ValueError, KeyError, struct.error, RuntimeError, TypeError, ZeroDivisionError]
    for fmt in images.FORMATS:
        for exc in (excs if (full or not ctx.quick) else excs[:3]):
            ctx.evaluations += 1
            for name, how in check_error_oracle(fmt, exc):
                add({'kind': 'check-error', 'fmt': fmt, 'check': name, 'exc': exc.__name__},
                    'check-error', 'check %s of %s raising %s: %s' % (name, fmt, exc.__name__, how), False)

    def try_insp(fmt, data, sizes, expect, label, cli='free', feed='bytes', forms='pick'):
        ctx.evaluations += 1
        if forms == 'pick':
            forms = G.pick_insp_forms(rng, 0.7)
        why = insp_oracle(fmt, data, sizes, expect, feed, forms)
        if why and forms and not insp_oracle(fmt, data, sizes, expect, feed, None):
            # only this way of constructing / feeding the inspector fails
            add({'kind': 'insp', 'fmt': fmt, 'label': label, 'expect': expect, 'cli': cli,
                 'content': insp_impl.content_field(data), 'sizes': list(sizes), 'feed': feed, 'forms': list(forms)},
                'call form ' + why.split(' (')[0].split(':')[0][:60],
                '%s: %s [inspector constructed with tag %s tracing=%s, eat_chunk %s]'
                % (label, why, forms[0], forms[1], 'by keyword' if forms[2] else 'positional'), False)
            return
        if why:
            if feed != 'bytes' and insp_oracle(fmt, data, sizes, expect, 'bytes'):
                feed = 'bytes'                      # the presentation is not what makes it fail
            small = shrink_sizes(fmt, data, sizes, expect, feed)
            f1 = fmt == 'vmdk' and G.in_class_f1(data)
            c = {'kind': 'insp', 'fmt': fmt, 'label': label, 'expect': expect, 'cli': cli,
                 'content': insp_impl.content_field(data), 'sizes': small}
            if feed != 'bytes':
                c['feed'] = feed
            why = insp_oracle(fmt, data, small, expect, feed) or why
            add(c, '%s %s%s' % (why.split(' (')[0].split(' by safety_check')[0].split(':')[0], family_of(label),
                                '' if feed == 'bytes' else ' [reused buffer]'),
                '%s: %s, chunk sizes %s%s' % (label, why, small[:12], '' if feed == 'bytes' else
                                              ', chunks presented as %s of a reused buffer later refilled with a '
                                              'clean %s header' % (feed, fmt)), f1)

    tmp = tempfile.mkdtemp(prefix='verif-C02s-')
    try:
        for s in seeds[:300]:
            data = G.decode_content(s.get('content', '-'))
            if s.get('kind') == 'insp':
                try_insp(s['fmt'], data, s['sizes'], s.get('expect', 'free'), s.get('label', 'seed'), s.get('cli', 'free'),
                         s.get('feed', 'bytes'), s.get('forms'))
                try_insp(s['fmt'], data, [len(data)], s.get('expect', 'free'), s.get('label', 'seed'), s.get('cli', 'free'),
                         s.get('feed', 'bytes'), s.get('forms'))
            elif s.get('kind') == 'wrap':
                ctx.evaluations += 1
                why = wrap_oracle(dict(s, data=data), s['sizes'], s.get('usage'))
                if why:
                    add(dict(s), 'wrapper ' + why.split(':')[0], '%s: %s, read ops %s, usage %s'
                        % (s.get('label'), why, s['sizes'][:12], s.get('usage')), G.in_class_f1(data))
            elif s.get('kind') == 'cli':
                ctx.evaluations += 1
                why, line = cli_oracle(dict(s, data=data), tmp)
                if why:
                    add(dict(s), 'cli ' + why.split(' (')[0], why + ' :: ' + line, G.in_class_f1(data))
        rounds = (2 if full else 1) if ctx.quick else (4 if full else 2)
        per = (6 if full else 3) if ctx.quick else (14 if full else 8)
        for _ in range(rounds):
            items = G.thin(ctx, G.c02_items(rng, ctx.quick))
            for it in items:
                for sizes in G.pick_chunkings(it, rng, per):
                    try_insp(it['fmt'], it['data'], sizes, it['expect'], it['label'], it['cli'], pick_feed(rng))
                if it['expect'] != 'free' and not it.get('maxk'):
                    # whole stream / header-sized first chunk through ONE reused buffer that afterwards holds a
                    # clean header of the same format
                    n = len(it['data'])
                    for sizes in ([n], [min(n, 512), max(0, n - 512)]):
                        try_insp(it['fmt'], it['data'], sizes, it['expect'], it['label'], it['cli'],
                                 rng.choice(['memoryview', 'memoryview', 'bytearray']))
            files = [it for it in items if len(it['data']) <= 64 * images.K and it['cli'] != 'free']
            rng.shuffle(files)
            for it in files[:(500 if ctx.quick else 4000) * (2 if full else 1)]:
                ctx.evaluations += 1
                ops, uu = wrap_ops(it, rng)
                why = wrap_oracle(it, ops, uu)
                if why:
                    plain = G.effective(len(it['data']), ops)
                    if uu.get('iterator') or not wrap_oracle(it, plain, None):
                        pass                                  # the usage / the read sizes are what makes it fail
                    else:
                        ops, uu = plain, None
                    c = case_of(it, None, 'wrap')
                    c.update(sizes=list(ops), usage=uu)
                    add(c, 'wrapper ' + why.split(':')[0] + ' ' + family_of(it['label']),
                        '%s: %s, read ops %s%s' % (it['label'], why, list(ops)[:12],
                                                   '' if not uu else ', usage %s' % {k: v for k, v in uu.items()
                                                                                     if v != G.DEFAULT_USAGE.get(k)}),
                        G.in_class_f1(it['data']))
            for it in files[:(60 if ctx.quick else 400) * (2 if full else 1)]:
                ctx.evaluations += 1
                why, line = cli_oracle(it, tmp)
                if why:
                    add(case_of(it, None, 'cli'), 'cli ' + why.split(' (')[0] + ' ' + family_of(it['label']),
                        it['label'] + ': ' + why + ' :: ' + line, G.in_class_f1(it['data']))
            if len(fresh) >= 6:
                break
    finally:
        shutil.rmtree(tmp, ignore_errors=True)
    return fresh[:6] + known_like[:8]


# --------------------------------------------------------------------------
# known finding KF_F1

def model_agrees(ctx, case):
    """the Lean model shows the same verdict as the implementation on this very input"""
    if ctx.driver is None:
        return False
    data = G.decode_content(case['content'])
    if case['kind'] == 'insp':
        vs = impl_verdicts(case['fmt'], data, case['sizes'], case.get('feed', 'bytes'),
                           tuple(case['forms']) if case.get('forms') else None)
        model = ctx.driver.ask(G.insp_req(case['fmt'], data, case['sizes']))
        return all(v == proj(model) for v in vs)
    if case['kind'] == 'wrap':
        impl = wrap_verdict(data, case['sizes'], case.get('usage'))
        model = model_wrap_verdict(ctx.driver.ask(G.wrap_req(None, None, data, case['sizes'])))
        # KF_F1 also makes a text descriptor go unrecognised (reported as raw) depending on the first chunk
        return impl == model and impl.startswith(('final=vmdk ', 'final=raw '))
    if case['kind'] == 'cli':
        tmp = tempfile.mkdtemp(prefix='verif-C02k-')
        try:
            impl = insp_impl.run_detect(data, tmp)
        finally:
            shutil.rmtree(tmp, ignore_errors=True)
        model = ctx.driver.ask(G.detect_req(data))
        return proj_detect(impl) == proj_detect(model) and proj_detect(impl).startswith('vmdk ')
    return False


def classify(ctx, failure, listed_findings):
    if KF not in {f['id'] for f in listed_findings}:
        return None
    case = failure.case
    if case.get('kind') not in ('insp', 'cli', 'wrap') or (case['kind'] == 'insp' and case.get('fmt') != 'vmdk'):
        return None
    if not G.in_class_f1(G.decode_content(case['content'])):
        return None
    return KF if model_agrees(ctx, case) else None


def witness_reproduces(ctx, finding):
    """C02 form of the KF_F1 witness: the listed text descriptor followed by an extent naming a path, the
    first chunk ending before that line - safety_check accepts (implementation and model alike)"""
    w = finding.get('witness') or {}
    if finding.get('id') != KF or 'content_ascii' not in w:
        return False
    head = w['content_ascii'].encode('ascii')
    data = head + b'RW 1 SPARSE "/etc/passwd"\n'
    sizes = [len(head), len(data) - len(head)]
    if insp_oracle('vmdk', data, sizes, 'unsafe') != 'unsafe image accepted':
        return False
    if insp_oracle('vmdk', data, [len(data)], 'unsafe') is not None:
        return False
    return model_agrees(ctx, {'kind': 'insp', 'fmt': 'vmdk', 'content': insp_impl.content_field(data), 'sizes': sizes})


# --------------------------------------------------------------------------

def replay(ctx, payload):
    case = payload.get('failure', {}).get('case') or payload.get('case')
    if not case:
        print('nothing to replay: this file names the obligation that no longer checks:')
        print(payload.get('no_longer_checks'))
        return 0
    kind = case.get('kind')
    if kind == 'structural':
        msgs = structural_oracle()
        print('property oracle on the implementation:', msgs or None)
        return 1 if msgs else 0
    if kind == 'check-error':
        import builtins
        exc = struct.error if case['exc'] == 'error' else getattr(builtins, case['exc'], RuntimeError)
        bad = check_error_oracle(case['fmt'], exc)
        print('implementation: clean %s image, each registered check made to raise %s -> %s'
              % (case['fmt'], case['exc'], bad or 'every erroring check is reported as a failure'))
        print('model         : CheckRes.crashed is never a pass (runCheck / safetyCheck in OsloModel/Inspector.lean)')
        return 1 if bad else 0
    data = G.decode_content(case['content'])
    print('image: %s, %d bytes, expectation by construction: %s' % (case.get('label'), len(data), case.get('expect')))
    if kind == 'insp':
        feed = case.get('feed', 'bytes')
        print('chunk sizes   :', case['sizes'][:40], '' if feed == 'bytes' else
              '(each chunk a %s of one reused buffer, refilled with a clean %s header afterwards)' % (feed, case['fmt']))
        forms = tuple(case['forms']) if case.get('forms') else None
        if forms:
            print('inspector constructed with call tag %s tracing=%s, eat_chunk %s' % (forms[0], forms[1], 'by keyword' if forms[2] else 'positional'))
        for k, v in enumerate(impl_verdicts(case['fmt'], data, case['sizes'], feed, forms)):
            print('implementation, verdict taken %s: %s' % (('once', 'twice', 'three times')[k], v))
        print('model         :', proj(ctx.driver.ask(G.insp_req(case['fmt'], data, case['sizes']))))
        why = insp_oracle(case['fmt'], data, case['sizes'], case.get('expect', 'free'), feed, forms)
        print('property oracle on the implementation:', why)
        if why and case['fmt'] == 'vmdk' and G.in_class_f1(data):
            print('input lies in class KF_F1; model reproduces the verdict: %s' % model_agrees(ctx, case))
        return 1 if why else 0
    if kind == 'wrap':
        uu = case.get('usage')
        print('read through InspectWrapper with read ops %s%s' % (case['sizes'][:40], '' if not uu else ', usage %s' % uu))
        print('implementation:', wrap_verdict(data, case['sizes'], uu))
        print('model         :', model_wrap_verdict(ctx.driver.ask(G.wrap_req(None, None, data, case['sizes']))))
        why = wrap_oracle(dict(case, data=data), case['sizes'], uu)
        print('property oracle on the implementation:', why)
        return 1 if why else 0
    tmp = tempfile.mkdtemp(prefix='verif-C02r-')
    try:
        why, line = cli_oracle(dict(case, data=data), tmp)
    finally:
        shutil.rmtree(tmp, ignore_errors=True)
    print('implementation:', line)
    print('model         :', ctx.driver.ask(G.detect_req(data)))
    print('property oracle on the implementation:', why)
    return 1 if why else 0


LEVEL_TEXT = ('Machine-checked proof (Lean 4) over a hand-written model of FileInspector.safety_check, SafetyCheck.__call__, '
              'the per-format check functions, detect_file_format and the CLI exit status; see the theorem list in '
              'lean/OsloProofs/Props/C02*.lean (gate theorems; byte-level acceptance iff for qcow2, LUKS, MBR/GPT and sparse-mode '
              'VMDK; VMDK text-descriptor mode is excluded from the VMDK theorem - known finding KF_F1). The model is tied to the code by a differential '
              'correspondence on trait-combination images under many chunkings and on files through the CLI on every run.')
LEVEL_NOTE = ('Trusted: Lean kernel; the hand model and the translator for region tables / constants / check names; the '
              'correspondence harness; argparse and the file system are not modelled.')
TECHNIQUE = 'Lean 4 theorems over the inspector model + model/implementation correspondence + direct fail-closed oracle'
DESIGN_REF = 'DESIGN.md section 5, C02'
