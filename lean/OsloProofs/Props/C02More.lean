/-
C02 — more byte-level acceptance characterisations (LUKS, VMDK).
-/
import OsloProofs.Props.C02
import OsloProofs.Props.C07
namespace Oslo.Insp

/-- the LUKS acceptance condition on the header bytes `d = stream[0:592]` -/
def LuksSafe (d : Bytes) : Prop :=
  d.length = 592 ∧ slice d 0 6 = [0x4c, 0x55, 0x4b, 0x53, 0xba, 0xbe] ∧ beNat (slice d 6 8) = 1

/-- **luks_accept_iff** — for every stream and chunking, the LUKS safety check returns normally iff the
    592-byte header is present, starts with the LUKS magic and carries version 1 -/
theorem luks_accept_iff (s0 : Insp) (h0 : Insp.init .luks = some s0) (chunks : List Bytes) :
    safetyCheck (runChunks s0 chunks).1 = .ok ↔ LuksSafe (sliceOf chunks.flatten 0 592) := by
  rw [run_plain_eq_spec .luks rfl s0 h0, safety_ok_iff]
  unfold Insp.init at h0
  split at h0
  · simp at h0
  · simp only [Option.some.injEq] at h0
    subst h0
    simp only [Fmt.initRegions, Gen.luks_regions, specRegions]
    generalize sliceOf chunks.flatten 0 592 = d
    simp only [Fmt.initChecks, Gen.luks_checks,
      List.mem_singleton, forall_eq, Insp.complete, List.all_cons, List.all_nil, Bool.and_true,
      Region.complete, Bool.false_eq_true, if_false, decide_eq_true_eq, formatMatch, Insp.region, lookupR,
      if_true, bind, Except.bind, pure, Except.pure, Except.ok.injEq, beq_iff_eq, LuksSafe]
    by_cases hl : d.length = 592
    · have h108 : (slice d 0 108).length = 108 := by simp [slice]; omega
      have e1 : slice (slice d 0 108) 6 8 = slice d 6 8 := by
        rw [lemma_slice_slice d 0 108 6 8 (by omega)]
      simp only [hl, true_and, runCheck, luksCheckVersion, luksHeader, Insp.region, lookupR, if_true,
        bind, Except.bind, pure, Except.pure, h108, ne_eq, not_true_eq_false, if_false, e1]
      by_cases hv : beNat (slice d 6 8) = 1
      · simp [hv, CheckRes.ofExcept]
      · have : (beNat (slice d 6 8) == 1) = false := by simp [hv]
        simp [hv, this, CheckRes.ofExcept]
    · have : ¬ (592 = d.length) := fun h => hl h.symm
      simp [hl, this]

/-- a LUKS header of any version other than 1 is never accepted -/
theorem luks_rejects_version (s0 : Insp) (h0 : Insp.init .luks = some s0) (chunks : List Bytes)
    (h : beNat (slice (sliceOf chunks.flatten 0 592) 6 8) ≠ 1) :
    safetyCheck (runChunks s0 chunks).1 ≠ .ok := by
  rw [Ne, luks_accept_iff s0 h0]
  rintro ⟨_, _, hv⟩
  exact h hv

/-- **vmdk_accept_imp** — in *any* VMDK inspector state (any stream, any chunking, either mode), the
    safety check returning normally implies: a descriptor was parsed and is non-empty; its createType
    is monolithicSparse or streamOptimized; every line (stripped) is blank, a comment, a ddb line, a
    single-word header field or an extent line; there is at least one extent line and none contains
    '/'.  (Acceptance of the *right* descriptor bytes is the chunk-independence question of C01; in
    text-descriptor mode that fails — known finding KF_F1.) -/
theorem vmdk_accept_imp (s : Insp) (hf : s.fmt = .vmdk) (hc : "descriptor" ∈ s.checks)
    (h : safetyCheck s = .ok) :
    ∃ t, s.descText = some t ∧ t ≠ [] ∧ s.vmdkType ∈ sparseTypes ∧
      (∀ l ∈ (splitOn 0x0a t).map strip, classifyLine l ≠ .bad) ∧
      (∃ l ∈ (splitOn 0x0a t).map strip, classifyLine l = .extent) ∧
      (∀ l ∈ (splitOn 0x0a t).map strip, classifyLine l = .extent → l.contains 0x2f = false) := by
  have hp := (safety_ok_imp s h).2.2 "descriptor" hc
  simp only [runCheck, hf] at hp
  have hd : vmdkCheckDescriptor s = true := by
    cases hv : vmdkCheckDescriptor s
    · simp [hv, CheckRes.ofExcept] at hp
    · rfl
  unfold vmdkCheckDescriptor at hd
  split at hd
  · simp at hd
  · rename_i t ht
    split at hd
    · simp at hd
    · rename_i hne
      split at hd
      · simp at hd
      · rename_i hty
        dsimp only at hd
        split at hd
        · simp at hd
        · rename_i hbad
          split at hd
          · simp at hd
          · rename_i hslash
            refine ⟨t, ht, by simpa using hne, by simpa using hty, ?_, ?_, ?_⟩
            · intro l hl hb
              apply hbad
              simp only [List.contains_eq_mem, decide_eq_true_eq]
              exact List.mem_map.mpr ⟨l, hl, hb⟩
            · simp only [Bool.not_eq_true', List.isEmpty_eq_false_iff] at hd
              obtain ⟨l, hl⟩ := List.exists_mem_of_ne_nil _ hd
              simp only [List.mem_filter, beq_iff_eq] at hl
              exact ⟨l, hl.1, hl.2⟩
            · intro l hl he
              simp only [List.any_eq_true, List.mem_filter, beq_iff_eq, not_exists, not_and, and_imp,
                Bool.not_eq_true] at hslash
              exact hslash l hl he

/-- when the header announced a footer, acceptance also implies the footer check passed -/
theorem vmdk_accept_imp_footer (s : Insp) (hf : s.fmt = .vmdk) (hc : "footer" ∈ s.checks)
    (h : safetyCheck s = .ok) : vmdkCheckFooter s = .ok true := by
  have hp := (safety_ok_imp s h).2.2 "footer" hc
  simp only [runCheck, hf] at hp
  cases hv : vmdkCheckFooter s with
  | error e => simp [hv, CheckRes.ofExcept] at hp
  | ok b => cases b
            · simp [hv, CheckRes.ofExcept] at hp
            · rfl

/-- what a passing footer check means: the footer repeats the header's signature, version and
    descriptor location and does not point to yet another footer -/
theorem vmdk_footer_ok_imp (s : Insp) (h : vmdkCheckFooter s = .ok true) :
    ∃ hr fr hh fh, s.region "header" = .ok hr ∧ s.region "footer" = .ok fr ∧
      parseSparseHeader hr.data 0 = .ok hh ∧ parseSparseHeader fr.data 512 = .ok fh ∧
      hh.sig = fh.sig ∧ hh.ver = fh.ver ∧ hh.descSec = fh.descSec ∧ hh.descNum = fh.descNum ∧
      fh.gdOffset ≠ Gen.vmdkGdAtEnd := by
  unfold vmdkCheckFooter at h
  simp only [bind, Except.bind] at h
  cases h1 : s.region "header" with
  | error e => simp [h1] at h
  | ok hr =>
    cases h2 : s.region "footer" with
    | error e => simp [h1, h2] at h
    | ok fr =>
      cases h3 : parseSparseHeader hr.data 0 with
      | error e => simp [h1, h2, h3] at h
      | ok hh =>
        cases h4 : parseSparseHeader fr.data 512 with
        | error e => simp [h1, h2, h3, h4] at h
        | ok fh =>
          simp only [h1, h2, h3, h4] at h
          refine ⟨hr, fr, hh, fh, rfl, rfl, h3, h4, ?_⟩
          by_cases a1 : hh.sig = fh.sig
          · by_cases a2 : hh.ver = fh.ver
            · by_cases a3 : hh.descSec = fh.descSec
              · by_cases a4 : hh.descNum = fh.descNum
                · by_cases a5 : fh.gdOffset = Gen.vmdkGdAtEnd
                  · simp [a1, a2, a3, a4, a5, pure, Except.pure] at h
                  · exact ⟨a1, a2, a3, a4, a5⟩
                · simp [a1, a2, a3, a4, pure, Except.pure] at h
              · simp [a1, a2, a3, pure, Except.pure] at h
            · simp [a1, a2, pure, Except.pure] at h
          · simp [a1, pure, Except.pure] at h

end Oslo.Insp
