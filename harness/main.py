import argparse
import importlib
import json
import os
import sys

sys.path.insert(0, os.path.dirname(os.path.abspath(__file__)))
import common  # noqa: E402


def main():
    ap = argparse.ArgumentParser()
    ap.add_argument('prop')
    ap.add_argument('--tier', default=os.environ.get('VERIF_TIER', 'quick'),
                    choices=['quick', 'thorough'])
    ap.add_argument('--replay')
    args = ap.parse_args()
    try:
        seed = int(os.environ.get('VERIF_SEED', '0'))
    except ValueError:
        seed = 0
    os.chdir(common.VERIF)
    prop = importlib.import_module('props.' + args.prop)
    if args.replay:
        payload = json.load(open(args.replay))
        ctx = common.Ctx(prop, args.tier, seed)
        ctx.driver = common.Driver(prop.DRIVER)
        sys.exit(prop.replay(ctx, payload) or 0)
    sys.exit(common.run_check(prop, args.tier, seed))


if __name__ == '__main__':
    try:
        main()
    except SystemExit:
        raise
    except BaseException:
        import traceback
        traceback.print_exc()
        sys.exit(2)
