import OsloModel.Proto
import OsloModel.Version
open Oslo Oslo.Version Oslo.Proto

/-- the abstract version value on the wire: (dense rank of packaging's key, major) -/
abbrev WV := Nat × Nat

/-- dictionary `hexstr=rank:major;hexstr=I;…` ("-" = empty): outcome of `Version(s)` -/
def parseDict (s : String) : Option (List (List Char × Option WV)) :=
  if s = "-" then some [] else
  (s.splitOn ";").mapM fun item =>
    match item.splitOn "=" with
    | [k, v] =>
      match unhexChars k with
      | none => none
      | some key =>
        if v = "I" then some (key, none) else
        match v.splitOn ":" with
        | [r, m] =>
          match r.toNat?, m.toNat? with
          | some r, some m => some (key, some (r, m))
          | _, _ => none
        | _ => none
    | _ => none

def lookupDict (d : List (List Char × Option WV)) (s : List Char) : Option (Option WV) :=
  match d.find? (fun kv => kv.1 = s) with
  | some kv => some kv.2
  | none => none

def wirePep (d : List (List Char × Option WV)) : Pep WV where
  parse s := match lookupDict d s with
    | some (some v) => some v
    | _ => none
  major v := v.2
  lt a b := a.1 < b.1
  le a b := a.1 ≤ b.1
  eq a b := a.1 == b.1
  gt a b := a.1 > b.1
  ge a b := a.1 ≥ b.1
  ne a b := a.1 != b.1

def showErr : Err → String
  | .valueError => "ValueError" | .invalidVersion => "InvalidVersion"
  | .typeError => "TypeError" | .keyError => "KeyError"

def showInts (l : List Int) : String :=
  if l.isEmpty then "-" else String.intercalate "," (l.map toString)

def showIntOut : Except Err IntOut → String
  | .ok (.int v) => s!"int:{v}"
  | .ok .noneVal => "None"
  | .error e => showErr e

def showBool (b : Bool) : String := if b then "bool:1" else "bool:0"

/-- version strings the predicate model will hand to `Version(…)` that the dictionary lacks -/
def missing (d : List (List Char × Option WV)) (ss : List (List Char)) : List (List Char) :=
  (ss.filter (fun s => (lookupDict d s).isNone)).eraseDups

def needReply (ms : List (List Char)) : String :=
  "need:" ++ String.intercalate "," (ms.map hexChars)

def parseIntList (s : String) : Option (List Int) :=
  if s = "-" then some [] else (s.splitOn ",").mapM String.toInt?

def handle : List String → String
  | ["tuple", s] =>
    match unhexChars s with
    | some s =>
      match toTuple s with
      | .ok l => "ok:" ++ showInts l
      | .error e => showErr e
    | none => "bad-request"
  | ["int_s", s] =>
    match unhexChars s with
    | some s => showIntOut (toInt (.str s))
    | none => "bad-request"
  | ["int_t", l] =>
    match parseIntList l with
    | some l => showIntOut (toInt (.tuple l))
    | none => "bad-request"
  | ["int_o"] => showIntOut (toInt .other)
  | ["str", n] =>
    match n.toInt? with
    | some n =>
      match toStrInt n with
      | some s => "str:" ++ hexChars s
      | none => "diverges"
    | none => "bad-request"
  | ["pyint", s] =>
    match unhexChars s with
    | some s =>
      match pyInt s with
      | some v => s!"int:{v}"
      | none => "ValueError"
    | none => "bad-request"
  | ["compat", r, c, sm, d] =>
    match unhexChars r, unhexChars c, parseDict d with
    | some r, some c, some d =>
      if sm ≠ "0" ∧ sm ≠ "1" then "bad-request" else
      match missing d [r, c] with
      | [] =>
        match isCompatible (wirePep d) r c (sm = "1") with
        | .ok b => showBool b
        | .error e => showErr e
      | ms => needReply ms
    | _, _, _ => "bad-request"
  | ["match", p] =>
    match unhexChars p with
    | some p =>
      match matchPiece p with
      | some (c, v) => "m:" ++ hexChars c ++ ":" ++ hexChars v
      | none => "nomatch"
    | none => "bad-request"
  | ["pred", p, v, d] =>
    match unhexChars p, unhexChars v, parseDict d with
    | some p, some v, some d =>
      let asked := v :: (splitOn ',' p).filterMap (fun piece => (matchPiece piece).map (·.2))
      match missing d asked with
      | [] =>
        let P := wirePep d
        match mkPredicate P p with
        | .error e => "init:" ++ showErr e
        | .ok pred =>
          let wb := "\tconds=" ++ (if pred.isEmpty then "-" else
            String.intercalate "," (pred.map fun cw => hexChars cw.1 ++ ":" ++ toString cw.2.1))
          match satisfiedBy P pred v with
          | .ok b => showBool b ++ wb
          | .error e => "sat:" ++ showErr e ++ wb
      | ms => needReply ms
    | _, _, _ => "bad-request"
  | ["predseq", p, vs, d] =>
    match unhexChars p, (vs.splitOn ",").mapM unhexChars, parseDict d with
    | some p, some vs, some d =>
      let asked := vs ++ (splitOn ',' p).filterMap (fun piece => (matchPiece piece).map (·.2))
      match missing d asked with
      | [] =>
        let P := wirePep d
        match mkPredicate P p with
        | .error e => "init:" ++ showErr e
        | .ok pred =>
          let wb := "\tconds=" ++ (if pred.isEmpty then "-" else
            String.intercalate "," (pred.map fun cw => hexChars cw.1 ++ ":" ++ toString cw.2.1))
          String.intercalate ";" ((satRun P pred vs).map fun
            | .ok b => showBool b
            | .error e => "sat:" ++ showErr e) ++ wb
      | ms => needReply ms
    | _, _, _ => "bad-request"
  | _ => "bad-request"

def main : IO Unit := serve handle
