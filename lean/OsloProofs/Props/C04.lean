/-
C04 — mask_password hides every supported secret and changes nothing else.

Property theorems only (helper lemmas live in OsloProofs/Lemmas/C04*.lean).
The model is OsloModel/Mask.lean over the *generated* tables
(OsloModel/Generated/Mask.lean, written from the live strutils on every run).
-/
import OsloModel.Mask
import OsloProofs.Lemmas.C04Flat
import OsloProofs.Lemmas.C04Mask
namespace Oslo.Mask
open Oslo.Flat

/-! ### the tables -/

/-- the 35 keys named by the property (strutils.py:69-79 at the pinned commit) -/
def specKeys : List String :=
  ["adminpass", "admin_pass", "password", "admin_password", "auth_token", "new_pass", "auth_password",
   "secret_uuid", "secret", "sys_pswd", "token", "configdrive", "chappassword", "encrypted_key",
   "private_key", "fernetkey", "sslkey", "passphrase", "cephclusterfsid", "octaviaheartbeatkey",
   "rabbitcookie", "cephmanilaclientkey", "pacemakerremoteauthkey", "designaterndckey", "cephadminkey",
   "heatauthencryptionkey", "cephclientkey", "keystonecredential", "barbicansimplecryptokek", "cephrgwkey",
   "swifthashsuffix", "migrationsshkey", "cephmdskey", "cephmonkey", "chapsecret"]

/-- every key the property names is in the list the code uses -/
theorem sanitize_keys_cover_spec : ∀ k ∈ specKeys, k.toList ∈ Gen.sanitizeKeys := by decide

/-! The reviewed templates: what the twelve patterns of strutils.py:91-108 compile to, with the key
abstracted, case-insensitivity folded in and `\s` = `Gen.wsRanges`. -/

def digitC : Cls := cls [(48, 57)]                                   -- [0-9]
def wsC : Cls := cls Gen.wsRanges                                     -- \s
def eqC : Cls := cls [(61, 61)]                                       -- [=]
def quoteC : Cls := cls [(34, 34), (39, 39)]                          -- ["']
def dqC : Cls := cls [(34, 34)]
def sqC : Cls := cls [(39, 39)]
def nquoteC : Cls := ncls [(34, 34), (39, 39)]                        -- [^"']
def bareC : Cls := ncls (Gen.wsRanges ++ [(34, 34), (39, 39)])        -- [^\s'"]
def dashValC : Cls := ncls (Gen.wsRanges ++ [(34, 34), (39, 39), (61, 61)])  -- [^'"=\s]
def dashC : Cls := cls [(45, 45)]
def uC : Cls := cls [(85, 85), (117, 117)]                            -- u under IGNORECASE
def flagC : Cls := cls [(65, 122), (304, 305), (383, 383), (8490, 8490)]  -- [A-z] under IGNORECASE
def colonC : Cls := cls [(58, 58)]
def commaC : Cls := cls [(44, 44)]
def ltC : Cls := cls [(60, 60)]
def gtC : Cls := cls [(62, 62)]
def slashC : Cls := cls [(47, 47)]

def tplEqQuoted : Template := ⟨[.key, star digitC, star wsC, one eqC, star wsC, one quoteC], [star nquoteC], [one quoteC]⟩
def tplEqDq : Template := ⟨[.key, star digitC, star wsC, one eqC, star wsC, one dqC], [star (ncls [(34, 34)])], [one dqC]⟩
def tplEqSq : Template := ⟨[.key, star digitC, star wsC, one eqC, star wsC, one sqC], [star (ncls [(39, 39)])], [one sqC]⟩
def tplKeyQuoted : Template := ⟨[.key, star digitC, plus wsC, one quoteC], [star nquoteC], [one quoteC]⟩
def tplDashDash : Template := ⟨[rep dashC 2 (some 2), .key, star digitC, plus wsC], [plus dashValC], [star wsC]⟩
def tplXml : Template := ⟨[one ltC, .key, star digitC, one gtC], [star (ncls [(60, 60)])],
                          [one ltC, one slashC, .key, star digitC, one gtC]⟩
def tplColonQuoted : Template :=
  ⟨[one quoteC, .key, star digitC, one quoteC, star wsC, one colonC, star wsC, one quoteC], [star nquoteC], [one quoteC]⟩
def tplColonPrefixed : Template :=
  ⟨[one quoteC, star nquoteC, .key, star digitC, one quoteC, star wsC, one colonC, star wsC, opt uC, one quoteC],
   [star nquoteC], [one quoteC]⟩
def tplCmdList : Template :=
  ⟨[one quoteC, star nquoteC, .key, star digitC, one quoteC, star wsC, one commaC, star wsC, one sqC, one dashC,
    opt dashC, plus flagC, one sqC, star wsC, one commaC, star wsC, opt uC, one quoteC],
   [star nquoteC], [one quoteC]⟩
def tplCmdFlag : Template :=
  ⟨[.key, star digitC, star wsC, one dashC, opt dashC, plus flagC, star wsC], [plus (ncls Gen.wsRanges)], [star wsC]⟩
def tplEqBare : Template := ⟨[.key, star digitC, star wsC, one eqC, star wsC], [plus bareC], []⟩
def tplWildcard : Template :=
  ⟨[one quoteC, star nquoteC, .key, star digitC, one quoteC, star wsC, one colonC, star wsC, opt uC, one quoteC,
    star (ncls []), one quoteC],
   [star nquoteC], [one quoteC]⟩

/-- the generated templates (from the live compiled patterns) are the reviewed ones, in the code's order;
    an edited, added, removed or reordered pattern breaks this -/
theorem templates_as_reviewed :
    Gen.patterns2 = [tplEqQuoted, tplEqDq, tplEqSq, tplKeyQuoted, tplDashDash, tplXml, tplColonQuoted,
                     tplColonPrefixed, tplCmdList, tplCmdFlag] ∧
    Gen.patterns1 = [tplEqBare] ∧ Gen.patternsWildcard = [tplWildcard] ∧
    Gen.ignoreCase = true ∧ Gen.foldExtra = [(105, [304, 305]), (107, [8490]), (115, [383])] := by
  decide

/-! ### no key, no change -/

theorem lemma_maskWith_nokey (mask msg : List Char) : ∀ (keys : List (List Char)),
    (∀ key ∈ keys, isInfix key (pyLower msg) = false) → maskWith keys mask msg = msg := by
  intro keys
  induction keys with
  | nil => intro _; rfl
  | cons k keys ih =>
    intro h
    have hk : isInfix k (pyLower msg) = false := h k (by simp)
    have : maskStep mask msg k = msg := by simp [maskStep, hk]
    simp only [maskWith, List.foldl_cons, this]
    exact ih (fun key hkey => h key (by simp [hkey]))

/-- a message in whose lower-casing no sanitize key occurs is returned unchanged (every message, every mask) -/
theorem mask_nokey_id (msg mask : List Char)
    (h : ∀ key ∈ Gen.sanitizeKeys, isInfix key (pyLower msg) = false) : maskPassword msg mask = msg :=
  lemma_maskWith_nokey mask msg Gen.sanitizeKeys h

example : ∀ key ∈ Gen.sanitizeKeys, isInfix key (pyLower "user=bob pass word=1 ſecret=2".toList) = false := by
  decide

/-! ### rendering `key=value` (bare): the pattern of `_FORMAT_PATTERNS_1` -/

theorem lemma_inRanges_append (n : Nat) : ∀ (a b : List (Nat × Nat)), inRanges n (a ++ b) = (inRanges n a || inRanges n b) := by
  intro a
  induction a with
  | nil => intro b; simp [inRanges]
  | cons x a ih => intro b; obtain ⟨lo, hi⟩ := x; simp [inRanges, ih, Bool.or_assoc]

theorem lemma_ws_not_digit (c : Char) (h : wsC.test c = true) : digitC.test c = false := by
  simp only [wsC, digitC, cls, Cls.test, Gen.wsRanges, inRanges] at h ⊢
  simp at h ⊢
  omega

theorem lemma_bare_not_ws (c : Char) (h : bareC.test c = true) : wsC.test c = false := by
  simp only [bareC, wsC, ncls, cls, Cls.test, lemma_inRanges_append] at h ⊢
  simp at h ⊢
  exact h.1

theorem lemma_matchPat_eq_bare (K K' ds w1 w2 secret post : List Char)
    (hK : keyMatch K K' = true) (hds : ∀ c ∈ ds, digitC.test c = true) (hw1 : ∀ c ∈ w1, wsC.test c = true)
    (hw2 : ∀ c ∈ w2, wsC.test c = true) (hsec : secret ≠ []) (hsecV : ∀ c ∈ secret, bareC.test c = true)
    (hpost : ∀ c, post.head? = some c → bareC.test c = false) :
    matchPat (tplEqBare.inst (keyItems K)) (K' ++ (ds ++ (w1 ++ ('=' :: (w2 ++ (secret ++ post)))))) =
      some ⟨(secret ++ post).length, post.length, post.length⟩ := by
  unfold matchPat
  simp only [tplEqBare, Template.inst, instItems, star, one, plus]
  rw [matchSeq_keyItems, keyPrefix_of_keyMatch K K' _ hK, if_pos rfl]
  rw [← keyMatch_length K K' hK, List.drop_left]
  -- [0-9]*
  apply matchSeq_cons_greedy _ _ _ ds _ _ rfl (Nat.zero_le _) hds
  · apply head_append_of_all _ w1 _ (fun c hc => lemma_ws_not_digit c (hw1 c hc))
    intro c hc; simp at hc; subst hc; decide
  -- \s*
  apply matchSeq_cons_greedy _ _ _ w1 _ _ rfl (Nat.zero_le _) hw1
  · intro c hc; simp at hc; subst hc; decide
  -- [=]
  rw [matchSeq_one]
  simp only [show eqC.test '=' = true by decide, if_true]
  -- \s*
  apply matchSeq_cons_greedy _ _ _ w2 _ _ rfl (Nat.zero_le _) hw2
  · intro c hc
    cases secret with
    | nil => exact absurd rfl hsec
    | cons x xs => simp at hc; subst hc; exact lemma_bare_not_ws _ (hsecV _ (by simp))
  -- [^\s'"]+ , end of pattern
  apply matchSeq_cons_greedy _ _ _ secret post _ rfl _ hsecV hpost
  · simp [matchSeq]
  · cases secret with
    | nil => exact absurd rfl hsec
    | cons x xs => simp

/-- **Rendering `key = value` (bare), one pattern.**  For every key `K`, every spelling `K'` of it that the
compiled pattern accepts (any letter case, and the non-ASCII characters IGNORECASE equates), every digit
suffix, any whitespace around `=`, every non-empty secret over the value class of the generated template
(`[^\s'"]`, so regex metacharacters, `=`, `^`, non-ASCII … included), every mask, every prefix in which the
key does not start before the rendering, every suffix that does not continue the value and does not contain
the key: `re.sub` of the `_FORMAT_PATTERNS_1` pattern of `K` replaces exactly the value by the mask.

`_partial`: this is the substitution of the *one* pattern that is responsible for the rendering (full
generality in key, spelling, secret, mask and surroundings).  Missing for the statement about
`mask_password` as a whole: that the ten `_FORMAT_PATTERNS_2` patterns and the WILDCARD pattern of `K`, and
the patterns of every other key present in the message, leave this message alone (they do not in the listed
classes KF_C04_NESTED / KF_C04_FLAGVALUE; the correspondence and the search cover the composition). -/
theorem mask_rendering_eq_bare_partial (K K' ds w1 w2 secret pre post mask : List Char)
    (hK : keyMatch K K' = true) (hds : ∀ c ∈ ds, digitC.test c = true) (hw1 : ∀ c ∈ w1, wsC.test c = true)
    (hw2 : ∀ c ∈ w2, wsC.test c = true) (hsec : secret ≠ []) (hsecV : ∀ c ∈ secret, bareC.test c = true)
    (hpost : ∀ c, post.head? = some c → bareC.test c = false)
    (hpre : ∀ j, j < pre.length →
      keyPrefix K (pre.drop j ++ (K' ++ ds ++ w1 ++ ['='] ++ w2 ++ secret ++ post)) = false)
    (hpostK : occursCI K post = false) :
    subPat (tplEqBare.inst (keyItems K)) rep1 mask (pre ++ (K' ++ ds ++ w1 ++ ['='] ++ w2 ++ secret ++ post))
      = pre ++ (K' ++ ds ++ w1 ++ ['='] ++ w2 ++ mask ++ post) := by
  have hkey : TItem.key ∈ tplEqBare.g1 := by simp [tplEqBare]
  unfold subPat
  rw [subAux_prefix]
  · congr 1
    -- the match at the rendering
    have hassoc : K' ++ ds ++ w1 ++ ['='] ++ w2 ++ secret ++ post
        = (K' ++ ds ++ w1 ++ ['='] ++ w2 ++ secret) ++ post := by simp
    have hm := lemma_matchPat_eq_bare K K' ds w1 w2 secret post hK hds hw1 hw2 hsec hsecV hpost
    have hflat : K' ++ (ds ++ (w1 ++ ('=' :: (w2 ++ (secret ++ post)))))
        = (K' ++ ds ++ w1 ++ ['='] ++ w2 ++ secret) ++ post := by simp
    rw [hflat] at hm
    rw [hassoc, subAux_match _ (K' ++ ds ++ w1 ++ ['='] ++ w2 ++ secret) post (K' ++ ds ++ w1 ++ ['='] ++ w2 ++ mask)]
    · have := subPat_noKey tplEqBare rep1 K mask post hkey hpostK
      unfold subPat at this
      rw [this]
    · simp
    · simp only [matchRepl, hm]
      have h1 : (K' ++ ds ++ w1 ++ ['='] ++ w2 ++ secret ++ post).length - post.length
          = (K' ++ ds ++ w1 ++ ['='] ++ w2 ++ secret).length := by
        simp only [List.length_append, List.length_cons, List.length_nil]; omega
      have h2 : K' ++ ds ++ w1 ++ ['='] ++ w2 ++ secret ++ post
          = (K' ++ ds ++ w1 ++ ['='] ++ w2) ++ (secret ++ post) := by simp
      rw [h1]
      congr 2
      rw [h2, take_length_sub]
      simp [rep1, expand]
  · intro j hj
    apply matchRepl_none
    unfold matchPat
    simp only [tplEqBare, Template.inst, instItems]
    rw [matchSeq_keyItems, hpre j hj]
    simp

/-- non-vacuity: a concrete instance of every hypothesis (mixed-case key with a digit suffix, a secret made of
    regex metacharacters and a non-ASCII case-fold character, neutral surroundings) -/
example :
    let K := "password".toList; let K' := "PassWord".toList; let ds := "12".toList
    let w1 := " ".toList; let w2 : List Char := []; let secret := "a^b$c.*ſ=".toList
    let pre := "user=x pass ".toList; let post := " and more".toList
    keyMatch K K' = true ∧ (∀ c ∈ ds, digitC.test c = true) ∧ (∀ c ∈ w1, wsC.test c = true) ∧
    (∀ c ∈ w2, wsC.test c = true) ∧ secret ≠ [] ∧ (∀ c ∈ secret, bareC.test c = true) ∧
    (∀ c, post.head? = some c → bareC.test c = false) ∧
    (∀ j, j < pre.length → keyPrefix K (pre.drop j ++ (K' ++ ds ++ w1 ++ ['='] ++ w2 ++ secret ++ post)) = false) ∧
    occursCI K post = false := by
  decide

/-- … and the whole model on that message (all patterns of all keys) -/
example : maskPassword "user=x pass PassWord12 =a^b$c.*ſ= and more".toList "***".toList
    = "user=x pass PassWord12 =*** and more".toList := by decide +kernel

/-- masking an already masked `key=value` message changes nothing (one pattern; same restriction as
    `mask_rendering_eq_bare_partial`), for every non-empty mask over the value class -/
theorem mask_idempotent_on_masked_eq_bare_partial (K K' ds w1 w2 pre post mask : List Char)
    (hK : keyMatch K K' = true) (hds : ∀ c ∈ ds, digitC.test c = true) (hw1 : ∀ c ∈ w1, wsC.test c = true)
    (hw2 : ∀ c ∈ w2, wsC.test c = true) (hmask : mask ≠ []) (hmaskV : ∀ c ∈ mask, bareC.test c = true)
    (hpost : ∀ c, post.head? = some c → bareC.test c = false)
    (hpre : ∀ j, j < pre.length →
      keyPrefix K (pre.drop j ++ (K' ++ ds ++ w1 ++ ['='] ++ w2 ++ mask ++ post)) = false)
    (hpostK : occursCI K post = false) :
    subPat (tplEqBare.inst (keyItems K)) rep1 mask (pre ++ (K' ++ ds ++ w1 ++ ['='] ++ w2 ++ mask ++ post))
      = pre ++ (K' ++ ds ++ w1 ++ ['='] ++ w2 ++ mask ++ post) :=
  mask_rendering_eq_bare_partial K K' ds w1 w2 mask pre post mask hK hds hw1 hw2 hmask hmaskV hpost hpre hpostK

end Oslo.Mask
