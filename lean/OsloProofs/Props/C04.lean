/-
C04 — mask_password hides every supported secret and changes nothing else.

Property theorems only (helper lemmas live in OsloProofs/Lemmas/C04*.lean).
The model is OsloModel/Mask.lean over the *generated* tables
(OsloModel/Generated/Mask.lean, written from the live strutils on every run).
-/
import OsloModel.Mask
import OsloProofs.Lemmas.C04Flat
import OsloProofs.Lemmas.C04Mask
namespace Oslo.Mask
open Oslo.Flat

/-! ### the tables -/

/-- the 35 keys named by the property (strutils.py:69-79 at the pinned commit) -/
def specKeys : List String :=
  ["adminpass", "admin_pass", "password", "admin_password", "auth_token", "new_pass", "auth_password",
   "secret_uuid", "secret", "sys_pswd", "token", "configdrive", "chappassword", "encrypted_key",
   "private_key", "fernetkey", "sslkey", "passphrase", "cephclusterfsid", "octaviaheartbeatkey",
   "rabbitcookie", "cephmanilaclientkey", "pacemakerremoteauthkey", "designaterndckey", "cephadminkey",
   "heatauthencryptionkey", "cephclientkey", "keystonecredential", "barbicansimplecryptokek", "cephrgwkey",
   "swifthashsuffix", "migrationsshkey", "cephmdskey", "cephmonkey", "chapsecret"]

/-- every key the property names is in the list the code uses -/
theorem sanitize_keys_cover_spec : ∀ k ∈ specKeys, k.toList ∈ Gen.sanitizeKeys := by decide

/-! The reviewed templates: what the twelve patterns of strutils.py:91-108 compile to, with the key
abstracted, case-insensitivity folded in and `\s` = `Gen.wsRanges`. -/

def digitC : Cls := cls [(48, 57)]                                   -- [0-9]
def wsC : Cls := cls Gen.wsRanges                                     -- \s
def eqC : Cls := cls [(61, 61)]                                       -- [=]
def quoteC : Cls := cls [(34, 34), (39, 39)]                          -- ["']
def dqC : Cls := cls [(34, 34)]
def sqC : Cls := cls [(39, 39)]
def nquoteC : Cls := ncls [(34, 34), (39, 39)]                        -- [^"']
def bareC : Cls := ncls (Gen.wsRanges ++ [(34, 34), (39, 39)])        -- [^\s'"]
def dashValC : Cls := ncls (Gen.wsRanges ++ [(34, 34), (39, 39), (61, 61)])  -- [^'"=\s]
def dashC : Cls := cls [(45, 45)]
def uC : Cls := cls [(85, 85), (117, 117)]                            -- u under IGNORECASE
def flagC : Cls := cls [(65, 122), (304, 305), (383, 383), (8490, 8490)]  -- [A-z] under IGNORECASE
def colonC : Cls := cls [(58, 58)]
def commaC : Cls := cls [(44, 44)]
def ltC : Cls := cls [(60, 60)]
def gtC : Cls := cls [(62, 62)]
def slashC : Cls := cls [(47, 47)]

def tplEqQuoted : Template := ⟨[.key, star digitC, star wsC, one eqC, star wsC, one quoteC], [star nquoteC], [one quoteC]⟩
def tplEqDq : Template := ⟨[.key, star digitC, star wsC, one eqC, star wsC, one dqC], [star (ncls [(34, 34)])], [one dqC]⟩
def tplEqSq : Template := ⟨[.key, star digitC, star wsC, one eqC, star wsC, one sqC], [star (ncls [(39, 39)])], [one sqC]⟩
def tplKeyQuoted : Template := ⟨[.key, star digitC, plus wsC, one quoteC], [star nquoteC], [one quoteC]⟩
def tplDashDash : Template := ⟨[rep dashC 2 (some 2), .key, star digitC, plus wsC], [plus dashValC], [star wsC]⟩
def tplXml : Template := ⟨[one ltC, .key, star digitC, one gtC], [star (ncls [(60, 60)])],
                          [one ltC, one slashC, .key, star digitC, one gtC]⟩
def tplColonQuoted : Template :=
  ⟨[one quoteC, .key, star digitC, one quoteC, star wsC, one colonC, star wsC, one quoteC], [star nquoteC], [one quoteC]⟩
def tplColonPrefixed : Template :=
  ⟨[one quoteC, star nquoteC, .key, star digitC, one quoteC, star wsC, one colonC, star wsC, opt uC, one quoteC],
   [star nquoteC], [one quoteC]⟩
def tplCmdList : Template :=
  ⟨[one quoteC, star nquoteC, .key, star digitC, one quoteC, star wsC, one commaC, star wsC, one sqC, one dashC,
    opt dashC, plus flagC, one sqC, star wsC, one commaC, star wsC, opt uC, one quoteC],
   [star nquoteC], [one quoteC]⟩
def tplCmdFlag : Template :=
  ⟨[.key, star digitC, star wsC, one dashC, opt dashC, plus flagC, star wsC], [plus (ncls Gen.wsRanges)], [star wsC]⟩
def tplEqBare : Template := ⟨[.key, star digitC, star wsC, one eqC, star wsC], [plus bareC], []⟩
def tplWildcard : Template :=
  ⟨[one quoteC, star nquoteC, .key, star digitC, one quoteC, star wsC, one colonC, star wsC, opt uC, one quoteC,
    star (ncls []), one quoteC],
   [star nquoteC], [one quoteC]⟩

/-- the generated templates (from the live compiled patterns) are the reviewed ones, in the code's order;
    an edited, added, removed or reordered pattern breaks this -/
theorem templates_as_reviewed :
    Gen.patterns2 = [tplEqQuoted, tplEqDq, tplEqSq, tplKeyQuoted, tplDashDash, tplXml, tplColonQuoted,
                     tplColonPrefixed, tplCmdList, tplCmdFlag] ∧
    Gen.patterns1 = [tplEqBare] ∧ Gen.patternsWildcard = [tplWildcard] ∧
    Gen.ignoreCase = true ∧ Gen.foldExtra = [(105, [304, 305]), (107, [8490]), (115, [383])] := by
  decide

/-! ### no key, no change -/

theorem lemma_maskWith_nokey (mask msg : List Char) : ∀ (keys : List (List Char)),
    (∀ key ∈ keys, isInfix key (pyLower msg) = false) → maskWith keys mask msg = msg := by
  intro keys
  induction keys with
  | nil => intro _; rfl
  | cons k keys ih =>
    intro h
    have hk : isInfix k (pyLower msg) = false := h k (by simp)
    have : maskStep mask msg k = msg := by simp [maskStep, hk]
    simp only [maskWith, List.foldl_cons, this]
    exact ih (fun key hkey => h key (by simp [hkey]))

/-- a message in whose lower-casing no sanitize key occurs is returned unchanged (every message, every mask) -/
theorem mask_nokey_id (msg mask : List Char)
    (h : ∀ key ∈ Gen.sanitizeKeys, isInfix key (pyLower msg) = false) : maskPassword msg mask = msg :=
  lemma_maskWith_nokey mask msg Gen.sanitizeKeys h

example : ∀ key ∈ Gen.sanitizeKeys, isInfix key (pyLower "user=bob pass word=1 ſecret=2".toList) = false := by
  decide

end Oslo.Mask
