/-
Helper lemmas for C16 (not property theorems): the ASCII slug pipeline of OsloModel/Slug.lean.
The facts about the generated character tables are `decide`d over all 128 ASCII code points,
so a changed regular expression re-checks (or breaks) them.
-/
import OsloModel.Slug
import OsloProofs.Lemmas.C16Codec
namespace Oslo.C16
open Oslo.Encode Oslo.Slug

/-- the slug alphabet: lowercase ASCII letters, digits, underscore, hyphen -/
def SlugChar (c : Char) : Prop :=
  ('a' ≤ c ∧ c ≤ 'z') ∨ ('0' ≤ c ∧ c ≤ '9') ∨ c = '_' ∨ c = '-'

instance (c : Char) : Decidable (SlugChar c) := by unfold SlugChar; infer_instance

theorem lemma_slugChar_ascii (c : Char) (h : SlugChar c) : c.toNat < 128 := by
  have key : ∀ d : Char, c ≤ d → d.toNat < 128 → c.toNat < 128 := by
    intro d hd hn
    have : c.toNat ≤ d.toNat := by simpa [Char.le_def, UInt32.le_iff_toNat_le] using hd
    omega
  rcases h with h | h | h | h
  · exact key 'z' h.2 (by decide)
  · exact key '9' h.2 (by decide)
  · subst h; decide
  · subst h; decide

/-! ### facts about the generated tables (complete enumeration of ASCII) -/

theorem lemma_tab_plus : Oslo.Generated.C16.hyphenPlus = true := by decide

theorem lemma_tab_hyphen_in : inHyphen '-' = true := by decide

/-- a kept, non-hyphenated ASCII character lower-cases into the slug alphabet -/
theorem lemma_tab_alphabet : ∀ n, n < 128 →
    inStrip (Char.ofNat n) = false → inHyphen (lowerAscii (Char.ofNat n)) = false →
    SlugChar (lowerAscii (Char.ofNat n)) := by decide +kernel

/-- a slug character is kept by the strip regex, is not white space, is its own lower case, and is
    in the hyphenate class only if it is the hyphen -/
theorem lemma_tab_fix : ∀ n, n < 128 → SlugChar (Char.ofNat n) →
    inStrip (Char.ofNat n) = false ∧ isSpace (Char.ofNat n) = false ∧
    lowerAscii (Char.ofNat n) = Char.ofNat n ∧
    (inHyphen (Char.ofNat n) = true → Char.ofNat n = '-') := by decide +kernel

theorem lemma_alphabet_char (c : Char) (ha : c.toNat < 128) (h1 : inStrip c = false)
    (h2 : inHyphen (lowerAscii c) = false) : SlugChar (lowerAscii c) := by
  have := lemma_tab_alphabet c.toNat ha
  simp only [Char.ofNat_toNat] at this
  exact this h1 h2

theorem lemma_fix_char (c : Char) (h : SlugChar c) :
    inStrip c = false ∧ isSpace c = false ∧ lowerAscii c = c ∧ (inHyphen c = true → c = '-') := by
  have := lemma_tab_fix c.toNat (lemma_slugChar_ascii c h)
  simp only [Char.ofNat_toNat] at this
  exact this h

/-! ### the hyphenate step -/

/-- no class character follows a class character, and every class character is a hyphen -/
def Good : Bool → Text → Prop
  | _, [] => True
  | prev, c :: r => (inHyphen c = true → c = '-' ∧ prev = false) ∧ Good (inHyphen c) r

theorem lemma_hyphenate_good (p : Bool) (l : Text) : Good p (hyphenateAux p l) := by
  induction l generalizing p with
  | nil => simp [hyphenateAux, Good]
  | cons c r ih =>
    simp only [hyphenateAux, lemma_tab_plus, Bool.and_true]
    by_cases hc : inHyphen c = true
    · cases p with
      | true => simpa [hc] using ih true
      | false =>
        simp only [hc, if_true, Bool.false_eq_true, if_false, Good, lemma_tab_hyphen_in]
        exact ⟨fun _ => by simp, ih true⟩
    · have hc' : inHyphen c = false := by simpa using hc
      simp only [hc', Bool.false_eq_true, if_false, Good]
      exact ⟨fun h => by simp at h, ih false⟩

theorem lemma_good_fix (p : Bool) (l : Text) (h : Good p l) : hyphenateAux p l = l := by
  induction l generalizing p with
  | nil => rfl
  | cons c r ih =>
    obtain ⟨h1, h2⟩ := h
    by_cases hc : inHyphen c = true
    · obtain ⟨e1, e2⟩ := h1 hc
      subst e1; subst e2
      rw [hc] at h2
      simp [hyphenateAux, hc, ih true h2]
    · have hc' : inHyphen c = false := by simpa using hc
      rw [hc'] at h2
      simp [hyphenateAux, hc', ih false h2]

theorem lemma_good_nodouble (p : Bool) (l : Text) (h : Good p l) : ¬ (['-', '-'] <:+: l) := by
  induction l generalizing p with
  | nil => simp
  | cons c r ih =>
    obtain ⟨h1, h2⟩ := h
    rw [List.infix_cons_iff]
    rintro (hp | hi)
    · cases r with
      | nil => simp at hp
      | cons d r' =>
        simp only [List.cons_prefix_cons] at hp
        obtain ⟨e1, e2, _⟩ := hp
        subst e1; subst e2
        rw [lemma_tab_hyphen_in] at h2
        obtain ⟨h3, _⟩ := h2
        have := (h3 lemma_tab_hyphen_in).2
        simp at this
    · exact ih _ h2 hi

theorem lemma_hyphenate_mem (p : Bool) (l : Text) :
    ∀ c ∈ hyphenateAux p l, c = '-' ∨ (c ∈ l ∧ inHyphen c = false) := by
  induction l generalizing p with
  | nil => simp [hyphenateAux]
  | cons a r ih =>
    intro c hc
    simp only [hyphenateAux] at hc
    by_cases ha : inHyphen a = true
    · simp only [ha, if_true] at hc
      split at hc
      · rcases ih _ c hc with h | h
        · exact Or.inl h
        · exact Or.inr ⟨List.mem_cons_of_mem _ h.1, h.2⟩
      · rcases List.mem_cons.mp hc with h | h
        · exact Or.inl h
        · rcases ih _ c h with h | h
          · exact Or.inl h
          · exact Or.inr ⟨List.mem_cons_of_mem _ h.1, h.2⟩
    · have ha' : inHyphen a = false := by simpa using ha
      simp only [ha', Bool.false_eq_true, if_false] at hc
      rcases List.mem_cons.mp hc with h | h
      · subst h; exact Or.inr ⟨by simp, ha'⟩
      · rcases ih _ c h with h | h
        · exact Or.inl h
        · exact Or.inr ⟨List.mem_cons_of_mem _ h.1, h.2⟩

/-! ### strip / lower on text that needs neither -/

theorem lemma_dropWhile_none (p : Char → Bool) (l : Text) (h : ∀ c ∈ l, p c = false) :
    l.dropWhile p = l := by
  cases l with
  | nil => rfl
  | cons a r => simp [List.dropWhile, h a (by simp)]

theorem lemma_pyStrip_none (l : Text) (h : ∀ c ∈ l, isSpace c = false) : pyStrip l = l := by
  unfold pyStrip
  rw [lemma_dropWhile_none _ l h, lemma_dropWhile_none _ l.reverse (by simpa using h)]
  simp

theorem lemma_pyStrip_subset (l : Text) : ∀ c ∈ pyStrip l, c ∈ l := by
  intro c hc
  unfold pyStrip at hc
  rw [List.mem_reverse] at hc
  have := List.dropWhile_subset isSpace hc
  rw [List.mem_reverse] at this
  exact List.dropWhile_subset isSpace this

theorem lemma_map_fix (f : Char → Char) (l : Text) (h : ∀ c ∈ l, f c = c) : l.map f = l := by
  induction l with
  | nil => rfl
  | cons a r ih => simp [h a (by simp), ih (fun c hc => h c (by simp [hc]))]

/-! ### the pipeline -/

/-- every character of the pipeline's output is in the slug alphabet (input ASCII) -/
theorem lemma_pipe_alphabet (v : Text) (hv : IsAscii v) : ∀ c ∈ slugPipe v, SlugChar c := by
  intro c hc
  unfold slugPipe hyphenate at hc
  rcases lemma_hyphenate_mem _ _ c hc with h | ⟨hm, hh⟩
  · exact Or.inr (Or.inr (Or.inr h))
  · unfold pyLower at hm
    obtain ⟨d, hd, rfl⟩ := List.mem_map.mp hm
    have hd' := lemma_pyStrip_subset _ d hd
    unfold stripRe at hd'
    obtain ⟨hd1, hd2⟩ := List.mem_filter.mp hd'
    exact lemma_alphabet_char d (hv d hd1) (by simpa using hd2) hh

theorem lemma_pipe_good (v : Text) : Good false (slugPipe v) := by
  unfold slugPipe hyphenate
  exact lemma_hyphenate_good _ _

/-- text over the slug alphabet without class runs is a fixed point of the pipeline -/
theorem lemma_pipe_fix (o : Text) (h1 : ∀ c ∈ o, SlugChar c) (h2 : Good false o) : slugPipe o = o := by
  have e1 : stripRe o = o := by
    unfold stripRe
    rw [List.filter_eq_self]
    intro c hc
    simp [(lemma_fix_char c (h1 c hc)).1]
  have e2 : pyStrip o = o := lemma_pyStrip_none o (fun c hc => (lemma_fix_char c (h1 c hc)).2.1)
  have e3 : pyLower o = o := lemma_map_fix _ o (fun c hc => (lemma_fix_char c (h1 c hc)).2.2.1)
  unfold slugPipe hyphenate
  rw [e1, e2, e3]
  exact lemma_good_fix false o h2

end Oslo.C16
