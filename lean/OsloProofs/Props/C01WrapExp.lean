/-
C01 for wrappers WITH an expected format, `InspectWrapper(source, expected_format=n, allowed)`:
what the wrapper concludes — whether reading the whole source through it ends normally, with the
ImageFormatError "content does not match expected format", or with the expected inspector's own
error; and, when it ends normally, everything `formats` / `format` answer after `close()` — is a
function of the bytes alone.  WHERE the stream is cut (how many chunks the reader got before the
exception) does depend on the chunking: it is the first chunk boundary at which the expected
inspector alone decides not to go on (`wrapper_expected_run`).

* `wrapper_expected_run`            — structure of the read, no hypotheses.
* `wrapper_expected_abort`          — what holds at the cut.
* `wrapper_expected_outcome_eq`     — the outcome as the function `expectedOutcomeOf` of the bytes.
* `wrapper_expected_outcome_static` — wrappers over fixed-region formats, no stream hypothesis.
* `wrapper_expected_outcome_partial`— any wrapper, hypotheses of the per-inspector theorems.
-/
import OsloProofs.Props.C01Wrap
import OsloProofs.Lemmas.WrapRunExpVhdx
namespace Oslo.Insp

/-- reading the chunk list through `InspectWrapper(source, n, allowed)` -/
def pipeExp (n : String) (allowed : List String) (cs : List Bytes) : List Bytes × Wrap Insp × POut :=
  Wrap.pipe realOps (Wrap.mk' (some n) allowed) cs []

/-- the wrapper's inspector of the expected format, if it has one -/
def expInsp (n : String) (allowed : List String) : Option Insp :=
  (Wrap.mk' none allowed).insps.find? (fun i => i.fmt.name == n)

theorem lemma_expInsp_none (n : String) (allowed : List String) (h : expInsp n allowed = none) :
    ∀ i ∈ (Wrap.mk' (some n) allowed).insps, realOps.name i ≠ n := by
  intro i hi
  have := List.find?_eq_none.mp h i hi
  show i.fmt.name ≠ n
  simpa using this

theorem lemma_expInsp_some (n : String) (allowed : List String) (x : Insp) (h : expInsp n allowed = some x) :
    x ∈ (Wrap.mk' none allowed).insps ∧ x.fmt.name = n ∧ Insp.init x.fmt = some x := by
  have hm := List.mem_of_find?_eq_some h
  have hp := List.find?_some h
  exact ⟨hm, by simpa using hp, lemma_mk_init none allowed x hm⟩

/-- **wrapper_expected_run** — structure of reading a whole chunk list through
    `InspectWrapper(source, n, allowed)`, for every `n`, `allowed` and chunk list, no hypotheses.
    If the wrapper has no inspector named `n` (unknown name, or not among `allowed`) the read is
    exactly the read without expected format: all chunks delivered, normal end, the closed wrapper
    of `wrapper_run` (with `expected = n`).  Otherwise, with `x` the wrapper's inspector named `n`:
    the reader gets exactly the first `k` chunks and the read ends with `o`, where
    `(k, o) = xrun realOps x cs` is computed from `x` ALONE — `k` is the number of chunks before the
    first chunk on which `x` raises, or is complete with `format_match` raising or `False`
    (`o` = that error / `.mismatch`); `o = .done`, `k = |cs|` if there is none — whatever the other
    inspectors do; and when `o = .done` the closed wrapper is the one of the read without expected
    format. -/
theorem wrapper_expected_run (n : String) (allowed : List String) (cs : List Bytes) :
    match expInsp n allowed with
    | none => pipeExp n allowed cs = (cs, { pipeFinal allowed cs with expected := some n }, .done)
    | some x =>
      (pipeExp n allowed cs).1 = cs.take (xrun realOps x cs).1 ∧
      (pipeExp n allowed cs).2.2 = (xrun realOps x cs).2 ∧
      ((xrun realOps x cs).2 = .done →
        (pipeExp n allowed cs).2.1 = { pipeFinal allowed cs with expected := some n }) := by
  obtain ⟨w', hp, _⟩ := wrapper_run allowed cs
  have hp' : Wrap.pipe realOps { Wrap.mk' (some n) allowed with expected := none } cs [] = (cs, w', .done) := hp
  have hfin : pipeFinal allowed cs = w' := by simp only [pipeFinal, hp]
  cases hfind : expInsp n allowed with
  | none =>
    have := lemma_pipe_absent realOps realOps_nameStable n cs (Wrap.mk' (some n) allowed) [] rfl
      (lemma_mk_distinct (some n) allowed) (lemma_expInsp_none n allowed hfind)
    simp only [pipeExp, this, hp', hfin]
  | some x =>
    obtain ⟨hx, hxn, _⟩ := lemma_expInsp_some n allowed x hfind
    obtain ⟨h1, h2, h3⟩ := lemma_pipe_expected realOps realOps_nameStable n cs (Wrap.mk' (some n) allowed) [] x rfl
      (lemma_mk_distinct (some n) allowed) hx hxn (by simp [Wrap.mk'])
    refine ⟨by simpa [pipeExp] using h1, h2, fun hd => ?_⟩
    have := h3 hd
    rw [hp'] at this
    simp only [pipeExp, this, hfin]

/-- when the read ends normally, it is the read without expected format -/
theorem lemma_exp_done (n : String) (allowed : List String) (cs : List Bytes)
    (h : (pipeExp n allowed cs).2.2 = .done) :
    pipeExp n allowed cs = (cs, { pipeFinal allowed cs with expected := some n }, .done) := by
  have hrun := wrapper_expected_run n allowed cs
  cases hfind : expInsp n allowed with
  | none => rw [hfind] at hrun; exact hrun
  | some x =>
    rw [hfind] at hrun
    obtain ⟨h1, h2, h3⟩ := hrun
    have hd : (xrun realOps x cs).2 = .done := by rw [← h2]; exact h
    have hk := (lemma_xrun_done realOps cs x hd).1
    rw [hk, List.take_length] at h1
    exact Prod.ext h1 (Prod.ext (h3 hd) h)

theorem lemma_decOf_mismatch (r : Insp × Option Err) (h : decOf realOps r = .mismatch) :
    r.2 = none ∧ r.1.complete = true ∧ formatMatch r.1 = .ok false := by
  obtain ⟨st, e⟩ := r
  cases e with
  | some e => simp [decOf] at h
  | none =>
    rw [lemma_decOf_none] at h
    unfold decI at h
    by_cases hc : st.complete = true
    · rw [if_pos hc] at h
      refine ⟨rfl, hc, ?_⟩
      cases hfm : formatMatch st with
      | error e => rw [hfm] at h; simp [ofMatch] at h
      | ok b => cases b with
        | false => rfl
        | true => rw [hfm] at h; simp [ofMatch] at h
    · rw [if_neg hc] at h; simp at h

/-- **wrapper_expected_abort** — when the read does not end normally (`o ≠ .done`), the wrapper has
    an inspector `x` of the expected format, and the chunk list splits as `pre ++ c :: post` with:
    the reader got exactly `pre` (so the bytes delivered are a prefix of the stream), `x` ate `pre`
    without raising, and `o` is what `_process_chunk` reads off `x` after `c`: `x`'s own error on
    `c`, or — `x` being complete after `c` — its `format_match` error, or `.mismatch` for `False`.
    In the `.mismatch` case: `x` after `pre ++ [c]` has not raised, is complete, and does not match. -/
theorem wrapper_expected_abort (n : String) (allowed : List String) (cs : List Bytes)
    (h : (pipeExp n allowed cs).2.2 ≠ .done) :
    ∃ x ∈ (Wrap.mk' (some n) allowed).insps, x.fmt.name = n ∧
    ∃ pre c post, cs = pre ++ c :: post ∧ (pipeExp n allowed cs).1 = pre ∧ (feed x pre).2 = none ∧
      decOf realOps (feed x (pre ++ [c])) = (pipeExp n allowed cs).2.2 ∧
      ((pipeExp n allowed cs).2.2 = .mismatch →
        (feed x (pre ++ [c])).2 = none ∧ (feed x (pre ++ [c])).1.complete = true ∧
        formatMatch (feed x (pre ++ [c])).1 = .ok false) := by
  have hrun := wrapper_expected_run n allowed cs
  cases hfind : expInsp n allowed with
  | none =>
    rw [hfind] at hrun
    rw [hrun] at h
    exact absurd rfl h
  | some x =>
    rw [hfind] at hrun
    obtain ⟨h1, h2, _⟩ := hrun
    obtain ⟨hx, hxn, _⟩ := lemma_expInsp_some n allowed x hfind
    rw [h2] at h
    obtain ⟨pre, c, post, hcs, hlen, hok, hdec⟩ := lemma_xrun_stop realOps cs x h
    rw [lemma_gfeed_real] at hok hdec
    refine ⟨x, hx, hxn, pre, c, post, hcs, ?_, hok, by rw [h2]; exact hdec, fun hm => ?_⟩
    · rw [h1, ← hlen, hcs, List.take_left]
    · rw [h2, ← hdec] at hm
      exact lemma_decOf_mismatch _ hm

/-! ## the outcome as a function of the bytes -/

/-- how the VMDK inspector, as the expected one, ends the read (valid for `VmdkSparse` /
    `VmdkNoMatch` streams) -/
def vmdkOutcome (s : Bytes) : POut :=
  if VmdkSparse s then
    (if (hdrOf s).descSec * 512 = Gen.vmdkDescOffset then .done else .raised .imageFormat)
  else (if s.length < 64 then .done else .raised .imageFormat)

/-- how the read through a wrapper whose expected inspector is `x` ends, from the bytes `s`:
    for a fixed-region format, what `_process_chunk` reads off `x` fed the whole stream in one chunk
    (`.mismatch` iff it is then complete and `format_match` is `False`) -/
def expectedOutcomeOf (x : Insp) (s : Bytes) : POut :=
  if x.fmt = .vhdx then vhdxOutcome s
  else if x.fmt = .vmdk then vmdkOutcome s
  else decI (feed x [s]).1

theorem lemma_vmdk_sparse_not_nomatch (s : Bytes) (h1 : VmdkSparse s) (h2 : VmdkNoMatch s) : False := by
  have hl4 : kdmv.length = 4 := by decide
  have := h2.1
  simp only [startsWith, hl4, h1.2.1] at this
  simp at this

/-- **wrapper_expected_outcome_eq** — for `InspectWrapper(source, n, allowed)` and every chunk list
    `cs` with bytes `s = cs.flatten`: the read ends normally if the wrapper has no inspector named
    `n`, and otherwise as `expectedOutcomeOf x s` says, `x` being that inspector — a function of the
    bytes.  No hypothesis when `n` names a fixed-region format; for `n = "vhdx"` (inspector present)
    `VhdxForward s ∧ VhdxMetaSigOK s`, for `n = "vmdk"` (present) `VmdkSparse s ∨ VmdkNoMatch s`.
    Missing: the known-finding classes KF_D7 / KF_N4 (expected VHDX) and KF_F1 / KF_F3 (expected
    VMDK) as the expected format's stream. -/
theorem wrapper_expected_outcome_eq (n : String) (allowed : List String) (cs : List Bytes)
    (hx : n = "vhdx" → (VhdxForward cs.flatten ∧ VhdxMetaSigOK cs.flatten) ∨ (allowed ≠ [] ∧ "vhdx" ∉ allowed))
    (hv : n = "vmdk" → VmdkSparse cs.flatten ∨ VmdkNoMatch cs.flatten ∨ (allowed ≠ [] ∧ "vmdk" ∉ allowed)) :
    (pipeExp n allowed cs).2.2 =
      match expInsp n allowed with
      | none => .done
      | some x => expectedOutcomeOf x cs.flatten := by
  have hrun := wrapper_expected_run n allowed cs
  cases hfind : expInsp n allowed with
  | none => rw [hfind] at hrun; rw [hrun]
  | some x =>
    rw [hfind] at hrun
    obtain ⟨_, h2, _⟩ := hrun
    obtain ⟨hxm, hxn, hinit⟩ := lemma_expInsp_some n allowed x hfind
    simp only
    rw [h2]
    unfold expectedOutcomeOf
    by_cases hs : x.fmt.static = true
    · have h1 : x.fmt ≠ .vhdx := by intro h; rw [h] at hs; simp [Fmt.static] at hs
      have h2' : x.fmt ≠ .vmdk := by intro h; rw [h] at hs; simp [Fmt.static] at hs
      rw [if_neg h1, if_neg h2']
      exact lemma_xrun_static x.fmt hs x hinit cs
    · have hcase : x.fmt = .vhdx ∨ x.fmt = .vmdk := by
        cases hf : x.fmt <;> simp_all [Fmt.static]
      rcases hcase with hf | hf
      · rw [if_pos hf]
        have hn : n = "vhdx" := by rw [← hxn, hf]; rfl
        rcases hx hn with hyp | ⟨hne, hnot⟩
        · rw [hf] at hinit
          exact lemma_xrun_vhdx x hinit cs hyp.1 hyp.2
        · have := allowed_respected none allowed hne x hxm
          rw [hf] at this
          exact absurd this hnot
      · have h1 : x.fmt ≠ .vhdx := by rw [hf]; simp
        rw [if_neg h1, if_pos hf]
        have hn : n = "vmdk" := by rw [← hxn, hf]; rfl
        unfold vmdkOutcome
        rcases hv hn with hyp | hyp | ⟨hne, hnot⟩
        · rw [hf] at hinit
          rw [if_pos hyp]
          exact lemma_xrun_vmdk_sparse x hinit cs hyp
        · rw [hf] at hinit
          rw [if_neg (fun h => lemma_vmdk_sparse_not_nomatch _ h hyp)]
          exact lemma_xrun_vmdk_nomatch x hinit cs hyp
        · have := allowed_respected none allowed hne x hxm
          rw [hf] at this
          exact absurd this hnot

/-! ## the property theorems -/

/-- **wrapper_expected_outcome_static** — `InspectWrapper(source, n, allowed)` with a non-empty
    `allowed` naming only fixed-region formats, ANY expected name `n` (in `allowed`, not in it, or
    unknown — then the wrapper has no inspector for it and nothing is ever tested), and any two
    chunk lists with the same bytes (empty chunks included; no hypothesis on the bytes):
    (1) the read ends the same way: both normally, both with `.mismatch`, or both with the same
        `.raised e` (a fixed-region inspector never raises from `eat_chunk`; `e` can only be its
        `format_match` error once complete) — namely as `expectedOutcomeOf` of the bytes;
    (2) if normally: every chunk was delivered in both reads and the two closed wrappers are in the
        same state, hence `formats` and `format` answer the same;
    (3) `.mismatch` happens exactly when the expected inspector fed the whole stream in one chunk is
        complete and does not match.
    What differs between the chunkings in the abort case is only where the stream is cut
    (`wrapper_expected_abort`). -/
theorem wrapper_expected_outcome_static (n : String) (allowed : List String) (hne : allowed ≠ [])
    (hst : ∀ m ∈ allowed, ∀ f, Fmt.ofName? m = some f → f.static = true)
    (c1 c2 : List Bytes) (h : c1.flatten = c2.flatten) :
    (pipeExp n allowed c1).2.2 = (pipeExp n allowed c2).2.2 ∧
    ((pipeExp n allowed c1).2.2 = .done →
      (pipeExp n allowed c1).1 = c1 ∧ (pipeExp n allowed c2).1 = c2 ∧
      (pipeExp n allowed c1).2.1 = (pipeExp n allowed c2).2.1 ∧
      (pipeExp n allowed c1).2.1.formats realOps = (pipeExp n allowed c2).2.1.formats realOps ∧
      (pipeExp n allowed c1).2.1.format realOps = (pipeExp n allowed c2).2.1.format realOps) ∧
    ((pipeExp n allowed c1).2.2 = .mismatch ↔
      ∃ x, expInsp n allowed = some x ∧ (feed x [c1.flatten]).1.complete = true ∧
        formatMatch (feed x [c1.flatten]).1 = .ok false) := by
  have hnot : ∀ m, (m = "vhdx" ∨ m = "vmdk") → m ∉ allowed := by
    intro m hm hmem
    rcases hm with rfl | rfl
    · have := hst "vhdx" hmem .vhdx (by decide)
      simp [Fmt.static] at this
    · have := hst "vmdk" hmem .vmdk (by decide)
      simp [Fmt.static] at this
  have e1 := wrapper_expected_outcome_eq n allowed c1
    (fun _ => Or.inr ⟨hne, hnot _ (Or.inl rfl)⟩) (fun _ => Or.inr (Or.inr ⟨hne, hnot _ (Or.inr rfl)⟩))
  have e2 := wrapper_expected_outcome_eq n allowed c2
    (fun _ => Or.inr ⟨hne, hnot _ (Or.inl rfl)⟩) (fun _ => Or.inr (Or.inr ⟨hne, hnot _ (Or.inr rfl)⟩))
  have heq : (pipeExp n allowed c1).2.2 = (pipeExp n allowed c2).2.2 := by rw [e1, e2, h]
  refine ⟨heq, fun hd => ?_, ?_⟩
  · have d1 := lemma_exp_done n allowed c1 hd
    have d2 := lemma_exp_done n allowed c2 (heq ▸ hd)
    have hw := (wrapper_chunk_independent_static allowed hne hst c1 c2 h).1
    rw [d1, d2]
    simp only [hw, and_self]
  · rw [e1]
    cases hfind : expInsp n allowed with
    | none => simp
    | some x =>
      obtain ⟨hxm, _, _⟩ := lemma_expInsp_some n allowed x hfind
      have hname := allowed_respected none allowed hne x hxm
      have h1 : x.fmt ≠ .vhdx := by
        intro hf; rw [hf] at hname; exact hnot _ (Or.inl rfl) hname
      have h2 : x.fmt ≠ .vmdk := by
        intro hf; rw [hf] at hname; exact hnot _ (Or.inr rfl) hname
      simp only [expectedOutcomeOf, if_neg h1, if_neg h2, Option.some.injEq, exists_eq_left']
      constructor
      · intro hm
        have := lemma_decOf_mismatch ((feed x [c1.flatten]).1, none) (by rw [lemma_decOf_none]; exact hm)
        exact ⟨this.2.1, this.2.2⟩
      · rintro ⟨hc, hm⟩
        simp [decI, hc, hm, ofMatch]

theorem lemma_formats_expected (w : Wrap Insp) (e : Option String) :
    Wrap.formats realOps { w with expected := e } = Wrap.formats realOps w ∧
    Wrap.format realOps { w with expected := e } = Wrap.format realOps w := ⟨rfl, rfl⟩

/-- **wrapper_expected_outcome_partial** — `InspectWrapper(source, n, allowed)` with ANY `allowed`
    (`[]` = all ten formats) and ANY expected name `n`, two chunk lists with the same bytes `s`
    (empty chunks included), under the hypotheses of `wrapper_chunk_independent_partial`
    (VHDX: `VhdxForward s ∧ VhdxMetaSigOK s` or inspector absent; VMDK: `VmdkSparse s` or
    `VmdkNoMatch s` or inspector absent):
    (1) the read ends the same way — normally, `.mismatch`, or the same `.raised e` (the expected
        VHDX inspector's region-table error, the expected VMDK inspector's ImageFormatError, or a
        `format_match` error);
    (2) if normally: every chunk was delivered in both reads, and after `close()` `formats` gives
        the same names, `format` the same name or error, the inspector `format` returns the same
        `Summary` (name, format_match, complete, virtual_size, safety_check outcome), and the same
        inspectors are in the errored set.
    For (1) alone the hypotheses are needed only for the expected format's own inspector
    (`wrapper_expected_outcome_eq`): the other inspectors' faults are contained.
    Missing: streams in the known-finding classes KF_D7, KF_N4, KF_F1, KF_F3. -/
theorem wrapper_expected_outcome_partial (n : String) (allowed : List String) (c1 c2 : List Bytes)
    (h : c1.flatten = c2.flatten)
    (hx : (VhdxForward c1.flatten ∧ VhdxMetaSigOK c1.flatten) ∨ (allowed ≠ [] ∧ "vhdx" ∉ allowed))
    (hv : VmdkSparse c1.flatten ∨ VmdkNoMatch c1.flatten ∨ (allowed ≠ [] ∧ "vmdk" ∉ allowed)) :
    (pipeExp n allowed c1).2.2 = (pipeExp n allowed c2).2.2 ∧
    ((pipeExp n allowed c1).2.2 = .done →
      (pipeExp n allowed c1).1 = c1 ∧ (pipeExp n allowed c2).1 = c2 ∧
      namesOf ((pipeExp n allowed c1).2.1.formats realOps) = namesOf ((pipeExp n allowed c2).2.1.formats realOps) ∧
      fmtName ((pipeExp n allowed c1).2.1.format realOps) = fmtName ((pipeExp n allowed c2).2.1.format realOps) ∧
      exMap (Option.map summary) ((pipeExp n allowed c1).2.1.format realOps) =
        exMap (Option.map summary) ((pipeExp n allowed c2).2.1.format realOps) ∧
      (∀ m, m ∈ (pipeExp n allowed c1).2.1.errored ↔ m ∈ (pipeExp n allowed c2).2.1.errored)) := by
  have e1 := wrapper_expected_outcome_eq n allowed c1 (fun _ => hx) (fun _ => hv)
  have e2 := wrapper_expected_outcome_eq n allowed c2 (fun _ => h ▸ hx) (fun _ => h ▸ hv)
  have heq : (pipeExp n allowed c1).2.2 = (pipeExp n allowed c2).2.2 := by rw [e1, e2, h]
  refine ⟨heq, fun hd => ?_⟩
  have d1 := lemma_exp_done n allowed c1 hd
  have d2 := lemma_exp_done n allowed c2 (heq ▸ hd)
  obtain ⟨a, b, c, d⟩ := wrapper_chunk_independent_partial allowed c1 c2 h hx hv
  rw [d1, d2]
  exact ⟨rfl, rfl, a, b, c, d⟩

/-! ## non-vacuity -/

/-- 600 zero bytes -/
def exZeros : Bytes := zeros 600

/-- an expected-qcow2 wrapper over the qcow2 header of C01Wrap.lean, two chunkings: the read ends
    normally, all chunks delivered, `format` answers qcow2 -/
example :
    (pipeExp "qcow2" ["qcow2", "raw"] [exQcowW]).2.2 = .done ∧
    (pipeExp "qcow2" ["qcow2", "raw"] [exQcowW.take 5, [], exQcowW.drop 5]).2.2 = .done ∧
    (pipeExp "qcow2" ["qcow2", "raw"] [exQcowW.take 5, [], exQcowW.drop 5]).1.length = 3 ∧
    fmtName ((pipeExp "qcow2" ["qcow2", "raw"] [exQcowW.take 5, [], exQcowW.drop 5]).2.1.format realOps) =
      .ok (some "qcow2") := by
  decide +kernel

/-- the same wrapper over 600 zero bytes: `.mismatch` under both chunkings; the cut differs (no chunk
    delivered when the whole stream comes at once, two chunks delivered when the header completes
    with the third chunk) -/
example :
    (pipeExp "qcow2" ["qcow2", "raw"] [exZeros]).2.2 = .mismatch ∧
    (pipeExp "qcow2" ["qcow2", "raw"] [exZeros]).1.length = 0 ∧
    (pipeExp "qcow2" ["qcow2", "raw"] [exZeros.take 300, [], exZeros.drop 300]).2.2 = .mismatch ∧
    (pipeExp "qcow2" ["qcow2", "raw"] [exZeros.take 300, [], exZeros.drop 300]).1.length = 2 := by
  decide +kernel

/-- … hence, by the theorem, EVERY chunking of the 600 zero bytes through that wrapper ends with
    `.mismatch`; and through a wrapper expecting an unknown format or one not allowed, normally -/
example (cs : List Bytes) (h : cs.flatten = exZeros) :
    (pipeExp "qcow2" ["qcow2", "raw"] cs).2.2 = .mismatch ∧
    (pipeExp "vmdk" ["qcow2", "raw"] cs).2.2 = .done ∧ (pipeExp "nonsense" ["qcow2", "raw"] cs).2.2 = .done := by
  have hst : ∀ m ∈ ["qcow2", "raw"], ∀ f, Fmt.ofName? m = some f → f.static = true := by
    intro m hm f hf
    simp only [List.mem_cons, List.mem_nil_iff, or_false] at hm
    rcases hm with rfl | rfl
    · have : Fmt.ofName? "qcow2" = some .qcow2 := by decide
      rw [this] at hf; cases hf; rfl
    · have : Fmt.ofName? "raw" = some .raw := by decide
      rw [this] at hf; cases hf; rfl
  have hfl : cs.flatten = [exZeros].flatten := by simp [h]
  refine ⟨?_, ?_, ?_⟩
  · rw [(wrapper_expected_outcome_static "qcow2" _ (by simp) hst cs [exZeros] hfl).1]; decide +kernel
  · rw [(wrapper_expected_outcome_static "vmdk" _ (by simp) hst cs [exZeros] hfl).1]; decide +kernel
  · rw [(wrapper_expected_outcome_static "nonsense" _ (by simp) hst cs [exZeros] hfl).1]; decide +kernel

/-- the full ten-format wrapper expecting qcow2 over the qcow2 header, and expecting vmdk over the
    sparse VMDK image `exVmdk`: the hypotheses of `wrapper_expected_outcome_partial` hold (C01Wrap),
    and the reads end normally with the expected format; expecting vmdk over the qcow2 header ends
    with the VMDK inspector's ImageFormatError under both chunkings -/
example :
    (pipeExp "qcow2" [] [exQcowW.take 70, [], exQcowW.drop 70]).2.2 = .done ∧
    fmtName ((pipeExp "qcow2" [] [exQcowW.take 70, [], exQcowW.drop 70]).2.1.format realOps) = .ok (some "qcow2") ∧
    (pipeExp "vmdk" [] [exVmdk.take 70, exVmdk.drop 70]).2.2 = .done ∧
    (pipeExp "vmdk" [] [exQcowW]).2.2 = .raised .imageFormat ∧
    (pipeExp "vmdk" [] [exQcowW.take 70, [], exQcowW.drop 70]).2.2 = .raised .imageFormat := by
  decide +kernel

end Oslo.Insp
