/-
Helper lemmas for C17 (version helpers).  Nothing here is a property obligation.
-/
import OsloModel.Version
namespace Oslo.Version

deriving instance DecidableEq for Except

/-! ### facts read off the generated tables (`decide` over the complete tables) -/

theorem lemma_digitVal_digitChar : ∀ d, d < 10 → digitVal (digitChar d) = some d := by decide
theorem lemma_isDigit_digitChar : ∀ d, d < 10 → isDigit (digitChar d) = true := by decide
theorem lemma_intSpace_digitChar : ∀ d, d < 10 → isIntSpace (digitChar d) = false := by decide
theorem lemma_digitChar_ne : ∀ d, d < 10 → digitChar d ≠ '.' ∧ digitChar d ≠ '+' ∧ digitChar d ≠ '-' ∧
    digitChar d ≠ '_' ∧ digitChar d ≠ '\n' := by decide
theorem lemma_not_digit :
    isDigit '.' = false ∧ isDigit '\n' = false ∧ isDigit '_' = false ∧ isDigit '+' = false ∧
    isDigit '-' = false ∧ isDigit 'a' = false ∧ isDigit 'b' = false ∧ isDigit 'c' = false ∧
    isDigit 'h' = false ∧ isDigit 't' = false := by decide
theorem lemma_limit : Gen.intMaxStrDigits = 0 ∨ 1000 ≤ Gen.intMaxStrDigits := by decide

/-! ### lists -/

theorem lemma_dropWhile_none {α} (p : α → Bool) (l : List α) (h : ∀ c ∈ l, p c = false) :
    l.dropWhile p = l := by
  cases l with
  | nil => rfl
  | cons a t => simp [List.dropWhile, h a (by simp)]

theorem lemma_mem_dropWhile {α} (p : α → Bool) (l : List α) (c : α) (hc : c ∈ l) (hp : p c = false) :
    c ∈ l.dropWhile p := by
  induction l with
  | nil => cases hc
  | cons a t ih =>
    by_cases ha : p a = true
    · rw [List.dropWhile_cons_of_pos ha]
      rcases List.mem_cons.mp hc with rfl | h
      · simp [hp] at ha
      · exact ih h
    · rw [List.dropWhile_cons_of_neg ha]; exact hc

/-- a run of `p` followed by something that does not start with `p` -/
theorem lemma_takeWhile_run {α} (p : α → Bool) (a b : List α) (ha : ∀ c ∈ a, p c = true)
    (hb : ∀ c ∈ b.head?, p c = false) : (a ++ b).takeWhile p = a ∧ (a ++ b).dropWhile p = b := by
  rw [List.takeWhile_append_of_pos ha, List.dropWhile_append_of_pos ha]
  cases b with
  | nil => simp
  | cons x t =>
    have : p x = false := hb x (by simp)
    simp [List.takeWhile, List.dropWhile, this]

/-! ### splitOn / join -/

theorem lemma_splitOn_ne_nil (sep : Char) (s : List Char) : splitOn sep s ≠ [] := by
  induction s with
  | nil => simp [splitOn]
  | cons c t ih =>
    unfold splitOn
    split
    · simp
    · split <;> simp

theorem lemma_splitOn_nosep (sep : Char) (p : List Char) (h : sep ∉ p) : splitOn sep p = [p] := by
  induction p with
  | nil => simp [splitOn]
  | cons c t ih =>
    have hc : c ≠ sep := by intro e; exact h (by simp [e])
    have ht : sep ∉ t := by intro e; exact h (by simp [e])
    simp [splitOn, hc, ih ht]

theorem lemma_splitOn_append (sep : Char) (p rest : List Char) (h : sep ∉ p) :
    splitOn sep (p ++ sep :: rest) = p :: splitOn sep rest := by
  induction p with
  | nil => simp [splitOn]
  | cons c t ih =>
    have hc : c ≠ sep := by intro e; exact h (by simp [e])
    have ht : sep ∉ t := by intro e; exact h (by simp [e])
    simp [splitOn, hc, ih ht]

theorem lemma_splitOn_join (sep : Char) (parts : List (List Char)) (hne : parts ≠ [])
    (h : ∀ p ∈ parts, sep ∉ p) : splitOn sep (join sep parts) = parts := by
  induction parts with
  | nil => exact absurd rfl hne
  | cons p t ih =>
    cases t with
    | nil => simpa [join] using lemma_splitOn_nosep sep p (h p (by simp))
    | cons q rest =>
      have := ih (by simp) (fun x hx => h x (by simp [hx]))
      simp only [join]
      rw [lemma_splitOn_append sep p _ (h p (by simp)), this]

/-! ### natRepr -/

theorem lemma_natRepr_chars (n : Nat) : ∀ c ∈ natRepr n, ∃ d, d < 10 ∧ c = digitChar d := by
  induction n using Nat.strongRecOn with
  | _ n ih =>
    unfold natRepr
    split
    · intro c hc; simp at hc; exact ⟨n, by omega, hc⟩
    · intro c hc
      simp only [List.mem_append, List.mem_singleton] at hc
      rcases hc with hc | hc
      · exact ih (n / 10) (by omega) c hc
      · exact ⟨n % 10, by omega, hc⟩

theorem lemma_natRepr_ne_nil (n : Nat) : natRepr n ≠ [] := by
  unfold natRepr; split <;> simp

theorem lemma_natRepr_length (n : Nat) : (natRepr n).length ≤ n + 1 := by
  induction n using Nat.strongRecOn with
  | _ n ih =>
    unfold natRepr
    split
    · simp
    · have := ih (n / 10) (by omega)
      simp only [List.length_append, List.length_singleton]; omega

theorem lemma_natRepr_isDigit (n : Nat) : ∀ c ∈ natRepr n, isDigit c = true := by
  intro c hc
  obtain ⟨d, hd, rfl⟩ := lemma_natRepr_chars n c hc
  exact lemma_isDigit_digitChar d hd

theorem lemma_natRepr_nodot (n : Nat) : '.' ∉ natRepr n := by
  intro h
  obtain ⟨d, hd, e⟩ := lemma_natRepr_chars n _ h
  exact (lemma_digitChar_ne d hd).1 e.symm

/-! ### digitsU / pyInt on plain digit strings -/

theorem lemma_digitsU_plain (l : List Char) (hne : l ≠ []) (h : ∀ c ∈ l, isDigit c = true) :
    digitsU l = some (l.filterMap digitVal) := by
  induction l with
  | nil => exact absurd rfl hne
  | cons c t ih =>
    have hc : isDigit c = true := h c (by simp)
    obtain ⟨d, hd⟩ : ∃ d, digitVal c = some d := by
      simp only [isDigit] at hc; exact Option.isSome_iff_exists.mp hc
    cases t with
    | nil => simp [digitsU, hd]
    | cons u rest =>
      have hu : isDigit u = true := h u (by simp)
      have hu' : u ≠ '_' := by
        intro e; rw [e] at hu; have := lemma_not_digit.2.2.1; simp [this] at hu
      have := ih (by simp) (fun x hx => h x (by simp [hx]))
      simp only [digitsU, hd, hu', if_false, this, Option.map_some, List.filterMap_cons_some hd]

theorem lemma_ofDigits_append (ds : List Nat) (d : Nat) : ofDigits (ds ++ [d]) = ofDigits ds * 10 + d := by
  simp [ofDigits, List.foldl_append]

theorem lemma_natRepr_value (n : Nat) : ofDigits ((natRepr n).filterMap digitVal) = n := by
  induction n using Nat.strongRecOn with
  | _ n ih =>
    unfold natRepr
    split
    · rename_i h
      simp [List.filterMap_cons_some (lemma_digitVal_digitChar n h), ofDigits]
    · rename_i h
      have h10 : n % 10 < 10 := by omega
      rw [List.filterMap_append]
      simp only [List.filterMap_cons_some (lemma_digitVal_digitChar _ h10), List.filterMap_nil]
      rw [lemma_ofDigits_append, ih (n / 10) (by omega)]
      omega

theorem lemma_stripInt_plain (l : List Char) (h : ∀ c ∈ l, isIntSpace c = false) : stripInt l = l := by
  unfold stripInt
  rw [lemma_dropWhile_none _ l h, lemma_dropWhile_none _ l.reverse (by simpa using h), List.reverse_reverse]

theorem lemma_signSplit_plain (c : Char) (t : List Char) (h1 : c ≠ '+') (h2 : c ≠ '-') :
    signSplit (c :: t) = (false, c :: t) := by
  unfold signSplit; split <;> simp_all

/-- `int(str(n)) == n` below the digit limit -/
theorem lemma_pyInt_natRepr (n : Nat) (hn : n < 1000) : pyInt (natRepr n) = some (n : Int) := by
  have hchars := lemma_natRepr_chars n
  have hsp : ∀ c ∈ natRepr n, isIntSpace c = false := by
    intro c hc; obtain ⟨d, hd, rfl⟩ := hchars c hc; exact lemma_intSpace_digitChar d hd
  obtain ⟨c, t, hct⟩ : ∃ c t, natRepr n = c :: t := by
    cases h : natRepr n with
    | nil => exact absurd h (lemma_natRepr_ne_nil n)
    | cons c t => exact ⟨c, t, rfl⟩
  obtain ⟨d, hd, hcd⟩ := hchars c (by simp [hct])
  have hne := lemma_digitChar_ne d hd
  have hlen := lemma_natRepr_length n
  have hfl : ((natRepr n).filterMap digitVal).length ≤ (natRepr n).length := List.length_filterMap_le _ _
  have hlim := lemma_limit
  unfold pyInt
  rw [lemma_stripInt_plain _ hsp]
  simp only [hct]
  rw [lemma_signSplit_plain c t (hcd ▸ hne.2.1) (hcd ▸ hne.2.2.1)]
  simp only [← hct]
  rw [lemma_digitsU_plain _ (lemma_natRepr_ne_nil n) (lemma_natRepr_isDigit n)]
  simp only [lemma_natRepr_value]
  have : ¬ (Gen.intMaxStrDigits > 0 ∧ ((natRepr n).filterMap digitVal).length > Gen.intMaxStrDigits) := by
    omega
  simp [this]

end Oslo.Version
